//! C06 — kernel matrices (`linfa-kernel`) and agglomerative clustering (`linfa-hierarchical`).
//!
//! Ops (all inputs travel in the request line, floats as IEEE bits; every op exists for `f64` kernels and,
//! with the suffix `32`, for `f32` kernels — 8 hex digits per float in the request):
//!   dense  m= X= ci= form= lay=            dense kernel: matrix + size/nsamples/nfeatures/is_linear/sum/
//!                                          diagonal/upper triangle/columns; `form` = which construction
//!                                          wrapper of `KernelParams` built it, `lay` = memory layout of the records
//!   ddot   m= X= q= R= form= lay=          dense kernel `dot`
//!   sparse m= k= X= nb= idx= ci= form= lay=  sparse kernel (CSR triple + views); `nb` = what the real neighbour
//!                                          index returned for `k_nearest(row, k+1)` (external input of the model)
//!   sdot   m= k= X= nb= idx= q= R= …       sparse kernel `dot`
//!   hier   n= steps= dis= crit= ut= form=  parameter guard + replay of the `kodama` dendrogram (read through the hook)
//!   #linkage …                             oracle only: the dendrogram contract the model assumes
//! Values on whose path libm lies are written `~…` (the value widened to f64); for the linear kernel everything is exact.
use crate::util::*;
use linfa::dataset::{DatasetBase, Records};
use linfa::traits::Transformer;
use linfa_hierarchical::verif_hooks_c06::{linkage_steps, linkage_steps_f32};
use linfa_hierarchical::{HierarchicalCluster, Method};
use linfa_kernel::{Kernel, KernelInner, KernelMethod, KernelParams, KernelType};
use linfa_nn::{distance::L2Dist, BallTree, CommonNearestNeighbour, KdTree, LinearSearch, NearestNeighbour};
use ndarray::{s, Array1, Array2, Axis, ShapeBuilder};
use std::panic::{catch_unwind, AssertUnwindSafe};

/// the two float types linfa kernels exist for; the oracle always works on the exactly widened values
pub trait Fl: linfa::Float {
    /// op-name suffix
    const T: &'static str;
    /// distance from 1.0 to the next float
    const EPS: f64;
    /// smallest positive normal number
    const TINY: f64;
    const HUGE: f64;
    fn w(self) -> f64;
    fn nar(x: f64) -> Self;
    fn hx(self) -> String;
    fn beq(self, o: Self) -> bool;
    fn steps(d: &mut [Self], n: usize, m: Method) -> Vec<(usize, usize, Self, usize)>;
}
impl Fl for f64 {
    const T: &'static str = "";
    const EPS: f64 = f64::EPSILON;
    const TINY: f64 = f64::MIN_POSITIVE;
    const HUGE: f64 = f64::MAX;
    fn w(self) -> f64 {
        self
    }
    fn nar(x: f64) -> f64 {
        x
    }
    fn hx(self) -> String {
        hex64(self)
    }
    fn beq(self, o: f64) -> bool {
        self.to_bits() == o.to_bits() || (self.is_nan() && o.is_nan())
    }
    fn steps(d: &mut [f64], n: usize, m: Method) -> Vec<(usize, usize, f64, usize)> {
        linkage_steps(d, n, m)
    }
}
impl Fl for f32 {
    const T: &'static str = "32";
    const EPS: f64 = f32::EPSILON as f64;
    const TINY: f64 = f32::MIN_POSITIVE as f64;
    const HUGE: f64 = f32::MAX as f64;
    fn w(self) -> f64 {
        self as f64
    }
    fn nar(x: f64) -> f32 {
        x as f32
    }
    fn hx(self) -> String {
        hex32(self)
    }
    fn beq(self, o: f32) -> bool {
        self.to_bits() == o.to_bits() || (self.is_nan() && o.is_nan())
    }
    fn steps(d: &mut [f32], n: usize, m: Method) -> Vec<(usize, usize, f32, usize)> {
        linkage_steps_f32(d, n, m)
    }
}
/// relative tolerance for a value that went through `k` roundings of the type (never below 1e-12)
fn tol<F: Fl>(k: usize) -> f64 {
    (2.0 * k as f64 * F::EPS).max(1e-12)
}

#[derive(Clone, Copy, Debug)]
enum Km<F> {
    L,
    G(F),
    P(F, F),
}
impl<F: Fl> Km<F> {
    fn enc(&self) -> String {
        match self {
            Km::L => "l".into(),
            Km::G(e) => format!("g:{}", e.hx()),
            Km::P(c, d) => format!("p:{}:{}", c.hx(), d.hx()),
        }
    }
    fn linfa(&self) -> KernelMethod<F> {
        match self {
            Km::L => KernelMethod::Linear,
            Km::G(e) => KernelMethod::Gaussian(*e),
            Km::P(c, d) => KernelMethod::Polynomial(*c, *d),
        }
    }
    fn name(&self) -> &'static str {
        match self {
            Km::L => "linear",
            Km::G(_) => "gaussian",
            Km::P(_, _) => "polynomial",
        }
    }
    fn exact(&self) -> bool {
        matches!(self, Km::L)
    }
    /// the kernel function from its definition, plain sequential loops over the exactly widened values
    fn eval(&self, a: &[f64], b: &[f64]) -> f64 {
        match self {
            Km::L => a.iter().zip(b).map(|(x, y)| x * y).fold(0.0, |s, t| s + t),
            Km::G(e) => {
                let d = a.iter().zip(b).map(|(x, y)| (x - y) * (x - y)).fold(0.0, |s, t| s + t);
                (-d / e.w()).exp()
            }
            Km::P(c, d) => (a.iter().zip(b).map(|(x, y)| x * y).fold(0.0, |s, t| s + t) + c.w()).powf(d.w()),
        }
    }

    /// `got` is the kernel function of `a`, `b` up to the rounding of the float type `F` (ndarray adds eight
    /// partial sums; the naive loop adds left to right; the oracle itself works in f64)
    fn entry_ok(&self, got: f64, a: &[f64], b: &[f64]) -> bool {
        let want = self.eval(a, b);
        if approx(got, want, tol::<F>(2), 0.0) {
            return true;
        }
        // overflow of the narrower type
        if got.is_infinite() && want.abs() >= F::HUGE * (1.0 - 1e-6) && (got > 0.0) == (want > 0.0) {
            return true;
        }
        let p = a.len() as f64;
        let scale: f64 = a.iter().zip(b).map(|(x, y)| (x * y).abs()).fold(0.0, |s, t| s + t);
        let delta = 5.0 * F::EPS * (p + 1.0) * scale;
        match self {
            Km::G(e) => {
                // Σ(x-y)², the division and exp are rounded; a relative error r of the exponent argument is an
                // error |arg|·r of the value; results below the normal range carry an absolute error
                let arg = sqd(a, b) / e.w();
                let rel = (arg.abs() * (p + 3.0) + 4.0) * F::EPS;
                approx(got, want, rel.max(1e-12), 2.0 * F::TINY)
            }
            Km::L => (got - want).abs() <= delta,
            Km::P(c, d) => {
                let s = a.iter().zip(b).map(|(x, y)| x * y).fold(0.0, |s, t| s + t);
                let delta = delta + 2.0 * F::EPS * (s + c.w()).abs();
                let (v1, v2) = ((s - delta + c.w()).powf(d.w()), (s + delta + c.w()).powf(d.w()));
                let r = tol::<F>(4);
                if v1.is_nan() || v2.is_nan() || want.is_nan() {
                    // the base crosses zero inside the rounding interval: either outcome is legitimate
                    let r = r.max(1e-9);
                    return got.is_nan() || approx(got, v1, r, 0.0) || approx(got, v2, r, 0.0) || approx(got, want, r, 0.0);
                }
                let (lo, hi) = (v1.min(v2).min(want), v1.max(v2).max(want));
                (got >= lo - r * lo.abs() - 2.0 * F::TINY && got <= hi + r * hi.abs() + 2.0 * F::TINY) || (got.is_infinite() && hi.abs().max(lo.abs()) >= F::HUGE * (1.0 - 1e-6))
            }
        }
    }
}

fn fl<F: Fl>(ex: bool, x: F) -> String {
    if ex {
        if x.is_nan() { "nan".into() } else { x.hx() }
    } else {
        format!("~{}", hex64c(x.w()))
    }
}
fn fls<F: Fl>(ex: bool, xs: &[F]) -> String {
    list(xs.iter(), |x| fl(ex, *x))
}
/// a column entry: the two zeros are the same number (the fill of the sparse `column` is `-0.0`)
fn flz<F: Fl>(ex: bool, x: F) -> String {
    fl(ex, if x == F::zero() { F::zero() } else { x })
}
fn rows_of<F: Fl>(x: &Array2<F>) -> Vec<Vec<F>> {
    x.rows().into_iter().map(|r| r.to_vec()).collect()
}
fn widen<F: Fl>(r: &[Vec<F>]) -> Vec<Vec<f64>> {
    r.iter().map(|x| x.iter().map(|v| v.w()).collect()).collect()
}
fn wv<F: Fl>(r: &[F]) -> Vec<f64> {
    r.iter().map(|v| v.w()).collect()
}
fn enc_rows<F: Fl>(r: &[Vec<F>]) -> String {
    list2(r.iter().map(|x| x.iter()), |x| x.hx())
}
fn beq(a: f64, b: f64) -> bool {
    a.to_bits() == b.to_bits() || (a.is_nan() && b.is_nan())
}
/// numerically equal (the two zeros are the same number)
fn neq(a: f64, b: f64) -> bool {
    a == b || (a.is_nan() && b.is_nan())
}
fn approx(a: f64, b: f64, rel: f64, abs: f64) -> bool {
    if a.is_nan() || b.is_nan() {
        return a.is_nan() && b.is_nan();
    }
    if a.is_infinite() || b.is_infinite() {
        return a == b;
    }
    (a - b).abs() <= abs + rel * a.abs().max(b.abs())
}
fn sqd(a: &[f64], b: &[f64]) -> f64 {
    a.iter().zip(b).map(|(x, y)| (x - y) * (x - y)).fold(0.0, |s, t| s + t)
}
fn same_bits<F: Fl>(a: &[F], b: &[F]) -> bool {
    a.len() == b.len() && a.iter().zip(b).all(|(x, y)| x.beq(*y))
}

/// smallest eigenvalue of a symmetric matrix (cyclic Jacobi)
fn jacobi_min_eig(m: &[Vec<f64>]) -> f64 {
    let n = m.len();
    let mut a: Vec<Vec<f64>> = m.to_vec();
    for _sweep in 0..60 {
        let mut off = 0.0;
        for i in 0..n {
            for j in 0..n {
                if i != j {
                    off += a[i][j] * a[i][j];
                }
            }
        }
        if off < 1e-26 {
            break;
        }
        for p in 0..n {
            for q in p + 1..n {
                if a[p][q].abs() < 1e-300 {
                    continue;
                }
                let theta = (a[q][q] - a[p][p]) / (2.0 * a[p][q]);
                let t = theta.signum() / (theta.abs() + (theta * theta + 1.0).sqrt());
                let t = if theta == 0.0 { 1.0 } else { t };
                let c = 1.0 / (t * t + 1.0).sqrt();
                let s = t * c;
                for k in 0..n {
                    let (akp, akq) = (a[k][p], a[k][q]);
                    a[k][p] = c * akp - s * akq;
                    a[k][q] = s * akp + c * akq;
                }
                for k in 0..n {
                    let (apk, aqk) = (a[p][k], a[q][k]);
                    a[p][k] = c * apk - s * aqk;
                    a[q][k] = s * apk + c * aqk;
                }
            }
        }
    }
    (0..n).map(|i| a[i][i]).fold(f64::INFINITY, f64::min)
}

/// bitwise equality of two kernels (representation, stored pattern, values, method)
fn same_kernel<F: Fl>(a: &Kernel<F>, b: &Kernel<F>) -> bool {
    let inner = match (&a.inner, &b.inner) {
        (KernelInner::Dense(x), KernelInner::Dense(y)) => x.dim() == y.dim() && x.iter().zip(y.iter()).all(|(u, v)| u.beq(*v)),
        (KernelInner::Sparse(x), KernelInner::Sparse(y)) => x.shape() == y.shape() && x.proper_indptr().to_vec() == y.proper_indptr().to_vec() && x.indices() == y.indices() && same_bits(x.data(), y.data()),
        _ => false,
    };
    inner && a.method == b.method
}

/// the `method` field of the kernel, parameters as bit patterns
fn enc_method<F: Fl>(m: &KernelMethod<F>) -> String {
    match m {
        KernelMethod::Linear => "l".into(),
        KernelMethod::Gaussian(e) => format!("g:{}", fl(true, *e)),
        KernelMethod::Polynomial(c, d) => format!("p:{}:{}", fl(true, *c), fl(true, *d)),
    }
}
/// the kernel carries the method it was asked for, parameters untouched (bitwise)
fn method_kept<F: Fl>(ctx: &mut Ctx, class: &str, kernel: &Kernel<F>, km: &Km<F>) {
    let ok = match (&kernel.method, km) {
        (KernelMethod::Linear, Km::L) => true,
        (KernelMethod::Gaussian(e), Km::G(w)) => e.beq(*w),
        (KernelMethod::Polynomial(c, d), Km::P(wc, wd)) => c.beq(*wc) && d.beq(*wd),
        _ => false,
    };
    ctx.require(ok, "method_kept", class, || format!("the kernel's method field is {:?}, requested {:?}", kernel.method, km.linfa()));
}

/// size / nsamples / nfeatures / is_linear / sum / column / diagonal / upper triangle of the kernel against the
/// matrix `mat`, and the same through the borrowed kernel and its `to_owned`
fn oracle_views<F: Fl>(ctx: &mut Ctx, class: &str, kernel: &Kernel<F>, mat: &[Vec<f64>], ci: &[usize], cols: &[Option<Vec<F>>], linear: bool) {
    let n = mat.len();
    ctx.require(kernel.size() == n, "view_size", class, || format!("size {} for {} records", kernel.size(), n));
    ctx.require(kernel.nsamples() == n && kernel.nfeatures() == n, "view_size", class, || format!("nsamples {} nfeatures {} for a kernel of {} records", kernel.nsamples(), kernel.nfeatures(), n));
    ctx.require(kernel.is_linear() == linear, "is_linear", class, || format!("is_linear() = {}", kernel.is_linear()));
    let sum = kernel.sum().to_vec();
    ctx.require(sum.len() == n, "view_sum", class, || format!("sum has {} entries", sum.len()));
    for i in 0..n.min(sum.len()) {
        let want = mat[i].iter().fold(0.0, |s, t| s + t);
        let scale: f64 = mat[i].iter().map(|v| v.abs()).fold(0.0, |s, t| s + t);
        ctx.require(approx(sum[i].w(), want, tol::<F>(2), tol::<F>(n + 2) * scale), "view_sum", class, || format!("row {}: sum {} but the row of the matrix adds to {}", i, sum[i], want));
    }
    let diag = kernel.diagonal().to_vec();
    ctx.require(diag.len() == n && (0..n).all(|i| neq(diag[i].w(), mat[i][i])), "view_diagonal", class, || format!("diagonal {:?}", diag));
    let ut = kernel.to_upper_triangle();
    let mut want = vec![];
    for i in 0..n {
        for j in i + 1..n {
            want.push(mat[i][j]);
        }
    }
    ctx.require(ut.len() == want.len() && ut.iter().zip(&want).all(|(a, b)| neq(a.w(), *b)), "view_upper_triangle", class, || format!("upper triangle {:?} want {:?}", ut, want));
    // the borrowed kernel (`KernelView`, separate `Inner` impls) reports the same
    let kv = kernel.view();
    ctx.require(kv.size() == kernel.size() && kv.nsamples() == n && kv.nfeatures() == n && kv.is_linear() == linear, "view_type_agrees", class, || "size / nsamples / nfeatures / is_linear of the borrowed kernel differ".to_string());
    ctx.require(same_bits(&kv.sum().to_vec(), &sum), "view_type_agrees", class, || format!("sum of the borrowed kernel {:?} vs {:?}", kv.sum(), sum));
    ctx.require(same_bits(&kv.diagonal().to_vec(), &diag), "view_type_agrees", class, || format!("diagonal of the borrowed kernel {:?} vs {:?}", kv.diagonal(), diag));
    ctx.require(same_bits(&kv.to_upper_triangle(), &ut), "view_type_agrees", class, || "upper triangle of the borrowed kernel differs".to_string());
    ctx.require(same_kernel(&kv.to_owned(), kernel), "view_type_agrees", class, || "view().to_owned() is not the kernel".to_string());
    for (i, c) in ci.iter().zip(cols) {
        if let Some(c) = c {
            let vc = catch_unwind(AssertUnwindSafe(|| kv.column(*i))).ok();
            ctx.require(vc.as_ref().map(|v| same_bits(v, c)).unwrap_or(false), "view_type_agrees", class, || format!("column {} of the borrowed kernel {:?} vs {:?}", i, vc, c));
        }
    }
    for (i, c) in ci.iter().zip(cols) {
        if *i < n {
            match c {
                Some(c) => ctx.require(c.len() == n && (0..n).all(|j| neq(c[j].w(), mat[j][*i])), "view_column", class, || format!("column {} = {:?}", i, c)),
                None => ctx.fail("view_column", class, format!("column({}) panicked with {} records", i, n)),
            }
        }
    }
}

fn oracle_dot<F: Fl>(ctx: &mut Ctx, class: &str, got: &Array2<F>, mat: &[Vec<f64>], r: &[Vec<f64>], q: usize) {
    let n = mat.len();
    ctx.require(got.nrows() == n && got.ncols() == q, "view_dot", class, || format!("dot shape {:?}", got.dim()));
    for i in 0..n.min(got.nrows()) {
        for c in 0..q.min(got.ncols()) {
            let mut s = 0.0;
            let mut sc = 0.0;
            for j in 0..n {
                s += mat[i][j] * r[j][c];
                sc += (mat[i][j] * r[j][c]).abs();
            }
            ctx.require(approx(got[(i, c)].w(), s, tol::<F>(2), tol::<F>(n + 2) * sc), "view_dot", class, || format!("dot[{},{}] = {} want {}", i, c, got[(i, c)], s));
        }
    }
}

fn columns<F: Fl>(kernel: &Kernel<F>, ci: &[usize]) -> Vec<Option<Vec<F>>> {
    ci.iter().map(|i| catch_unwind(AssertUnwindSafe(|| kernel.column(*i))).ok()).collect()
}
/// `oob_free`: the sparse `column(i)` does not reject `i >= n` although the documentation says so; the statement
/// speaks about the columns of the matrix only, so that request is written `oob` whatever happened (not compared)
fn show_cols<F: Fl>(ex: bool, n: usize, ci: &[usize], cols: &[Option<Vec<F>>], oob_free: bool) -> String {
    ci.iter()
        .zip(cols)
        .map(|(i, c)| match c {
            _ if oob_free && *i >= n => "oob".to_string(),
            Some(c) if c.is_empty() => "-".to_string(),
            Some(c) => list(c.iter(), |x| flz(ex, *x)),
            None => "panic".to_string(),
        })
        .collect::<Vec<_>>()
        .join(";")
}

// ------------------------------------------------------------------------- calling forms and layouts

/// the construction wrappers of `KernelParams` (lib.rs): six `Transformer` impls and `Kernel::new`
const FORMS: [&str; 7] = ["view", "ref_array", "ref_view", "new", "dataset", "ref_dataset", "ref_dataset_view"];
/// memory layouts of the record matrix handed over
/// (`rowrev`, `colrev`: views with one negative stride; `inverted`: an owned F-order array after `invert_axis`)
const LAYS: [&str; 7] = ["c", "f", "strided", "reversed", "rowrev", "colrev", "inverted"];

#[derive(Clone, Copy, Debug)]
struct Call {
    form: usize,
    lay: usize,
}
impl Call {
    fn enc(&self) -> String {
        format!("form={} lay={}", FORMS[self.form], LAYS[self.lay])
    }
    fn draw(rng: &mut Rng) -> Call {
        Call { form: rng.below(FORMS.len()), lay: if rng.chance(1, 3) { 0 } else { rng.below(LAYS.len()) } }
    }
}

/// an owned array holding the values of `x` in the requested memory layout
fn laid_out<F: Fl>(x: &Array2<F>, lay: usize) -> Array2<F> {
    let (n, p) = x.dim();
    let out = match lay {
        0 => x.clone(),
        1 => {
            let mut a = Array2::from_elem((n, p).f(), F::cast(7.5));
            a.assign(x);
            a
        }
        2 => {
            let mut big = Array2::from_elem((2 * n, 2 * p), F::cast(7.5));
            let r0 = n.min(1);
            big.slice_mut(s![r0..;2, ..;2]).assign(x);
            big.slice_move(s![r0..;2, ..;2])
        }
        3 => {
            let mut big = Array2::from_elem((n, p), F::cast(7.5));
            big.slice_mut(s![..;-1, ..;-1]).assign(x);
            big.slice_move(s![..;-1, ..;-1])
        }
        4 => {
            let mut big = Array2::from_elem((n, p), F::cast(7.5));
            big.slice_mut(s![..;-1, ..]).assign(x);
            big.slice_move(s![..;-1, ..])
        }
        5 => {
            let mut big = Array2::from_elem((n, p), F::cast(7.5));
            big.slice_mut(s![.., ..;-1]).assign(x);
            big.slice_move(s![.., ..;-1])
        }
        _ => {
            // an owned column-major array whose row axis was inverted in place (negative row stride, no slicing)
            let mut a = Array2::from_elem((n, p).f(), F::cast(7.5));
            a.assign(&x.slice(s![..;-1, ..]));
            a.invert_axis(Axis(0));
            a
        }
    };
    if lay >= 3 && n > 1 && p > 1 {
        assert!(out.strides().iter().any(|s| *s < 0), "layout {} carries no negative stride", LAYS[lay]);
    }
    assert!(out.dim() == x.dim() && out.iter().zip(x.iter()).all(|(a, b)| a.beq(*b)));
    out
}

/// the kernel built through the calling form; the flag says whether a dataset form handed the targets through
fn build<F: Fl, N: NearestNeighbour>(params: &KernelParams<F, N>, x: &Array2<F>, call: Call) -> (Kernel<F>, bool) {
    let xl = laid_out(x, call.lay);
    let tg: Array1<usize> = (0..x.nrows()).map(|i| (i * 7 + 3) % 11).collect();
    match call.form {
        0 => (params.transform(xl.view()), true),
        1 => (params.transform(&xl), true),
        2 => {
            let v = xl.view();
            (params.transform(&v), true)
        }
        3 => (Kernel::new(xl.view(), params), true),
        4 => {
            let d = params.transform(DatasetBase::new(xl, tg.clone()));
            let ok = d.targets == tg;
            (d.records, ok)
        }
        5 => {
            let ds = DatasetBase::new(xl, tg.clone());
            let d = params.transform(&ds);
            let ok = d.targets == tg;
            (d.records, ok)
        }
        _ => {
            let ds = DatasetBase::new(xl, tg.clone());
            let dv = ds.view();
            let d = params.transform(&dv);
            let ok = d.targets == tg;
            (d.records, ok)
        }
    }
}

fn op_dense<F: Fl>(em: &mut Em, x: &Array2<F>, km: Km<F>, ci: &[usize], call: Call) {
    let rows = rows_of(x);
    let rw = widen(&rows);
    let op = format!("dense{} m={} X={} ci={} {}", F::T, km.enc(), enc_rows(&rows), list(ci.iter(), |i| i.to_string()), call.enc());
    let class = format!("dense{}:{}", F::T, km.name());
    let ex = km.exact();
    em.case_valid(op, &class, |ctx| {
        let n = rows.len();
        let (kernel, tg_ok) = build(&Kernel::<F>::params().method(km.linfa()), x, call);
        ctx.require(tg_ok, "form_targets", &class, || format!("the {} form did not hand the targets through", FORMS[call.form]));
        let kf: Vec<Vec<F>> = match &kernel.inner {
            KernelInner::Dense(a) => rows_of(a),
            _ => {
                ctx.fail("entry", &class, "dense parameters built a sparse kernel".into());
                vec![]
            }
        };
        let k = widen(&kf);
        ctx.require(k.len() == n && k.iter().all(|r| r.len() == n), "entry", &class, || format!("matrix is not {0}x{0}", n));
        let mut finite = true;
        for i in 0..k.len() {
            for j in 0..k.len() {
                let want = km.eval(&rw[i], &rw[j]);
                finite &= k[i][j].is_finite();
                ctx.require(km.entry_ok(k[i][j], &rw[i], &rw[j]), "entry", &class, || format!("K[{},{}] = {} but the kernel function gives {}", i, j, k[i][j], want));
                ctx.require(beq(k[i][j], k[j][i]), "symmetric", &class, || format!("K[{},{}] = {} but K[{},{}] = {}", i, j, k[i][j], j, i, k[j][i]));
            }
            // (a bandwidth of exactly 0 divides 0 by 0: outside "any bandwidth", compared with the model only)
            if matches!(km, Km::G(e) if e.w() != 0.0 && !e.w().is_nan()) {
                ctx.require(k[i][i] == 1.0, "gaussian_diagonal", &class, || format!("K[{0},{0}] = {1}", i, k[i][i]));
            }
        }
        // positive semidefinite: Gaussian (statement) and linear (theorem); numerically, least Jacobi eigenvalue
        if finite && n > 0 && n <= 24 && !matches!(km, Km::P(_, _)) && !matches!(km, Km::G(e) if !(e.w() > 0.0)) {
            let tr: f64 = (0..n).map(|i| k[i][i].abs()).sum();
            let lmin = jacobi_min_eig(&k);
            ctx.require(lmin >= -(1e-9f64.max(64.0 * F::EPS)) * tr.max(1.0), "positive_semidefinite", &class, || format!("least eigenvalue {} (trace {})", lmin, tr));
        }
        let cols = columns(&kernel, ci);
        oracle_views(ctx, &class, &kernel, &k, ci, &cols, ex);
        method_kept(ctx, &class, &kernel, &km);
        let sum = kernel.sum().to_vec();
        let diag = kernel.diagonal().to_vec();
        let ut = kernel.to_upper_triangle();
        format!(
            "ok size={} ns={} nf={} lin={} meth={} K={} sum={} diag={} ut={} col={}",
            kernel.size(),
            kernel.nsamples(),
            kernel.nfeatures(),
            kernel.is_linear(),
            enc_method(&kernel.method),
            list2(kf.iter().map(|r| r.iter()), |v| fl(ex, *v)),
            fls(ex, &sum),
            fls(ex, &diag),
            fls(ex, &ut),
            show_cols(ex, n, ci, &cols, false)
        )
    });
}

fn op_ddot<F: Fl>(em: &mut Em, x: &Array2<F>, km: Km<F>, r: &Array2<F>, call: Call, rlay: usize) {
    let rows = rows_of(x);
    let rr = rows_of(r);
    let q = r.ncols();
    let op = format!("ddot{} m={} X={} q={} R={} {} rlay={}", F::T, km.enc(), enc_rows(&rows), q, enc_rows(&rr), call.enc(), LAYS[rlay]);
    let class = format!("dense{}:{}", F::T, km.name());
    em.case_valid(op, &class, |ctx| {
        let (kernel, _) = build(&Kernel::<F>::params().method(km.linfa()), x, call);
        let k: Vec<Vec<f64>> = match &kernel.inner {
            KernelInner::Dense(a) => widen(&rows_of(a)),
            _ => vec![],
        };
        let rl = laid_out(r, rlay);
        let got = kernel.dot(&rl.view());
        oracle_dot(ctx, &class, &got, &k, &widen(&rr), q);
        let gv = kernel.view().dot(&rl.view());
        ctx.require(gv.dim() == got.dim() && gv.iter().zip(got.iter()).all(|(a, b)| a.beq(*b)), "view_type_agrees", &class, || "dot of the borrowed kernel differs".to_string());
        format!("ok {}", list2(rows_of(&got).iter().map(|r| r.iter()), |v| fl(false, *v)))
    });
}

// ------------------------------------------------------------------------- sparse kernels

/// neighbour indices: the three `CommonNearestNeighbour` variants, the default of `Kernel::params()`, and the three
/// index types of linfa-nn handed to `params_with_nn` directly
const IDX: [&str; 7] = ["linear", "kdtree", "balltree", "default", "KdTree", "BallTree", "LinearSearch"];

macro_rules! with_nn {
    ($which:expr, $nn:ident => $body:expr) => {
        match $which {
            0 => {
                let $nn = CommonNearestNeighbour::LinearSearch;
                $body
            }
            1 | 3 => {
                let $nn = CommonNearestNeighbour::KdTree;
                $body
            }
            2 => {
                let $nn = CommonNearestNeighbour::BallTree;
                $body
            }
            4 => {
                let $nn = KdTree;
                $body
            }
            5 => {
                let $nn = BallTree;
                $body
            }
            _ => {
                let $nn = LinearSearch;
                $body
            }
        }
    };
}

/// what the real index returns for `k_nearest(row, k+1)`, row by row
fn neighbours_of<F: Fl, N: NearestNeighbour>(x: &Array2<F>, k: usize, idx: &N) -> Option<Vec<Vec<usize>>> {
    catch_unwind(AssertUnwindSafe(|| {
        let nn = idx.from_batch(x, L2Dist).ok()?;
        let mut out = vec![];
        for row in x.rows() {
            out.push(nn.k_nearest(row, k + 1).ok()?.into_iter().map(|(_, i)| i).collect::<Vec<_>>());
        }
        Some(out)
    }))
    .ok()
    .flatten()
}
fn neighbours<F: Fl>(x: &Array2<F>, k: usize, which: usize) -> Option<Vec<Vec<usize>>> {
    with_nn!(which, nn => neighbours_of(x, k, &nn))
}

/// the sparse kernel through index `which` and the calling form
fn build_sparse<F: Fl>(x: &Array2<F>, km: Km<F>, k: usize, which: usize, call: Call) -> (Kernel<F>, bool) {
    match which {
        // the `nn_algo` setter
        2 => build(&Kernel::<F>::params().nn_algo(CommonNearestNeighbour::BallTree).kind(KernelType::Sparse(k)).method(km.linfa()), x, call),
        // the default index of `Kernel::params()`
        3 => build(&Kernel::<F>::params().kind(KernelType::Sparse(k)).method(km.linfa()), x, call),
        w => with_nn!(w, nn => build(&Kernel::<F>::params_with_nn(nn).kind(KernelType::Sparse(k)).method(km.linfa()), x, call)),
    }
}

type CsrT<F> = (Vec<usize>, Vec<usize>, Vec<F>);

fn csr_of<F: Fl>(kernel: &Kernel<F>) -> Option<CsrT<F>> {
    match &kernel.inner {
        KernelInner::Sparse(m) => Some((m.proper_indptr().to_vec(), m.indices().to_vec(), m.data().to_vec())),
        _ => None,
    }
}
fn csr_to_dense<F: Fl>(n: usize, csr: &CsrT<F>) -> Vec<Vec<f64>> {
    let mut m = vec![vec![0.0; n]; n];
    for i in 0..n.min(csr.0.len().saturating_sub(1)) {
        for p in csr.0[i]..csr.0[i + 1] {
            if csr.1[p] < n {
                m[i][csr.1[p]] = csr.2[p].w();
            }
        }
    }
    m
}
/// the stored triples with every row ordered by column (the statement does not promise a storage order)
fn csr_sorted<F: Fl>(csr: &CsrT<F>) -> CsrT<F> {
    let mut idx = vec![];
    let mut dat = vec![];
    for i in 0..csr.0.len().saturating_sub(1) {
        let mut row: Vec<(usize, F)> = (csr.0[i]..csr.0[i + 1]).map(|p| (csr.1[p], csr.2[p])).collect();
        row.sort_by_key(|e| e.0);
        for (j, v) in row {
            idx.push(j);
            dat.push(v);
        }
    }
    (csr.0.clone(), idx, dat)
}

/// (forced, allowed): `j` is among the `k` nearest other points of `i` under every / under some tie-break
fn knn_sets(rows: &[Vec<f64>], k: usize, tol_rel: f64) -> (Vec<Vec<bool>>, Vec<Vec<bool>>, bool) {
    let n = rows.len();
    let mut forced = vec![vec![false; n]; n];
    let mut allowed = vec![vec![false; n]; n];
    let mut tie_free = true;
    for i in 0..n {
        let d: Vec<f64> = (0..n).map(|l| sqd(&rows[i], &rows[l])).collect();
        for j in 0..n {
            if j == i {
                continue;
            }
            let tol = tol_rel * (1.0 + d[j]);
            let le = (0..n).filter(|l| *l != i && d[*l] <= d[j] + tol).count();
            let lt = (0..n).filter(|l| *l != i && d[*l] < d[j] - tol).count();
            forced[i][j] = le <= k;
            allowed[i][j] = lt < k;
            if forced[i][j] != allowed[i][j] {
                tie_free = false;
            }
        }
        // a duplicate of the query point competes with the point itself for the k+1 slots
        if (0..n).any(|l| l != i && d[l] <= tol_rel) {
            tie_free = false;
        }
    }
    (forced, allowed, tie_free)
}

/// like `knn_sets` but over all points including the query row itself (what `k_nearest` sees)
fn knn_sets_self(rows: &[Vec<f64>], k: usize, tol_rel: f64) -> (Vec<Vec<bool>>, Vec<Vec<bool>>) {
    let n = rows.len();
    let mut forced = vec![vec![false; n]; n];
    let mut allowed = vec![vec![false; n]; n];
    for i in 0..n {
        let d: Vec<f64> = (0..n).map(|l| sqd(&rows[i], &rows[l])).collect();
        for j in 0..n {
            let tol = tol_rel * (1.0 + d[j]);
            let le = (0..n).filter(|l| d[*l] <= d[j] + tol).count();
            let lt = (0..n).filter(|l| d[*l] < d[j] - tol).count();
            forced[i][j] = le <= k;
            allowed[i][j] = lt < k;
        }
    }
    (forced, allowed)
}

#[allow(clippy::too_many_arguments)]
fn op_sparse<F: Fl>(em: &mut Em, x: &Array2<F>, km: Km<F>, k: usize, which: usize, ci: &[usize], knn_tol: f64, call: Call, dot_rhs: Option<(&Array2<F>, usize)>) {
    let rows = rows_of(x);
    let rw = widen(&rows);
    let n = rows.len();
    let idx_name = IDX[which];
    let valid = k > 0 && k < n;
    let nb = neighbours(x, k, which);
    if valid && nb.is_none() {
        // the index cannot be asked (records without features: every linfa-nn index answers `ZeroDimension`), so
        // the model has no neighbour lists to work from.  The request is inside the quantifier (any record matrix,
        // 0 < k < n): oracle-only case, the kernel must exist and satisfy the pattern / entry clauses
        em.count("sparse:index_unavailable");
        let p = x.ncols();
        let class = format!("sparse{}:{}:{}:p={}", F::T, km.name(), idx_name, p);
        let op = format!("#sparse0{} m={} k={} n={} p={} idx={} {}", F::T, km.enc(), k, n, p, idx_name, call.enc());
        em.case_valid(op, &class, |ctx| {
            let (kernel, _) = build_sparse(x, km, k, which, call);
            let ok = csr_of(&kernel).map(|c| c.0.len() == n + 1).unwrap_or(false);
            ctx.require(ok, "sparse_support", &class, || "no CSR matrix of the right size".to_string());
            String::new()
        });
        return;
    }
    let nb = nb.unwrap_or_default();
    let nbs = list2(nb.iter().map(|r| r.iter()), |i| i.to_string());
    let ex = km.exact();
    let class = format!("sparse{}:{}:{}", F::T, km.name(), idx_name);
    let head = format!("m={} k={} X={} nb={} idx={}", km.enc(), k, enc_rows(&rows), nbs, idx_name);
    let op = match dot_rhs {
        None => format!("sparse{} {} ci={} {}", F::T, head, list(ci.iter(), |i| i.to_string()), call.enc()),
        Some((r, rlay)) => format!("sdot{} {} q={} R={} {} rlay={}", F::T, head, r.ncols(), enc_rows(&rows_of(r)), call.enc(), LAYS[rlay]),
    };
    let body = |ctx: &mut Ctx| {
        let (kernel, tg_ok) = build_sparse(x, km, k, which, call);
        ctx.require(tg_ok, "form_targets", &class, || format!("the {} form did not hand the targets through", FORMS[call.form]));
        let csr = match csr_of(&kernel) {
            Some(c) => c,
            None => {
                ctx.fail("sparse_support", &class, "sparse parameters built a dense kernel".into());
                return "ok dense".to_string();
            }
        };
        let mat = csr_to_dense(n, &csr);
        if let Some((r, rlay)) = dot_rhs {
            let rl = laid_out(r, rlay);
            let got = kernel.dot(&rl.view());
            oracle_dot(ctx, &class, &got, &mat, &widen(&rows_of(r)), r.ncols());
            let gv = kernel.view().dot(&rl.view());
            ctx.require(gv.dim() == got.dim() && gv.iter().zip(got.iter()).all(|(a, b)| a.beq(*b)), "view_type_agrees", &class, || "dot of the borrowed kernel differs".to_string());
            return format!("ok {}", list2(rows_of(&got).iter().map(|r| r.iter()), |v| fl(false, *v)));
        }
        // contract of the external index (C07): k+1 distinct in-range indices that are nearest
        let (forced, allowed, tie_free) = knn_sets(&rw, k, knn_tol);
        let (forced1, allowed1) = knn_sets_self(&rw, k + 1, knn_tol);
        for (m, r) in nb.iter().enumerate() {
            let mut s = r.clone();
            s.sort_unstable();
            s.dedup();
            let ok = r.len() == k + 1 && s.len() == r.len() && r.iter().all(|j| *j < n);
            ctx.require(ok, "nn_contract", &class, || format!("k_nearest(row {}, {}) returned {:?}", m, k + 1, r));
            if ok {
                ctx.require(r.iter().all(|j| allowed1[m][*j]) && (0..n).all(|j| !forced1[m][j] || r.contains(&j)), "nn_contract", &class, || format!("k_nearest(row {}, {}) = {:?} are not the nearest points", m, k + 1, r));
            }
        }
        // stored pattern: a well-formed CSR matrix (columns in range, none twice; the storage order inside a row is
        // not part of the statement), diagonal present, exactly the symmetric closure of the kNN relation
        let mut stored = vec![vec![false; n]; n];
        ctx.require(csr.0.len() == n + 1, "sparse_support", &class, || format!("indptr {:?}", csr.0));
        for i in 0..n.min(csr.0.len().saturating_sub(1)) {
            let cols = &csr.1[csr.0[i]..csr.0[i + 1]];
            let mut sc = cols.to_vec();
            sc.sort_unstable();
            ctx.require(sc.windows(2).all(|w| w[0] < w[1]) && cols.iter().all(|j| *j < n), "sparse_support", &class, || format!("row {} has columns {:?}", i, cols));
            for j in cols {
                if *j < n {
                    stored[i][*j] = true;
                }
            }
        }
        for i in 0..n {
            ctx.require(stored[i][i], "sparse_support", &class, || format!("diagonal entry {} is not stored", i));
            for j in 0..n {
                if i == j {
                    continue;
                }
                let must = forced[i][j] || forced[j][i];
                let may = allowed[i][j] || allowed[j][i];
                if must {
                    ctx.require(stored[i][j], "sparse_support", &class, || format!("({},{}) is a k={} neighbour pair but is not stored", i, j, k));
                }
                if !may {
                    ctx.require(!stored[i][j], "sparse_support", &class, || format!("({},{}) is stored but neither point is among the other's {} nearest", i, j, k));
                }
                if stored[i][j] {
                    let want = km.eval(&rw[i], &rw[j]);
                    ctx.require(km.entry_ok(mat[i][j], &rw[i], &rw[j]), "sparse_entry", &class, || format!("stored ({},{}) = {} but the kernel function gives {}", i, j, mat[i][j], want));
                    ctx.require(stored[j][i] && beq(mat[i][j], mat[j][i]), "symmetric", &class, || format!("stored ({},{}) = {} vs ({},{}) = {}", i, j, mat[i][j], j, i, mat[j][i]));
                }
            }
            if stored[i][i] {
                let want = km.eval(&rw[i], &rw[i]);
                ctx.require(km.entry_ok(mat[i][i], &rw[i], &rw[i]), "sparse_entry", &class, || format!("stored ({0},{0}) = {1} but the kernel function gives {2}", i, mat[i][i], want));
            }
        }
        // the stored values are those of the dense kernel of the same records
        let dense = Kernel::<F>::params().method(km.linfa()).transform(x.view());
        if let KernelInner::Dense(a) = &dense.inner {
            for i in 0..n {
                for j in 0..n {
                    if stored[i][j] {
                        ctx.require(beq(mat[i][j], a[(i, j)].w()), "sparse_entry", &class, || format!("stored ({},{}) = {} differs from the dense kernel's {}", i, j, mat[i][j], a[(i, j)]));
                    }
                }
            }
        }
        // whichever neighbour index is used
        if tie_free && which != 0 {
            let (other, _) = build_sparse(x, km, k, 0, Call { form: 0, lay: 0 });
            let oc = csr_sorted(&csr_of(&other).unwrap_or_default());
            let cs = csr_sorted(&csr);
            ctx.require(oc.0 == cs.0 && oc.1 == cs.1 && same_bits(&oc.2, &cs.2), "index_independent", &class, || format!("linear search stores {:?}/{:?}, {} stores {:?}/{:?}", oc.0, oc.1, idx_name, cs.0, cs.1));
        }
        let cols = columns(&kernel, ci);
        oracle_views(ctx, &class, &kernel, &mat, ci, &cols, ex);
        method_kept(ctx, &class, &kernel, &km);
        let sum = kernel.sum().to_vec();
        let diag = kernel.diagonal().to_vec();
        let ut = kernel.to_upper_triangle();
        let cs = csr_sorted(&csr);
        format!(
            "ok size={} ns={} nf={} lin={} meth={} indptr={} indices={} data={} sum={} diag={} ut={} col={}",
            kernel.size(),
            kernel.nsamples(),
            kernel.nfeatures(),
            kernel.is_linear(),
            enc_method(&kernel.method),
            list(cs.0.iter(), |v| v.to_string()),
            list(cs.1.iter(), |v| v.to_string()),
            fls(ex, &cs.2),
            fls(ex, &sum),
            fls(ex, &diag),
            fls(ex, &ut),
            show_cols(ex, n, ci, &cols, true)
        )
    };
    if valid {
        em.case_valid(op, &class, body)
    } else {
        em.case(op, body)
    }
}

// ---------------------------------------------------------------------------------- hierarchical

const METHODS: [(Method, &str); 7] = [
    (Method::Single, "single"),
    (Method::Complete, "complete"),
    (Method::Average, "average"),
    (Method::Weighted, "weighted"),
    (Method::Ward, "ward"),
    (Method::Centroid, "centroid"),
    (Method::Median, "median"),
];

#[derive(Clone, Copy, Debug)]
enum Crit<F> {
    Num(usize),
    Dist(F),
}
impl<F: Fl> Crit<F> {
    /// inside the property's quantifier ("all cluster counts and thresholds"): a count of at least one, a finite
    /// non-negative threshold; everything else is what the parameter guard is there to reject
    fn valid(&self) -> bool {
        match self {
            Crit::Num(c) => *c >= 1,
            Crit::Dist(d) => d.is_finite() && d.is_sign_positive(),
        }
    }
    /// thresholds the guard of the present code rejects although they are numbers the quantifier covers: `-0.0` is
    /// the threshold 0 and `+inf` asks for every merge.  The statement permits rejecting them (what the code does) as
    /// well as clustering with them (what a guard written with `x < 0` would do), so both answers are written
    /// `lenient`; an accepted one must still be the right partition
    fn lenient(&self) -> bool {
        match self {
            Crit::Dist(d) => (*d == F::zero() && d.is_sign_negative()) || (d.is_infinite() && d.is_sign_positive()),
            _ => false,
        }
    }
}

/// the calling forms of the clustering: unchecked parameters on a kernel / on a dataset of a kernel
/// (`TransformGuard`), `check()` resp. `check_ref()` first and then the checked parameters
const HFORMS: [&str; 4] = ["kernel", "dataset", "checked", "checked_ref_dataset"];

/// `if x > threshold { -x.ln() } else { -threshold.ln() }` with `threshold = F::cast(1e-6)`, in the kernel's type
fn to_dist<F: Fl>(x: F) -> F {
    let thr = F::cast(1e-6);
    if x > thr { -x.ln() } else { -thr.ln() }
}
fn canon(labels: &[usize]) -> Vec<usize> {
    labels.iter().map(|l| labels.iter().position(|m| m == l).unwrap()).collect()
}
struct Uf(Vec<usize>);
impl Uf {
    fn find(&mut self, a: usize) -> usize {
        let mut r = a;
        while self.0[r] != r {
            r = self.0[r];
        }
        let mut c = a;
        while self.0[c] != r {
            let nx = self.0[c];
            self.0[c] = r;
            c = nx;
        }
        r
    }
    fn union(&mut self, a: usize, b: usize) {
        let (x, y) = (self.find(a), self.find(b));
        if x != y {
            self.0[x.max(y)] = x.min(y);
        }
    }
    fn partition(&mut self) -> Vec<usize> {
        let n = self.0.len();
        let l: Vec<usize> = (0..n).map(|i| self.find(i)).collect();
        canon(&l)
    }
}
type Steps<F> = Vec<(usize, usize, F, usize)>;

fn dmat(n: usize, dist: &[f64]) -> Vec<Vec<f64>> {
    let mut d = vec![vec![0.0; n]; n];
    let mut p = 0;
    for i in 0..n {
        for j in i + 1..n {
            d[i][j] = dist[p];
            d[j][i] = dist[p];
            p += 1;
        }
    }
    d
}

/// the dendrogram contract the model's theorems assume, checked on what `kodama` returned
fn op_linkage<F: Fl>(em: &mut Em, n: usize, dist: &[F], steps: &Steps<F>, mi: usize, desc: &str) {
    let (_, mname) = METHODS[mi];
    let op = format!("#linkage{} meth={} n={} kernel={} dist={}", F::T, mname, n, desc, list(dist.iter(), |v| v.hx()));
    let class = format!("hier{}:{}", F::T, mname);
    em.case(op, |ctx| {
        ctx.require(steps.len() == n.saturating_sub(1), "kodama_contract", &class, || format!("{} steps for {} observations", steps.len(), n));
        let d = dmat(n, &wv(dist));
        // the Lance-Williams updates carry the rounding of the largest distance involved
        let dmax = dist.iter().map(|v| v.w().abs()).fold(0.0, f64::max);
        let mut members: Vec<Option<Vec<usize>>> = (0..n).map(|i| Some(vec![i])).collect();
        let mono = mi <= 4;
        let mut prev = f64::NEG_INFINITY;
        for (t, (a, b, dis, size)) in steps.iter().enumerate() {
            let dis = dis.w();
            let live = |c: usize| c < members.len() && members[c].is_some();
            if !(a != b && live(*a) && live(*b)) {
                ctx.fail("kodama_contract", &class, format!("step {} merges {} and {} which are not two live clusters", t, a, b));
                return String::new();
            }
            let (ma, mb) = (members[*a].take().unwrap(), members[*b].take().unwrap());
            ctx.require(*size == ma.len() + mb.len(), "kodama_contract", &class, || format!("step {} size {} for clusters of {} and {}", t, size, ma.len(), mb.len()));
            if mono {
                // ward / weighted / average recompute dissimilarities: monotone up to the rounding of the type
                let slack = if mi <= 1 { 0.0 } else { tol::<F>(4) * prev.abs() };
                ctx.require(dis >= prev - slack, "kodama_contract", &class, || format!("step {} dissimilarity {} after {}", t, dis, prev));
                prev = dis.max(prev);
            }
            let pair: Vec<f64> = ma.iter().flat_map(|i| mb.iter().map(|j| d[*i][*j]).collect::<Vec<_>>()).collect();
            match mi {
                0 => {
                    let w = pair.iter().cloned().fold(f64::INFINITY, f64::min);
                    ctx.require(dis == w, "kodama_contract", &class, || format!("single-linkage step {}: {} but the closest pair is at {}", t, dis, w));
                }
                1 => {
                    let w = pair.iter().cloned().fold(f64::NEG_INFINITY, f64::max);
                    ctx.require(dis == w, "kodama_contract", &class, || format!("complete-linkage step {}: {} but the farthest pair is at {}", t, dis, w));
                }
                2 => {
                    let w = pair.iter().sum::<f64>() / pair.len() as f64;
                    ctx.require(approx(dis, w, (1e-9f64).max(tol::<F>(n + 4)), 1e-12 + tol::<F>(n + 4) * dmax), "kodama_contract", &class, || format!("average-linkage step {}: {} but the mean pair distance is {}", t, dis, w));
                }
                _ => {}
            }
            let mut u = ma;
            u.extend(mb);
            members.push(Some(u));
        }
        String::new()
    });
}

#[allow(clippy::too_many_arguments)]
fn op_hier<F: Fl>(em: &mut Em, kernel: &Kernel<F>, ut: &[F], dist: &[F], steps: &Steps<F>, mi: usize, crit: Crit<F>, desc: &str, form: usize) {
    let (method, mname) = METHODS[mi];
    let n = kernel.size();
    let cs = match crit {
        Crit::Num(c) => format!("n:{}", c),
        Crit::Dist(d) => format!("d:{}", d.hx()),
    };
    let op = format!(
        "hier{} n={} meth={} kernel={} steps={} dis={} crit={} ut={} dist={} form={}",
        F::T,
        n,
        mname,
        desc,
        list2(steps.iter().map(|s| vec![s.0, s.1, s.3]), |v| v.to_string()),
        list(steps.iter(), |s| s.2.hx()),
        cs,
        list(ut.iter(), |v| v.hx()),
        list(dist.iter(), |v| v.hx()),
        HFORMS[form]
    );
    let class = format!("hier{}:{}:{}", F::T, mname, if let Crit::Num(_) = crit { "count" } else { "threshold" });
    let valid = crit.valid();
    let lenient = crit.lenient();
    let body = |ctx: &mut Ctx| {
        let params = match crit {
            Crit::Num(c) => HierarchicalCluster::<F>::default().with_method(method).num_clusters(c),
            Crit::Dist(d) => HierarchicalCluster::<F>::default().with_method(method).max_distance(d),
        };
        let tg: Array1<usize> = Array1::zeros(n);
        let res = match form {
            0 => params.transform(kernel.clone()),
            1 => params.transform(DatasetBase::new(kernel.clone(), tg)),
            2 => {
                use linfa::ParamGuard;
                params.check().map(|v| v.transform(kernel.clone()))
            }
            _ => {
                use linfa::ParamGuard;
                params.check_ref().map(|v| v.transform(DatasetBase::new(kernel.clone(), tg)))
            }
        };
        let res = match res {
            Ok(r) => r,
            Err(e) => {
                if valid {
                    ctx.fail("no_error", &class, format!("valid criterion rejected: {}", e));
                }
                if lenient {
                    return "lenient".to_string();
                }
                return match e {
                    linfa_hierarchical::HierarchicalError::InvalidStoppingCondition(_) => "err InvalidStoppingCondition".to_string(),
                    _ => "err other".to_string(),
                };
            }
        };
        ctx.require(same_kernel(&res.records, kernel), "kernel_returned", &class, || "the records of the result are not the kernel handed in".to_string());
        let labels: Vec<usize> = res.targets.clone();
        ctx.require(labels.len() == n, "all_labelled", &class, || format!("{} labels for {} samples", labels.len(), n));
        let mut ids = labels.clone();
        ids.sort_unstable();
        ids.dedup();
        let nc = ids.len();
        let part = canon(&labels);
        if lenient {
            // accepted: then it must be the clustering for the number the threshold is
            let mut uf = Uf((0..n).collect());
            let mut rep: Vec<usize> = (0..n).collect();
            let mut sub: Vec<F> = vec![F::neg_infinity(); n];
            let d = if let Crit::Dist(d) = crit { d } else { F::zero() };
            for (a, b, dis, _) in steps.iter() {
                if *a >= rep.len() || *b >= rep.len() {
                    break;
                }
                let m = dis.max(sub[*a]).max(sub[*b]);
                if m < d {
                    uf.union(rep[*a], rep[*b]);
                }
                rep.push(rep[*a]);
                sub.push(m);
            }
            let want = uf.partition();
            ctx.require(part == want, "threshold_merges", &class, || format!("threshold {} accepted: partition {:?}, merges below the threshold give {:?}", d, part, want));
            return "lenient".to_string();
        }
        if !valid {
            // outside the quantifier of the property: compared with the model only
            return format!("ok nc={} part={} dist={}", nc, list(part.iter(), |v| v.to_string()), fls(false, dist));
        }
        match crit {
            Crit::Num(c) => {
                ctx.require(nc == c.min(n), "cluster_count", &class, || format!("{} clusters for requested {} on {} samples", nc, c, n));
                // … obtained by the first n - min(c, n) merges of the dendrogram
                let mut uf = Uf((0..n).collect());
                let mut rep: Vec<usize> = (0..n).collect();
                for (a, b, _, _) in steps.iter().take(n - c.min(n)) {
                    if *a >= rep.len() || *b >= rep.len() {
                        break;
                    }
                    uf.union(rep[*a], rep[*b]);
                    rep.push(rep[*a]);
                }
                let want = uf.partition();
                ctx.require(part == want, "count_merges", &class, || format!("{} clusters requested: partition {:?}, the first merges of the dendrogram give {:?}", c, part, want));
            }
            Crit::Dist(d) => {
                // every merge all of whose sub-merges (itself included) lie below the threshold
                let mut uf = Uf((0..n).collect());
                let mut rep: Vec<usize> = (0..n).collect();
                let mut sub: Vec<F> = vec![F::neg_infinity(); n];
                for (a, b, dis, _) in steps.iter() {
                    if *a >= rep.len() || *b >= rep.len() {
                        break;
                    }
                    let m = dis.max(sub[*a]).max(sub[*b]);
                    if m < d {
                        uf.union(rep[*a], rep[*b]);
                    }
                    rep.push(rep[*a]);
                    sub.push(m);
                }
                let want = uf.partition();
                ctx.require(part == want, "threshold_merges", &class, || format!("threshold {}: partition {:?}, merges below the threshold give {:?}", d, part, want));
                if mi == 0 {
                    let dm = dmat(n, &wv(dist));
                    let mut g = Uf((0..n).collect());
                    for i in 0..n {
                        for j in i + 1..n {
                            if dm[i][j] < d.w() {
                                g.union(i, j);
                            }
                        }
                    }
                    let want = g.partition();
                    ctx.require(part == want, "single_linkage_components", &class, || format!("threshold {}: partition {:?}, components of the below-threshold graph {:?}", d, part, want));
                }
            }
        }
        format!("ok nc={} part={} dist={}", nc, list(part.iter(), |v| v.to_string()), fls(false, dist))
    };
    if valid {
        em.case_valid(op, &class, body)
    } else {
        em.case(op, body)
    }
}

// ---------------------------------------------------------------------------------- generators

const STYLES: [&str; 5] = ["lattice_small", "lattice_quarter", "lattice_tie_free", "lattice_groups", "generic"];

fn gen_points<F: Fl>(rng: &mut Rng, n: usize, p: usize, style: usize) -> Array2<F> {
    let a: Array2<f64> = match style {
        // small integer lattice: many ties and duplicates
        0 => Array2::from_shape_fn((n, p), |_| rng.range(-3, 3) as f64),
        // wider lattice, quarter steps
        1 => Array2::from_shape_fn((n, p), |_| rng.range(-40, 40) as f64 / 4.0),
        // 1-D-like tie-free lattice: pairwise distances all distinct (powers of two), shuffled
        2 => {
            let mut e: Vec<usize> = (0..n).collect();
            rng.shuffle(&mut e);
            let sign: Vec<f64> = (0..p).map(|_| if rng.coin() { 1.0 } else { -1.0 }).collect();
            Array2::from_shape_fn((n, p), |(i, j)| if j == 0 { sign[0] * (1u64 << (e[i] % 20)) as f64 / 8.0 } else { sign[j] * (e[i] % 3) as f64 })
        }
        // two tight groups (clusters) on a lattice
        3 => {
            let off = rng.range(4, 12) as f64;
            Array2::from_shape_fn((n, p), |(i, _)| (if i % 2 == 0 { 0.0 } else { off }) + rng.range(-4, 4) as f64 / 4.0)
        }
        // generic reals
        _ => {
            let scale = *rng.pick(&[1.0, 1.0, 0.01, 30.0]);
            Array2::from_shape_fn((n, p), |_| (rng.unit() * 2.0 - 1.0) * scale)
        }
    };
    a.mapv(F::nar)
}

fn gen_method<F: Fl>(rng: &mut Rng, lattice: bool) -> Km<F> {
    match rng.below(8) {
        0 | 1 | 2 => Km::L,
        3 | 4 | 5 => {
            // "any bandwidth": the everyday range, the small ones (entries underflow towards 0), huge ones, negative
            // ones (exp(+d/|eps|): still the kernel function, still symmetric with unit diagonal; not PSD), and
            // rarely exactly 0 (0/0 on the diagonal: outside the statement, compared with the model only)
            let e = match rng.below(10) {
                0 => *rng.pick(&[1e-2, 1e-3, 1e-5, 3e-3, 0.02, 0.04]),
                1 => 10f64.powf(-6.0 + 12.0 * rng.unit()),
                2 if rng.coin() => -*rng.pick(&[0.5, 2.0, 100.0, 1e-3, 16.0]),
                2 if rng.chance(1, 3) => 0.0,
                _ if lattice => *rng.pick(&[0.5, 1.0, 2.0, 8.0, 0.3, 100.0, 0.0625]),
                _ => 0.05 + rng.unit() * 10.0,
            };
            Km::G(F::nar(e))
        }
        // "any constant/degree": the grid of everyday values and, one time in three, reals off the grid
        _ if rng.chance(1, 3) => Km::P(F::nar((rng.unit() * 6.0 - 3.0) * *rng.pick(&[1.0, 1.0, 100.0])), F::nar(if rng.coin() { rng.below(6) as f64 } else { rng.unit() * 6.0 - 2.0 })),
        _ => Km::P(F::nar(*rng.pick(&[0.0, 1.0, -1.0, 2.5])), F::nar(*rng.pick(&[1.0, 2.0, 3.0, 0.5, -1.0, 2.5]))),
    }
}

fn gen_rhs<F: Fl>(rng: &mut Rng, n: usize, nonneg: bool) -> Array2<F> {
    let q = *rng.pick(&[1usize, 2, 3, 8, 9]);
    Array2::from_shape_fn((n, q), |_| F::nar(rng.range(if nonneg { 0 } else { -3 }, 3) as f64))
}

fn gen_crit<F: Fl>(rng: &mut Rng, n: usize, steps: &Steps<F>, dist: &[F]) -> Crit<F> {
    // outside the quantifier: what the parameter guard rejects (and the negative zero it rejects as well)
    if rng.chance(1, 12) {
        return match rng.below(6) {
            0 => Crit::Num(0),
            1 => Crit::Dist(F::nar(-1.0 - rng.unit())),
            2 => Crit::Dist(F::nan()),
            3 => Crit::Dist(F::infinity()),
            4 => Crit::Dist(F::neg_infinity()),
            _ => Crit::Dist(F::neg_zero()),
        };
    }
    if rng.coin() {
        let c = match rng.below(6) {
            0 => 1,
            1 => n.max(1),
            2 if rng.chance(1, 4) => 2 * n + 5 + rng.below(1000),
            2 => n + 1 + rng.below(3),
            3 => n.saturating_sub(1).max(1),
            _ => 1 + rng.below(n.max(1)),
        };
        Crit::Num(c)
    } else {
        let zero = F::zero();
        let d = match rng.below(7) {
            0 => zero,
            1 => F::nar(*rng.pick(&[20.0, 20.0, 13.9, 1e6, 1e30])),
            2 | 3 if !steps.is_empty() => steps[rng.below(steps.len())].2.max(zero),
            4 if !steps.is_empty() => {
                let s = steps[rng.below(steps.len())].2;
                (s + F::nar(0.5 * rng.unit())).max(zero)
            }
            5 if !dist.is_empty() => dist[rng.below(dist.len())].max(zero),
            _ => F::nar(rng.unit() * 14.0),
        };
        Crit::Dist(d)
    }
}

fn hier_cases<F: Fl>(em: &mut Em, rng: &mut Rng, kernel: &Kernel<F>, desc: &str, per_method: usize) {
    let n = kernel.size();
    let ut = kernel.to_upper_triangle();
    let dist: Vec<F> = ut.iter().map(|x| to_dist(*x)).collect();
    if dist.iter().any(|d| !d.is_finite()) {
        em.count("hier:nonfinite_skipped");
        return;
    }
    for mi in 0..METHODS.len() {
        let mut buf = dist.clone();
        let steps: Steps<F> = match catch_unwind(AssertUnwindSafe(|| F::steps(&mut buf, n, METHODS[mi].0))) {
            Ok(s) => s,
            Err(_) => {
                em.count("hier:linkage_panicked");
                continue;
            }
        };
        if steps.iter().any(|s| !s.2.is_finite()) {
            em.count("hier:nonfinite_skipped");
            continue;
        }
        if steps.windows(2).any(|w| w[1].2 < w[0].2) {
            em.count("hier:nonmonotone_dendrogram");
        }
        if steps.windows(2).any(|w| w[1].2 == w[0].2) {
            em.count("hier:tied_dissimilarities");
        }
        op_linkage(em, n, &dist, &steps, mi, desc);
        for _ in 0..per_method {
            let crit = gen_crit(rng, n, &steps, &dist);
            let form = if rng.coin() { 0 } else { rng.below(HFORMS.len()) };
            let before = (em.panics, *em.dist.get(&format!("err:hier{}", F::T)).unwrap_or(&0));
            op_hier(em, kernel, &ut, &dist, &steps, mi, crit, desc, form);
            let clustered = before == (em.panics, *em.dist.get(&format!("err:hier{}", F::T)).unwrap_or(&0));
            if !crit.valid() {
                em.count("hier:invalid_criterion");
            } else if clustered {
                match crit {
                    Crit::Num(c) => em.count(if c >= n { "hier:count>=n" } else { "hier:count<n" }),
                    Crit::Dist(d) => em.count(if steps.iter().any(|s| s.2 == d) { "hier:threshold_on_a_merge" } else { "hier:threshold_between" }),
                }
                em.count(&format!("hier:clustered:form={}", HFORMS[form]));
                em.count(&format!("hier:clustered:{}", METHODS[mi].1));
                em.count(&format!("hier:clustered:type=f{}", if F::T.is_empty() { "64" } else { F::T }));
                if n > 16 {
                    em.count("hier:clustered:n>16");
                }
            }
        }
    }
}

fn rounds<F: Fl>(em: &mut Em, rng: &mut Rng, rounds: usize, nmax: usize, hier_max: usize) {
    let thorough = em.thorough();
    let is64 = F::T.is_empty();
    let ty = if is64 { "f64" } else { "f32" };
    for round in 0..rounds {
        let style = rng.below(5);
        // beyond the leaf size (16) of the tree indices: kd-tree and ball tree really split
        let big = round >= 4 && rng.chance(1, 7);
        let n = if round < 4 {
            round
        } else if big {
            17 + rng.below(if thorough { 44 } else { 20 })
        } else if rng.chance(1, 4) {
            2 + rng.below(nmax.min(8))
        } else {
            2 + rng.below(nmax - 1)
        };
        let p = match rng.below(20) {
            0 | 1 if style != 2 => 0,
            2 | 3 => 8 + rng.below(10),
            4 | 5 => 4 + rng.below(4),
            6 => 18 + rng.below(23),
            _ => 1 + rng.below(3),
        };
        let x: Array2<F> = gen_points(rng, n, p, style);
        em.count(&format!("points:{}", STYLES[style]));
        em.count(&format!("type:{}", ty));
        // squared distances are exact in the type (ties are real ties) on the lattices; in f32 the power-of-two
        // lattice exceeds 24 bits
        let lattice = style != 4;
        let exact_geometry = lattice && (is64 || style != 2);
        let knn_tol = if exact_geometry { 0.0 } else { (1e-9f64).max(8.0 * (p as f64 + 2.0) * F::EPS) };
        let km: Km<F> = gen_method(rng, lattice);
        em.count(&format!("kernel:{}", km.name()));
        let mut ci: Vec<usize> = (0..3).map(|_| rng.below(n + 1)).collect();
        if rng.chance(1, 6) {
            ci.push(n + rng.below(3));
        }
        let call = Call::draw(rng);
        let before = em.panics;
        op_dense(em, &x, km, &ci, call);
        if em.panics == before {
            em.count(&format!("dense:built:form={}", FORMS[call.form]));
            em.count(&format!("dense:built:lay={}", LAYS[call.lay]));
            em.count(&format!("dense:built:type={}", ty));
        }
        // dot: keep to values where the products carry no cancellation blow-up (see notes): integral non-negative
        // polynomial degrees; in f32 in addition only kernels that are exact (linear on a lattice) or without
        // sign changes (Gaussian, even degree with a non-negative right-hand side)
        // the generic reals (scales up to 30) get the f32 treatment in f64 as well: with a signed right-hand side a
        // product can cancel to far below its terms, and the comparison rule has no handle on the size of the terms
        let careful = !is64 || style == 4 || matches!(km, Km::P(c, _) if (c.w() * 2.0).fract() != 0.0);
        let km_dot: Km<F> = match km {
            Km::P(c, d) if d.w().fract() != 0.0 || d.w() < 0.0 || d.w() > 3.0 || c.w().abs() > 3.0 => Km::P(if c.w().abs() > 3.0 { F::nar(1.0) } else { c }, F::nar(2.0)),
            Km::P(c, d) if careful && d.w() != 2.0 => Km::P(c, F::nar(2.0)),
            Km::L if careful && !(style == 0 || style == 3) => Km::G(F::nar(2.0)),
            Km::G(e) if !(e.w() > 0.0) => Km::G(F::nar(2.0)),
            m => m,
        };
        let nonneg = careful && !matches!(km_dot, Km::L);
        let r: Array2<F> = gen_rhs(rng, n, nonneg);
        let rlay = if rng.chance(1, 3) { 0 } else { rng.below(LAYS.len()) };
        op_ddot(em, &x, km_dot, &r, Call::draw(rng), rlay);
        // sparse kernels: a few neighbour counts (boundaries 0, 1, n-1, n included) with every index
        // (records without features: no index can be built — the open finding `…zero-feature-records-panic`; kept
        // to the linear search and the default index)
        {
            let mut ks: Vec<usize> = vec![1, n.saturating_sub(1), 1 + rng.below(n.max(2) - 1)];
            if big {
                ks = vec![1 + rng.below(n - 1), 1 + rng.below(6)];
                // the boundaries of the guard also beyond the leaf size of the trees
                if rng.coin() {
                    ks.push(*rng.pick(&[1, n - 1]));
                }
            }
            if rng.chance(1, 4) {
                ks.push(*rng.pick(&[0, n, n + 1]));
            }
            ks.sort_unstable();
            ks.dedup();
            for k in ks {
                let dot_which = rng.below(IDX.len());
                // every Common index, and two of the four others in turn
                let extra = 3 + rng.below(4);
                for which in 0..IDX.len() {
                    if which > 0 && !(k > 0 && k < n) {
                        continue;
                    }
                    if p == 0 && !(which == 0 || which == 3) {
                        continue;
                    }
                    if which >= 3 && which != extra && which != 3 + (extra + 1) % 4 && which != dot_which {
                        continue;
                    }
                    em.count(&format!("sparse:k={}", if k == 0 { "0" } else if k + 1 == n { "n-1" } else if k >= n { ">=n" } else { "inner" }));
                    let call = Call::draw(rng);
                    let before = em.panics;
                    op_sparse(em, &x, km, k, which, &ci, knn_tol, call, None);
                    if em.panics == before && k > 0 && k < n {
                        em.count(&format!("sparse:built:idx={}", IDX[which]));
                        em.count(&format!("sparse:built:lay={}", LAYS[call.lay]));
                        em.count(&format!("sparse:built:form={}", FORMS[call.form]));
                        em.count(&format!("sparse:built:type={}", ty));
                        if n > 16 {
                            em.count("sparse:built:n>16");
                        }
                    }
                    if which == dot_which && k > 0 && k < n {
                        op_sparse(em, &x, km_dot, k, which, &ci, knn_tol, Call::draw(rng), Some((&r, rlay)));
                    }
                }
            }
        }
        // hierarchical clustering on this kernel (dense, and one sparse variant)
        // (beyond the small sizes too: one criterion per method on the n = 17.. rounds)
        if n <= hier_max || (big && n <= 40) {
            let per = if n > hier_max { 1 } else if thorough { 3 } else { 2 };
            let dense = Kernel::<F>::params().method(km.linfa()).transform(x.view());
            hier_cases(em, rng, &dense, &format!("dense:{}", km.name()), per);
            if p > 0 && n >= 3 && rng.chance(1, 3) {
                let k = 1 + rng.below(n - 1);
                if let Ok(sp) = catch_unwind(AssertUnwindSafe(|| Kernel::<F>::params().kind(KernelType::Sparse(k)).method(km.linfa()).transform(x.view()))) {
                    hier_cases(em, rng, &sp, &format!("sparse{}:{}", k, km.name()), 1);
                }
            }
        }
    }
}

pub fn run(em: &mut Em, rng: &mut Rng) {
    if em.thorough() {
        rounds::<f64>(em, rng, 4000, 60, 40);
        rounds::<f32>(em, rng, 1500, 40, 30);
    } else {
        rounds::<f64>(em, rng, 80, 12, 12);
        rounds::<f32>(em, rng, 36, 12, 12);
    }
}
