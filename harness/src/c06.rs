//! C06 — kernel matrices (`linfa-kernel`) and agglomerative clustering (`linfa-hierarchical`).
//!
//! Ops (all inputs travel in the request line, floats as IEEE bits):
//!   dense  m= X= ci=            dense kernel: matrix + size/sum/diagonal/upper triangle/columns
//!   ddot   m= X= q= R=          dense kernel `dot`
//!   sparse m= k= X= nb= ci=     sparse kernel (CSR triple + views); `nb` = what the real neighbour
//!                               index returned for `k_nearest(row, k+1)` (external input of the model)
//!   sdot   m= k= X= nb= q= R=   sparse kernel `dot`
//!   hier   n= steps= dis= crit= ut=   replay of the `kodama` dendrogram (read through the hook)
//!   #linkage …                  oracle only: the dendrogram contract the model assumes
//! Values on whose path libm lies are written `~…`; for the linear kernel everything is exact.
use crate::util::*;
use linfa::traits::Transformer;
use linfa_hierarchical::verif_hooks_c06::linkage_steps;
use linfa_hierarchical::{HierarchicalCluster, Method};
use linfa_kernel::{Kernel, KernelInner, KernelMethod, KernelType};
use linfa_nn::{distance::L2Dist, CommonNearestNeighbour, NearestNeighbour};
use ndarray::Array2;
use std::panic::{catch_unwind, AssertUnwindSafe};

#[derive(Clone, Copy, Debug)]
enum Km {
    L,
    G(f64),
    P(f64, f64),
}
impl Km {
    fn enc(&self) -> String {
        match self {
            Km::L => "l".into(),
            Km::G(e) => format!("g:{}", hex64(*e)),
            Km::P(c, d) => format!("p:{}:{}", hex64(*c), hex64(*d)),
        }
    }
    fn linfa(&self) -> KernelMethod<f64> {
        match self {
            Km::L => KernelMethod::Linear,
            Km::G(e) => KernelMethod::Gaussian(*e),
            Km::P(c, d) => KernelMethod::Polynomial(*c, *d),
        }
    }
    fn name(&self) -> &'static str {
        match self {
            Km::L => "linear",
            Km::G(_) => "gaussian",
            Km::P(_, _) => "polynomial",
        }
    }
    fn exact(&self) -> bool {
        matches!(self, Km::L)
    }
    /// the kernel function from its definition, plain sequential loops
    fn eval(&self, a: &[f64], b: &[f64]) -> f64 {
        match self {
            Km::L => a.iter().zip(b).map(|(x, y)| x * y).fold(0.0, |s, t| s + t),
            Km::G(e) => {
                let d = a.iter().zip(b).map(|(x, y)| (x - y) * (x - y)).fold(0.0, |s, t| s + t);
                (-d / e).exp()
            }
            Km::P(c, d) => (a.iter().zip(b).map(|(x, y)| x * y).fold(0.0, |s, t| s + t) + c).powf(*d),
        }
    }
}

impl Km {
    /// `got` is the kernel function of `a`, `b` up to the rounding of a differently ordered dot
    /// product (ndarray adds eight partial sums; the naive loop adds left to right)
    fn entry_ok(&self, got: f64, a: &[f64], b: &[f64]) -> bool {
        let want = self.eval(a, b);
        if approx(got, want, 1e-12, 0.0) {
            return true;
        }
        let scale: f64 = a.iter().zip(b).map(|(x, y)| (x * y).abs()).fold(0.0, |s, t| s + t);
        let delta = 1e-15 * (a.len() as f64 + 1.0) * scale;
        match self {
            Km::G(_) => false,
            Km::L => (got - want).abs() <= delta,
            Km::P(c, d) => {
                let s = a.iter().zip(b).map(|(x, y)| x * y).fold(0.0, |s, t| s + t);
                let (v1, v2) = ((s - delta + c).powf(*d), (s + delta + c).powf(*d));
                if v1.is_nan() || v2.is_nan() || want.is_nan() {
                    // the base crosses zero inside the rounding interval: either outcome is legitimate
                    return got.is_nan() || approx(got, v1, 1e-9, 0.0) || approx(got, v2, 1e-9, 0.0) || approx(got, want, 1e-9, 0.0);
                }
                let (lo, hi) = (v1.min(v2).min(want), v1.max(v2).max(want));
                got >= lo - 1e-12 * lo.abs() && got <= hi + 1e-12 * hi.abs()
            }
        }
    }
}

fn fl(ex: bool, x: f64) -> String {
    if ex { hex64c(x) } else { format!("~{}", hex64c(x)) }
}
fn fls(ex: bool, xs: &[f64]) -> String {
    list(xs.iter(), |x| fl(ex, *x))
}
fn rows_of(x: &Array2<f64>) -> Vec<Vec<f64>> {
    x.rows().into_iter().map(|r| r.to_vec()).collect()
}
fn enc_rows(r: &[Vec<f64>]) -> String {
    list2(r.iter().map(|x| x.iter()), |x| hex64(*x))
}
fn beq(a: f64, b: f64) -> bool {
    a.to_bits() == b.to_bits() || (a.is_nan() && b.is_nan())
}
/// numerically equal (the two zeros are the same number)
fn neq(a: f64, b: f64) -> bool {
    a == b || (a.is_nan() && b.is_nan())
}
fn approx(a: f64, b: f64, rel: f64, abs: f64) -> bool {
    if a.is_nan() || b.is_nan() {
        return a.is_nan() && b.is_nan();
    }
    if a.is_infinite() || b.is_infinite() {
        return a == b;
    }
    (a - b).abs() <= abs + rel * a.abs().max(b.abs())
}
fn sqd(a: &[f64], b: &[f64]) -> f64 {
    a.iter().zip(b).map(|(x, y)| (x - y) * (x - y)).fold(0.0, |s, t| s + t)
}

/// smallest eigenvalue of a symmetric matrix (cyclic Jacobi)
fn jacobi_min_eig(m: &[Vec<f64>]) -> f64 {
    let n = m.len();
    let mut a: Vec<Vec<f64>> = m.to_vec();
    for _sweep in 0..60 {
        let mut off = 0.0;
        for i in 0..n {
            for j in 0..n {
                if i != j {
                    off += a[i][j] * a[i][j];
                }
            }
        }
        if off < 1e-26 {
            break;
        }
        for p in 0..n {
            for q in p + 1..n {
                if a[p][q].abs() < 1e-300 {
                    continue;
                }
                let theta = (a[q][q] - a[p][p]) / (2.0 * a[p][q]);
                let t = theta.signum() / (theta.abs() + (theta * theta + 1.0).sqrt());
                let t = if theta == 0.0 { 1.0 } else { t };
                let c = 1.0 / (t * t + 1.0).sqrt();
                let s = t * c;
                for k in 0..n {
                    let (akp, akq) = (a[k][p], a[k][q]);
                    a[k][p] = c * akp - s * akq;
                    a[k][q] = s * akp + c * akq;
                }
                for k in 0..n {
                    let (apk, aqk) = (a[p][k], a[q][k]);
                    a[p][k] = c * apk - s * aqk;
                    a[q][k] = s * apk + c * aqk;
                }
            }
        }
    }
    (0..n).map(|i| a[i][i]).fold(f64::INFINITY, f64::min)
}

/// size / sum / column / diagonal / upper triangle of the kernel against the matrix `mat`
fn oracle_views(ctx: &mut Ctx, class: &str, kernel: &Kernel<f64>, mat: &[Vec<f64>], ci: &[usize], cols: &[Option<Vec<f64>>]) {
    let n = mat.len();
    ctx.require(kernel.size() == n, "view_size", class, || format!("size {} for {} records", kernel.size(), n));
    let sum = kernel.sum().to_vec();
    ctx.require(sum.len() == n, "view_sum", class, || format!("sum has {} entries", sum.len()));
    for i in 0..n.min(sum.len()) {
        let want = mat[i].iter().fold(0.0, |s, t| s + t);
        let scale: f64 = mat[i].iter().map(|v| v.abs()).fold(0.0, |s, t| s + t);
        ctx.require(approx(sum[i], want, 1e-12, 1e-12 * scale), "view_sum", class, || format!("row {}: sum {} but the row of the matrix adds to {}", i, sum[i], want));
    }
    let diag = kernel.diagonal().to_vec();
    ctx.require(diag.len() == n && (0..n).all(|i| neq(diag[i], mat[i][i])), "view_diagonal", class, || format!("diagonal {:?}", diag));
    let ut = kernel.to_upper_triangle();
    let mut want = vec![];
    for i in 0..n {
        for j in i + 1..n {
            want.push(mat[i][j]);
        }
    }
    ctx.require(ut.len() == want.len() && ut.iter().zip(&want).all(|(a, b)| neq(*a, *b)), "view_upper_triangle", class, || format!("upper triangle {:?} want {:?}", ut, want));
    // the borrowed kernel (`KernelView`, separate `Inner` impls) reports the same
    let kv = kernel.view();
    let same = |a: &[f64], b: &[f64]| a.len() == b.len() && a.iter().zip(b).all(|(x, y)| beq(*x, *y));
    ctx.require(kv.size() == kernel.size(), "view_type_agrees", class, || "size of the borrowed kernel differs".to_string());
    ctx.require(same(&kv.sum().to_vec(), &sum), "view_type_agrees", class, || format!("sum of the borrowed kernel {:?} vs {:?}", kv.sum(), sum));
    ctx.require(same(&kv.diagonal().to_vec(), &diag), "view_type_agrees", class, || format!("diagonal of the borrowed kernel {:?} vs {:?}", kv.diagonal(), diag));
    ctx.require(same(&kv.to_upper_triangle(), &ut), "view_type_agrees", class, || "upper triangle of the borrowed kernel differs".to_string());
    for (i, c) in ci.iter().zip(cols) {
        if let Some(c) = c {
            let vc = catch_unwind(AssertUnwindSafe(|| kv.column(*i))).ok();
            ctx.require(vc.as_ref().map(|v| same(v, c)).unwrap_or(false), "view_type_agrees", class, || format!("column {} of the borrowed kernel {:?} vs {:?}", i, vc, c));
        }
    }
    for (i, c) in ci.iter().zip(cols) {
        if *i < n {
            match c {
                Some(c) => ctx.require(c.len() == n && (0..n).all(|j| neq(c[j], mat[j][*i])), "view_column", class, || format!("column {} = {:?}", i, c)),
                None => ctx.fail("view_column", class, format!("column({}) panicked with {} records", i, n)),
            }
        }
    }
}

fn oracle_dot(ctx: &mut Ctx, class: &str, got: &Array2<f64>, mat: &[Vec<f64>], r: &[Vec<f64>], q: usize) {
    let n = mat.len();
    ctx.require(got.nrows() == n && got.ncols() == q, "view_dot", class, || format!("dot shape {:?}", got.dim()));
    for i in 0..n.min(got.nrows()) {
        for c in 0..q.min(got.ncols()) {
            let mut s = 0.0;
            let mut sc = 0.0;
            for j in 0..n {
                s += mat[i][j] * r[j][c];
                sc += (mat[i][j] * r[j][c]).abs();
            }
            ctx.require(approx(got[(i, c)], s, 1e-12, 1e-12 * sc), "view_dot", class, || format!("dot[{},{}] = {} want {}", i, c, got[(i, c)], s));
        }
    }
}

fn columns(kernel: &Kernel<f64>, ci: &[usize]) -> Vec<Option<Vec<f64>>> {
    ci.iter().map(|i| catch_unwind(AssertUnwindSafe(|| kernel.column(*i))).ok()).collect()
}
fn show_cols(ex: bool, cols: &[Option<Vec<f64>>]) -> String {
    cols.iter()
        .map(|c| match c {
            Some(c) if c.is_empty() => "-".to_string(),
            Some(c) => fls(ex, c),
            None => "panic".to_string(),
        })
        .collect::<Vec<_>>()
        .join(";")
}

fn op_dense(em: &mut Em, x: &Array2<f64>, km: Km, ci: &[usize]) {
    let rows = rows_of(x);
    let op = format!("dense m={} X={} ci={}", km.enc(), enc_rows(&rows), list(ci.iter(), |i| i.to_string()));
    let class = format!("dense:{}", km.name());
    let ex = km.exact();
    em.case_valid(op, &class, |ctx| {
        let n = rows.len();
        let kernel = Kernel::<f64>::params().method(km.linfa()).transform(x.view());
        let k: Vec<Vec<f64>> = match &kernel.inner {
            KernelInner::Dense(a) => rows_of(a),
            _ => {
                ctx.fail("entry", &class, "dense parameters built a sparse kernel".into());
                vec![]
            }
        };
        ctx.require(k.len() == n && k.iter().all(|r| r.len() == n), "entry", &class, || format!("matrix is not {0}x{0}", n));
        let mut finite = true;
        for i in 0..k.len() {
            for j in 0..k.len() {
                let want = km.eval(&rows[i], &rows[j]);
                finite &= k[i][j].is_finite();
                ctx.require(km.entry_ok(k[i][j], &rows[i], &rows[j]), "entry", &class, || format!("K[{},{}] = {} but the kernel function gives {}", i, j, k[i][j], want));
                ctx.require(beq(k[i][j], k[j][i]), "symmetric", &class, || format!("K[{},{}] = {} but K[{},{}] = {}", i, j, k[i][j], j, i, k[j][i]));
            }
            if let Km::G(_) = km {
                ctx.require(k[i][i] == 1.0, "gaussian_diagonal", &class, || format!("K[{0},{0}] = {1}", i, k[i][i]));
            }
        }
        // positive semidefinite: Gaussian (statement) and linear (theorem); numerically, v = eigenvector of the least eigenvalue
        if finite && n > 0 && n <= 24 && !matches!(km, Km::P(_, _)) {
            let tr: f64 = (0..n).map(|i| k[i][i].abs()).sum();
            let lmin = jacobi_min_eig(&k);
            ctx.require(lmin >= -1e-9 * tr.max(1.0), "positive_semidefinite", &class, || format!("least eigenvalue {} (trace {})", lmin, tr));
        }
        let cols = columns(&kernel, ci);
        oracle_views(ctx, &class, &kernel, &k, ci, &cols);
        let sum = kernel.sum().to_vec();
        let diag = kernel.diagonal().to_vec();
        let ut = kernel.to_upper_triangle();
        format!(
            "ok size={} K={} sum={} diag={} ut={} col={}",
            kernel.size(),
            list2(k.iter().map(|r| r.iter()), |v| fl(ex, *v)),
            fls(ex, &sum),
            fls(ex, &diag),
            fls(ex, &ut),
            show_cols(ex, &cols)
        )
    });
}

fn op_ddot(em: &mut Em, x: &Array2<f64>, km: Km, r: &Array2<f64>) {
    let rows = rows_of(x);
    let rr = rows_of(r);
    let q = r.ncols();
    let op = format!("ddot m={} X={} q={} R={}", km.enc(), enc_rows(&rows), q, enc_rows(&rr));
    let class = format!("dense:{}", km.name());
    em.case_valid(op, &class, |ctx| {
        let kernel = Kernel::<f64>::params().method(km.linfa()).transform(x.view());
        let k: Vec<Vec<f64>> = match &kernel.inner {
            KernelInner::Dense(a) => rows_of(a),
            _ => vec![],
        };
        let got = kernel.dot(&r.view());
        oracle_dot(ctx, &class, &got, &k, &rr, q);
        let gv = kernel.view().dot(&r.view());
        ctx.require(gv.dim() == got.dim() && gv.iter().zip(got.iter()).all(|(a, b)| beq(*a, *b)), "view_type_agrees", &class, || "dot of the borrowed kernel differs".to_string());
        format!("ok {}", list2(rows_of(&got).iter().map(|r| r.iter()), |v| fl(false, *v)))
    });
}

const IDX: [(CommonNearestNeighbour, &str); 3] = [
    (CommonNearestNeighbour::LinearSearch, "linear"),
    (CommonNearestNeighbour::KdTree, "kdtree"),
    (CommonNearestNeighbour::BallTree, "balltree"),
];

/// what the real index returns for `k_nearest(row, k+1)`, row by row
fn neighbours(x: &Array2<f64>, k: usize, idx: &CommonNearestNeighbour) -> Option<Vec<Vec<usize>>> {
    catch_unwind(AssertUnwindSafe(|| {
        let nn = idx.from_batch(x, L2Dist).ok()?;
        let mut out = vec![];
        for row in x.rows() {
            out.push(nn.k_nearest(row, k + 1).ok()?.into_iter().map(|(_, i)| i).collect::<Vec<_>>());
        }
        Some(out)
    }))
    .ok()
    .flatten()
}

fn csr_of(kernel: &Kernel<f64>) -> Option<(Vec<usize>, Vec<usize>, Vec<f64>)> {
    match &kernel.inner {
        KernelInner::Sparse(m) => Some((m.proper_indptr().to_vec(), m.indices().to_vec(), m.data().to_vec())),
        _ => None,
    }
}
fn csr_to_dense(n: usize, csr: &(Vec<usize>, Vec<usize>, Vec<f64>)) -> Vec<Vec<f64>> {
    let mut m = vec![vec![0.0; n]; n];
    for i in 0..n.min(csr.0.len().saturating_sub(1)) {
        for p in csr.0[i]..csr.0[i + 1] {
            if csr.1[p] < n {
                m[i][csr.1[p]] = csr.2[p];
            }
        }
    }
    m
}

/// (forced, allowed): `j` is among the `k` nearest other points of `i` under every / under some tie-break
fn knn_sets(rows: &[Vec<f64>], k: usize, tol_rel: f64) -> (Vec<Vec<bool>>, Vec<Vec<bool>>, bool) {
    let n = rows.len();
    let mut forced = vec![vec![false; n]; n];
    let mut allowed = vec![vec![false; n]; n];
    let mut tie_free = true;
    for i in 0..n {
        let d: Vec<f64> = (0..n).map(|l| sqd(&rows[i], &rows[l])).collect();
        for j in 0..n {
            if j == i {
                continue;
            }
            let tol = tol_rel * (1.0 + d[j]);
            let le = (0..n).filter(|l| *l != i && d[*l] <= d[j] + tol).count();
            let lt = (0..n).filter(|l| *l != i && d[*l] < d[j] - tol).count();
            forced[i][j] = le <= k;
            allowed[i][j] = lt < k;
            if forced[i][j] != allowed[i][j] {
                tie_free = false;
            }
        }
        // a duplicate of the query point competes with the point itself for the k+1 slots
        if (0..n).any(|l| l != i && d[l] <= tol_rel) {
            tie_free = false;
        }
    }
    (forced, allowed, tie_free)
}

#[allow(clippy::too_many_arguments)]
fn op_sparse(em: &mut Em, x: &Array2<f64>, km: Km, k: usize, which: usize, ci: &[usize], lattice: bool, dot_rhs: Option<&Array2<f64>>) {
    let rows = rows_of(x);
    let n = rows.len();
    let (idx, idx_name) = (&IDX[which].0, IDX[which].1);
    let valid = k > 0 && k < n;
    let nb = neighbours(x, k, idx);
    if valid && nb.is_none() {
        em.count("sparse:index_unavailable");
        return;
    }
    let nb = nb.unwrap_or_default();
    let nbs = list2(nb.iter().map(|r| r.iter()), |i| i.to_string());
    let ex = km.exact();
    let class = format!("sparse:{}:{}", km.name(), idx_name);
    let head = format!("m={} k={} X={} nb={} idx={}", km.enc(), k, enc_rows(&rows), nbs, idx_name);
    let op = match dot_rhs {
        None => format!("sparse {} ci={}", head, list(ci.iter(), |i| i.to_string())),
        Some(r) => format!("sdot {} q={} R={}", head, r.ncols(), enc_rows(&rows_of(r))),
    };
    let body = |ctx: &mut Ctx| {
        let params = Kernel::<f64>::params_with_nn(idx.clone()).kind(KernelType::Sparse(k)).method(km.linfa());
        let kernel = params.transform(x.view());
        let csr = match csr_of(&kernel) {
            Some(c) => c,
            None => {
                ctx.fail("sparse_support", &class, "sparse parameters built a dense kernel".into());
                return "ok dense".to_string();
            }
        };
        let mat = csr_to_dense(n, &csr);
        if let Some(r) = dot_rhs {
            let got = kernel.dot(&r.view());
            oracle_dot(ctx, &class, &got, &mat, &rows_of(r), r.ncols());
            let gv = kernel.view().dot(&r.view());
            ctx.require(gv.dim() == got.dim() && gv.iter().zip(got.iter()).all(|(a, b)| beq(*a, *b)), "view_type_agrees", &class, || "dot of the borrowed kernel differs".to_string());
            return format!("ok {}", list2(rows_of(&got).iter().map(|r| r.iter()), |v| fl(false, *v)));
        }
        // contract of the external index (C07): k+1 distinct in-range indices that are nearest
        let (forced, allowed, tie_free) = knn_sets(&rows, k, if lattice { 0.0 } else { 1e-9 });
        let (forced1, allowed1, _) = knn_sets_self(&rows, k + 1, if lattice { 0.0 } else { 1e-9 });
        for (m, r) in nb.iter().enumerate() {
            let mut s = r.clone();
            s.sort_unstable();
            s.dedup();
            let ok = r.len() == k + 1 && s.len() == r.len() && r.iter().all(|j| *j < n);
            ctx.require(ok, "nn_contract", &class, || format!("k_nearest(row {}, {}) returned {:?}", m, k + 1, r));
            if ok {
                ctx.require(r.iter().all(|j| allowed1[m][*j]) && (0..n).all(|j| !forced1[m][j] || r.contains(&j)), "nn_contract", &class, || format!("k_nearest(row {}, {}) = {:?} are not the nearest points", m, k + 1, r));
            }
        }
        // stored pattern: rows sorted, diagonal present, exactly the symmetric closure of the kNN relation
        let mut stored = vec![vec![false; n]; n];
        ctx.require(csr.0.len() == n + 1, "sparse_support", &class, || format!("indptr {:?}", csr.0));
        for i in 0..n.min(csr.0.len().saturating_sub(1)) {
            let cols = &csr.1[csr.0[i]..csr.0[i + 1]];
            ctx.require(cols.windows(2).all(|w| w[0] < w[1]) && cols.iter().all(|j| *j < n), "sparse_support", &class, || format!("row {} has columns {:?}", i, cols));
            for j in cols {
                if *j < n {
                    stored[i][*j] = true;
                }
            }
        }
        for i in 0..n {
            ctx.require(stored[i][i], "sparse_support", &class, || format!("diagonal entry {} is not stored", i));
            for j in 0..n {
                if i == j {
                    continue;
                }
                let must = forced[i][j] || forced[j][i];
                let may = allowed[i][j] || allowed[j][i];
                if must {
                    ctx.require(stored[i][j], "sparse_support", &class, || format!("({},{}) is a k={} neighbour pair but is not stored", i, j, k));
                }
                if !may {
                    ctx.require(!stored[i][j], "sparse_support", &class, || format!("({},{}) is stored but neither point is among the other's {} nearest", i, j, k));
                }
                if stored[i][j] {
                    let want = km.eval(&rows[i], &rows[j]);
                    ctx.require(km.entry_ok(mat[i][j], &rows[i], &rows[j]), "sparse_entry", &class, || format!("stored ({},{}) = {} but the kernel function gives {}", i, j, mat[i][j], want));
                    ctx.require(stored[j][i] && beq(mat[i][j], mat[j][i]), "symmetric", &class, || format!("stored ({},{}) = {} vs ({},{}) = {}", i, j, mat[i][j], j, i, mat[j][i]));
                }
            }
            if stored[i][i] {
                let want = km.eval(&rows[i], &rows[i]);
                ctx.require(km.entry_ok(mat[i][i], &rows[i], &rows[i]), "sparse_entry", &class, || format!("stored ({0},{0}) = {1} but the kernel function gives {2}", i, mat[i][i], want));
            }
        }
        // the stored values are those of the dense kernel of the same records
        let dense = Kernel::<f64>::params().method(km.linfa()).transform(x.view());
        if let KernelInner::Dense(a) = &dense.inner {
            for i in 0..n {
                for j in 0..n {
                    if stored[i][j] {
                        ctx.require(beq(mat[i][j], a[(i, j)]), "sparse_entry", &class, || format!("stored ({},{}) = {} differs from the dense kernel's {}", i, j, mat[i][j], a[(i, j)]));
                    }
                }
            }
        }
        // whichever neighbour index is used
        if tie_free {
            if which != 0 {
                let other = Kernel::<f64>::params_with_nn(IDX[0].0.clone()).kind(KernelType::Sparse(k)).method(km.linfa()).transform(x.view());
                let oc = csr_of(&other).unwrap_or_default();
                ctx.require(oc.0 == csr.0 && oc.1 == csr.1 && oc.2.iter().zip(&csr.2).all(|(a, b)| beq(*a, *b)), "index_independent", &class, || format!("linear search stores {:?}/{:?}, {} stores {:?}/{:?}", oc.0, oc.1, idx_name, csr.0, csr.1));
            }
        }
        let cols = columns(&kernel, ci);
        oracle_views(ctx, &class, &kernel, &mat, ci, &cols);
        let sum = kernel.sum().to_vec();
        let diag = kernel.diagonal().to_vec();
        let ut = kernel.to_upper_triangle();
        format!(
            "ok size={} indptr={} indices={} data={} sum={} diag={} ut={} col={}",
            kernel.size(),
            list(csr.0.iter(), |v| v.to_string()),
            list(csr.1.iter(), |v| v.to_string()),
            fls(ex, &csr.2),
            fls(ex, &sum),
            fls(ex, &diag),
            fls(ex, &ut),
            show_cols(ex, &cols)
        )
    };
    if valid {
        em.case_valid(op, &class, body)
    } else {
        em.case(op, body)
    }
}

/// like `knn_sets` but over all points including the query row itself (what `k_nearest` sees)
fn knn_sets_self(rows: &[Vec<f64>], k: usize, tol_rel: f64) -> (Vec<Vec<bool>>, Vec<Vec<bool>>, bool) {
    let n = rows.len();
    let mut forced = vec![vec![false; n]; n];
    let mut allowed = vec![vec![false; n]; n];
    for i in 0..n {
        let d: Vec<f64> = (0..n).map(|l| sqd(&rows[i], &rows[l])).collect();
        for j in 0..n {
            let tol = tol_rel * (1.0 + d[j]);
            let le = (0..n).filter(|l| d[*l] <= d[j] + tol).count();
            let lt = (0..n).filter(|l| d[*l] < d[j] - tol).count();
            forced[i][j] = le <= k;
            allowed[i][j] = lt < k;
        }
    }
    (forced, allowed, true)
}

// ---------------------------------------------------------------------------------- hierarchical

const METHODS: [(Method, &str); 7] = [
    (Method::Single, "single"),
    (Method::Complete, "complete"),
    (Method::Average, "average"),
    (Method::Weighted, "weighted"),
    (Method::Ward, "ward"),
    (Method::Centroid, "centroid"),
    (Method::Median, "median"),
];

#[derive(Clone, Copy, Debug)]
enum Crit {
    Num(usize),
    Dist(f64),
}

const THR: f64 = 1e-6;
fn to_dist(x: f64) -> f64 {
    if x > THR { -x.ln() } else { -THR.ln() }
}
fn canon(labels: &[usize]) -> Vec<usize> {
    labels.iter().map(|l| labels.iter().position(|m| m == l).unwrap()).collect()
}
struct Uf(Vec<usize>);
impl Uf {
    fn find(&mut self, a: usize) -> usize {
        let mut r = a;
        while self.0[r] != r {
            r = self.0[r];
        }
        let mut c = a;
        while self.0[c] != r {
            let nx = self.0[c];
            self.0[c] = r;
            c = nx;
        }
        r
    }
    fn union(&mut self, a: usize, b: usize) {
        let (x, y) = (self.find(a), self.find(b));
        if x != y {
            self.0[x.max(y)] = x.min(y);
        }
    }
    fn partition(&mut self) -> Vec<usize> {
        let n = self.0.len();
        let l: Vec<usize> = (0..n).map(|i| self.find(i)).collect();
        canon(&l)
    }
}
type Steps = Vec<(usize, usize, f64, usize)>;

fn dmat(n: usize, dist: &[f64]) -> Vec<Vec<f64>> {
    let mut d = vec![vec![0.0; n]; n];
    let mut p = 0;
    for i in 0..n {
        for j in i + 1..n {
            d[i][j] = dist[p];
            d[j][i] = dist[p];
            p += 1;
        }
    }
    d
}

/// the dendrogram contract the model's theorems assume, checked on what `kodama` returned
fn op_linkage(em: &mut Em, n: usize, dist: &[f64], steps: &Steps, mi: usize, desc: &str) {
    let (_, mname) = METHODS[mi];
    let op = format!("#linkage meth={} n={} kernel={} dist={}", mname, n, desc, list(dist.iter(), |v| hex64(*v)));
    let class = format!("hier:{}", mname);
    em.case(op, |ctx| {
        ctx.require(steps.len() == n.saturating_sub(1), "kodama_contract", &class, || format!("{} steps for {} observations", steps.len(), n));
        let d = dmat(n, dist);
        let mut members: Vec<Option<Vec<usize>>> = (0..n).map(|i| Some(vec![i])).collect();
        let mono = mi <= 4;
        let mut prev = f64::NEG_INFINITY;
        for (t, (a, b, dis, size)) in steps.iter().enumerate() {
            let live = |c: usize| c < members.len() && members[c].is_some();
            if !(a != b && live(*a) && live(*b)) {
                ctx.fail("kodama_contract", &class, format!("step {} merges {} and {} which are not two live clusters", t, a, b));
                return String::new();
            }
            let (ma, mb) = (members[*a].take().unwrap(), members[*b].take().unwrap());
            ctx.require(*size == ma.len() + mb.len(), "kodama_contract", &class, || format!("step {} size {} for clusters of {} and {}", t, size, ma.len(), mb.len()));
            if mono {
                ctx.require(*dis >= prev, "kodama_contract", &class, || format!("step {} dissimilarity {} after {}", t, dis, prev));
                prev = *dis;
            }
            let pair: Vec<f64> = ma.iter().flat_map(|i| mb.iter().map(|j| d[*i][*j]).collect::<Vec<_>>()).collect();
            match mi {
                0 => {
                    let w = pair.iter().cloned().fold(f64::INFINITY, f64::min);
                    ctx.require(*dis == w, "kodama_contract", &class, || format!("single-linkage step {}: {} but the closest pair is at {}", t, dis, w));
                }
                1 => {
                    let w = pair.iter().cloned().fold(f64::NEG_INFINITY, f64::max);
                    ctx.require(*dis == w, "kodama_contract", &class, || format!("complete-linkage step {}: {} but the farthest pair is at {}", t, dis, w));
                }
                2 => {
                    let w = pair.iter().sum::<f64>() / pair.len() as f64;
                    ctx.require(approx(*dis, w, 1e-9, 1e-12), "kodama_contract", &class, || format!("average-linkage step {}: {} but the mean pair distance is {}", t, dis, w));
                }
                _ => {}
            }
            let mut u = ma;
            u.extend(mb);
            members.push(Some(u));
        }
        String::new()
    });
}

#[allow(clippy::too_many_arguments)]
fn op_hier(em: &mut Em, kernel: &Kernel<f64>, ut: &[f64], dist: &[f64], steps: &Steps, mi: usize, crit: Crit, desc: &str) {
    let (method, mname) = METHODS[mi];
    let n = kernel.size();
    let cs = match crit {
        Crit::Num(c) => format!("n:{}", c),
        Crit::Dist(d) => format!("d:{}", hex64(d)),
    };
    let op = format!(
        "hier n={} meth={} kernel={} steps={} dis={} crit={} ut={}",
        n,
        mname,
        desc,
        list2(steps.iter().map(|s| vec![s.0, s.1, s.3]), |v| v.to_string()),
        list(steps.iter(), |s| hex64(s.2)),
        cs,
        list(ut.iter(), |v| hex64(*v))
    );
    let class = format!("hier:{}:{}", mname, if let Crit::Num(_) = crit { "count" } else { "threshold" });
    em.case_valid(op, &class, |ctx| {
        let params = match crit {
            Crit::Num(c) => HierarchicalCluster::default().with_method(method).num_clusters(c),
            Crit::Dist(d) => HierarchicalCluster::default().with_method(method).max_distance(d),
        };
        let res = match params.transform(kernel.clone()) {
            Ok(r) => r,
            Err(e) => {
                ctx.fail("no_error", &class, format!("valid criterion rejected: {}", e));
                return "err".to_string();
            }
        };
        let labels: Vec<usize> = res.targets.clone();
        ctx.require(labels.len() == n, "all_labelled", &class, || format!("{} labels for {} samples", labels.len(), n));
        let mut ids = labels.clone();
        ids.sort_unstable();
        ids.dedup();
        let nc = ids.len();
        ctx.require(ids.iter().enumerate().all(|(i, v)| i == *v), "ids_contiguous", &class, || format!("cluster ids {:?}", ids));
        let part = canon(&labels);
        match crit {
            Crit::Num(c) => {
                ctx.require(nc == c.min(n), "cluster_count", &class, || format!("{} clusters for requested {} on {} samples", nc, c, n));
            }
            Crit::Dist(d) => {
                // every merge all of whose sub-merges (itself included) lie below the threshold
                let mut uf = Uf((0..n).collect());
                let mut rep: Vec<usize> = (0..n).collect();
                let mut sub: Vec<f64> = vec![f64::NEG_INFINITY; n];
                for (a, b, dis, _) in steps.iter() {
                    if *a >= rep.len() || *b >= rep.len() {
                        break;
                    }
                    let m = dis.max(sub[*a]).max(sub[*b]);
                    if m < d {
                        uf.union(rep[*a], rep[*b]);
                    }
                    rep.push(rep[*a]);
                    sub.push(m);
                }
                let want = uf.partition();
                ctx.require(part == want, "threshold_merges", &class, || format!("threshold {}: partition {:?}, merges below the threshold give {:?}", d, part, want));
                if mi == 0 {
                    let dm = dmat(n, dist);
                    let mut g = Uf((0..n).collect());
                    for i in 0..n {
                        for j in i + 1..n {
                            if dm[i][j] < d {
                                g.union(i, j);
                            }
                        }
                    }
                    let want = g.partition();
                    ctx.require(part == want, "single_linkage_components", &class, || format!("threshold {}: partition {:?}, components of the below-threshold graph {:?}", d, part, want));
                }
            }
        }
        format!("ok nc={} part={} dist={}", nc, list(part.iter(), |v| v.to_string()), fls(false, dist))
    });
}

// ---------------------------------------------------------------------------------- generators

fn gen_points(rng: &mut Rng, n: usize, p: usize, style: usize) -> Array2<f64> {
    match style {
        // small integer lattice: many ties and duplicates
        0 => Array2::from_shape_fn((n, p), |_| rng.range(-3, 3) as f64),
        // wider lattice, quarter steps
        1 => Array2::from_shape_fn((n, p), |_| rng.range(-40, 40) as f64 / 4.0),
        // 1-D-like tie-free lattice: pairwise distances all distinct (powers of two), shuffled
        2 => {
            let mut e: Vec<usize> = (0..n).collect();
            rng.shuffle(&mut e);
            let sign: Vec<f64> = (0..p).map(|_| if rng.coin() { 1.0 } else { -1.0 }).collect();
            Array2::from_shape_fn((n, p), |(i, j)| if j == 0 { sign[0] * (1u64 << (e[i] % 20)) as f64 / 8.0 } else { sign[j] * (e[i] % 3) as f64 })
        }
        // two tight groups (clusters) on a lattice
        3 => {
            let off = rng.range(4, 12) as f64;
            Array2::from_shape_fn((n, p), |(i, _)| (if i % 2 == 0 { 0.0 } else { off }) + rng.range(-4, 4) as f64 / 4.0)
        }
        // generic reals
        _ => {
            let scale = *rng.pick(&[1.0, 1.0, 0.01, 30.0]);
            Array2::from_shape_fn((n, p), |_| (rng.unit() * 2.0 - 1.0) * scale)
        }
    }
}

fn gen_method(rng: &mut Rng, lattice: bool) -> Km {
    match rng.below(8) {
        0 | 1 | 2 => Km::L,
        3 | 4 | 5 => {
            let e = if lattice { *rng.pick(&[0.5, 1.0, 2.0, 8.0, 0.3, 100.0, 0.0625]) } else { 0.05 + rng.unit() * 10.0 };
            Km::G(e)
        }
        _ => Km::P(*rng.pick(&[0.0, 1.0, -1.0, 2.5]), *rng.pick(&[1.0, 2.0, 3.0, 0.5, -1.0, 2.5])),
    }
}

fn gen_rhs(rng: &mut Rng, n: usize) -> Array2<f64> {
    let q = *rng.pick(&[1usize, 2, 3, 8, 9]);
    Array2::from_shape_fn((n, q), |_| rng.range(-3, 3) as f64)
}

fn hier_cases(em: &mut Em, rng: &mut Rng, kernel: &Kernel<f64>, desc: &str, per_method: usize) {
    let n = kernel.size();
    let ut = kernel.to_upper_triangle();
    let dist: Vec<f64> = ut.iter().map(|x| to_dist(*x)).collect();
    if dist.iter().any(|d| !d.is_finite()) {
        em.count("hier:nonfinite_skipped");
        return;
    }
    for mi in 0..METHODS.len() {
        let mut buf = dist.clone();
        let steps: Steps = match catch_unwind(AssertUnwindSafe(|| linkage_steps(&mut buf, n, METHODS[mi].0))) {
            Ok(s) => s,
            Err(_) => {
                em.count("hier:linkage_panicked");
                continue;
            }
        };
        if steps.iter().any(|s| !s.2.is_finite()) {
            em.count("hier:nonfinite_skipped");
            continue;
        }
        if steps.windows(2).any(|w| w[1].2 < w[0].2) {
            em.count("hier:nonmonotone_dendrogram");
        }
        if steps.windows(2).any(|w| w[1].2 == w[0].2) {
            em.count("hier:tied_dissimilarities");
        }
        op_linkage(em, n, &dist, &steps, mi, desc);
        for _ in 0..per_method {
            let crit = if rng.coin() {
                let c = match rng.below(6) {
                    0 => 1,
                    1 => n.max(1),
                    2 => n + 1 + rng.below(3),
                    3 => n.saturating_sub(1).max(1),
                    _ => 1 + rng.below(n.max(1)),
                };
                Crit::Num(c)
            } else {
                let d = match rng.below(7) {
                    0 => 0.0,
                    1 => 20.0,
                    2 | 3 if !steps.is_empty() => steps[rng.below(steps.len())].2.max(0.0),
                    4 if !steps.is_empty() => {
                        let s = steps[rng.below(steps.len())].2;
                        (s + 0.5 * rng.unit()).max(0.0)
                    }
                    5 if !dist.is_empty() => dist[rng.below(dist.len())].max(0.0),
                    _ => rng.unit() * 14.0,
                };
                Crit::Dist(d)
            };
            match crit {
                Crit::Num(c) => em.count(if c >= n { "hier:count>=n" } else { "hier:count<n" }),
                Crit::Dist(d) => em.count(if steps.iter().any(|s| s.2 == d) { "hier:threshold_on_a_merge" } else { "hier:threshold_between" }),
            }
            op_hier(em, kernel, &ut, &dist, &steps, mi, crit, desc);
        }
    }
}

pub fn run(em: &mut Em, rng: &mut Rng) {
    let thorough = em.thorough();
    let (rounds, nmax) = if thorough { (2500, 60) } else { (70, 12) };
    for round in 0..rounds {
        let style = rng.below(5);
        let lattice = style != 4;
        let n = if round < 4 { round } else if rng.chance(1, 4) { 2 + rng.below(nmax.min(8)) } else { 2 + rng.below(nmax - 1) };
        let p = match rng.below(10) {
            0 if style != 2 => 0,
            1 => 8 + rng.below(10),
            2 => 4 + rng.below(4),
            _ => 1 + rng.below(3),
        };
        let x = gen_points(rng, n, p, style);
        em.count(&format!("points:{}", ["lattice_small", "lattice_quarter", "lattice_tie_free", "lattice_groups", "generic"][style]));
        let km = gen_method(rng, lattice);
        em.count(&format!("kernel:{}", km.name()));
        let mut ci: Vec<usize> = (0..3).map(|_| rng.below(n + 1)).collect();
        if rng.chance(1, 6) {
            ci.push(n + rng.below(3));
        }
        op_dense(em, &x, km, &ci);
        // dot: keep to values where the products carry no cancellation blow-up (see notes)
        let km_dot = match km {
            Km::P(c, d) if d.fract() != 0.0 || d < 0.0 => Km::P(c, 2.0),
            m => m,
        };
        let r = gen_rhs(rng, n);
        op_ddot(em, &x, km_dot, &r);
        // sparse kernels: a few neighbour counts (boundaries 0, 1, n-1, n included) with every index
        if p > 0 {
            let mut ks: Vec<usize> = vec![1, n.saturating_sub(1), 1 + rng.below(n.max(2) - 1)];
            if rng.chance(1, 4) {
                ks.push(*rng.pick(&[0, n, n + 1]));
            }
            ks.sort_unstable();
            ks.dedup();
            for k in ks {
                let dot_which = rng.below(3);
                for which in 0..3 {
                    if which > 0 && !(k > 0 && k < n) {
                        continue;
                    }
                    em.count(&format!("sparse:k={}", if k == 0 { "0" } else if k + 1 == n { "n-1" } else if k >= n { ">=n" } else { "inner" }));
                    op_sparse(em, &x, km, k, which, &ci, lattice, None);
                    if which == dot_which && k > 0 && k < n {
                        op_sparse(em, &x, km_dot, k, which, &ci, lattice, Some(&r));
                    }
                }
            }
        }
        // hierarchical clustering on this kernel (dense, and one sparse variant)
        if n <= if thorough { 40 } else { 12 } {
            let per = if thorough { 3 } else { 2 };
            let dense = Kernel::<f64>::params().method(km.linfa()).transform(x.view());
            hier_cases(em, rng, &dense, &format!("dense:{}", km.name()), per);
            if p > 0 && n >= 3 && rng.chance(1, 3) {
                let k = 1 + rng.below(n - 1);
                if let Ok(sp) = catch_unwind(AssertUnwindSafe(|| Kernel::<f64>::params().kind(KernelType::Sparse(k)).method(km.linfa()).transform(x.view()))) {
                    hier_cases(em, rng, &sp, &format!("sparse{}:{}", k, km.name()), 1);
                }
            }
        }
    }
}
