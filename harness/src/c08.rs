//! C08 — DBSCAN and OPTICS against the density-clustering definition.
//!
//! Per configuration (point set, metric, tolerance, min_points, scalar type, memory layout, calling
//! form, constructor form) and per neighbour index the harness records what `within_range` returns for
//! every sample (order kept, index built on a C-order copy) and the distances the real `dist_fn`
//! computes for those pairs, runs the real `Dbscan` / `Optics` transform on the chosen layout / form,
//! and emits
//!   `dbscan n= mp= zd= nb=`            -> `ok <canonical labels>`
//!   `optics n= mp= zd= nb= nd=`        -> `ok idx:core:reach;… margin=~…`
//!   `params algo= ty= mp= tol= notol=` -> `ok mp= tol=` | `err MinPoints` | `err Tolerance`
//! The Lean model is run on the same neighbour lists / distances, so every comparison is exact.
//!
//! What is compared (only what the statement fixes):
//!   * DBSCAN: noise `-`; core samples by cluster, clusters renumbered by first core sample; a border
//!     sample by the cluster of the core samples that reach it, or `b` when core samples of two clusters
//!     reach it (the statement allows either).  The raw labels are judged by the oracle.
//!   * OPTICS: the whole ordering, unless the model met a tie between two seeds of equal reachability
//!     (`margin=~0`): the statement fixes no tie-break, the case is then left to the oracle alone.
//!
//! Oracle (textbook definition, recomputed by brute force):
//!   stream=main   : the tolerance is separated from every inter-point distance (relative margin
//!                   >= 1e-9, f32: 1e-5); the neighbourhood is `{j | d(i,j) < tol}` computed here from the
//!                   coordinates, and the result must also be identical to the linear-scan run.
//!   stream=radius : the tolerance equals (or is that close to) an inter-point distance — whether such
//!                   a point is "within" is the border question of C07; here the neighbourhood is
//!                   the recorded query result (if symmetric) and indices are not compared.
use crate::util::*;
use linfa::traits::Transformer;
use linfa::{DatasetBase, Float, ParamGuard};
use linfa_clustering::{Dbscan, DbscanParams, DbscanParamsError, Optics, OpticsAnalysis, OpticsError, OpticsParams};
use linfa_nn::distance::{Distance, L1Dist, L2Dist, LInfDist, LpDist};
use linfa_nn::{BallTree, BuildError, CommonNearestNeighbour, KdTree, LinearSearch, NearestNeighbour};
use ndarray::{s, Array1, Array2, ArrayView2, ShapeBuilder};
use std::cell::Cell;
use std::panic::{catch_unwind, AssertUnwindSafe};

#[derive(Clone, Copy, PartialEq)]
enum Met {
    L1,
    L2,
    Linf,
    /// `LpDist(p)`: only here to make the `dist_fn` setter observable (a parameterised distance)
    Lp15,
    Lp3,
}
impl Met {
    fn name(self) -> &'static str {
        match self {
            Met::L1 => "L1",
            Met::L2 => "L2",
            Met::Linf => "Linf",
            Met::Lp15 => "Lp1.5",
            Met::Lp3 => "Lp3",
        }
    }
    /// distance from the coordinates, written out here (not linfa's)
    fn my(self, a: &[f64], b: &[f64]) -> f64 {
        let lp = |p: f64| a.iter().zip(b).fold(0.0, |s, (x, y)| s + (x - y).abs().powf(p)).powf(1.0 / p);
        match self {
            Met::L1 => a.iter().zip(b).fold(0.0, |s, (x, y)| s + (x - y).abs()),
            Met::L2 => a.iter().zip(b).fold(0.0, |s, (x, y)| s + (x - y) * (x - y)).sqrt(),
            Met::Linf => a.iter().zip(b).fold(0.0, |s, (x, y)| f64::max(s, (x - y).abs())),
            Met::Lp15 => lp(1.5),
            Met::Lp3 => lp(3.0),
        }
    }
}

const IDX: [(CommonNearestNeighbour, &str); 3] = [
    (CommonNearestNeighbour::LinearSearch, "linear"),
    (CommonNearestNeighbour::KdTree, "kdtree"),
    (CommonNearestNeighbour::BallTree, "balltree"),
];
fn other_index(ix: &CommonNearestNeighbour) -> CommonNearestNeighbour {
    match ix {
        CommonNearestNeighbour::LinearSearch => CommonNearestNeighbour::BallTree,
        CommonNearestNeighbour::KdTree => CommonNearestNeighbour::LinearSearch,
        _ => CommonNearestNeighbour::KdTree,
    }
}

/// memory layout of the records handed to `transform`
#[derive(Clone, Copy, PartialEq)]
enum Lay {
    /// owned, C order
    C,
    /// owned, Fortran order
    F,
    /// transposed view of a `p x n` array
    T,
    /// every second row and column of a larger array (rows not contiguous)
    Strided,
    /// every second row of a larger array (rows contiguous, not standard layout)
    RowStep,
}
impl Lay {
    fn name(self) -> &'static str {
        match self {
            Lay::C => "c",
            Lay::F => "f",
            Lay::T => "t",
            Lay::Strided => "strided",
            Lay::RowStep => "rowstep",
        }
    }
}
/// how the hyper-parameters are built
#[derive(Clone, Copy, PartialEq)]
enum Ctor {
    /// `params_with(mp, dist, index)`
    With,
    /// `params(mp)` (L2 + k-d tree; used only for that combination)
    Default,
    /// `params_with(mp, other dist, other index).dist_fn(dist).nn_algo(index)`
    Setters,
    /// `params_with(mp, dist, LinearSearch | KdTree | BallTree)`: the index passed as its own struct type
    /// instead of the `CommonNearestNeighbour` enum
    Struct,
}
impl Ctor {
    fn name(self) -> &'static str {
        match self {
            Ctor::With => "with",
            Ctor::Default => "default",
            Ctor::Setters => "setters",
            Ctor::Struct => "struct",
        }
    }
}

#[derive(Clone, PartialEq)]
struct Cfg {
    /// coordinates, exactly representable in the scalar type
    pts: Vec<Vec<f64>>,
    p: usize,
    kind: &'static str,
    m: Met,
    /// exactly representable in the scalar type
    tol: f64,
    mp: usize,
    f32: bool,
    lay: Lay,
    /// DBSCAN through `Transformer<DatasetBase<..>>`
    dataset: bool,
    ctor: Ctor,
    /// `.tolerance()` not called: DBSCAN default 1e-4 (requires `tol` = that value)
    notol_db: bool,
    /// `.tolerance()` not called: OPTICS default infinity (requires `tol` = inf)
    notol_op: bool,
    /// `params.transform(x) -> Result` (the form of the doc test: `impl TransformGuard` + the blanket
    /// `Transformer` of src/param_guard.rs) instead of `params.check_unwrap().transform(x)`
    unchecked: bool,
    /// extreme tolerance: "" | "tiny" | "huge" | "smallscale"
    ext: &'static str,
}

type OptOut = Vec<(usize, Option<f64>, Option<f64>)>;

/// everything observed from the real code for one (points, metric, index, tol, mp)
#[derive(Clone)]
struct Real {
    zd: bool,
    nb: Vec<Vec<usize>>,
    nd: Vec<Vec<f64>>,
    /// full distance matrix by the real dist_fn (oracle values)
    dm: Vec<Vec<f64>>,
}

fn f64of<F: Float>(x: F) -> f64 {
    x.to_f64().unwrap()
}

/// run `f` on the records in the requested memory layout
fn with_view<F: Float, R>(pts: &[Vec<f64>], p: usize, lay: Lay, f: impl FnOnce(ArrayView2<F>) -> R) -> R {
    let n = pts.len();
    let junk = F::cast(777.25);
    match lay {
        Lay::C => {
            let a = Array2::from_shape_fn((n, p), |(i, j)| F::cast(pts[i][j]));
            f(a.view())
        }
        Lay::F => {
            let a = Array2::from_shape_fn((n, p).f(), |(i, j)| F::cast(pts[i][j]));
            f(a.view())
        }
        Lay::T => {
            let a = Array2::from_shape_fn((p, n), |(j, i)| F::cast(pts[i][j]));
            f(a.t())
        }
        Lay::Strided => {
            let a = Array2::from_shape_fn((2 * n, 2 * p), |(i, j)| if i % 2 == 0 && j % 2 == 0 { F::cast(pts[i / 2][j / 2]) } else { junk });
            f(a.slice(s![..;2, ..;2]))
        }
        Lay::RowStep => {
            let a = Array2::from_shape_fn((2 * n, p), |(i, j)| if i % 2 == 0 { F::cast(pts[i / 2][j]) } else { junk });
            f(a.slice(s![..;2, ..]))
        }
    }
}

/// generic-closure substitute: something to do with the configured distance function
trait WithDist<F: Float> {
    type Out;
    /// `d` = the configured distance, `d0` = a different value of the same type where one exists
    fn call<D: Distance<F> + Clone + PartialEq>(self, d: D, d0: D) -> Self::Out;
}
fn with_dist<F: Float, W: WithDist<F>>(m: Met, w: W) -> W::Out {
    match m {
        Met::L1 => w.call(L1Dist, L1Dist),
        Met::L2 => w.call(L2Dist, L2Dist),
        Met::Linf => w.call(LInfDist, LInfDist),
        Met::Lp15 => w.call(LpDist(F::cast(1.5)), LpDist(F::cast(1.0))),
        Met::Lp3 => w.call(LpDist(F::cast(3.0)), LpDist(F::cast(1.0))),
    }
}

struct Observe<'a> {
    cfg: &'a Cfg,
    ix: &'a CommonNearestNeighbour,
}
impl<F: Float> WithDist<F> for Observe<'_> {
    type Out = Real;
    fn call<D: Distance<F> + Clone + PartialEq>(self, d: D, _d0: D) -> Real {
        let cfg = self.cfg;
        // the index is observed on a C-order copy; `transform` gets the configured layout
        with_view::<F, _>(&cfg.pts, cfg.p, Lay::C, |x| {
            let n = x.nrows();
            let tol = F::cast(cfg.tol);
            // records without features: linfa's distance functions reject empty views; the distance of two
            // empty vectors is 0
            let dm: Vec<Vec<f64>> = if x.ncols() == 0 { vec![vec![0.0; n]; n] } else { (0..n).map(|i| (0..n).map(|j| f64of(d.distance(x.row(i), x.row(j)))).collect()).collect() };
            match self.ix.from_batch(&x, d.clone()) {
                Err(BuildError::ZeroDimension) => Real { zd: true, nb: vec![], nd: vec![], dm },
                Err(e) => panic!("index build: {}", e),
                Ok(nn) => {
                    let nb: Vec<Vec<usize>> = (0..n).map(|i| nn.within_range(x.row(i), tol).unwrap().into_iter().map(|(_, j)| j).collect()).collect();
                    let nd = nb.iter().enumerate().map(|(i, l)| l.iter().map(|&j| dm[i][j]).collect()).collect();
                    Real { zd: false, nb, nd, dm }
                }
            }
        })
    }
}

/// result of the DBSCAN call plus what the dataset form returned besides the labels
struct DbOut {
    labels: Vec<Option<usize>>,
    /// dataset form: the returned records equal the records passed in
    records_kept: bool,
    /// the accessors of the checked parameters show what was configured
    accessors_ok: bool,
}

fn db_transform<F: Float, D: Distance<F> + PartialEq, N: NearestNeighbour + PartialEq>(params: DbscanParams<F, D, N>, cfg: &Cfg, d: &D, nn: &N) -> DbOut {
    let accessors_ok = {
        let v = params.check_ref().unwrap();
        v.minimum_points() == cfg.mp && f64of(v.tolerance()) == cfg.tol && v.dist_fn() == d && v.nn_algo() == nn
    };
    with_view::<F, _>(&cfg.pts, cfg.p, cfg.lay, |v| {
        if cfg.unchecked {
            // unchecked form: `Transformer<R, Result<T, Error>> for DbscanParams`
            if cfg.dataset {
                let ds = DatasetBase::new(v, Array1::from_elem(v.nrows(), 7usize));
                let out: Result<DatasetBase<ArrayView2<F>, Array1<Option<usize>>>, DbscanParamsError> = params.transform(ds);
                let out = out.unwrap();
                DbOut { labels: out.targets.to_vec(), records_kept: out.records == v, accessors_ok }
            } else if cfg.lay == Lay::C {
                let owned = v.to_owned();
                let out: Result<Array1<Option<usize>>, DbscanParamsError> = params.transform(&owned);
                DbOut { labels: out.unwrap().to_vec(), records_kept: true, accessors_ok }
            } else {
                let out: Result<Array1<Option<usize>>, DbscanParamsError> = params.transform(&v);
                DbOut { labels: out.unwrap().to_vec(), records_kept: true, accessors_ok }
            }
        } else {
            let params = params.check_unwrap();
            if cfg.dataset {
                // targets of an earlier labelling, to be replaced
                let ds = DatasetBase::new(v, Array1::from_elem(v.nrows(), 7usize));
                let out = params.transform(ds);
                DbOut { labels: out.targets.to_vec(), records_kept: out.records == v, accessors_ok }
            } else if cfg.lay == Lay::C {
                let owned = v.to_owned();
                DbOut { labels: params.transform(&owned).to_vec(), records_kept: true, accessors_ok }
            } else {
                DbOut { labels: params.transform(&v).to_vec(), records_kept: true, accessors_ok }
            }
        }
    })
}

struct RunDb<'a> {
    cfg: &'a Cfg,
    ix: &'a CommonNearestNeighbour,
}
impl<F: Float> WithDist<F> for RunDb<'_> {
    type Out = DbOut;
    fn call<D: Distance<F> + Clone + PartialEq>(self, d: D, d0: D) -> DbOut {
        let cfg = self.cfg;
        let tol = |b: DbscanParams<F, D, CommonNearestNeighbour>| if cfg.notol_db { b } else { b.tolerance(F::cast(cfg.tol)) };
        match cfg.ctor {
            Ctor::Setters => db_transform(tol(Dbscan::params_with::<F, _, _>(cfg.mp, d0, other_index(self.ix)).dist_fn(d.clone()).nn_algo(self.ix.clone())), cfg, &d, self.ix),
            Ctor::Struct => {
                // same thing with the index as a struct type
                macro_rules! go {
                    ($n:expr) => {{
                        let b = Dbscan::params_with::<F, _, _>(cfg.mp, d.clone(), $n);
                        let b = if cfg.notol_db { b } else { b.tolerance(F::cast(cfg.tol)) };
                        db_transform(b, cfg, &d, &$n)
                    }};
                }
                match self.ix {
                    CommonNearestNeighbour::LinearSearch => go!(LinearSearch::new()),
                    CommonNearestNeighbour::KdTree => go!(KdTree::new()),
                    _ => go!(BallTree::new()),
                }
            }
            _ => db_transform(tol(Dbscan::params_with::<F, _, _>(cfg.mp, d.clone(), self.ix.clone())), cfg, &d, self.ix),
        }
    }
}
fn run_dbscan_f<F: Float>(cfg: &Cfg, ix: &CommonNearestNeighbour) -> DbOut {
    if cfg.ctor == Ctor::Default && cfg.m == Met::L2 && *ix == CommonNearestNeighbour::KdTree {
        let b = Dbscan::params::<F>(cfg.mp);
        let b = if cfg.notol_db { b } else { b.tolerance(F::cast(cfg.tol)) };
        db_transform(b, cfg, &L2Dist, ix)
    } else {
        with_dist::<F, _>(cfg.m, RunDb { cfg, ix })
    }
}

/// OPTICS result plus: `as_slice`, `iter` and indexing show the same samples
struct OpOut {
    out: OptOut,
    accessors_agree: bool,
    accessors_ok: bool,
}
fn op_transform<F: Float, D: Distance<F> + PartialEq, N: NearestNeighbour + PartialEq>(params: OpticsParams<F, D, N>, cfg: &Cfg, d: &D, nn: &N) -> OpOut {
    let accessors_ok = {
        let v = params.check_ref().unwrap();
        v.minimum_points() == cfg.mp && f64of(v.tolerance()) == cfg.tol && v.dist_fn() == d && v.nn_algo() == nn
    };
    with_view::<F, _>(&cfg.pts, cfg.p, cfg.lay, |v| {
        let res: OpticsAnalysis<F> = if cfg.unchecked {
            // the form of the OPTICS unit tests: `Optics::params(..).transform(view) -> Result`
            let r: Result<OpticsAnalysis<F>, OpticsError> = params.transform(v);
            r.unwrap()
        } else {
            params.check_unwrap().transform(v)
        };
        let conv = |s: &linfa_clustering::Sample<F>| (s.index(), s.core_distance().map(f64of), s.reachability_distance().map(f64of));
        let out: OptOut = res.iter().map(conv).collect();
        let sl: OptOut = res.as_slice().iter().map(conv).collect();
        let by_index: OptOut = (0..sl.len()).map(|k| conv(&res[k])).collect();
        let by_range: OptOut = res[..].iter().map(conv).collect();
        OpOut { accessors_agree: sl == out && by_index == out && by_range == out, out, accessors_ok }
    })
}
struct RunOp<'a> {
    cfg: &'a Cfg,
    ix: &'a CommonNearestNeighbour,
}
impl<F: Float> WithDist<F> for RunOp<'_> {
    type Out = OpOut;
    fn call<D: Distance<F> + Clone + PartialEq>(self, d: D, d0: D) -> OpOut {
        let cfg = self.cfg;
        let tol = |b: OpticsParams<F, D, CommonNearestNeighbour>| if cfg.notol_op { b } else { b.tolerance(F::cast(cfg.tol)) };
        match cfg.ctor {
            Ctor::Setters => op_transform(tol(Optics::params_with::<F, _, _>(cfg.mp, d0, other_index(self.ix)).dist_fn(d.clone()).nn_algo(self.ix.clone())), cfg, &d, self.ix),
            Ctor::Struct => {
                macro_rules! go {
                    ($n:expr) => {{
                        let b = Optics::params_with::<F, _, _>(cfg.mp, d.clone(), $n);
                        let b = if cfg.notol_op { b } else { b.tolerance(F::cast(cfg.tol)) };
                        op_transform(b, cfg, &d, &$n)
                    }};
                }
                match self.ix {
                    CommonNearestNeighbour::LinearSearch => go!(LinearSearch::new()),
                    CommonNearestNeighbour::KdTree => go!(KdTree::new()),
                    _ => go!(BallTree::new()),
                }
            }
            _ => op_transform(tol(Optics::params_with::<F, _, _>(cfg.mp, d.clone(), self.ix.clone())), cfg, &d, self.ix),
        }
    }
}
fn run_optics_f<F: Float>(cfg: &Cfg, ix: &CommonNearestNeighbour) -> OpOut {
    if cfg.ctor == Ctor::Default && cfg.m == Met::L2 && *ix == CommonNearestNeighbour::KdTree {
        let b = Optics::params::<F>(cfg.mp);
        let b = if cfg.notol_op { b } else { b.tolerance(F::cast(cfg.tol)) };
        op_transform(b, cfg, &L2Dist, ix)
    } else {
        with_dist::<F, _>(cfg.m, RunOp { cfg, ix })
    }
}

fn observe_c(cfg: &Cfg, ix: &CommonNearestNeighbour) -> Real {
    if cfg.f32 {
        with_dist::<f32, _>(cfg.m, Observe { cfg, ix })
    } else {
        with_dist::<f64, _>(cfg.m, Observe { cfg, ix })
    }
}
fn dbscan_c(cfg: &Cfg, ix: &CommonNearestNeighbour) -> DbOut {
    if cfg.f32 {
        run_dbscan_f::<f32>(cfg, ix)
    } else {
        run_dbscan_f::<f64>(cfg, ix)
    }
}
fn optics_c(cfg: &Cfg, ix: &CommonNearestNeighbour) -> OpOut {
    if cfg.f32 {
        run_optics_f::<f32>(cfg, ix)
    } else {
        run_optics_f::<f64>(cfg, ix)
    }
}
/// the reference run for `index_independent`: linear scan, plain form (C order, `params_with`, array)
fn reference(cfg: &Cfg) -> Cfg {
    let mut c = cfg.clone();
    c.lay = Lay::C;
    c.ctor = Ctor::With;
    c.dataset = false;
    c.notol_db = false;
    c.notol_op = false;
    c.unchecked = false;
    c
}

fn show_labels(l: &[Option<usize>]) -> String {
    list(l.iter(), |x| match x {
        Some(c) => c.to_string(),
        None => "-".to_string(),
    })
}
/// the part of a DBSCAN labelling the statement fixes, computed from the recorded query results
/// (same function in Drv/C08.lean): noise `-`; core samples by cluster, clusters renumbered by their
/// first core sample; a border sample by the cluster of the core samples that have it in their query
/// result, `b` if those carry two different labels, `?<raw>` if its label is not among them.
fn canon_labels(nb: &[Vec<usize>], mp: usize, labels: &[Option<usize>]) -> String {
    let n = labels.len();
    let core: Vec<bool> = (0..n).map(|i| nb.get(i).map_or(false, |l| l.len() >= mp)).collect();
    let mut ren: Vec<(usize, usize)> = vec![];
    for i in 0..n {
        if let (true, Some(c)) = (core[i], labels[i]) {
            if !ren.iter().any(|(o, _)| *o == c) {
                let k = ren.len();
                ren.push((c, k));
            }
        }
    }
    let new = |c: usize| ren.iter().find(|(o, _)| *o == c).map(|(_, k)| k.to_string()).unwrap_or(format!("?{}", c));
    let toks: Vec<String> = (0..n)
        .map(|i| match labels[i] {
            None => "-".to_string(),
            Some(c) if core[i] => new(c),
            Some(c) => {
                let mut ls: Vec<usize> = nb.get(i).map_or(vec![], |l| l.iter().filter(|&&j| j < n && core[j]).filter_map(|&j| labels[j]).collect());
                ls.sort();
                ls.dedup();
                if !ls.contains(&c) {
                    format!("?{}", c)
                } else if ls.len() >= 2 {
                    "b".to_string()
                } else {
                    new(c)
                }
            }
        })
        .collect();
    toks.join(",")
}
fn show_opt(x: &Option<f64>) -> String {
    match x {
        Some(v) => hex64(*v),
        None => "-".to_string(),
    }
}
fn show_optics(o: &OptOut) -> String {
    o.iter().map(|(i, c, r)| format!("{}:{}:{}", i, show_opt(c), show_opt(r))).collect::<Vec<_>>().join(";")
}

/// replay of an OPTICS ordering (same replay as `hasTie` in Drv/C08.lean, on the implementation's output):
/// was there, when a sample was taken from the seed list, another waiting seed with the same reachability?
/// Only used to COUNT how many orderings the correspondence compares exactly (the model decides the skip).
fn seed_tie(out: &OptOut, nb: &[Vec<usize>], dm: &[Vec<f64>]) -> bool {
    let n = nb.len();
    let mut processed = vec![false; n];
    let mut reach: Vec<Option<f64>> = vec![None; n];
    let mut tie = false;
    for (i, core, _) in out {
        if *i >= n {
            return false;
        }
        if let Some(r) = reach[*i] {
            tie |= (0..n).any(|j| j != *i && !processed[j] && reach[j] == Some(r));
        }
        processed[*i] = true;
        if let Some(cd) = core {
            for &j in &nb[*i] {
                if j < n && !processed[j] {
                    let r = f64::max(*cd, dm[j][*i]);
                    if reach[j].map_or(true, |s| r < s) {
                        reach[j] = Some(r);
                    }
                }
            }
        }
    }
    tie
}
fn n_clusters(labels: &[Option<usize>]) -> usize {
    labels.iter().filter_map(|l| *l).max().map_or(0, |c| c + 1)
}

// ------------------------------------------------------------------------------------------ oracle

/// neighbourhood relation the oracle judges against: `Some(adjacency)` or `None` when the recorded
/// relation is unusable (asymmetric / irreflexive on the radius stream)
fn neighbourhood(pts: &[Vec<f64>], m: Met, tol: f64, main: bool, real: &Real) -> Option<Vec<Vec<bool>>> {
    let n = pts.len();
    if main {
        Some((0..n).map(|i| (0..n).map(|j| m.my(&pts[i], &pts[j]) < tol).collect()).collect())
    } else {
        if real.zd {
            return None;
        }
        let mut a = vec![vec![false; n]; n];
        for (i, l) in real.nb.iter().enumerate() {
            for &j in l {
                a[i][j] = true;
            }
        }
        let ok = (0..n).all(|i| a[i][i] && (0..n).all(|j| a[i][j] == a[j][i]));
        if ok {
            Some(a)
        } else {
            None
        }
    }
}

fn oracle_dbscan(ctx: &mut Ctx, class: &str, adj: &[Vec<bool>], mp: usize, labels: &[Option<usize>]) {
    let n = adj.len();
    ctx.require(labels.len() == n, "shape", class, || format!("{} labels for {} samples", labels.len(), n));
    if labels.len() != n {
        return;
    }
    let core: Vec<bool> = (0..n).map(|i| adj[i].iter().filter(|b| **b).count() >= mp).collect();
    // labelled <=> core or within the tolerance of a core point
    for i in 0..n {
        let reach = core[i] || (0..n).any(|j| adj[i][j] && core[j]);
        ctx.require(labels[i].is_some() == reach, "labelled_iff", class, || {
            format!("sample {}: label {:?}, core={}, in range of a core point={}", i, labels[i], core[i], reach)
        });
    }
    // adjacent core points share a label
    for i in 0..n {
        for j in 0..n {
            if core[i] && core[j] && adj[i][j] {
                ctx.require(labels[i] == labels[j], "core_adjacent_same", class, || format!("core samples {} and {} are within the tolerance, labels {:?} / {:?}", i, j, labels[i], labels[j]));
            }
        }
    }
    // components of the core graph
    let mut comp = vec![usize::MAX; n];
    let mut nc = 0;
    for s in 0..n {
        if core[s] && comp[s] == usize::MAX {
            let mut st = vec![s];
            comp[s] = nc;
            while let Some(u) = st.pop() {
                for v in 0..n {
                    if core[v] && adj[u][v] && comp[v] == usize::MAX {
                        comp[v] = nc;
                        st.push(v);
                    }
                }
            }
            nc += 1;
        }
    }
    for i in 0..n {
        for j in 0..i {
            if core[i] && core[j] && comp[i] != comp[j] {
                ctx.require(labels[i] != labels[j] || labels[i].is_none(), "components_differ", class, || format!("core samples {} and {} lie in different density-connected components, both labelled {:?}", i, j, labels[i]));
            }
        }
    }
    // a border point carries the label of a core point that reaches it
    for i in 0..n {
        if !core[i] && labels[i].is_some() {
            let ok = (0..n).any(|j| adj[i][j] && core[j] && labels[j] == labels[i]);
            ctx.require(ok, "border_label", class, || format!("border sample {} labelled {:?}, no core point with that label within the tolerance", i, labels[i]));
        }
    }
    // ids 0..c-1 without gaps
    let mut ids: Vec<usize> = labels.iter().filter_map(|x| *x).collect();
    ids.sort();
    ids.dedup();
    ctx.require(ids.iter().enumerate().all(|(k, v)| k == *v), "ids_contiguous", class, || format!("cluster ids in use: {:?}", ids));
}

fn oracle_optics(ctx: &mut Ctx, class: &str, adj: &[Vec<bool>], dm: &[Vec<f64>], mp: usize, out: &OptOut) {
    let n = adj.len();
    // every sample exactly once
    let mut seen = vec![0usize; n];
    for (i, _, _) in out {
        if *i < n {
            seen[*i] += 1;
        }
    }
    let once = out.len() == n && seen.iter().all(|c| *c == 1);
    ctx.require(once, "each_once", class, || format!("ordering lists {:?}", out.iter().map(|x| x.0).collect::<Vec<_>>()));
    if !once {
        return;
    }
    let mut pos = vec![0usize; n];
    let mut cd = vec![None; n];
    for (k, (i, c, _)) in out.iter().enumerate() {
        pos[*i] = k;
        cd[*i] = *c;
    }
    // core distance = distance to the min_points-th nearest neighbour (self included) if within the tolerance
    for i in 0..n {
        let mut ds: Vec<f64> = (0..n).filter(|j| adj[i][*j]).map(|j| dm[i][j]).collect();
        ds.sort_by(|a, b| a.partial_cmp(b).unwrap());
        let want = ds.get(mp - 1).copied();
        ctx.require(cd[i] == want, "core_distance", class, || format!("sample {}: core distance {:?}, distance to its {}-th nearest neighbour within the tolerance {:?} (sorted in-range distances {:?})", i, cd[i], mp, want, ds));
    }
    // reachability: undefined, or max(core(o), d(o,x)) for a core o within the tolerance listed no later
    for (x, _, r) in out {
        if let Some(r) = r {
            let ok = (0..n).any(|o| cd[o].is_some() && adj[*x][o] && pos[o] <= pos[*x] && f64::max(cd[o].unwrap(), dm[o][*x]) == *r);
            ctx.require(ok, "reachability_witness", class, || format!("sample {} (position {}): reachability {} has no witness", x, pos[*x], r));
        }
    }
}

// -------------------------------------------------------------------------------------- generators

/// (points, features, kind, optional (tolerance, min_points) the shape was built for)
fn gen_points(em: &mut Em, rng: &mut Rng) -> (Vec<Vec<f64>>, usize, &'static str, Option<(f64, usize)>) {
    let big = rng.chance(1, 4);
    // one configuration in 12 above 64 samples (anything gated on the number of rows: a size switch, a
    // fixed-width bitset, trees several levels deep)
    let huge = rng.chance(1, 12);
    let nmax = if em.thorough() { if big { 70 } else { 16 } } else if big { 36 } else { 12 };
    let nmin = if big { 17 } else { 0 };
    let n = if huge { rng.range(65, if em.thorough() { 160 } else { 110 }) as usize } else { rng.range(nmin as i64, nmax as i64) as usize };
    let scale = *rng.pick(&[1.0, 1.0, 0.5, 0.25, 4.0]);
    // 0 chain, 1 ring, 2 touching, 3 duplicates, 4|5 lattice, 6 noise, 7 zero features, 8|9 clumps,
    // 10|11 bridge, 12.. generic float cloud (free of seed ties: the OPTICS ordering is compared exactly)
    let kind = rng.below(16);
    let mut hint: Option<(f64, usize)> = None;
    let mut p = if rng.chance(1, 6) { 4 + rng.below(3) } else { 1 + rng.below(3) };
    let mut pts: Vec<Vec<i64>> = vec![];
    let name: &'static str;
    match kind {
        0 => {
            name = "chain";
            // 1-D chain with gaps 1,1,1,2,3 along the first axis
            let mut x = 0i64;
            for _ in 0..n {
                let mut v = vec![0i64; p];
                v[0] = x;
                pts.push(v);
                x += *rng.pick(&[0, 1, 1, 1, 2, 3]);
            }
        }
        1 => {
            name = "ring";
            p = 2;
            let s = 2 + rng.below(4) as i64;
            let mut ring = vec![];
            for t in 0..s {
                ring.push(vec![t, 0]);
                ring.push(vec![s, t]);
                ring.push(vec![s - t, s]);
                ring.push(vec![0, s - t]);
            }
            rng.shuffle(&mut ring);
            for i in 0..n {
                if i < ring.len() {
                    pts.push(ring[i].clone());
                } else {
                    // centre blob
                    pts.push(vec![s / 2 + rng.range(0, 1), s / 2]);
                }
            }
        }
        2 => {
            name = "touching";
            // two clumps and a bridge point between them
            let gap = 2 + rng.below(3) as i64;
            for i in 0..n {
                let mut v = vec![0i64; p];
                match i % 5 {
                    0 | 1 => v[0] = -gap - rng.range(0, 1),
                    2 | 3 => v[0] = gap + rng.range(0, 1),
                    _ => v[0] = rng.range(-1, 1),
                }
                if p > 1 {
                    v[1] = rng.range(0, 1);
                }
                pts.push(v);
            }
        }
        3 => {
            name = "duplicates";
            let sites = 1 + rng.below(4);
            let s: Vec<Vec<i64>> = (0..sites).map(|_| (0..p).map(|_| rng.range(0, 4)).collect()).collect();
            for _ in 0..n {
                pts.push(rng.pick(&s).clone());
            }
        }
        4 | 5 => {
            name = "lattice";
            let b = 2 + rng.below(5) as i64;
            for _ in 0..n {
                pts.push((0..p).map(|_| rng.range(0, b)).collect());
            }
        }
        6 => {
            name = "noise";
            let b = 2 + rng.below(3) as i64;
            for i in 0..n {
                if i % 3 == 0 {
                    pts.push((0..p).map(|_| rng.range(-50, 50)).collect());
                } else {
                    pts.push((0..p).map(|_| rng.range(0, b)).collect());
                }
            }
        }
        7 => {
            name = "zero_features";
            p = 0;
            for _ in 0..n {
                pts.push(vec![]);
            }
        }
        8 | 9 => {
            name = "clumps";
            // several tight clumps far apart, a few stray samples
            let c = 2 + rng.below(4);
            let axis = rng.below(p);
            // enough samples for every clump to hold a core sample of the `min_points` the shape is built for
            let k_hint = 2 + rng.below(3);
            let n = if rng.chance(2, 3) { n.max(c * (k_hint + 1)) } else { n };
            let per = (n / c).max(1);
            for i in 0..n {
                let k = (i / per).min(c - 1) as i64;
                let mut v: Vec<i64> = (0..p).map(|_| rng.range(0, 1)).collect();
                v[axis] += 10 * k;
                if rng.chance(1, 10) {
                    v[axis] += 4;
                }
                pts.push(v);
            }
            hint = Some((*rng.pick(&[1.5, 2.5]) * scale, k_hint));
        }
        10 | 11 => {
            name = "bridge";
            // two clusters and a sample in range of a core point of each, itself not core:
            // mp samples at 0, one at 1, the bridge at 3, one at 5, mp samples at 6; tolerance 2.5
            let mp = 4 + rng.below(2);
            let mut xs: Vec<i64> = vec![];
            for _ in 0..mp {
                xs.push(0);
                xs.push(6);
            }
            xs.extend([1, 3, 5]);
            if rng.coin() {
                xs.extend([20, 30]);
            }
            for x in xs {
                let mut v = vec![0i64; p];
                v[0] = x;
                pts.push(v);
            }
            hint = Some((2.5 * scale, mp));
        }
        _ => {
            name = "generic";
            // float cloud: log-uniform scale, offset, near-duplicates
            let sc = 10f64.powf(rng.unit() * 12.0 - 6.0);
            let off = if rng.coin() { 0.0 } else { sc * 100.0 };
            let mut f: Vec<Vec<f64>> = vec![];
            for i in 0..n {
                if i > 0 && rng.chance(1, 5) {
                    let k = rng.below(i);
                    let mut v = f[k].clone();
                    if rng.coin() {
                        v[0] += sc * 1e-3;
                    }
                    f.push(v);
                } else {
                    f.push((0..p).map(|_| off + sc * (rng.unit() * 4.0 - 2.0)).collect());
                }
            }
            rng.shuffle(&mut f);
            return (f, p, name, None);
        }
    }
    rng.shuffle(&mut pts);
    (pts.into_iter().map(|v| v.into_iter().map(|c| c as f64 * scale).collect()).collect(), p, name, hint)
}

/// (tolerance, intended stream)
fn gen_tol(rng: &mut Rng, pts: &[Vec<f64>], m: Met) -> (f64, bool) {
    let n = pts.len();
    let mut v: Vec<f64> = vec![];
    for i in 0..n {
        for j in 0..i {
            let d = m.my(&pts[i], &pts[j]);
            if d > 0.0 {
                v.push(d);
            }
        }
    }
    v.sort_by(|a, b| a.partial_cmp(b).unwrap());
    v.dedup();
    if v.is_empty() {
        return (*rng.pick(&[0.5, 1.0, 3.0]), true);
    }
    if rng.chance(1, 10) {
        return (f64::INFINITY, true);
    }
    // mostly the smallest few distinct distances, one time in five any of them (medium / large radii)
    let k = if rng.chance(1, 5) { rng.below(v.len()) } else if rng.coin() { rng.below(v.len().min(3)) } else { rng.below(v.len().min(8)) };
    if rng.chance(1, 4) {
        // on the radius
        (v[k], false)
    } else if k == 0 && rng.coin() {
        (v[0] / 2.0, true)
    } else if k + 1 < v.len() {
        ((v[k] + v[k + 1]) / 2.0, true)
    } else {
        (v[k] * 1.5, true)
    }
}

/// relative margin between the tolerance and the nearest inter-point distance
fn margin(pts: &[Vec<f64>], m: Met, tol: f64) -> f64 {
    if tol.is_infinite() {
        return f64::INFINITY;
    }
    // the rounding of an index's pruning bound (`distance(q, centre) - radius`, C07's open ulp finding) is
    // relative to the magnitude of the coordinates, not to the tolerance: the gap between a distance and the
    // tolerance is measured against the larger of the two (seed 33 of a sweep: coordinates 0.05, tolerance 1.7e-5,
    // gap 4.7e-10 - the ball tree in f32 dropped the neighbour, which is that finding, not a C08 violation)
    let cmax = pts.iter().flat_map(|r| r.iter()).fold(0.0f64, |a, x| a.max(x.abs()));
    let scale = tol.max(cmax * pts.first().map_or(1, |r| r.len().max(1)) as f64);
    let mut best = f64::INFINITY;
    for i in 0..pts.len() {
        for j in 0..=i {
            let d = m.my(&pts[i], &pts[j]);
            best = best.min((d - tol).abs() / scale);
        }
    }
    best
}

fn round_ty(x: f64, f32_: bool) -> f64 {
    if f32_ {
        (x as f32) as f64
    } else {
        x
    }
}

pub fn run(em: &mut Em, rng: &mut Rng) {
    let configs = if em.thorough() { 25000 } else { 1500 };
    params_grid(em);
    let plain = |pts: Vec<Vec<f64>>, p: usize, m: Met, tol: f64, mp: usize| Cfg { pts, p, kind: "witness", m, tol, mp, f32: false, lay: Lay::C, dataset: false, ctor: Ctor::With, notol_db: false, notol_op: false, unchecked: false, ext: "" };
    // the design's witness for the neighbour-order dependence of the OPTICS core distance first
    one_config(em, &plain(vec![vec![0.0], vec![3.0], vec![0.5], vec![2.5], vec![1.0], vec![9.0], vec![9.5]], 1, Met::L2, 2.75, 3));
    one_config(em, &plain(vec![vec![0.0, 0.0], vec![3.0, 4.0], vec![6.0, 8.0], vec![3.0, 4.0]], 2, Met::L2, 5.0, 2));
    // start sample listed after the samples it reaches (before the fix): sample 4 had reachability 4 from sample 1 listed later
    one_config(em, &plain(vec![vec![6.0], vec![2.0], vec![5.0], vec![0.0], vec![6.0]], 1, Met::L2, 5.5, 5));
    // the k-d tree needs contiguous rows: Fortran-order records (2 features) made the default index panic
    {
        let mut c = plain(vec![vec![0.0, 0.0], vec![1.0, 0.0], vec![0.0, 1.0], vec![9.0, 9.0]], 2, Met::L2, 1.25, 2);
        c.lay = Lay::F;
        c.ctor = Ctor::Default;
        one_config(em, &c);
    }
    // `min_points` far above the number of samples: everything is noise (`find_neighbors` of DBSCAN reserved
    // `min_points` slots per call: capacity overflow); in the unchecked form of the doc test
    {
        let mut c = plain(vec![vec![0.0, 0.0], vec![1.0, 0.0], vec![0.0, 1.0], vec![9.0, 9.0]], 2, Met::L2, 1.25, usize::MAX >> 2);
        c.ctor = Ctor::Default;
        c.unchecked = true;
        one_config(em, &c);
    }
    // tolerance whose square underflows (L2 compares squared distances): duplicates are within any positive
    // tolerance of each other
    one_config(em, &{
        let mut c = plain(vec![vec![1.0], vec![1.0], vec![1.0], vec![5.0]], 1, Met::L2, 1e-200, 2);
        c.ext = "tiny";
        c
    });
    for _ in 0..configs {
        let (mut pts, p, kind, hint) = gen_points(em, rng);
        let f32_ = rng.chance(1, 3);
        let n = pts.len();
        // metric: the three of the statement; a parameterised Lp only to make the dist_fn setter observable
        let ctor = *rng.pick(&[Ctor::With, Ctor::With, Ctor::Default, Ctor::Default, Ctor::Setters, Ctor::Setters, Ctor::Struct]);
        let m = if ctor == Ctor::Setters && rng.coin() { *rng.pick(&[Met::Lp15, Met::Lp3]) } else { *rng.pick(&[Met::L1, Met::L2, Met::Linf]) };
        // "tiny": lattice coordinates in units of 2^-14, so that DBSCAN's default tolerance 1e-4 separates
        // one step (6.1e-5) from two
        let tiny = kind != "generic" && kind != "zero_features" && rng.chance(1, 10);
        if tiny {
            for r in pts.iter_mut() {
                for c in r.iter_mut() {
                    *c *= 1.0 / 16384.0;
                }
            }
        }
        for r in pts.iter_mut() {
            for c in r.iter_mut() {
                *c = round_ty(*c, f32_);
            }
        }
        let (mut tol, _) = gen_tol(rng, &pts, m);
        let mut mp = if rng.chance(1, 15) {
            n + 1 + rng.below(2)
        } else if rng.chance(1, 10) {
            // far above n: whatever is sized, indexed or cast by `min_points`
            *rng.pick(&[258usize, 65_538, (1 << 32) + 2, (1 << 61) + 3, usize::MAX >> 2, usize::MAX - 1, usize::MAX])
        } else if n >= 6 && rng.chance(1, 5) {
            // large min_points, up to n
            6 + rng.below(n - 5)
        } else {
            2 + rng.below(4)
        }
        .max(2);
        let mp_huge = mp >= 258 && mp > n + 2;
        if let Some((t, k)) = hint {
            if !mp_huge && rng.chance(3, 4) {
                tol = if tiny { t / 16384.0 } else { t };
                mp = k;
            }
        }
        let mut notol_db = false;
        if tiny && rng.chance(2, 3) {
            tol = 1e-4;
            notol_db = rng.chance(2, 3);
        }
        // extreme tolerances (and a small coordinate scale): the reduced form of the tolerance (`tol^2` for L2)
        // under- or overflows
        let mut ext = "";
        if !tiny && kind != "generic" && kind != "zero_features" && rng.chance(1, 5) {
            let (sc, t, e): (f64, f64, &'static str) = match (f32_, rng.below(4)) {
                (false, 0) => (1.0, 1e-200, "tiny"),
                (false, 1) => (1e-150, 1e-200, "tiny"),
                (false, 2) => (1e-150, 3e-150 * rng.range(1, 3) as f64 + 0.5e-150, "smallscale"),
                (false, _) => (1.0, 1e200, "huge"),
                (true, 0) | (true, 1) => (1.0, 1e-30, "tiny"),
                (true, 2) => (1.0 / 1073741824.0, (3.0 * rng.range(1, 3) as f64 + 0.5) / 1073741824.0, "smallscale"),
                (true, _) => (1.0, 1e30, "huge"),
            };
            for r in pts.iter_mut() {
                for c in r.iter_mut() {
                    *c = round_ty(*c * sc, f32_);
                }
            }
            tol = t;
            notol_db = false;
            ext = e;
        }
        tol = round_ty(tol, f32_);
        let notol_op = tol.is_infinite() && rng.chance(3, 4);
        let lay = *rng.pick(&[Lay::C, Lay::C, Lay::C, Lay::F, Lay::T, Lay::Strided, Lay::RowStep]);
        let dataset = rng.chance(1, 4);
        let unchecked = rng.chance(1, 4);
        em.count(&format!("kind:{}", kind));
        if tiny {
            em.count("tiny_scale");
        }
        one_config(em, &Cfg { pts, p, kind, m, tol, mp, f32: f32_, lay, dataset, ctor, notol_db, notol_op, unchecked, ext });
    }
}

/// hyper-parameter glue: constructors, setters, `check` / `check_ref`, accessors, and the unchecked
/// `params.transform(x) -> Result` on a three-sample dataset
fn params_grid(em: &mut Em) {
    let tols: [f64; 10] = [-1.0, -0.0, 0.0, 1e-300, 1e-30, 0.5, 1e-4, f64::INFINITY, f64::NEG_INFINITY, f64::NAN];
    for algo in ["dbscan", "optics"] {
        for f32_ in [false, true] {
            for mp in [0usize, 1, 2, 3, 17] {
                for ctor in [Ctor::With, Ctor::Default, Ctor::Setters] {
                    for k in 0..=tols.len() {
                        let notol = k == tols.len();
                        let tol = if notol { 0.0 } else { round_ty(tols[k], f32_) };
                        let ty = if f32_ { "f32" } else { "f64" };
                        let tol_s = if tol.is_nan() { "nan".to_string() } else { hex64(tol) };
                        // a NaN tolerance is outside the statement's quantifier (the code accepts it: `NaN <= 0` is
                        // false); whether it is accepted or rejected is promised by nothing: oracle-only request
                        // (no panic, `check` = `check_ref` = unchecked `transform`), not compared with the model
                        let unpromised = tol.is_nan() && !notol;
                        if unpromised {
                            em.count("params:nan_tolerance_not_compared");
                        }
                        let op = format!("{}params algo={} ty={} mp={} tol={} notol={} ctor={}", if unpromised { "#" } else { "" }, algo, ty, mp, tol_s, notol as u8, ctor.name());
                        let class = format!("params:{}:ty={}:ctor={}", algo, ty, ctor.name());
                        em.case_valid(op, &class, |ctx| if f32_ { params_case::<f32>(ctx, &class, algo, mp, tol, notol, ctor) } else { params_case::<f64>(ctx, &class, algo, mp, tol, notol, ctor) });
                    }
                }
            }
        }
    }
}
/// `unbounded` from the largest finite value of the scalar type on (`F::infinity()` in the code, `f64::MAX` in
/// the doc comment of `Optics::params`: the same neighbourhoods on finite records)
fn show_tol<F: Float>(t: F) -> String {
    if t.is_nan() {
        "nan".to_string()
    } else if t >= F::max_value() {
        "unbounded".to_string()
    } else {
        hex64(f64of(t))
    }
}
fn params_case<F: Float>(ctx: &mut Ctx, class: &str, algo: &str, mp: usize, tol: f64, notol: bool, ctor: Ctor) -> String {
    let kd = CommonNearestNeighbour::KdTree;
    // what the statement's guard says: min_points >= 2, tolerance > 0
    let tol_eff = if notol { if algo == "dbscan" { f64of(F::cast(1e-4)) } else { f64::INFINITY } } else { tol };
    let valid = mp >= 2 && tol_eff > 0.0;
    let nan = tol_eff.is_nan();
    let both_invalid = mp <= 1 && tol_eff <= 0.0;
    // three samples, two of them within any positive tolerance >= 1 of each other
    let x = Array2::from_shape_fn((3, 1), |(i, _)| F::cast([0.0, 0.25, 9.0][i]));
    if algo == "dbscan" {
        let b = match ctor {
            Ctor::With | Ctor::Struct => Dbscan::params_with::<F, _, _>(mp, L2Dist, kd.clone()),
            Ctor::Default => Dbscan::params::<F>(mp),
            Ctor::Setters => Dbscan::params_with::<F, _, _>(mp, L2Dist, CommonNearestNeighbour::LinearSearch).dist_fn(L2Dist).nn_algo(kd.clone()),
        };
        let b = if notol { b } else { b.tolerance(F::cast(tol)) };
        let by_ref = b.check_ref().is_ok();
        // the unchecked form runs the guard too: Err exactly when `check` says so, with the same error
        let unchecked: Option<Result<Array1<Option<usize>>, DbscanParamsError>> = if nan { None } else { Some(b.transform(&x)) };
        let r = b.check();
        ctx.require(by_ref == r.is_ok(), "params_guard", class, || "check_ref and check disagree".to_string());
        if !nan {
            ctx.require(r.is_ok() == valid, "params_guard", class, || format!("min_points {} tolerance {}: accepted={}, the guard says {}", mp, tol_eff, r.is_ok(), valid));
        }
        if let Some(unchecked) = &unchecked {
            let same = match (unchecked, &r) {
                (Ok(l), Ok(v)) => *l == v.transform(&x),
                (Err(DbscanParamsError::MinPoints), Err(DbscanParamsError::MinPoints)) | (Err(DbscanParamsError::Tolerance), Err(DbscanParamsError::Tolerance)) => true,
                _ => false,
            };
            ctx.require(same, "unchecked_form", class, || format!("params.transform(x) gave {:?}, check() then transform gives something else (accepted={})", unchecked, r.is_ok()));
        }
        match r {
            Ok(v) => {
                // the index and the distance that were passed in explicitly must come back; what `params(mp)`
                // chooses by default is not the statement's business
                if ctor != Ctor::Default {
                    ctx.require(*v.nn_algo() == kd && *v.dist_fn() == L2Dist, "params_accessors", class, || format!("nn_algo {:?}", v.nn_algo()));
                }
                format!("ok mp={} tol={}", v.minimum_points(), show_tol(v.tolerance()))
            }
            Err(_) if both_invalid => "err invalid".to_string(),
            Err(DbscanParamsError::MinPoints) => "err MinPoints".to_string(),
            Err(DbscanParamsError::Tolerance) => "err Tolerance".to_string(),
        }
    } else {
        let b = match ctor {
            Ctor::With | Ctor::Struct => Optics::params_with::<F, _, _>(mp, L2Dist, kd.clone()),
            Ctor::Default => Optics::params::<F>(mp),
            Ctor::Setters => Optics::params_with::<F, _, _>(mp, L2Dist, CommonNearestNeighbour::LinearSearch).dist_fn(L2Dist).nn_algo(kd.clone()),
        };
        let b = if notol { b } else { b.tolerance(F::cast(tol)) };
        let by_ref = b.check_ref().is_ok();
        let unchecked: Option<Result<OpticsAnalysis<F>, OpticsError>> = if nan { None } else { Some(b.transform(x.view())) };
        let r = b.check();
        ctx.require(by_ref == r.is_ok(), "params_guard", class, || "check_ref and check disagree".to_string());
        if !nan {
            ctx.require(r.is_ok() == valid, "params_guard", class, || format!("min_points {} tolerance {}: accepted={}, the guard says {}", mp, tol_eff, r.is_ok(), valid));
        }
        if let Some(unchecked) = &unchecked {
            let same = match (unchecked, &r) {
                (Ok(l), Ok(v)) => *l == v.transform(x.view()),
                (Err(_), Err(_)) => true,
                _ => false,
            };
            ctx.require(same, "unchecked_form", class, || format!("params.transform(x) accepted={}, check() accepted={}", unchecked.is_ok(), r.is_ok()));
        }
        match r {
            Ok(v) => {
                if ctor != Ctor::Default {
                    ctx.require(*v.nn_algo() == kd && *v.dist_fn() == L2Dist, "params_accessors", class, || format!("nn_algo {:?}", v.nn_algo()));
                }
                format!("ok mp={} tol={}", v.minimum_points(), show_tol(v.tolerance()))
            }
            // one error kind for either parameter (the message wording is not compared)
            Err(OpticsError::InvalidValue(_)) => "err InvalidValue".to_string(),
        }
    }
}

fn one_config(em: &mut Em, cfg: &Cfg) {
    let (pts, p, m, tol, mp) = (&cfg.pts, cfg.p, cfg.m, cfg.tol, cfg.mp);
    let n = pts.len();
    let main = margin(pts, m, tol) >= if cfg.f32 { 1e-5 } else { 1e-9 };
    let stream = if main { "main" } else { "radius" };
    let ty = if cfg.f32 { "f32" } else { "f64" };
    em.count(&format!("stream:{}", stream));
    em.count(&format!("metric:{}", m.name()));
    em.count(&format!("n:{}", if n == 0 { "0" } else if n <= 4 { "1-4" } else if n <= 16 { "5-16" } else if n <= 64 { ">16" } else { ">64" }));
    em.count(&format!("mp:{}", if mp >= 258 && mp > n + 2 { "far_above_n".to_string() } else if mp > n { ">n".to_string() } else if mp >= 6 { "6..n".to_string() } else { mp.to_string() }));
    if !cfg.ext.is_empty() {
        em.count(&format!("tolerance:{}", cfg.ext));
    }
    if cfg.unchecked {
        em.count("form:unchecked");
    }
    em.count(&format!("features:{}", if p >= 4 { "4-6".to_string() } else { p.to_string() }));
    em.count(&format!("ty:{}", ty));
    em.count(&format!("lay:{}", cfg.lay.name()));
    em.count(&format!("ctor:{}", cfg.ctor.name()));
    if cfg.dataset {
        em.count("form:dataset");
    }
    if cfg.notol_db {
        em.count("dbscan_default_tolerance");
    }
    if cfg.notol_op {
        em.count("optics_default_tolerance");
    }
    let feat = if p == 0 { "0" } else { "pos" };
    let refc = reference(cfg);
    // L2 compares squared distances with the squared tolerance: a tolerance whose square is 0 in the scalar
    // type puts nothing in range, not even a duplicate (open finding; class token `tol=sq_underflow`)
    let sq_underflow = m == Met::L2 && tol > 0.0 && if cfg.f32 { (tol as f32) * (tol as f32) == 0.0 } else { tol * tol == 0.0 };
    if sq_underflow {
        em.count("tolerance:sq_underflow");
    }
    let tail = format!(
        "pts={} tol={} metric={} ty={} lay={} form={} ctor={} call={} notol={}{}",
        list2(pts.iter().map(|r| r.iter()), |c| hex64(*c)),
        hex64(tol),
        m.name(),
        ty,
        cfg.lay.name(),
        if cfg.dataset { "dataset" } else { "array" },
        cfg.ctor.name(),
        if cfg.unchecked { "unchecked" } else { "checked" },
        cfg.notol_db as u8,
        cfg.notol_op as u8
    );
    let mut nb_linear: Option<Vec<Vec<usize>>> = None;
    for (ix, ixname) in IDX.iter() {
        let ctor_eff = if cfg.ctor == Ctor::Default && !(m == Met::L2 && *ixname == "kdtree") { Ctor::With } else { cfg.ctor };
        let cls = |algo: &str| format!("{}:index={}:metric={}:feat={}:stream={}:ty={}:lay={}:ctor={}{}", algo, ixname, m.name(), feat, stream, ty, cfg.lay.name(), ctor_eff.name(), if sq_underflow { ":tol=sq_underflow" } else { "" });
        let obs = catch_unwind(AssertUnwindSafe(|| observe_c(cfg, ix)));
        let real = match obs {
            Ok(r) => r,
            Err(_) => {
                let c = cls("nbrs");
                em.case_valid(format!("#nbrs n={} mp={} tol={} index={} metric={}", n, mp, hex64(tol), ixname, m.name()), &c, |_| panic!("within_range panicked"));
                continue;
            }
        };
        if !real.zd {
            let tot: usize = real.nb.iter().map(|l| l.len()).sum();
            em.count_n("neighbour_pairs", tot as u64);
            if real.nb.iter().enumerate().any(|(i, l)| l.windows(2).any(|w| real.dm[i][w[0]] > real.dm[i][w[1]])) {
                em.count(&format!("unsorted_neighbours:{}", ixname));
            }
        }
        if !real.zd {
            // does this index return the neighbours in another order than the linear scan?  (a tree of one
            // leaf does not: the power of `index_independent` to see an order dependence rests on this)
            if *ixname == "linear" {
                nb_linear = Some(real.nb.clone());
            } else if let Some(l) = &nb_linear {
                let same_sets = l.iter().zip(&real.nb).all(|(a, b)| {
                    let (mut a, mut b) = (a.clone(), b.clone());
                    a.sort();
                    b.sort();
                    a == b
                });
                if same_sets && *l != real.nb {
                    em.count(&format!("order_differs_from_linear:{}", ixname));
                }
            }
        }
        // the hypotheses of the theorems (`hrange`, `hnd`, `hsym`) on the recorded query results, and — on
        // stream=main — that they are the neighbourhoods of the definition `{j | d(i,j) < tol}` (`rangeQuery`)
        if !real.zd && main {
            let c0 = cls("nbrs");
            let c = c0.clone();
            let nb = real.nb.clone();
            let (ptsc, sq) = (pts.clone(), sq_underflow);
            em.case_valid(format!("#nbrs n={} index={} {}", n, ixname, tail), &c0, move |ctx| {
                let n = nb.len();
                let range = nb.iter().all(|l| l.iter().all(|&j| j < n));
                ctx.require(range, "query_hypotheses", &c, || "a query returned a position outside the dataset".to_string());
                if range {
                    let nodup = nb.iter().all(|l| {
                        let mut v = l.clone();
                        v.sort();
                        v.windows(2).all(|w| w[0] != w[1])
                    });
                    ctx.require(nodup, "query_hypotheses", &c, || "a query returned a position twice".to_string());
                    let sym = (0..n).all(|i| nb[i].iter().all(|&j| nb[j].contains(&i)));
                    ctx.require(sym, "query_hypotheses", &c, || "the recorded relation is not symmetric".to_string());
                    if !sq {
                        for i in 0..n {
                            let want: Vec<usize> = (0..n).filter(|&j| m.my(&ptsc[i], &ptsc[j]) < tol).collect();
                            let mut got = nb[i].clone();
                            got.sort();
                            ctx.require(got == want, "range_query", &c, || format!("sample {}: within_range returned {:?}, the samples at distance < tolerance are {:?}", i, got, want));
                        }
                    }
                }
                "ok".to_string()
            });
        }
        let adj = neighbourhood(pts, m, tol, main, &real);
        if adj.is_none() {
            em.count("oracle_skipped:radius_relation_unusable");
        } else {
            em.count(&format!("oracle_judged:{}", stream));
        }
        if let (Some(a), true) = (&adj, *ixname == "linear") {
            // shape of the instance (textbook terms), for the distribution record
            let core: Vec<bool> = (0..n).map(|i| a[i].iter().filter(|b| **b).count() >= mp).collect();
            let ncore = core.iter().filter(|b| **b).count();
            let border = (0..n).filter(|&i| !core[i] && (0..n).any(|j| a[i][j] && core[j])).count();
            let noise = n - ncore - border;
            let labels_ref = if p == 0 { vec![None; n] } else { catch_unwind(AssertUnwindSafe(|| dbscan_c(&refc, ix).labels)).unwrap_or(vec![None; n]) };
            let nclu = labels_ref.iter().filter_map(|l| *l).max().map(|c| c + 1).unwrap_or(0);
            em.count(&format!("clusters:{}", if nclu >= 3 { ">=3".to_string() } else { nclu.to_string() }));
            if border > 0 {
                em.count("with_border_points");
            }
            if noise > 0 && ncore > 0 {
                em.count("with_noise_and_clusters");
            }
            // border point in range of cores of two different clusters
            let shared = labels_ref.len() == n
                && (0..n).any(|i| {
                    !core[i] && {
                        let mut ls: Vec<usize> = (0..n).filter(|&j| a[i][j] && core[j]).filter_map(|j| labels_ref[j]).collect();
                        ls.sort();
                        ls.dedup();
                        ls.len() >= 2
                    }
                });
            if shared {
                em.count("with_border_point_between_two_clusters");
            }
        }
        let zd = real.zd as u8;
        let nb_s = list2(real.nb.iter().map(|l| l.iter()), |j| j.to_string());
        let nd_s = list2(real.nd.iter().map(|l| l.iter()), |d| hex64(*d));
        // ---- DBSCAN
        {
            let op = format!("dbscan n={} mp={} zd={} nb={} index={} {}", n, mp, zd, nb_s, ixname, tail);
            let c0 = cls("dbscan");
            let ran = Cell::new(false);
            em.case_valid(op, &c0, |ctx| {
                let out = dbscan_c(cfg, ix);
                let labels = out.labels;
                // zero features: the listed finding is "everything is noise"; anything else is a different failure
                let c = if p == 0 || sq_underflow { format!("{}:out={}", c0, if labels.iter().all(|l| l.is_none()) { "all_noise" } else { "other" }) } else { c0.clone() };
                ctx.require(out.records_kept, "dataset_form", &c, || "the dataset returned by transform(DatasetBase) does not carry the records passed in".to_string());
                ctx.require(out.accessors_ok, "params_accessors", &c, || "minimum_points / tolerance / dist_fn / nn_algo of the checked parameters do not show what was configured".to_string());
                if let Some(adj) = &adj {
                    oracle_dbscan(ctx, &c, adj, mp, &labels);
                }
                if main && !(*ixname == "linear" && *cfg == refc) {
                    let lin = dbscan_c(&refc, &CommonNearestNeighbour::LinearSearch).labels;
                    ctx.require(lin == labels, "index_independent", &c, || format!("labels with {} ({}, {}, {}) {:?}, with the linear scan on the plain form {:?}", ixname, cfg.lay.name(), ctor_eff.name(), if cfg.dataset { "dataset" } else { "array" }, labels, lin));
                }
                if labels.iter().all(|l| l.is_none()) {
                    ctx.mark_trivial();
                }
                ran.set(true);
                format!("ok {} c={}{}", canon_labels(&real.nb, mp, &labels), n_clusters(&labels), if cfg.dataset { if out.records_kept { " rec=1" } else { " rec=0" } } else { "" })
            });
            if ran.get() {
                em.count(&format!("ran:dbscan:ty={}:lay={}:ctor={}:form={}", ty, cfg.lay.name(), ctor_eff.name(), if cfg.dataset { "dataset" } else { "array" }));
                em.count(&format!("ran:dbscan:index={}:lay={}", ixname, cfg.lay.name()));
                if cfg.notol_db {
                    em.count("ran:dbscan:default_tolerance");
                }
            }
        }
        // ---- OPTICS
        {
            let op = format!("optics n={} mp={} zd={} nb={} nd={} index={} {}", n, mp, zd, nb_s, nd_s, ixname, tail);
            let c0 = cls("optics");
            let ran = Cell::new(false);
            let tie_free = Cell::new(false);
            em.case_valid(op, &c0, |ctx| {
                let res = optics_c(cfg, ix);
                let out = res.out;
                let c = if p == 0 || sq_underflow { format!("{}:out={}", c0, if out.iter().all(|e| e.1.is_none() && e.2.is_none()) { "all_undefined" } else { "other" }) } else { c0.clone() };
                ctx.require(res.accessors_agree, "accessors", &c, || "OpticsAnalysis::as_slice / iter / index do not show the same samples".to_string());
                ctx.require(res.accessors_ok, "params_accessors", &c, || "minimum_points / tolerance / dist_fn / nn_algo of the checked parameters do not show what was configured".to_string());
                if !real.zd && out.len() == n {
                    tie_free.set(!seed_tie(&out, &real.nb, &real.dm));
                }
                if let Some(adj) = &adj {
                    oracle_optics(ctx, &c, adj, &real.dm, mp, &out);
                }
                if main && !(*ixname == "linear" && *cfg == refc) {
                    let lin = optics_c(&refc, &CommonNearestNeighbour::LinearSearch).out;
                    ctx.require(lin == out, "index_independent", &c, || format!("ordering with {} ({}, {}) {}, with the linear scan on the plain form {}", ixname, cfg.lay.name(), ctor_eff.name(), show_optics(&out), show_optics(&lin)));
                }
                if out.iter().all(|e| e.1.is_none()) {
                    ctx.mark_trivial();
                }
                ran.set(true);
                // `margin`: 1 on this side; the model writes 0 when it met a tie between seeds
                format!("ok {} margin=~{}", show_optics(&out), hex64(1.0))
            });
            if ran.get() {
                em.count(&format!("ran:optics:ty={}:lay={}:ctor={}", ty, cfg.lay.name(), ctor_eff.name()));
                em.count(&format!("ran:optics:index={}:lay={}", ixname, cfg.lay.name()));
                if cfg.notol_op {
                    em.count("ran:optics:default_tolerance");
                }
                // orderings free of seed ties are the ones the correspondence compares exactly (the rest is
                // `tie_skipped`): a floor on this count is the ceiling on the skipped share
                em.count(if tie_free.get() { "optics_ordering:no_seed_tie" } else { "optics_ordering:seed_tie_or_zero_features" });
            }
        }
        // ---- the same two runs in the terms of the definition: the model is run on `rangeQuery dist tol n`
        // with the full distance matrix of the real `dist_fn` (linear scan, stream=main, up to 40 samples)
        if *ixname == "linear" && main && !real.zd && !sq_underflow && n <= 40 {
            let dm_s = list2(real.dm.iter().map(|l| l.iter()), |d| hex64(*d));
            let nb_show = list2(real.nb.iter().map(|l| l.iter()), |j| j.to_string());
            let c0 = cls("dbscan");
            em.case_valid(format!("dbscanrq n={} mp={} tol={} dm={} {}", n, mp, hex64(tol), dm_s, tail), &c0, |_| {
                let labels = dbscan_c(cfg, ix).labels;
                format!("ok nb={} {} c={}", nb_show, canon_labels(&real.nb, mp, &labels), n_clusters(&labels))
            });
            let c0 = cls("optics");
            em.case_valid(format!("opticsrq n={} mp={} tol={} dm={} {}", n, mp, hex64(tol), dm_s, tail), &c0, |_| {
                let out = optics_c(cfg, ix).out;
                format!("ok {} margin=~{}", show_optics(&out), hex64(1.0))
            });
            em.count("ran:definition_form");
        }
    }
}
