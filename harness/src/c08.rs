//! C08 — DBSCAN and OPTICS against the density-clustering definition.
//!
//! Per configuration (point set, metric, tolerance, min_points) and per neighbour index the harness
//! records what `within_range` returns for every sample (order kept) and the distances the real
//! `dist_fn` computes for those pairs, runs the real `Dbscan` / `Optics` transform, and emits
//!   `dbscan n= mp= zd= nb=`            -> `ok <labels>`
//!   `optics n= mp= zd= nb= nd=`        -> `ok idx:core:reach;…`
//! The Lean model is run on the same neighbour lists / distances, so every comparison is exact.
//!
//! Oracle (textbook definition, recomputed by brute force):
//!   stream=main   : the tolerance is separated from every inter-point distance (relative margin
//!                   >= 1e-9); the neighbourhood is `{j | d(i,j) < tol}` computed here from the
//!                   coordinates, and the result must also be identical to the linear-scan run.
//!   stream=radius : the tolerance equals (or is within 1e-9 of) an inter-point distance — whether such
//!                   a point is "within" is the border question of C07; here the neighbourhood is
//!                   the recorded query result (if symmetric) and indices are not compared.
use crate::util::*;
use linfa::traits::Transformer;
use linfa::ParamGuard;
use linfa_clustering::{Dbscan, Optics};
use linfa_nn::distance::{Distance, L1Dist, L2Dist, LInfDist};
use linfa_nn::{BuildError, CommonNearestNeighbour, NearestNeighbour};
use ndarray::Array2;
use std::panic::{catch_unwind, AssertUnwindSafe};

#[derive(Clone, Copy, PartialEq)]
enum Met {
    L1,
    L2,
    Linf,
}
impl Met {
    fn name(self) -> &'static str {
        match self {
            Met::L1 => "L1",
            Met::L2 => "L2",
            Met::Linf => "Linf",
        }
    }
    /// distance from the coordinates, written out here (not linfa's)
    fn my(self, a: &[f64], b: &[f64]) -> f64 {
        match self {
            Met::L1 => a.iter().zip(b).fold(0.0, |s, (x, y)| s + (x - y).abs()),
            Met::L2 => a.iter().zip(b).fold(0.0, |s, (x, y)| s + (x - y) * (x - y)).sqrt(),
            Met::Linf => a.iter().zip(b).fold(0.0, |s, (x, y)| f64::max(s, (x - y).abs())),
        }
    }
}

const IDX: [(CommonNearestNeighbour, &str); 3] = [
    (CommonNearestNeighbour::LinearSearch, "linear"),
    (CommonNearestNeighbour::KdTree, "kdtree"),
    (CommonNearestNeighbour::BallTree, "balltree"),
];

type OptOut = Vec<(usize, Option<f64>, Option<f64>)>;

/// everything observed from the real code for one (points, metric, index, tol, mp)
#[derive(Clone)]
struct Real {
    zd: bool,
    nb: Vec<Vec<usize>>,
    nd: Vec<Vec<f64>>,
    /// full distance matrix by the real dist_fn (oracle values)
    dm: Vec<Vec<f64>>,
}

fn arr(pts: &[Vec<f64>], p: usize) -> Array2<f64> {
    Array2::from_shape_fn((pts.len(), p), |(i, j)| pts[i][j])
}

fn observe<D: Distance<f64> + Clone>(x: &Array2<f64>, d: D, ix: &CommonNearestNeighbour, tol: f64) -> Real {
    let n = x.nrows();
    // records without features: linfa's distance functions reject empty views; the distance of two
    // empty vectors is 0
    let dm: Vec<Vec<f64>> = if x.ncols() == 0 { vec![vec![0.0; n]; n] } else { (0..n).map(|i| (0..n).map(|j| d.distance(x.row(i), x.row(j))).collect()).collect() };
    match ix.from_batch(x, d.clone()) {
        Err(BuildError::ZeroDimension) => Real { zd: true, nb: vec![], nd: vec![], dm },
        Err(e) => panic!("index build: {}", e),
        Ok(nn) => {
            let nb: Vec<Vec<usize>> = (0..n).map(|i| nn.within_range(x.row(i), tol).unwrap().into_iter().map(|(_, j)| j).collect()).collect();
            let nd = nb.iter().enumerate().map(|(i, l)| l.iter().map(|&j| dm[i][j]).collect()).collect();
            Real { zd: false, nb, nd, dm }
        }
    }
}

fn run_dbscan<D: Distance<f64> + Clone>(x: &Array2<f64>, d: D, ix: &CommonNearestNeighbour, tol: f64, mp: usize) -> Vec<Option<usize>> {
    let params = Dbscan::params_with::<f64, _, _>(mp, d, ix.clone()).tolerance(tol).check_unwrap();
    params.transform(x).to_vec()
}

fn run_optics<D: Distance<f64> + Clone>(x: &Array2<f64>, d: D, ix: &CommonNearestNeighbour, tol: f64, mp: usize) -> OptOut {
    let params = Optics::params_with::<f64, _, _>(mp, d, ix.clone()).tolerance(tol).check_unwrap();
    let res = params.transform(x.view());
    res.iter().map(|s| (s.index(), *s.core_distance(), *s.reachability_distance())).collect()
}

macro_rules! with_metric {
    ($m:expr, $f:ident ( $($a:expr),* )) => {
        match $m {
            Met::L1 => $f($($a),*, L1Dist),
            Met::L2 => $f($($a),*, L2Dist),
            Met::Linf => $f($($a),*, LInfDist),
        }
    };
}
fn observe_m(x: &Array2<f64>, ix: &CommonNearestNeighbour, tol: f64, m: Met) -> Real {
    fn go<D: Distance<f64> + Clone>(x: &Array2<f64>, ix: &CommonNearestNeighbour, tol: f64, d: D) -> Real {
        observe(x, d, ix, tol)
    }
    with_metric!(m, go(x, ix, tol))
}
fn dbscan_m(x: &Array2<f64>, ix: &CommonNearestNeighbour, tol: f64, mp: usize, m: Met) -> Vec<Option<usize>> {
    fn go<D: Distance<f64> + Clone>(x: &Array2<f64>, ix: &CommonNearestNeighbour, tol: f64, mp: usize, d: D) -> Vec<Option<usize>> {
        run_dbscan(x, d, ix, tol, mp)
    }
    with_metric!(m, go(x, ix, tol, mp))
}
fn optics_m(x: &Array2<f64>, ix: &CommonNearestNeighbour, tol: f64, mp: usize, m: Met) -> OptOut {
    fn go<D: Distance<f64> + Clone>(x: &Array2<f64>, ix: &CommonNearestNeighbour, tol: f64, mp: usize, d: D) -> OptOut {
        run_optics(x, d, ix, tol, mp)
    }
    with_metric!(m, go(x, ix, tol, mp))
}

fn show_labels(l: &[Option<usize>]) -> String {
    list(l.iter(), |x| match x {
        Some(c) => c.to_string(),
        None => "-".to_string(),
    })
}
fn show_opt(x: &Option<f64>) -> String {
    match x {
        Some(v) => hex64(*v),
        None => "-".to_string(),
    }
}
fn show_optics(o: &OptOut) -> String {
    o.iter().map(|(i, c, r)| format!("{}:{}:{}", i, show_opt(c), show_opt(r))).collect::<Vec<_>>().join(";")
}

// ------------------------------------------------------------------------------------------ oracle

/// neighbourhood relation the oracle judges against: `Some(adjacency)` or `None` when the recorded
/// relation is unusable (asymmetric / irreflexive on the radius stream)
fn neighbourhood(pts: &[Vec<f64>], m: Met, tol: f64, main: bool, real: &Real) -> Option<Vec<Vec<bool>>> {
    let n = pts.len();
    if main {
        Some((0..n).map(|i| (0..n).map(|j| m.my(&pts[i], &pts[j]) < tol).collect()).collect())
    } else {
        if real.zd {
            return None;
        }
        let mut a = vec![vec![false; n]; n];
        for (i, l) in real.nb.iter().enumerate() {
            for &j in l {
                a[i][j] = true;
            }
        }
        let ok = (0..n).all(|i| a[i][i] && (0..n).all(|j| a[i][j] == a[j][i]));
        if ok {
            Some(a)
        } else {
            None
        }
    }
}

fn oracle_dbscan(ctx: &mut Ctx, class: &str, adj: &[Vec<bool>], mp: usize, labels: &[Option<usize>]) {
    let n = adj.len();
    ctx.require(labels.len() == n, "shape", class, || format!("{} labels for {} samples", labels.len(), n));
    if labels.len() != n {
        return;
    }
    let core: Vec<bool> = (0..n).map(|i| adj[i].iter().filter(|b| **b).count() >= mp).collect();
    // labelled <=> core or within the tolerance of a core point
    for i in 0..n {
        let reach = core[i] || (0..n).any(|j| adj[i][j] && core[j]);
        ctx.require(labels[i].is_some() == reach, "labelled_iff", class, || {
            format!("sample {}: label {:?}, core={}, in range of a core point={}", i, labels[i], core[i], reach)
        });
    }
    // adjacent core points share a label
    for i in 0..n {
        for j in 0..n {
            if core[i] && core[j] && adj[i][j] {
                ctx.require(labels[i] == labels[j], "core_adjacent_same", class, || format!("core samples {} and {} are within the tolerance, labels {:?} / {:?}", i, j, labels[i], labels[j]));
            }
        }
    }
    // components of the core graph
    let mut comp = vec![usize::MAX; n];
    let mut nc = 0;
    for s in 0..n {
        if core[s] && comp[s] == usize::MAX {
            let mut st = vec![s];
            comp[s] = nc;
            while let Some(u) = st.pop() {
                for v in 0..n {
                    if core[v] && adj[u][v] && comp[v] == usize::MAX {
                        comp[v] = nc;
                        st.push(v);
                    }
                }
            }
            nc += 1;
        }
    }
    for i in 0..n {
        for j in 0..i {
            if core[i] && core[j] && comp[i] != comp[j] {
                ctx.require(labels[i] != labels[j] || labels[i].is_none(), "components_differ", class, || format!("core samples {} and {} lie in different density-connected components, both labelled {:?}", i, j, labels[i]));
            }
        }
    }
    // a border point carries the label of a core point that reaches it
    for i in 0..n {
        if !core[i] && labels[i].is_some() {
            let ok = (0..n).any(|j| adj[i][j] && core[j] && labels[j] == labels[i]);
            ctx.require(ok, "border_label", class, || format!("border sample {} labelled {:?}, no core point with that label within the tolerance", i, labels[i]));
        }
    }
    // ids 0..c-1 without gaps
    let mut ids: Vec<usize> = labels.iter().filter_map(|x| *x).collect();
    ids.sort();
    ids.dedup();
    ctx.require(ids.iter().enumerate().all(|(k, v)| k == *v), "ids_contiguous", class, || format!("cluster ids in use: {:?}", ids));
}

fn oracle_optics(ctx: &mut Ctx, class: &str, adj: &[Vec<bool>], dm: &[Vec<f64>], mp: usize, out: &OptOut) {
    let n = adj.len();
    // every sample exactly once
    let mut seen = vec![0usize; n];
    for (i, _, _) in out {
        if *i < n {
            seen[*i] += 1;
        }
    }
    let once = out.len() == n && seen.iter().all(|c| *c == 1);
    ctx.require(once, "each_once", class, || format!("ordering lists {:?}", out.iter().map(|x| x.0).collect::<Vec<_>>()));
    if !once {
        return;
    }
    let mut pos = vec![0usize; n];
    let mut cd = vec![None; n];
    for (k, (i, c, _)) in out.iter().enumerate() {
        pos[*i] = k;
        cd[*i] = *c;
    }
    // core distance = distance to the min_points-th nearest neighbour (self included) if within the tolerance
    for i in 0..n {
        let mut ds: Vec<f64> = (0..n).filter(|j| adj[i][*j]).map(|j| dm[i][j]).collect();
        ds.sort_by(|a, b| a.partial_cmp(b).unwrap());
        let want = ds.get(mp - 1).copied();
        ctx.require(cd[i] == want, "core_distance", class, || format!("sample {}: core distance {:?}, distance to its {}-th nearest neighbour within the tolerance {:?} (sorted in-range distances {:?})", i, cd[i], mp, want, ds));
    }
    // reachability: undefined, or max(core(o), d(o,x)) for a core o within the tolerance listed no later
    for (x, _, r) in out {
        if let Some(r) = r {
            let ok = (0..n).any(|o| cd[o].is_some() && adj[*x][o] && pos[o] <= pos[*x] && f64::max(cd[o].unwrap(), dm[o][*x]) == *r);
            ctx.require(ok, "reachability_witness", class, || format!("sample {} (position {}): reachability {} has no witness", x, pos[*x], r));
        }
    }
}

// -------------------------------------------------------------------------------------- generators

/// (points, features, kind, optional (tolerance, min_points) the shape was built for)
fn gen_points(em: &mut Em, rng: &mut Rng) -> (Vec<Vec<f64>>, usize, &'static str, Option<(f64, usize)>) {
    let big = rng.chance(1, 4);
    let nmax = if em.thorough() { if big { 70 } else { 16 } } else if big { 36 } else { 12 };
    let nmin = if big { 17 } else { 0 };
    let n = rng.range(nmin as i64, nmax as i64) as usize;
    let scale = *rng.pick(&[1.0, 1.0, 0.5, 0.25, 4.0]);
    let kind = rng.below(12);
    let mut hint: Option<(f64, usize)> = None;
    let mut p = 1 + rng.below(3);
    let mut pts: Vec<Vec<i64>> = vec![];
    let name: &'static str;
    match kind {
        0 => {
            name = "chain";
            // 1-D chain with gaps 1,1,1,2,3 along the first axis
            let mut x = 0i64;
            for _ in 0..n {
                let mut v = vec![0i64; p];
                v[0] = x;
                pts.push(v);
                x += *rng.pick(&[0, 1, 1, 1, 2, 3]);
            }
        }
        1 => {
            name = "ring";
            p = 2;
            let s = 2 + rng.below(4) as i64;
            let mut ring = vec![];
            for t in 0..s {
                ring.push(vec![t, 0]);
                ring.push(vec![s, t]);
                ring.push(vec![s - t, s]);
                ring.push(vec![0, s - t]);
            }
            rng.shuffle(&mut ring);
            for i in 0..n {
                if i < ring.len() {
                    pts.push(ring[i].clone());
                } else {
                    // centre blob
                    pts.push(vec![s / 2 + rng.range(0, 1), s / 2]);
                }
            }
        }
        2 => {
            name = "touching";
            // two clumps and a bridge point between them
            let gap = 2 + rng.below(3) as i64;
            for i in 0..n {
                let mut v = vec![0i64; p];
                match i % 5 {
                    0 | 1 => v[0] = -gap - rng.range(0, 1),
                    2 | 3 => v[0] = gap + rng.range(0, 1),
                    _ => v[0] = rng.range(-1, 1),
                }
                if p > 1 {
                    v[1] = rng.range(0, 1);
                }
                pts.push(v);
            }
        }
        3 => {
            name = "duplicates";
            let sites = 1 + rng.below(4);
            let s: Vec<Vec<i64>> = (0..sites).map(|_| (0..p).map(|_| rng.range(0, 4)).collect()).collect();
            for _ in 0..n {
                pts.push(rng.pick(&s).clone());
            }
        }
        4 | 5 => {
            name = "lattice";
            let b = 2 + rng.below(5) as i64;
            for _ in 0..n {
                pts.push((0..p).map(|_| rng.range(0, b)).collect());
            }
        }
        6 => {
            name = "noise";
            let b = 2 + rng.below(3) as i64;
            for i in 0..n {
                if i % 3 == 0 {
                    pts.push((0..p).map(|_| rng.range(-50, 50)).collect());
                } else {
                    pts.push((0..p).map(|_| rng.range(0, b)).collect());
                }
            }
        }
        7 => {
            name = "zero_features";
            p = 0;
            for _ in 0..n {
                pts.push(vec![]);
            }
        }
        8 | 9 => {
            name = "clumps";
            // several tight clumps far apart, a few stray samples
            let c = 2 + rng.below(4);
            let axis = rng.below(p);
            let per = (n / c).max(1);
            for i in 0..n {
                let k = (i / per).min(c - 1) as i64;
                let mut v: Vec<i64> = (0..p).map(|_| rng.range(0, 1)).collect();
                v[axis] += 10 * k;
                if rng.chance(1, 10) {
                    v[axis] += 4;
                }
                pts.push(v);
            }
            hint = Some((*rng.pick(&[1.5, 2.5]) * scale, 2 + rng.below(3)));
        }
        10 => {
            name = "bridge";
            // two clusters and a sample in range of a core point of each, itself not core:
            // mp samples at 0, one at 1, the bridge at 3, one at 5, mp samples at 6; tolerance 2.5
            let mp = 4 + rng.below(2);
            let mut xs: Vec<i64> = vec![];
            for _ in 0..mp {
                xs.push(0);
                xs.push(6);
            }
            xs.extend([1, 3, 5]);
            if rng.coin() {
                xs.extend([20, 30]);
            }
            for x in xs {
                let mut v = vec![0i64; p];
                v[0] = x;
                pts.push(v);
            }
            hint = Some((2.5 * scale, mp));
        }
        _ => {
            name = "generic";
            // float cloud: log-uniform scale, offset, near-duplicates
            let sc = 10f64.powf(rng.unit() * 12.0 - 6.0);
            let off = if rng.coin() { 0.0 } else { sc * 100.0 };
            let mut f: Vec<Vec<f64>> = vec![];
            for i in 0..n {
                if i > 0 && rng.chance(1, 5) {
                    let k = rng.below(i);
                    let mut v = f[k].clone();
                    if rng.coin() {
                        v[0] += sc * 1e-3;
                    }
                    f.push(v);
                } else {
                    f.push((0..p).map(|_| off + sc * (rng.unit() * 4.0 - 2.0)).collect());
                }
            }
            rng.shuffle(&mut f);
            return (f, p, name, None);
        }
    }
    rng.shuffle(&mut pts);
    (pts.into_iter().map(|v| v.into_iter().map(|c| c as f64 * scale).collect()).collect(), p, name, hint)
}

/// (tolerance, intended stream)
fn gen_tol(rng: &mut Rng, pts: &[Vec<f64>], m: Met) -> (f64, bool) {
    let n = pts.len();
    let mut v: Vec<f64> = vec![];
    for i in 0..n {
        for j in 0..i {
            let d = m.my(&pts[i], &pts[j]);
            if d > 0.0 {
                v.push(d);
            }
        }
    }
    v.sort_by(|a, b| a.partial_cmp(b).unwrap());
    v.dedup();
    if v.is_empty() {
        return (*rng.pick(&[0.5, 1.0, 3.0]), true);
    }
    if rng.chance(1, 25) {
        return (f64::INFINITY, true);
    }
    let k = if rng.coin() { rng.below(v.len().min(3)) } else { rng.below(v.len().min(8)) };
    if rng.chance(1, 4) {
        // on the radius
        (v[k], false)
    } else if k == 0 && rng.coin() {
        (v[0] / 2.0, true)
    } else if k + 1 < v.len() {
        ((v[k] + v[k + 1]) / 2.0, true)
    } else {
        (v[k] * 1.5, true)
    }
}

/// relative margin between the tolerance and the nearest inter-point distance
fn margin(pts: &[Vec<f64>], m: Met, tol: f64) -> f64 {
    if tol.is_infinite() {
        return f64::INFINITY;
    }
    let mut best = f64::INFINITY;
    for i in 0..pts.len() {
        for j in 0..=i {
            let d = m.my(&pts[i], &pts[j]);
            best = best.min((d - tol).abs() / tol);
        }
    }
    best
}

pub fn run(em: &mut Em, rng: &mut Rng) {
    let configs = if em.thorough() { 25000 } else { 1500 };
    // the design's witness for the neighbour-order dependence of the OPTICS core distance first
    one_config(em, vec![vec![0.0], vec![3.0], vec![0.5], vec![2.5], vec![1.0], vec![9.0], vec![9.5]], 1, "witness", Met::L2, 2.75, 3);
    one_config(em, vec![vec![0.0, 0.0], vec![3.0, 4.0], vec![6.0, 8.0], vec![3.0, 4.0]], 2, "witness", Met::L2, 5.0, 2);
    // start sample listed after the samples it reaches (before the fix): sample 4 had reachability 4 from sample 1 listed later
    one_config(em, vec![vec![6.0], vec![2.0], vec![5.0], vec![0.0], vec![6.0]], 1, "witness", Met::L2, 5.5, 5);
    for _ in 0..configs {
        let (pts, p, kind, hint) = gen_points(em, rng);
        let m = *rng.pick(&[Met::L1, Met::L2, Met::Linf]);
        let (mut tol, _) = gen_tol(rng, &pts, m);
        let n = pts.len();
        let mut mp = if rng.chance(1, 15) { n + 1 + rng.below(2) } else { 2 + rng.below(4) }.max(2);
        if let Some((t, k)) = hint {
            if rng.chance(3, 4) {
                tol = t;
                mp = k;
            }
        }
        one_config(em, pts, p, kind, m, tol, mp);
    }
}

fn one_config(em: &mut Em, pts: Vec<Vec<f64>>, p: usize, kind: &'static str, m: Met, tol: f64, mp: usize) {
    let n = pts.len();
    let x = arr(&pts, p);
    let main = margin(&pts, m, tol) >= 1e-9;
    let stream = if main { "main" } else { "radius" };
    em.count(&format!("kind:{}", kind));
    em.count(&format!("stream:{}", stream));
    em.count(&format!("metric:{}", m.name()));
    em.count(&format!("n:{}", if n == 0 { "0" } else if n <= 4 { "1-4" } else if n <= 16 { "5-16" } else { ">16" }));
    em.count(&format!("mp:{}", if mp > n { ">n".to_string() } else { mp.to_string() }));
    let feat = if p == 0 { "0" } else { "pos" };
    for (ix, ixname) in IDX.iter() {
        let cls = |algo: &str| format!("{}:index={}:metric={}:feat={}:stream={}", algo, ixname, m.name(), feat, stream);
        let obs = catch_unwind(AssertUnwindSafe(|| observe_m(&x, ix, tol, m)));
        let real = match obs {
            Ok(r) => r,
            Err(_) => {
                let c = cls("nbrs");
                em.case_valid(format!("#nbrs n={} mp={} tol={} index={} metric={}", n, mp, hex64(tol), ixname, m.name()), &c, |_| panic!("within_range panicked"));
                continue;
            }
        };
        if !real.zd {
            let tot: usize = real.nb.iter().map(|l| l.len()).sum();
            em.count_n("neighbour_pairs", tot as u64);
            if real.nb.iter().enumerate().any(|(i, l)| l.windows(2).any(|w| real.dm[i][w[0]] > real.dm[i][w[1]])) {
                em.count(&format!("unsorted_neighbours:{}", ixname));
            }
        }
        let adj = neighbourhood(&pts, m, tol, main, &real);
        if adj.is_none() {
            em.count("oracle_skipped:radius_relation_unusable");
        }
        if let (Some(a), true) = (&adj, *ixname == "linear") {
            // shape of the instance (textbook terms), for the distribution record
            let core: Vec<bool> = (0..n).map(|i| a[i].iter().filter(|b| **b).count() >= mp).collect();
            let ncore = core.iter().filter(|b| **b).count();
            let border = (0..n).filter(|&i| !core[i] && (0..n).any(|j| a[i][j] && core[j])).count();
            let noise = n - ncore - border;
            let labels_ref = if p == 0 { vec![None; n] } else { dbscan_m(&x, ix, tol, mp, m) };
            let nclu = labels_ref.iter().filter_map(|l| *l).max().map(|c| c + 1).unwrap_or(0);
            em.count(&format!("clusters:{}", if nclu >= 3 { ">=3".to_string() } else { nclu.to_string() }));
            if border > 0 {
                em.count("with_border_points");
            }
            if noise > 0 && ncore > 0 {
                em.count("with_noise_and_clusters");
            }
            // border point in range of cores of two different clusters
            let shared = (0..n).any(|i| {
                !core[i] && {
                    let mut ls: Vec<usize> = (0..n).filter(|&j| a[i][j] && core[j]).filter_map(|j| labels_ref[j]).collect();
                    ls.sort();
                    ls.dedup();
                    ls.len() >= 2
                }
            });
            if shared {
                em.count("with_border_point_between_two_clusters");
            }
        }
        let zd = real.zd as u8;
        let nb_s = list2(real.nb.iter().map(|l| l.iter()), |j| j.to_string());
        let nd_s = list2(real.nd.iter().map(|l| l.iter()), |d| hex64(*d));
        // ---- DBSCAN
        {
            let op = format!("dbscan n={} mp={} zd={} nb={} pts={} tol={} metric={} index={}", n, mp, zd, nb_s, list2(pts.iter().map(|r| r.iter()), |c| hex64(*c)), hex64(tol), m.name(), ixname);
            let c = cls("dbscan");
            em.case_valid(op, &c, |ctx| {
                let labels = dbscan_m(&x, ix, tol, mp, m);
                if let Some(adj) = &adj {
                    oracle_dbscan(ctx, &c, adj, mp, &labels);
                }
                if main && *ixname != "linear" {
                    let lin = dbscan_m(&x, &CommonNearestNeighbour::LinearSearch, tol, mp, m);
                    ctx.require(lin == labels, "index_independent", &c, || format!("labels with {} {:?}, with the linear scan {:?}", ixname, labels, lin));
                }
                if labels.iter().all(|l| l.is_none()) {
                    ctx.mark_trivial();
                }
                format!("ok {}", show_labels(&labels))
            });
        }
        // ---- OPTICS
        {
            let op = format!("optics n={} mp={} zd={} nb={} nd={} pts={} tol={} metric={} index={}", n, mp, zd, nb_s, nd_s, list2(pts.iter().map(|r| r.iter()), |c| hex64(*c)), hex64(tol), m.name(), ixname);
            let c = cls("optics");
            em.case_valid(op, &c, |ctx| {
                let out = optics_m(&x, ix, tol, mp, m);
                if let Some(adj) = &adj {
                    oracle_optics(ctx, &c, adj, &real.dm, mp, &out);
                }
                if main && *ixname != "linear" {
                    let lin = optics_m(&x, &CommonNearestNeighbour::LinearSearch, tol, mp, m);
                    ctx.require(lin == out, "index_independent", &c, || format!("ordering with {} {}, with the linear scan {}", ixname, show_optics(&out), show_optics(&lin)));
                }
                if out.iter().all(|e| e.1.is_none()) {
                    ctx.mark_trivial();
                }
                format!("ok {}", show_optics(&out))
            });
        }
    }
}
