//! C01 — K-fold: `fold`, `iter_fold`, `cross_validate(_single)` on tagged datasets.
//!
//! Record cell (id, j) = id*p + j, target cell (id, c) = 100000 + id*t + c (exact in f64 and f32), so
//! any mis-pairing or lost row is visible.  The same tagging is rebuilt by the Lean driver from
//! (n, p, t), so request lines stay short.
//!
//! Variants driven (round 2): memory layouts of records / targets (`C` row-major, `F` column-major,
//! `S` strided slice of a larger array, `R` reversed rows = negative stride), element types
//! (records f64/f32, targets f64/f32/usize), storage (owned `Array`, read-only / mutable views,
//! `ArcArray`), `CountedTargets` (label recount of the folded parts), accumulator `FACC` f64/f32,
//! `k > 255`, no candidate model at all, several `linfa::Error` variants out of the evaluation closure.
//!
//! What is compared with the model is what the statement promises: the training part of a pair as a
//! multiset of (record, target) rows (printed sorted), the validation part in order; requests
//! outside the property's guard `2 <= k <= n` are run but answered `unguarded` on both sides;
//! when several scripted cells of a cross-validation fail, any one of them may surface.
use crate::util::*;
use linfa::dataset::{AsTargets, CountedTargets, DatasetBase, DatasetView, Labels, TargetDim};
use linfa::traits::{Fit, PredictInplace};
use ndarray::{s, Array, Array1, Array2, ArrayView, ArrayView1, ArrayView2, Axis, Dimension, Ix1, Ix2, ShapeBuilder};
use std::cell::RefCell;
use std::panic::{catch_unwind, AssertUnwindSafe};

const TBASE: usize = 100000;
const JUNK: usize = 7_000_000;

// ---------------------------------------------------------------- element types and layouts

trait El: Copy + Clone + PartialEq + std::fmt::Debug + 'static {
    const NAME: &'static str;
    fn of(x: usize) -> Self;
    fn id(self) -> u64;
}
impl El for f64 {
    const NAME: &'static str = "f64";
    fn of(x: usize) -> Self {
        x as f64
    }
    fn id(self) -> u64 {
        self as u64
    }
}
impl El for f32 {
    const NAME: &'static str = "f32";
    fn of(x: usize) -> Self {
        x as f32
    }
    fn id(self) -> u64 {
        self as u64
    }
}
impl El for usize {
    const NAME: &'static str = "usize";
    fn of(x: usize) -> Self {
        x
    }
    fn id(self) -> u64 {
        self as u64
    }
}

/// an owned `n x cols` array whose LOGICAL cell (i, j) is `f(i, j)`, stored in layout `lay`
fn build2_with<A: El>(n: usize, cols: usize, lay: char, f: impl Fn(usize, usize) -> A) -> Array2<A> {
    match lay {
        'C' => Array2::from_shape_fn((n, cols), |(i, j)| f(i, j)),
        'F' => Array2::from_shape_fn((n, cols).f(), |(i, j)| f(i, j)),
        'S' => {
            // every second row and every second column of a larger row-major array
            let big = Array2::from_shape_fn((2 * n, 2 * cols + 1), |(i, j)| if i % 2 == 0 && j % 2 == 1 { f(i / 2, j / 2) } else { A::of(JUNK + i + j) });
            big.slice_move(s![..;2, 1..;2])
        }
        'R' => {
            let mut a = Array2::from_shape_fn((n, cols), |(i, j)| f(n - 1 - i, j));
            a.invert_axis(Axis(0));
            a
        }
        _ => unreachable!(),
    }
}
fn build1_with<A: El>(n: usize, lay: char, f: impl Fn(usize) -> A) -> Array1<A> {
    match lay {
        'C' | 'F' => Array1::from_shape_fn(n, |i| f(i)),
        'S' => {
            let big = Array1::from_shape_fn(2 * n + 1, |i| if i % 2 == 1 { f(i / 2) } else { A::of(JUNK + i) });
            big.slice_move(s![1..;2])
        }
        'R' => {
            let mut a = Array1::from_shape_fn(n, |i| f(n - 1 - i));
            a.invert_axis(Axis(0));
            a
        }
        _ => unreachable!(),
    }
}
fn recs_l<A: El>(n: usize, p: usize, lay: char) -> Array2<A> {
    build2_with(n, p, lay, |i, j| A::of(i * p + j))
}

/// target dimension (Ix1 / Ix2) specific construction and read-out
trait TD: TargetDim + Dimension {
    const D: usize;
    fn build_with<B: El>(n: usize, t: usize, lay: char, f: impl Fn(usize, usize) -> B) -> Array<B, Self>;
    fn rows<B: El>(a: &ArrayView<B, Self>) -> Vec<Vec<u64>>;
}
impl TD for Ix1 {
    const D: usize = 1;
    fn build_with<B: El>(n: usize, _t: usize, lay: char, f: impl Fn(usize, usize) -> B) -> Array1<B> {
        build1_with(n, lay, |i| f(i, 0))
    }
    fn rows<B: El>(a: &ArrayView1<B>) -> Vec<Vec<u64>> {
        a.iter().map(|x| vec![x.id()]).collect()
    }
}
impl TD for Ix2 {
    const D: usize = 2;
    fn build_with<B: El>(n: usize, t: usize, lay: char, f: impl Fn(usize, usize) -> B) -> Array2<B> {
        build2_with(n, t, lay, f)
    }
    fn rows<B: El>(a: &ArrayView2<B>) -> Vec<Vec<u64>> {
        rows2(a)
    }
}
fn tgts_l<B: El, I: TD>(n: usize, t: usize, lay: char) -> Array<B, I> {
    I::build_with(n, t, lay, |i, c| B::of(TBASE + i * t + c))
}

fn rows2<A: El>(a: &ArrayView2<A>) -> Vec<Vec<u64>> {
    a.rows().into_iter().map(|r| r.iter().map(|x| x.id()).collect()).collect()
}
fn show_rows(r: &[Vec<u64>]) -> String {
    list2(r.iter().map(|x| x.iter()), |x| x.to_string())
}
fn flat(v: &[Vec<u64>]) -> Vec<u64> {
    v.iter().flatten().copied().collect()
}
/// the statement promises the training part as a multiset of (record, target) rows: canonical order
fn sort_paired(r: &[Vec<u64>], t: &[Vec<u64>]) -> (Vec<Vec<u64>>, Vec<Vec<u64>>) {
    if r.len() != t.len() {
        return (r.to_vec(), t.to_vec());
    }
    let mut z: Vec<(Vec<u64>, Vec<u64>)> = r.iter().cloned().zip(t.iter().cloned()).collect();
    z.sort();
    z.into_iter().unzip()
}
fn guard(n: usize, k: usize) -> bool {
    k >= 2 && k <= n
}
fn nk_class(what: &str, n: usize, k: usize) -> String {
    format!("{}:n_mod_k={}", what, if k > 0 && n % k == 0 { "0" } else { "nonzero" })
}

type Rows = Vec<Vec<u64>>;
type Pair = (Rows, Rows, Rows, Rows);

/// naive oracle for one (train, valid) pair: disjoint, union = everything, block position, pairing.
/// `exp_t(id)` is the target row that belongs to record `id`.
fn oracle_pair(ctx: &mut Ctx, what: &str, n: usize, k: usize, p: usize, i: usize, pair: (&[Vec<u64>], &[Vec<u64>], &[Vec<u64>], &[Vec<u64>]), exp_t: &dyn Fn(usize) -> Vec<u64>) {
    let (tr_r, tr_t, va_r, va_t) = pair;
    let fs = n / k;
    let class = nk_class(what, n, k);
    let id_of_r = |row: &Vec<u64>| -> Option<usize> {
        if row.len() != p || p == 0 {
            return None;
        }
        let id = (row[0] as usize) / p;
        if id < n && row.iter().enumerate().all(|(j, v)| *v as usize == id * p + j) {
            Some(id)
        } else {
            None
        }
    };
    let mut seen = vec![0usize; n];
    let mut check_side = |ctx: &mut Ctx, rr: &[Vec<u64>], tt: &[Vec<u64>], side: &str| -> Vec<usize> {
        let mut ids = vec![];
        ctx.require(rr.len() == tt.len(), "pairing", &class, || format!("{} fold {}: {} records vs {} targets", side, i, rr.len(), tt.len()));
        for (a, b) in rr.iter().zip(tt.iter()) {
            match id_of_r(a) {
                Some(x) if exp_t(x) == *b => {
                    seen[x] += 1;
                    ids.push(x);
                }
                _ => ctx.fail("pairing", &class, format!("{} fold {}: record {:?} with target {:?}", side, i, a, b)),
            }
        }
        ids
    };
    let _tr_ids = check_side(ctx, tr_r, tr_t, "train");
    let va_ids = check_side(ctx, va_r, va_t, "valid");
    ctx.require(seen.iter().all(|c| *c == 1), "partition", &class, || format!("fold {}: multiplicities {:?}", i, seen));
    let want_va: Vec<usize> = (i * fs..(i + 1) * fs).collect();
    ctx.require(va_ids == want_va, "valid_block", &class, || format!("fold {}: validation ids {:?}, want {:?}", i, va_ids, want_va));
    // the tail n - k*fs is training-only: implied by partition + valid_block (every id once, block i validated)
}

#[derive(Clone, Copy)]
struct Cfg {
    n: usize,
    k: usize,
    p: usize,
    t: usize,
    dim: usize,
    own: u8, // 0 view (fold: ArrayView, iter_fold/cv: ArrayViewMut), 1 owned Array, 2 ArcArray
    lr: char,
    lt: char,
    er: &'static str,
    et: &'static str,
}
impl Cfg {
    fn base(n: usize, k: usize, p: usize, t: usize, dim: usize, own: u8) -> Cfg {
        Cfg { n, k, p, t: if dim == 1 { 1 } else { t }, dim, own, lr: 'C', lt: 'C', er: "f64", et: "f64" }
    }
    fn line(&self) -> String {
        format!("n={} k={} p={} t={} dim={} own={} lr={} lt={} er={} et={}", self.n, self.k, self.p, self.t, self.dim, self.own, self.lr, self.lt, self.er, self.et)
    }
    fn random(rng: &mut Rng, n: usize, k: usize, counted: bool) -> Cfg {
        let dim = 1 + rng.below(2);
        let lays = ['C', 'C', 'F', 'S', 'R'];
        Cfg {
            n,
            k,
            p: 1 + rng.below(4),
            t: if dim == 1 { 1 } else { 1 + rng.below(3) },
            dim,
            own: rng.below(3) as u8,
            lr: *rng.pick(&lays),
            lt: *rng.pick(&lays),
            er: if rng.chance(1, 3) { "f32" } else { "f64" },
            et: if counted { "usize" } else { *rng.pick(&["f64", "f64", "f32", "usize"]) },
        }
    }
}

// ---------------------------------------------------------------- fold

fn fold_run<A: El, B: El, I: TD>(c: &Cfg) -> Vec<Pair> {
    let r = recs_l::<A>(c.n, c.p, c.lr);
    let tg = tgts_l::<B, I>(c.n, c.t, c.lt);
    let f = match c.own {
        1 => DatasetBase::new(r, tg).fold(c.k),
        2 => DatasetBase::new(r.into_shared(), tg.into_shared()).fold(c.k),
        _ => DatasetBase::new(r.view(), tg.view()).fold(c.k),
    };
    f.iter().map(|(tr, va)| (rows2(&tr.records().view()), I::rows(&tr.targets().view()), rows2(&va.records().view()), I::rows(&va.targets().view()))).collect()
}
fn fold_dispatch(c: &Cfg) -> Vec<Pair> {
    macro_rules! go {
        ($a:ty, $b:ty) => {
            if c.dim == 1 {
                fold_run::<$a, $b, Ix1>(c)
            } else {
                fold_run::<$a, $b, Ix2>(c)
            }
        };
    }
    match (c.er, c.et) {
        ("f64", "f64") => go!(f64, f64),
        ("f64", "f32") => go!(f64, f32),
        ("f64", "usize") => go!(f64, usize),
        ("f32", "f64") => go!(f32, f64),
        ("f32", "f32") => go!(f32, f32),
        ("f32", "usize") => go!(f32, usize),
        _ => unreachable!(),
    }
}

fn op_fold(em: &mut Em, c: Cfg) {
    let op = format!("fold {}", c.line());
    let (n, k, p, t) = (c.n, c.k, c.p, c.t);
    if !guard(n, k) {
        // outside the property's guard: exercised, not compared (the statement promises nothing here)
        let mut outcome = "";
        em.case(op, |_ctx| {
            outcome = if catch_unwind(AssertUnwindSafe(|| fold_dispatch(&c))).is_ok() { "unguarded:fold:returned" } else { "unguarded:fold:panic" };
            "unguarded".to_string()
        });
        em.count(outcome);
        return;
    }
    let class = format!("fold:targets={}", if c.dim == 2 && t > 1 { "multi" } else { "single" });
    let mut ok = false;
    em.case_valid(op, &class, |ctx| {
        let pairs = fold_dispatch(&c);
        ctx.require(pairs.len() == k, "fold_count", "fold", || format!("{} pairs for k={}", pairs.len(), k));
        let exp_t = |id: usize| -> Vec<u64> { (0..t).map(|cc| (TBASE + id * t + cc) as u64).collect() };
        for (i, (a, b, cc, d)) in pairs.iter().enumerate() {
            oracle_pair(ctx, "fold", n, k, p, i, (a, b, cc, d), &exp_t);
        }
        ok = true;
        let parts: Vec<String> = pairs
            .iter()
            .map(|(a, b, cc, d)| {
                let (a, b) = sort_paired(a, b);
                format!("TR:{}/TT:{}/VR:{}/VT:{}", show_rows(&a), show_rows(&b), show_rows(cc), show_rows(d))
            })
            .collect();
        format!("ok {}", parts.join(" "))
    });
    if ok {
        em.count(&format!("ok:fold:lr={}", c.lr));
        em.count(&format!("ok:fold:lt={}", c.lt));
        em.count(&format!("ok:fold:own={}", c.own));
        em.count(&format!("ok:fold:er={}", c.er));
        em.count(&format!("ok:fold:et={}", c.et));
        em.count(&format!("ok:fold:dim={}", c.dim));
        em.count(if n % k == 0 { "ok:fold:n_mod_k=0" } else { "ok:fold:n_mod_k=nonzero" });
    }
}

// ---------------------------------------------------------------- fold on CountedTargets

const NLAB: usize = 4;
fn label_of(id: usize, c: usize) -> usize {
    (id * id + 3 * c + id / 3) % NLAB
}
type CPair = (Rows, Rows, Vec<Vec<u64>>, Rows, Rows, Vec<Vec<u64>>);

fn counts_of<I: TD, T: Labels<Elem = usize>>(ctx: &mut Ctx, what: &str, t: usize, tg: &T) -> Vec<Vec<u64>> {
    let lc = tg.label_count();
    ctx.require(lc.len() == t, "label_recount", "fold_counted", || format!("{}: {} label maps for {} target columns", what, lc.len(), t));
    lc.iter()
        .map(|m| {
            ctx.require(m.iter().all(|(l, c)| *l < NLAB && *c > 0), "label_recount", "fold_counted", || format!("{}: label map {:?} has a foreign label or a zero count", what, m));
            (0..NLAB).map(|l| *m.get(&l).unwrap_or(&0) as u64).collect()
        })
        .collect()
}
fn fold_counted_run<I: TD>(ctx: &mut Ctx, c: &Cfg) -> Vec<CPair> {
    macro_rules! body {
        ($a:ty) => {{
            let r = recs_l::<$a>(c.n, c.p, c.lr);
            let tg: Array<usize, I> = I::build_with(c.n, c.t, c.lt, |i, cc| label_of(i, cc));
            let f = match c.own {
                0 => DatasetBase::new(r.view(), CountedTargets::new(tg.view())).fold(c.k),
                _ => DatasetBase::new(r, CountedTargets::new(tg)).fold(c.k),
            };
            f.iter()
                .enumerate()
                .map(|(i, (tr, va))| {
                    let ct = counts_of::<I, _>(ctx, &format!("train {}", i), c.t, tr.targets());
                    let cv = counts_of::<I, _>(ctx, &format!("valid {}", i), c.t, va.targets());
                    (rows2(&tr.records().view()), I::rows(&tr.targets().as_targets()), ct, rows2(&va.records().view()), I::rows(&va.targets().as_targets()), cv)
                })
                .collect()
        }};
    }
    if c.er == "f32" {
        body!(f32)
    } else {
        body!(f64)
    }
}

fn op_fold_counted(em: &mut Em, c: Cfg) {
    let op = format!("fold_counted {}", c.line());
    let (n, k, p, t) = (c.n, c.k, c.p, c.t);
    let mut ok = false;
    em.case_valid(op, "fold_counted", |ctx| {
        let pairs = if c.dim == 1 { fold_counted_run::<Ix1>(ctx, &c) } else { fold_counted_run::<Ix2>(ctx, &c) };
        ctx.require(pairs.len() == k, "fold_count", "fold_counted", || format!("{} pairs for k={}", pairs.len(), k));
        let exp_t = |id: usize| -> Vec<u64> { (0..t).map(|cc| label_of(id, cc) as u64).collect() };
        let recount = |rr: &Rows| -> Vec<Vec<u64>> {
            (0..t).map(|cc| (0..NLAB).map(|l| rr.iter().filter(|row| p > 0 && !row.is_empty() && label_of(row[0] as usize / p, cc) == l).count() as u64).collect()).collect()
        };
        for (i, (a, b, ct, cc, d, cv)) in pairs.iter().enumerate() {
            oracle_pair(ctx, "fold_counted", n, k, p, i, (a, b, cc, d), &exp_t);
            // the counts carried by each part are the counts OF that part
            ctx.require(*ct == recount(a), "label_recount", "fold_counted", || format!("fold {}: training label counts {:?}, recount {:?}", i, ct, recount(a)));
            ctx.require(*cv == recount(cc), "label_recount", "fold_counted", || format!("fold {}: validation label counts {:?}, recount {:?}", i, cv, recount(cc)));
        }
        ok = true;
        let parts: Vec<String> = pairs
            .iter()
            .map(|(a, b, ct, cc, d, cv)| {
                let (a, b) = sort_paired(a, b);
                format!("TR:{}/TT:{}/CT:{}/VR:{}/VT:{}/CV:{}", show_rows(&a), show_rows(&b), show_rows(ct), show_rows(cc), show_rows(d), show_rows(cv))
            })
            .collect();
        format!("ok {}", parts.join(" "))
    });
    if ok {
        em.count("ok:fold_counted");
        em.count(&format!("ok:fold_counted:dim={}", c.dim));
    }
}

// ---------------------------------------------------------------- iter_fold

struct IterOut {
    trains: Vec<(Rows, Rows)>,
    valids: Vec<(Rows, Rows)>,
    fin_r: Rows,
    fin_t: Rows,
}

fn iter_fold_run<A: El, B: El, I: TD>(c: &Cfg) -> IterOut {
    let mut r = recs_l::<A>(c.n, c.p, c.lr);
    let mut tg = tgts_l::<B, I>(c.n, c.t, c.lt);
    let trains: RefCell<Vec<(Rows, Rows)>> = RefCell::new(vec![]);
    let clo = |tr: &DatasetView<A, B, I>| {
        trains.borrow_mut().push((rows2(&tr.records().view()), I::rows(&tr.targets().view())));
    };
    let (valids, fin_r, fin_t) = match c.own {
        1 => {
            let mut ds = DatasetBase::new(r, tg);
            let v: Vec<(Rows, Rows)> = ds.iter_fold(c.k, clo).map(|(_, va)| (rows2(&va.records().view()), I::rows(&va.targets().view()))).collect();
            (v, rows2(&ds.records().view()), I::rows(&ds.targets().view()))
        }
        2 => {
            // shared storage with a second handle alive: the in-place swaps must not leak into it either
            let (rs, ts) = (r.into_shared(), tg.into_shared());
            let (r2, t2) = (rs.clone(), ts.clone());
            let mut ds = DatasetBase::new(rs, ts);
            let v: Vec<(Rows, Rows)> = ds.iter_fold(c.k, clo).map(|(_, va)| (rows2(&va.records().view()), I::rows(&va.targets().view()))).collect();
            let _ = (r2.len(), t2.len());
            (v, rows2(&ds.records().view()), I::rows(&ds.targets().view()))
        }
        _ => {
            let v: Vec<(Rows, Rows)> = {
                let mut ds = DatasetBase::new(r.view_mut(), tg.view_mut());
                let v = ds.iter_fold(c.k, clo).map(|(_, va)| (rows2(&va.records().view()), I::rows(&va.targets().view()))).collect();
                v
            };
            (v, rows2(&r.view()), I::rows(&tg.view()))
        }
    };
    IterOut { trains: trains.into_inner(), valids, fin_r, fin_t }
}
fn iter_fold_dispatch(c: &Cfg) -> IterOut {
    macro_rules! go {
        ($a:ty, $b:ty) => {
            if c.dim == 1 {
                iter_fold_run::<$a, $b, Ix1>(c)
            } else {
                iter_fold_run::<$a, $b, Ix2>(c)
            }
        };
    }
    match (c.er, c.et) {
        ("f64", "f64") => go!(f64, f64),
        ("f64", "f32") => go!(f64, f32),
        ("f64", "usize") => go!(f64, usize),
        ("f32", "f64") => go!(f32, f64),
        ("f32", "f32") => go!(f32, f32),
        ("f32", "usize") => go!(f32, usize),
        _ => unreachable!(),
    }
}
/// is the array of this shape and layout "contiguous and in standard order" (what `iter_fold` documents)?
fn is_std(c: &Cfg) -> (bool, bool) {
    let r = recs_l::<f64>(c.n, c.p, c.lr).is_standard_layout();
    let t = if c.dim == 1 { tgts_l::<f64, Ix1>(c.n, c.t, c.lt).is_standard_layout() } else { tgts_l::<f64, Ix2>(c.n, c.t, c.lt).is_standard_layout() };
    (r, t)
}

fn iter_fold_oracle(ctx: &mut Ctx, c: &Cfg, o: &IterOut) {
    let (n, k, p, t) = (c.n, c.k, c.p, c.t);
    ctx.require(o.trains.len() == k && o.valids.len() == k, "fold_count", "iter_fold", || format!("{} closures / {} validation views for k={}", o.trains.len(), o.valids.len(), k));
    let exp_t = |id: usize| -> Vec<u64> { (0..t).map(|cc| (TBASE + id * t + cc) as u64).collect() };
    for i in 0..k.min(o.trains.len()).min(o.valids.len()) {
        oracle_pair(ctx, "iter_fold", n, k, p, i, (&o.trains[i].0, &o.trains[i].1, &o.valids[i].0, &o.valids[i].1), &exp_t);
    }
    let want_r: Vec<u64> = (0..(n * p) as u64).collect();
    let want_t: Vec<u64> = (0..(n * t) as u64).map(|x| TBASE as u64 + x).collect();
    ctx.require(flat(&o.fin_r) == want_r && flat(&o.fin_t) == want_t, "restored", &nk_class("iter_fold", n, k), || format!("buffers after iter_fold: {:?} / {:?}", o.fin_r, o.fin_t));
}

fn op_iter_fold(em: &mut Em, c: Cfg) {
    let (n, k) = (c.n, c.k);
    let (sr, st) = is_std(&c);
    if !guard(n, k) {
        let mut outcome = "";
        em.case(format!("iter_fold {}", c.line()), |_ctx| {
            outcome = if catch_unwind(AssertUnwindSafe(|| iter_fold_dispatch(&c))).is_ok() { "unguarded:iter_fold:returned" } else { "unguarded:iter_fold:panic" };
            "unguarded".to_string()
        });
        em.count(outcome);
        return;
    }
    if !(sr && st) {
        // documented: panics unless contiguous and in standard order.  The statement is about the
        // calls that return: either the documented panic, or everything must hold.  Oracle only.
        let mut outcome = "";
        em.case_valid(format!("#iter_fold_nonstd {}", c.line()), "iter_fold_nonstd", |ctx| {
            match catch_unwind(AssertUnwindSafe(|| iter_fold_dispatch(&c))) {
                Err(_) => outcome = "nonstd:iter_fold:documented_panic",
                Ok(o) => {
                    outcome = "nonstd:iter_fold:returned";
                    iter_fold_oracle(ctx, &c, &o);
                }
            }
            "-".to_string()
        });
        em.count(outcome);
        return;
    }
    let mut ok = false;
    em.case_valid(format!("iter_fold {}", c.line()), "iter_fold", |ctx| {
        let o = iter_fold_dispatch(&c);
        iter_fold_oracle(ctx, &c, &o);
        ok = true;
        let sh = |x: &(Rows, Rows)| format!("{}/{}", list(flat(&x.0), |v| v.to_string()), list(flat(&x.1), |v| v.to_string()));
        let sh_sorted = |x: &(Rows, Rows)| sh(&sort_paired(&x.0, &x.1));
        format!(
            "ok trains={} valids={} final={}/{}",
            o.trains.iter().map(sh_sorted).collect::<Vec<_>>().join(" "),
            o.valids.iter().map(sh).collect::<Vec<_>>().join(" "),
            list(flat(&o.fin_r), |v| v.to_string()),
            list(flat(&o.fin_t), |v| v.to_string())
        )
    });
    if ok {
        em.count(&format!("ok:iter_fold:own={}", c.own));
        em.count(&format!("ok:iter_fold:er={}", c.er));
        em.count(&format!("ok:iter_fold:et={}", c.et));
        em.count(&format!("ok:iter_fold:dim={}", c.dim));
        em.count(if n % k == 0 { "ok:iter_fold:n_mod_k=0" } else { "ok:iter_fold:n_mod_k=nonzero" });
    }
}

// ---------------------------------------------------------------- cross_validate

#[derive(thiserror::Error, Debug)]
enum MockError {
    #[error("fit:{0}")]
    Fit(u32),
    #[error(transparent)]
    Linfa(#[from] linfa::error::Error),
}

/// the evaluation closure fails with different `linfa::Error` variants, selected by the code
fn eval_error(c: u32) -> linfa::error::Error {
    use linfa::error::Error as E;
    match c % 5 {
        0 => E::Parameters(format!("eval:{}", c)),
        1 => E::Priors(format!("eval:{}", c)),
        2 => E::NotConverged(format!("eval:{}", c)),
        3 => E::MismatchedShapes(c as usize, 7),
        _ => E::NotEnoughSamples,
    }
}
/// canonical name of an error that came out of cross_validate: `fit:c` / `eval:c` when it is the
/// very error value a scripted cell produced (variant and payload intact), else a description
fn canon_err(e: &MockError, scripted_eval: &[u32]) -> String {
    use linfa::error::Error as E;
    match e {
        MockError::Fit(c) => format!("fit:{}", c),
        MockError::Linfa(E::Parameters(s)) if s.strip_prefix("eval:").and_then(|x| x.parse::<u32>().ok()).map_or(false, |c| c % 5 == 0) => s.clone(),
        MockError::Linfa(E::Priors(s)) if s.strip_prefix("eval:").and_then(|x| x.parse::<u32>().ok()).map_or(false, |c| c % 5 == 1) => s.clone(),
        MockError::Linfa(E::NotConverged(s)) if s.strip_prefix("eval:").and_then(|x| x.parse::<u32>().ok()).map_or(false, |c| c % 5 == 2) => s.clone(),
        MockError::Linfa(E::MismatchedShapes(a, 7)) if a % 5 == 3 => format!("eval:{}", a),
        // NotEnoughSamples carries no payload: it names the first scripted cell that uses it (when two
        // cells use it, several cells fail and the response is `one-of-scripted` anyway)
        MockError::Linfa(E::NotEnoughSamples) => match scripted_eval.iter().find(|c| **c % 5 == 4) {
            Some(c) => format!("eval:{}", c),
            None => "eval:NotEnoughSamples".to_string(),
        },
        other => format!("foreign-error:{}", other),
    }
}

struct Script {
    n: usize,
    k: usize,
    p: usize,
    t: usize,
    fit: Vec<Vec<u32>>,
    ev: Vec<Vec<u32>>,
    vals: Vec<Vec<Vec<i64>>>,
    notes: RefCell<Vec<(String, String)>>,
    fits_seen: RefCell<Vec<(usize, usize)>>,
    evals_seen: RefCell<Vec<(usize, usize)>>,
}
impl Script {
    fn fs(&self) -> usize {
        self.n / self.k
    }
    fn note(&self, clause: &str, detail: String) {
        self.notes.borrow_mut().push((clause.into(), detail));
    }
    /// fold index from the ids present in a training view (smallest missing id / fold size)
    fn fold_of_train(&self, r: &ArrayView2<f64>) -> usize {
        let mut present = vec![false; self.n];
        for row in r.rows() {
            if row.is_empty() {
                continue;
            }
            let id = (row[0] as usize) / self.p;
            if id < self.n {
                present[id] = true;
            }
        }
        let missing = present.iter().position(|x| !*x).unwrap_or(0);
        (missing / self.fs()).min(self.k - 1)
    }
}
struct MockParams<'s> {
    s: &'s Script,
    m: usize,
}
struct MockModel<'s> {
    s: &'s Script,
    m: usize,
    fold: usize,
}

fn check_train(s: &Script, fold: usize, rec: &ArrayView2<f64>, tg: Vec<Vec<u64>>) {
    // the training view of fold `fold` must be the complement of block `fold`, rows paired
    let fs = s.fs();
    let mut seen = vec![0usize; s.n];
    let rr = rows2(rec);
    if rr.len() != tg.len() {
        s.note("pairing", format!("cv train fold {}: {} vs {}", fold, rr.len(), tg.len()));
    }
    for (a, b) in rr.iter().zip(tg.iter()) {
        let id = a[0] as usize / s.p;
        let ok_r = a.len() == s.p && a.iter().enumerate().all(|(j, v)| *v as usize == id * s.p + j);
        let ok_t = b.len() == s.t && b.iter().enumerate().all(|(c, v)| *v as usize == TBASE + id * s.t + c);
        if !(ok_r && ok_t && id < s.n) {
            s.note("pairing", format!("cv train fold {}: {:?} with {:?}", fold, a, b));
        } else {
            seen[id] += 1;
        }
    }
    let ok = (0..s.n).all(|id| seen[id] == if id / fs == fold && id < s.k * fs { 0 } else { 1 });
    if !ok {
        s.note("partition", format!("cv train fold {}: multiplicities {:?}", fold, seen));
    }
}

impl<'s> MockParams<'s> {
    fn fit_common(&self, rec: &ArrayView2<f64>, tg: Vec<Vec<u64>>) -> Result<MockModel<'s>, MockError> {
        let fold = self.s.fold_of_train(rec);
        check_train(self.s, fold, rec, tg);
        self.s.fits_seen.borrow_mut().push((fold, self.m));
        match self.s.fit[fold][self.m] {
            0 => Ok(MockModel { s: self.s, m: self.m, fold }),
            c => Err(MockError::Fit(c)),
        }
    }
}
impl<'a, 's> Fit<ArrayView2<'a, f64>, ArrayView2<'a, f64>, MockError> for MockParams<'s> {
    type Object = MockModel<'s>;
    fn fit(&self, d: &DatasetView<f64, f64, Ix2>) -> Result<Self::Object, MockError> {
        self.fit_common(&d.records().view(), rows2(&d.targets().view()))
    }
}
impl<'a, 's> Fit<ArrayView2<'a, f64>, ArrayView1<'a, f64>, MockError> for MockParams<'s> {
    type Object = MockModel<'s>;
    fn fit(&self, d: &DatasetView<f64, f64, Ix1>) -> Result<Self::Object, MockError> {
        self.fit_common(&d.records().view(), Ix1::rows(&d.targets().view()))
    }
}
impl<'s> MockModel<'s> {
    fn check_valid(&self, x: &ArrayView2<f64>) {
        let fs = self.s.fs();
        let ids: Vec<usize> = x.rows().into_iter().map(|r| r[0] as usize / self.s.p).collect();
        let want: Vec<usize> = (self.fold * fs..(self.fold + 1) * fs).collect();
        if ids != want {
            self.s.note("valid_block", format!("cv predict fold {}: ids {:?}", self.fold, ids));
        }
        let cells_ok = x.rows().into_iter().all(|r| r.len() == self.s.p && r.iter().enumerate().all(|(j, v)| *v as usize == (r[0] as usize) + j));
        if !cells_ok {
            self.s.note("pairing", format!("cv predict fold {}: validation records are not whole rows", self.fold));
        }
    }
    fn code(&self) -> f64 {
        (self.fold * 1000 + self.m) as f64
    }
}
impl<'b, 's> PredictInplace<ArrayView2<'b, f64>, Array2<f64>> for MockModel<'s> {
    fn predict_inplace<'a>(&'a self, x: &'a ArrayView2<'b, f64>, y: &mut Array2<f64>) {
        self.check_valid(x);
        y.fill(self.code());
    }
    fn default_target(&self, x: &ArrayView2<f64>) -> Array2<f64> {
        Array2::zeros((x.nrows(), self.s.t))
    }
}
impl<'b, 's> PredictInplace<ArrayView2<'b, f64>, Array1<f64>> for MockModel<'s> {
    fn predict_inplace<'a>(&'a self, x: &'a ArrayView2<'b, f64>, y: &mut Array1<f64>) {
        self.check_valid(x);
        y.fill(self.code());
    }
    fn default_target(&self, x: &ArrayView2<f64>) -> Array1<f64> {
        Array1::zeros(x.nrows())
    }
}

/// what the evaluation closure is handed: the WHOLE prediction of one model on one fold (every cell
/// the model's code, one row per validation sample) and that fold's validation targets
fn eval_common(s: &Script, pred: Vec<f64>, pred_rows: usize, truth_rows: Vec<Vec<u64>>) -> Result<Vec<f64>, linfa::error::Error> {
    let code = pred.first().copied().unwrap_or(-1.0);
    if code < 0.0 || pred.iter().any(|x| *x != code) || pred_rows != truth_rows.len() || pred.len() != pred_rows * s.t {
        s.note("eval_pairs_own_fold", format!("eval got a prediction array that is not one model's prediction on one fold: {} rows / {} cells vs {} truth rows", pred_rows, pred.len(), truth_rows.len()));
    }
    let code = code.max(0.0) as usize;
    let (pf, m) = (code / 1000, code % 1000);
    let fs = s.fs();
    let truth_ids: Vec<usize> = truth_rows.iter().map(|r| (r[0] as usize).saturating_sub(TBASE) / s.t).collect();
    let rows_ok = truth_rows.iter().zip(truth_ids.iter()).all(|(r, id)| r.len() == s.t && r.iter().enumerate().all(|(c, v)| *v as usize == TBASE + id * s.t + c));
    let fold = (truth_ids.first().copied().unwrap_or(0) / fs).min(s.k - 1);
    if pf != fold {
        s.note("eval_pairs_own_fold", format!("eval got predictions of fold {} with truths of fold {}", pf, fold));
    }
    let want: Vec<usize> = (fold * fs..(fold + 1) * fs).collect();
    if truth_ids != want || !rows_ok {
        s.note("valid_block", format!("cv eval fold {}: truth rows {:?}", fold, truth_rows));
    }
    let m = m.min(s.ev[fold].len().saturating_sub(1));
    s.evals_seen.borrow_mut().push((fold, m));
    match s.ev[fold][m] {
        0 => Ok(s.vals[fold][m].iter().map(|q| *q as f64 / 4.0).collect()),
        c => Err(eval_error(c)),
    }
}

trait Acc: linfa::Float {
    const BITS: usize;
    fn of(x: f64) -> Self;
    fn hex(self) -> String;
}
impl Acc for f64 {
    const BITS: usize = 64;
    fn of(x: f64) -> Self {
        x
    }
    fn hex(self) -> String {
        hex64(self)
    }
}
impl Acc for f32 {
    const BITS: usize = 32;
    fn of(x: f64) -> Self {
        x as f32
    }
    fn hex(self) -> String {
        hex32(self)
    }
}

struct CvCfg {
    n: usize,
    k: usize,
    p: usize,
    t: usize,
    m: usize,
    single: bool,
    acc: usize,
    own: u8,
    lr: char,
    lt: char,
}

type CvRes<FACC> = (Result<Vec<Vec<FACC>>, MockError>, Rows, Rows);

fn cv_run<FACC: Acc>(c: &CvCfg, s: &Script) -> CvRes<FACC> {
    let params: Vec<MockParams> = (0..c.m).map(|i| MockParams { s, m: i }).collect();
    let t = c.t;
    let ev1 = |pred: &Array1<f64>, truth: &ArrayView1<f64>| -> Result<FACC, linfa::error::Error> { eval_common(s, pred.to_vec(), pred.len(), Ix1::rows(truth)).map(|v| FACC::of(v[0])) };
    let ev2 = |pred: &Array2<f64>, truth: &ArrayView2<f64>| -> Result<Array1<FACC>, linfa::error::Error> { eval_common(s, pred.iter().copied().collect(), pred.nrows(), rows2(truth)).map(|v| v.into_iter().map(FACC::of).collect()) };
    let out1 = |a: Array1<FACC>| -> Vec<Vec<FACC>> { a.iter().map(|x| vec![*x]).collect() };
    let out2 = |a: Array2<FACC>| -> Vec<Vec<FACC>> { a.rows().into_iter().map(|r| r.to_vec()).collect() };
    let mut r = recs_l::<f64>(c.n, c.p, c.lr);
    if c.single {
        let mut tg = tgts_l::<f64, Ix1>(c.n, 1, c.lt);
        match c.own {
            0 => {
                let res = {
                    let mut ds = DatasetBase::new(r.view_mut(), tg.view_mut());
                    let x = ds.cross_validate_single(c.k, &params, ev1).map(out1);
                    x
                };
                (res, rows2(&r.view()), Ix1::rows(&tg.view()))
            }
            _ => {
                let mut ds = DatasetBase::new(r, tg);
                let res = ds.cross_validate_single(c.k, &params, ev1).map(out1);
                (res, rows2(&ds.records().view()), Ix1::rows(&ds.targets().view()))
            }
        }
    } else {
        let mut tg = tgts_l::<f64, Ix2>(c.n, t, c.lt);
        match c.own {
            0 => {
                let res = {
                    let mut ds = DatasetBase::new(r.view_mut(), tg.view_mut());
                    let x = ds.cross_validate(c.k, &params, ev2).map(out2);
                    x
                };
                (res, rows2(&r.view()), rows2(&tg.view()))
            }
            _ => {
                let mut ds = DatasetBase::new(r, tg);
                let res = ds.cross_validate(c.k, &params, ev2).map(out2);
                (res, rows2(&ds.records().view()), rows2(&ds.targets().view()))
            }
        }
    }
}

fn cv_oracle_and_response<FACC: Acc>(ctx: &mut Ctx, c: &CvCfg, s: &Script, out: CvRes<FACC>) -> String {
    let (res, fin_r, fin_t) = out;
    let (n, k, p, t, m) = (c.n, c.k, c.p, c.t, c.m);
    let class = nk_class("cv", n, k);
    for (clause, detail) in s.notes.borrow().iter() {
        ctx.fail(clause, &class, detail.clone());
    }
    let want_r: Vec<u64> = (0..(n * p) as u64).collect();
    let want_t: Vec<u64> = (0..(n * t) as u64).map(|x| TBASE as u64 + x).collect();
    ctx.require(flat(&fin_r) == want_r && flat(&fin_t) == want_t, "restored", &class, || format!("buffers after cross_validate: {:?} / {:?}", fin_r, fin_t));
    // scripted failing cells
    let mut failing: Vec<String> = vec![];
    let mut scripted_eval: Vec<u32> = vec![];
    for f in 0..k {
        for mi in 0..m {
            if s.fit[f][mi] != 0 {
                failing.push(format!("fit:{}", s.fit[f][mi]));
            }
            if s.ev[f][mi] != 0 {
                failing.push(format!("eval:{}", s.ev[f][mi]));
                scripted_eval.push(s.ev[f][mi]);
            }
        }
    }
    match &res {
        Ok(a) => {
            ctx.require(failing.is_empty(), "cv_error_surfaces", &class, || format!("Ok although these cells fail: {:?}", failing));
            if failing.is_empty() {
                // every model fitted once per fold and evaluated once per fold
                let mut fs_seen = s.fits_seen.borrow().clone();
                let mut es_seen = s.evals_seen.borrow().clone();
                fs_seen.sort();
                es_seen.sort();
                let all: Vec<(usize, usize)> = (0..k).flat_map(|f| (0..m).map(move |mi| (f, mi))).collect();
                ctx.require(fs_seen == all && es_seen == all, "cv_every_cell_once", &class, || format!("fits {:?} evals {:?}", fs_seen, es_seen));
                // the mean, in the accumulator's own arithmetic (quarter units: sums exact)
                let mut want = vec![vec![FACC::of(0.0); t]; m];
                for mi in 0..m {
                    for cc in 0..t {
                        let sum: i64 = (0..k).map(|f| s.vals[f][mi][cc]).sum();
                        want[mi][cc] = FACC::of(sum as f64 / 4.0) / FACC::of(k as f64);
                    }
                }
                ctx.require(*a == want, "cv_is_mean", &format!("{}:acc=f{}", class, FACC::BITS), || format!("scores {:?}, mean of per-fold evaluations {:?}", a, want));
            }
            format!("ok {}", list2(a.iter().map(|r| r.iter()), |x| x.hex()))
        }
        Err(e) => {
            let name = canon_err(e, &scripted_eval);
            ctx.require(failing.contains(&name), "cv_error_surfaces", &class, || format!("error {:?} ({}) is not the error of any failing cell {:?}", e.to_string(), name, failing));
            if failing.len() > 1 && failing.contains(&name) {
                // several cells fail: the statement lets any of them surface
                "err one-of-scripted".to_string()
            } else {
                format!("err {}", name)
            }
        }
    }
}

fn op_cv(em: &mut Em, c: CvCfg, fit: Vec<Vec<u32>>, ev: Vec<Vec<u32>>, vals: Vec<Vec<Vec<i64>>>) {
    let line = format!(
        "n={} k={} p={} t={} m={} single={} acc={} own={} lr={} lt={} fit={} ev={} vals={}",
        c.n,
        c.k,
        c.p,
        c.t,
        c.m,
        c.single as u8,
        c.acc,
        c.own,
        c.lr,
        c.lt,
        list2(fit.iter().map(|x| x.iter()), |x| x.to_string()),
        list2(ev.iter().map(|x| x.iter()), |x| x.to_string()),
        list3(vals.iter().map(|x| x.iter().map(|y| y.iter())), |x| x.to_string())
    );
    let s = Script { n: c.n, k: c.k, p: c.p, t: c.t, fit, ev, vals, notes: RefCell::new(vec![]), fits_seen: RefCell::new(vec![]), evals_seen: RefCell::new(vec![]) };
    let sr = recs_l::<f64>(c.n, c.p, c.lr).is_standard_layout();
    let st = if c.single { tgts_l::<f64, Ix1>(c.n, 1, c.lt).is_standard_layout() } else { tgts_l::<f64, Ix2>(c.n, c.t, c.lt).is_standard_layout() };
    if !guard(c.n, c.k) {
        let mut outcome = "";
        em.case(format!("cv {}", line), |_ctx| {
            let r = if c.acc == 32 { catch_unwind(AssertUnwindSafe(|| cv_run::<f32>(&c, &s).0.is_ok())) } else { catch_unwind(AssertUnwindSafe(|| cv_run::<f64>(&c, &s).0.is_ok())) };
            outcome = if r.is_ok() { "unguarded:cv:returned" } else { "unguarded:cv:panic" };
            "unguarded".to_string()
        });
        em.count(outcome);
        return;
    }
    if !(sr && st) {
        let mut outcome = "";
        em.case_valid(format!("#cv_nonstd {}", line), "cv_nonstd", |ctx| {
            let r = catch_unwind(AssertUnwindSafe(|| cv_run::<f64>(&c, &s)));
            match r {
                Err(_) => outcome = "nonstd:cv:documented_panic",
                Ok(out) => {
                    outcome = "nonstd:cv:returned";
                    let _ = cv_oracle_and_response::<f64>(ctx, &c, &s, out);
                }
            }
            "-".to_string()
        });
        em.count(outcome);
        return;
    }
    let mut kind = String::new();
    em.case_valid(format!("cv {}", line), "cv", |ctx| {
        let resp = if c.acc == 32 {
            let out = cv_run::<f32>(&c, &s);
            cv_oracle_and_response::<f32>(ctx, &c, &s, out)
        } else {
            let out = cv_run::<f64>(&c, &s);
            cv_oracle_and_response::<f64>(ctx, &c, &s, out)
        };
        kind = resp.split(' ').next().unwrap_or("").to_string();
        resp
    });
    if kind == "ok" {
        em.count(&format!("ok:cv:acc=f{}", c.acc));
        em.count(&format!("ok:cv:own={}", c.own));
        em.count(&format!("ok:cv:single={}", c.single as u8));
        em.count(&format!("ok:cv:m={}", c.m.min(3)));
        if c.k > 255 {
            em.count("ok:cv:k>255");
        }
    } else if kind == "err" {
        em.count("errsurfaced:cv");
    }
}

fn gen_cv(em: &mut Em, rng: &mut Rng, n: usize, k: usize, nonstd: bool) {
    let p = 1 + rng.below(3);
    let single = rng.chance(1, 3);
    let t = if single { 1 } else { 1 + rng.below(3) };
    // "any number of candidate models": none at all in a tenth of the runs
    let m = if rng.chance(1, 10) { 0 } else { 1 + rng.below(3) };
    let acc = if rng.chance(1, 3) { 32 } else { 64 };
    let own = rng.below(2) as u8;
    let (lr, lt) = if nonstd { (*rng.pick(&['F', 'S', 'R']), *rng.pick(&['C', 'S', 'R'])) } else { ('C', 'C') };
    // mostly valid runs; half with a scripted failure somewhere.  Codes are unique per cell.
    let mut fit = vec![vec![0u32; m]; k];
    let mut ev = vec![vec![0u32; m]; k];
    let mode = if m == 0 { 5 } else { rng.below(6) };
    if mode == 0 || mode == 2 {
        for _ in 0..1 + rng.below(2) {
            let (f, mi) = (rng.below(k), rng.below(m));
            fit[f][mi] = (1 + f * m + mi) as u32;
        }
    }
    if mode == 1 || mode == 2 {
        for _ in 0..1 + rng.below(2) {
            let (f, mi) = (rng.below(k), rng.below(m));
            ev[f][mi] = (1 + f * m + mi) as u32;
        }
    }
    em.count(match mode {
        0 => "cv:fit_error",
        1 => "cv:eval_error",
        2 => "cv:both_errors",
        _ => "cv:ok",
    });
    let vals: Vec<Vec<Vec<i64>>> = (0..k).map(|_| (0..m).map(|_| (0..t).map(|_| rng.range(-40, 40)).collect()).collect()).collect();
    op_cv(em, CvCfg { n, k, p, t, m, single, acc, own, lr, lt }, fit, ev, vals);
}

pub fn run(em: &mut Em, rng: &mut Rng) {
    let nmax = if em.thorough() { 120 } else { 40 };
    // exhaustive in (n, k) incl. requests outside the guard (k = 0, 1, n+1)
    for n in 1..=nmax {
        for k in 0..=n + 1 {
            let p = 1 + (n + k) % 3;
            let t = 1 + (n + 2 * k) % 3;
            let dim = if (n + k) % 2 == 0 { 1 } else { 2 };
            // (1) the plain configuration: row-major f64, owned / view
            let base = Cfg::base(n, k, p, t, dim, if (n + k) % 4 < 2 { 1 } else { 0 });
            op_fold(em, base);
            op_iter_fold(em, Cfg { own: 1, ..base });
            // (2) a drawn configuration: layouts, element types, storage kinds, widths
            if guard(n, k) {
                let c = Cfg::random(rng, n, k, false);
                op_fold(em, c);
                let mut ci = Cfg::random(rng, n, k, false);
                // iter_fold promises a result on standard layout only: mostly draw that, sometimes not
                if !rng.chance(1, 5) {
                    ci.lr = 'C';
                    ci.lt = 'C';
                }
                op_iter_fold(em, ci);
                if (n + k) % 3 == 0 {
                    op_fold_counted(em, Cfg::random(rng, n, k, true));
                }
            }
            if k >= 1 && k <= n && n <= 24 {
                gen_cv(em, rng, n, k, false);
                if guard(n, k) && rng.chance(1, 8) {
                    gen_cv(em, rng, n, k, true);
                }
            }
        }
    }
    // random larger shapes
    let extra = if em.thorough() { 400 } else { 60 };
    for _ in 0..extra {
        let n = 2 + rng.below(if em.thorough() { 3000 } else { 400 });
        let k = 2 + rng.below(n.min(64) - 1);
        let c = Cfg::random(rng, n, k, false);
        op_fold(em, c);
        let mut ci = Cfg::random(rng, n, k, false);
        if !rng.chance(1, 5) {
            ci.lr = 'C';
            ci.lt = 'C';
        }
        op_iter_fold(em, ci);
        if rng.chance(1, 4) {
            op_fold_counted(em, Cfg::random(rng, n, k, true));
        }
        if n <= 200 {
            gen_cv(em, rng, n, k, false);
        }
    }
    // fold counts beyond u8: the divisor of the mean is k itself
    let big = if em.thorough() { 30 } else { 6 };
    for _ in 0..big {
        let n = 256 + rng.below(400);
        let k = 256 + rng.below(n - 255);
        gen_cv(em, rng, n, k, false);
    }
}
