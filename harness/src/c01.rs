//! C01 — K-fold: `fold`, `iter_fold`, `cross_validate(_single)` on tagged datasets.
//!
//! Record cell (id, j) = id*p + j, target cell (id, c) = 100000 + id*t + c (exact in f64), so any
//! mis-pairing or lost row is visible.  The same tagging is rebuilt by the Lean driver from
//! (n, p, t), so request lines stay short.
use crate::util::*;
use linfa::dataset::{Dataset, DatasetBase, DatasetView};
use linfa::traits::{Fit, PredictInplace};
use ndarray::{Array1, Array2, ArrayView1, ArrayView2, Axis, Ix1, Ix2};
use std::cell::RefCell;

fn recs(n: usize, p: usize) -> Array2<f64> {
    Array2::from_shape_fn((n, p), |(i, j)| (i * p + j) as f64)
}
fn tgts2(n: usize, t: usize) -> Array2<f64> {
    Array2::from_shape_fn((n, t), |(i, c)| (100000 + i * t + c) as f64)
}
fn tgts1(n: usize) -> Array1<f64> {
    Array1::from_shape_fn(n, |i| (100000 + i) as f64)
}
fn rows2(a: &ArrayView2<f64>) -> Vec<Vec<u64>> {
    a.rows().into_iter().map(|r| r.iter().map(|x| *x as u64).collect()).collect()
}
fn rows1(a: &ArrayView1<f64>) -> Vec<Vec<u64>> {
    a.iter().map(|x| vec![*x as u64]).collect()
}
fn show_rows(r: &[Vec<u64>]) -> String {
    list2(r.iter().map(|x| x.iter()), |x| x.to_string())
}

/// naive oracle for one (train, valid) pair: disjoint, union = everything, block position, pairing
fn oracle_pair(ctx: &mut Ctx, what: &str, n: usize, k: usize, p: usize, t: usize, i: usize, tr_r: &[Vec<u64>], tr_t: &[Vec<u64>], va_r: &[Vec<u64>], va_t: &[Vec<u64>], ordered_train: bool) {
    let fs = n / k;
    let class = format!("{}:n_mod_k={}", what, if n % k == 0 { "0" } else { "nonzero" });
    let id_of_r = |row: &Vec<u64>| -> Option<usize> {
        let id = (row[0] as usize) / p;
        if row.len() == p && row.iter().enumerate().all(|(j, v)| *v as usize == id * p + j) { Some(id) } else { None }
    };
    let id_of_t = |row: &Vec<u64>| -> Option<usize> {
        let id = (row[0] as usize - 100000) / t;
        if row.len() == t && row.iter().enumerate().all(|(c, v)| *v as usize == 100000 + id * t + c) { Some(id) } else { None }
    };
    let mut seen = vec![0usize; n];
    let mut check_side = |ctx: &mut Ctx, rr: &[Vec<u64>], tt: &[Vec<u64>], side: &str| -> Vec<usize> {
        let mut ids = vec![];
        ctx.require(rr.len() == tt.len(), "pairing", &class, || format!("{} fold {}: {} records vs {} targets", side, i, rr.len(), tt.len()));
        for (a, b) in rr.iter().zip(tt.iter()) {
            match (id_of_r(a), id_of_t(b)) {
                (Some(x), Some(y)) if x == y && x < n => {
                    seen[x] += 1;
                    ids.push(x);
                }
                _ => ctx.fail("pairing", &class, format!("{} fold {}: record {:?} with target {:?}", side, i, a, b)),
            }
        }
        ids
    };
    let tr_ids = check_side(ctx, tr_r, tr_t, "train");
    let va_ids = check_side(ctx, va_r, va_t, "valid");
    ctx.require(seen.iter().all(|c| *c == 1), "partition", &class, || format!("fold {}: multiplicities {:?}", i, seen));
    let want_va: Vec<usize> = (i * fs..(i + 1) * fs).collect();
    ctx.require(va_ids == want_va, "valid_block", &class, || format!("fold {}: validation ids {:?}, want {:?}", i, va_ids, want_va));
    if ordered_train {
        let want_tr: Vec<usize> = (0..n).filter(|x| *x < i * fs || *x >= (i + 1) * fs).collect();
        ctx.require(tr_ids == want_tr, "train_complement_in_order", &class, || format!("fold {}: training ids {:?}", i, tr_ids));
    }
}

fn op_fold(em: &mut Em, n: usize, k: usize, p: usize, t: usize, dim: usize, own: bool) {
    let op = format!("fold n={} k={} p={} t={} dim={} own={}", n, k, p, t, dim, own as u8);
    let class = format!("fold:targets={}", if dim == 2 && t > 1 { "multi" } else { "single" });
    let body = |ctx: &mut Ctx| {
        let r = recs(n, p);
        type Pairs = Vec<(Vec<Vec<u64>>, Vec<Vec<u64>>, Vec<Vec<u64>>, Vec<Vec<u64>>)>;
        let pairs: Pairs = if dim == 1 {
            let tg = tgts1(n);
            let f = if own {
                Dataset::new(r.clone(), tg.clone()).fold(k)
            } else {
                DatasetView::new(r.view(), tg.view()).fold(k)
            };
            f.iter().map(|(tr, va)| (rows2(&tr.records().view()), rows1(&tr.targets().view()), rows2(&va.records().view()), rows1(&va.targets().view()))).collect()
        } else {
            let tg = tgts2(n, t);
            let f = if own {
                Dataset::new(r.clone(), tg.clone()).fold(k)
            } else {
                DatasetView::new(r.view(), tg.view()).fold(k)
            };
            f.iter().map(|(tr, va)| (rows2(&tr.records().view()), rows2(&tr.targets().view()), rows2(&va.records().view()), rows2(&va.targets().view()))).collect()
        };
        ctx.require(pairs.len() == k, "fold_count", "fold", || format!("{} pairs for k={}", pairs.len(), k));
        if k >= 2 && k <= n {
            for (i, (a, b, c, d)) in pairs.iter().enumerate() {
                oracle_pair(ctx, "fold", n, k, p, t, i, a, b, c, d, true);
            }
        }
        let parts: Vec<String> = pairs.iter().map(|(a, b, c, d)| format!("TR:{}/TT:{}/VR:{}/VT:{}", show_rows(a), show_rows(b), show_rows(c), show_rows(d))).collect();
        format!("ok {}", parts.join(" "))
    };
    if k >= 2 && k <= n {
        em.case_valid(op, &class, body)
    } else {
        em.case(op, body)
    }
}

fn op_iter_fold(em: &mut Em, n: usize, k: usize, p: usize, t: usize, dim: usize) {
    let op = format!("iter_fold n={} k={} p={} t={} dim={}", n, k, p, t, dim);
    let body = |ctx: &mut Ctx| {
        let r = recs(n, p);
        let flat = |v: &Vec<Vec<u64>>| -> Vec<u64> { v.iter().flatten().copied().collect() };
        let trains: RefCell<Vec<(Vec<Vec<u64>>, Vec<Vec<u64>>)>> = RefCell::new(vec![]);
        let (valids, fin_r, fin_t): (Vec<(Vec<Vec<u64>>, Vec<Vec<u64>>)>, Vec<u64>, Vec<u64>) = if dim == 1 {
            let mut ds = Dataset::new(r.clone(), tgts1(n));
            let v: Vec<_> = ds
                .iter_fold(k, |tr: &DatasetView<f64, f64, Ix1>| {
                    trains.borrow_mut().push((rows2(&tr.records().view()), rows1(&tr.targets().view())));
                })
                .map(|(_, va)| (rows2(&va.records().view()), rows1(&va.targets().view())))
                .collect();
            (v, ds.records().iter().map(|x| *x as u64).collect(), ds.targets().iter().map(|x| *x as u64).collect())
        } else {
            let mut ds = Dataset::new(r.clone(), tgts2(n, t));
            let v: Vec<_> = ds
                .iter_fold(k, |tr: &DatasetView<f64, f64, Ix2>| {
                    trains.borrow_mut().push((rows2(&tr.records().view()), rows2(&tr.targets().view())));
                })
                .map(|(_, va)| (rows2(&va.records().view()), rows2(&va.targets().view())))
                .collect();
            (v, ds.records().iter().map(|x| *x as u64).collect(), ds.targets().iter().map(|x| *x as u64).collect())
        };
        let trains = trains.into_inner();
        // oracle
        ctx.require(trains.len() == k && valids.len() == k, "fold_count", "iter_fold", || format!("{} closures / {} validation views for k={}", trains.len(), valids.len(), k));
        for i in 0..k.min(trains.len()).min(valids.len()) {
            oracle_pair(ctx, "iter_fold", n, k, p, t, i, &trains[i].0, &trains[i].1, &valids[i].0, &valids[i].1, false);
        }
        let want_r: Vec<u64> = (0..(n * p) as u64).collect();
        let want_t: Vec<u64> = (0..(n * t) as u64).map(|x| 100000 + x).collect();
        ctx.require(fin_r == want_r && fin_t == want_t, "restored", &format!("iter_fold:n_mod_k={}", if n % k == 0 { "0" } else { "nonzero" }), || format!("buffers after iter_fold: {:?} / {:?}", fin_r, fin_t));
        let sh = |x: &(Vec<Vec<u64>>, Vec<Vec<u64>>)| format!("{}/{}", list(flat(&x.0), |v| v.to_string()), list(flat(&x.1), |v| v.to_string()));
        format!(
            "ok trains={} valids={} final={}/{}",
            trains.iter().map(sh).collect::<Vec<_>>().join(" "),
            valids.iter().map(sh).collect::<Vec<_>>().join(" "),
            list(fin_r, |v| v.to_string()),
            list(fin_t, |v| v.to_string())
        )
    };
    if k >= 2 && k <= n {
        em.case_valid(op, "iter_fold", body)
    } else {
        em.case(op, body)
    }
}

// ---------------------------------------------------------------- cross_validate

#[derive(thiserror::Error, Debug)]
enum MockError {
    #[error("fit:{0}")]
    Fit(u32),
    #[error(transparent)]
    Linfa(#[from] linfa::error::Error),
}

struct Script {
    n: usize,
    k: usize,
    p: usize,
    t: usize,
    fit: Vec<Vec<u32>>,
    ev: Vec<Vec<u32>>,
    vals: Vec<Vec<Vec<i64>>>,
    notes: RefCell<Vec<(String, String)>>,
}
impl Script {
    fn fs(&self) -> usize {
        self.n / self.k
    }
    /// fold index from the ids present in a training view (smallest missing id / fold size)
    fn fold_of_train(&self, r: &ArrayView2<f64>) -> usize {
        let mut present = vec![false; self.n];
        for row in r.rows() {
            let id = (row[0] as usize) / self.p;
            if id < self.n {
                present[id] = true;
            }
        }
        let missing = present.iter().position(|x| !*x).unwrap_or(0);
        missing / self.fs()
    }
}
struct MockParams<'s> {
    s: &'s Script,
    m: usize,
}
struct MockModel<'s> {
    s: &'s Script,
    m: usize,
    fold: usize,
}

fn check_train(s: &Script, fold: usize, rec: &ArrayView2<f64>, tg: Vec<Vec<u64>>) {
    // the training view of fold `fold` must be the complement of block `fold`, rows paired
    let fs = s.fs();
    let mut seen = vec![0usize; s.n];
    let rr = rows2(rec);
    if rr.len() != tg.len() {
        s.notes.borrow_mut().push(("pairing".into(), format!("cv train fold {}: {} vs {}", fold, rr.len(), tg.len())));
    }
    for (a, b) in rr.iter().zip(tg.iter()) {
        let id = a[0] as usize / s.p;
        let ok_r = a.iter().enumerate().all(|(j, v)| *v as usize == id * s.p + j);
        let ok_t = b.iter().enumerate().all(|(c, v)| *v as usize == 100000 + id * s.t + c);
        if !(ok_r && ok_t && id < s.n) {
            s.notes.borrow_mut().push(("pairing".into(), format!("cv train fold {}: {:?} with {:?}", fold, a, b)));
        } else {
            seen[id] += 1;
        }
    }
    let ok = (0..s.n).all(|id| seen[id] == if id / fs == fold && id < s.k * fs { 0 } else { 1 });
    if !ok {
        s.notes.borrow_mut().push(("partition".into(), format!("cv train fold {}: multiplicities {:?}", fold, seen)));
    }
}

impl<'a, 's> Fit<ArrayView2<'a, f64>, ArrayView2<'a, f64>, MockError> for MockParams<'s> {
    type Object = MockModel<'s>;
    fn fit(&self, d: &DatasetView<f64, f64, Ix2>) -> Result<Self::Object, MockError> {
        let fold = self.s.fold_of_train(&d.records().view());
        check_train(self.s, fold, &d.records().view(), rows2(&d.targets().view()));
        match self.s.fit[fold][self.m] {
            0 => Ok(MockModel { s: self.s, m: self.m, fold }),
            c => Err(MockError::Fit(c)),
        }
    }
}
impl<'a, 's> Fit<ArrayView2<'a, f64>, ArrayView1<'a, f64>, MockError> for MockParams<'s> {
    type Object = MockModel<'s>;
    fn fit(&self, d: &DatasetView<f64, f64, Ix1>) -> Result<Self::Object, MockError> {
        let fold = self.s.fold_of_train(&d.records().view());
        check_train(self.s, fold, &d.records().view(), rows1(&d.targets().view()));
        match self.s.fit[fold][self.m] {
            0 => Ok(MockModel { s: self.s, m: self.m, fold }),
            c => Err(MockError::Fit(c)),
        }
    }
}
impl<'s> MockModel<'s> {
    fn check_valid(&self, x: &ArrayView2<f64>) {
        let fs = self.s.fs();
        let ids: Vec<usize> = x.rows().into_iter().map(|r| r[0] as usize / self.s.p).collect();
        let want: Vec<usize> = (self.fold * fs..(self.fold + 1) * fs).collect();
        if ids != want {
            self.s.notes.borrow_mut().push(("valid_block".into(), format!("cv predict fold {}: ids {:?}", self.fold, ids)));
        }
    }
}
impl<'b, 's> PredictInplace<ArrayView2<'b, f64>, Array2<f64>> for MockModel<'s> {
    fn predict_inplace<'a>(&'a self, x: &'a ArrayView2<'b, f64>, y: &mut Array2<f64>) {
        self.check_valid(x);
        y.fill((self.fold * 1000 + self.m) as f64);
    }
    fn default_target(&self, x: &ArrayView2<f64>) -> Array2<f64> {
        Array2::zeros((x.nrows(), self.s.t))
    }
}
impl<'b, 's> PredictInplace<ArrayView2<'b, f64>, Array1<f64>> for MockModel<'s> {
    fn predict_inplace<'a>(&'a self, x: &'a ArrayView2<'b, f64>, y: &mut Array1<f64>) {
        self.check_valid(x);
        y.fill((self.fold * 1000 + self.m) as f64);
    }
    fn default_target(&self, x: &ArrayView2<f64>) -> Array1<f64> {
        Array1::zeros(x.nrows())
    }
}

fn eval_common(s: &Script, pred0: f64, truth_first: f64, truth_ids: Vec<usize>) -> Result<Vec<f64>, linfa::error::Error> {
    let code = pred0 as usize;
    let (pf, m) = (code / 1000, code % 1000);
    let fs = s.fs();
    let fold = ((truth_first as usize - 100000) / s.t) / fs;
    if pf != fold {
        s.notes.borrow_mut().push(("eval_pairs_own_fold".into(), format!("eval got predictions of fold {} with truths of fold {}", pf, fold)));
    }
    let want: Vec<usize> = (fold * fs..(fold + 1) * fs).collect();
    if truth_ids != want {
        s.notes.borrow_mut().push(("valid_block".into(), format!("cv eval fold {}: truth ids {:?}", fold, truth_ids)));
    }
    match s.ev[fold][m] {
        0 => Ok(s.vals[fold][m].iter().map(|q| *q as f64 / 4.0).collect()),
        c => Err(linfa::error::Error::Parameters(format!("eval:{}", c))),
    }
}

fn op_cv(em: &mut Em, n: usize, k: usize, p: usize, t: usize, m: usize, single: bool, fit: Vec<Vec<u32>>, ev: Vec<Vec<u32>>, vals: Vec<Vec<Vec<i64>>>) {
    let op = format!(
        "cv n={} k={} p={} t={} m={} single={} fit={} ev={} vals={}",
        n,
        k,
        p,
        t,
        m,
        single as u8,
        list2(fit.iter().map(|x| x.iter()), |x| x.to_string()),
        list2(ev.iter().map(|x| x.iter()), |x| x.to_string()),
        list3(vals.iter().map(|x| x.iter().map(|y| y.iter())), |x| x.to_string())
    );
    em.case(op, |ctx| {
        let s = Script { n, k, p, t, fit, ev, vals, notes: RefCell::new(vec![]) };
        let params: Vec<MockParams> = (0..m).map(|i| MockParams { s: &s, m: i }).collect();
        let (res, fin_r, fin_t): (Result<Vec<Vec<f64>>, MockError>, Vec<u64>, Vec<u64>) = if single {
            let mut ds: DatasetBase<Array2<f64>, Array1<f64>> = Dataset::new(recs(n, p), tgts1(n));
            let r = ds
                .cross_validate_single(k, &params, |pred: &Array1<f64>, truth: &ArrayView1<f64>| {
                    let ids = truth.iter().map(|x| *x as usize - 100000).collect();
                    eval_common(&s, pred[0], truth[0], ids).map(|v| v[0])
                })
                .map(|a: Array1<f64>| a.iter().map(|x| vec![*x]).collect());
            (r, ds.records().iter().map(|x| *x as u64).collect(), ds.targets().iter().map(|x| *x as u64).collect())
        } else {
            let mut ds: DatasetBase<Array2<f64>, Array2<f64>> = Dataset::new(recs(n, p), tgts2(n, t));
            let r = ds
                .cross_validate(k, &params, |pred: &Array2<f64>, truth: &ArrayView2<f64>| {
                    let ids = truth.index_axis(Axis(1), 0).iter().map(|x| (*x as usize - 100000) / t).collect();
                    eval_common(&s, pred[[0, 0]], truth[[0, 0]], ids).map(Array1::from)
                })
                .map(|a: Array2<f64>| a.rows().into_iter().map(|r| r.to_vec()).collect());
            (r, ds.records().iter().map(|x| *x as u64).collect(), ds.targets().iter().map(|x| *x as u64).collect())
        };
        let class = format!("cv:n_mod_k={}", if n % k == 0 { "0" } else { "nonzero" });
        for (clause, detail) in s.notes.borrow().iter() {
            ctx.fail(clause, &class, detail.clone());
        }
        let want_r: Vec<u64> = (0..(n * p) as u64).collect();
        let want_t: Vec<u64> = (0..(n * t) as u64).map(|x| 100000 + x).collect();
        ctx.require(fin_r == want_r && fin_t == want_t, "restored", &class, || format!("buffers after cross_validate: {:?} / {:?}", fin_r, fin_t));
        // naive expectation: first failing fold (fits, then evals), else the mean
        let mut expect: Result<Vec<Vec<f64>>, String> = Ok(vec![vec![0.0; t]; m]);
        'outer: for f in 0..k {
            for mi in 0..m {
                if s.fit[f][mi] != 0 {
                    expect = Err(format!("fit:{}", s.fit[f][mi]));
                    break 'outer;
                }
            }
            for mi in 0..m {
                if s.ev[f][mi] != 0 {
                    expect = Err(format!("invalid parameter eval:{}", s.ev[f][mi]));
                    break 'outer;
                }
            }
        }
        if let Ok(acc) = expect.as_mut() {
            for mi in 0..m {
                for c in 0..t {
                    // quarter units: exact
                    let sum: i64 = (0..k).map(|f| s.vals[f][mi][c]).sum();
                    acc[mi][c] = (sum as f64 / 4.0) / k as f64;
                }
            }
        }
        match (&res, &expect) {
            (Ok(a), Ok(b)) => ctx.require(a == b, "cv_is_mean", &class, || format!("scores {:?}, mean of per-fold evaluations {:?}", a, b)),
            (Err(e), Err(w)) => ctx.require(&e.to_string() == w, "cv_error_surfaces", &class, || format!("error {:?}, want {:?}", e.to_string(), w)),
            (a, b) => ctx.fail("cv_error_surfaces", &class, format!("result {:?}, want {:?}", a.as_ref().map_err(|e| e.to_string()), b)),
        }
        match res {
            Ok(a) => format!("ok {}", list2(a.iter().map(|r| r.iter()), |x| hex64(*x))),
            Err(e) => {
                let s = e.to_string();
                format!("err {}", s.trim_start_matches("invalid parameter "))
            }
        }
    });
}

fn gen_cv(em: &mut Em, rng: &mut Rng, n: usize, k: usize) {
    let p = 1 + rng.below(3);
    let single = rng.chance(1, 3);
    let t = if single { 1 } else { 1 + rng.below(3) };
    let m = 1 + rng.below(3);
    // mostly valid runs; a third with a scripted failure somewhere
    let mut fit = vec![vec![0u32; m]; k];
    let mut ev = vec![vec![0u32; m]; k];
    let mode = rng.below(6);
    if mode == 0 || mode == 2 {
        for _ in 0..1 + rng.below(2) {
            let (f, mi) = (rng.below(k), rng.below(m));
            fit[f][mi] = 1 + rng.below(9) as u32;
        }
    }
    if mode == 1 || mode == 2 {
        for _ in 0..1 + rng.below(2) {
            let (f, mi) = (rng.below(k), rng.below(m));
            ev[f][mi] = 1 + rng.below(9) as u32;
        }
    }
    em.count(match mode {
        0 => "cv:fit_error",
        1 => "cv:eval_error",
        2 => "cv:both_errors",
        _ => "cv:ok",
    });
    let vals: Vec<Vec<Vec<i64>>> = (0..k).map(|_| (0..m).map(|_| (0..t).map(|_| rng.range(-40, 40)).collect()).collect()).collect();
    op_cv(em, n, k, p, t, m, single, fit, ev, vals);
}

pub fn run(em: &mut Em, rng: &mut Rng) {
    let nmax = if em.thorough() { 120 } else { 40 };
    // exhaustive in (n, k) incl. the guard's error branches k = 0, 1, n+1
    for n in 1..=nmax {
        for k in 0..=n + 1 {
            let p = 1 + (n + k) % 3;
            let t = 1 + (n + 2 * k) % 3;
            let dim = if (n + k) % 2 == 0 { 1 } else { 2 };
            let t = if dim == 1 { 1 } else { t };
            if k >= 1 {
                // k = 0 divides by zero in fold(): covered once below
                op_fold(em, n, k, p, t, dim, (n + k) % 4 < 2);
            }
            op_iter_fold(em, n, k, p, t, dim);
            if k >= 1 && k <= n && n <= 24 {
                gen_cv(em, rng, n, k);
            }
        }
    }
    op_fold(em, 5, 0, 1, 1, 1, true);
    // random larger shapes
    let extra = if em.thorough() { 400 } else { 60 };
    for _ in 0..extra {
        let n = 2 + rng.below(if em.thorough() { 3000 } else { 400 });
        let k = 2 + rng.below(n.min(64) - 1);
        let p = 1 + rng.below(4);
        let dim = 1 + rng.below(2);
        let t = if dim == 1 { 1 } else { 1 + rng.below(3) };
        op_fold(em, n, k, p, t, dim, rng.coin());
        op_iter_fold(em, n, k, p, t, dim);
        if n <= 200 {
            gen_cv(em, rng, n, k);
        }
    }
}
