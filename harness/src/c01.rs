//! C01 — K-fold: `fold`, `iter_fold`, `cross_validate(_single)` on tagged datasets.
//!
//! Record cell (id, j) = id*p + j, target cell (id, c) = 100000 + id*t + c (exact in f64 and f32), so
//! any mis-pairing or lost row is visible.  The same tagging is rebuilt by the Lean driver from
//! (n, p, t), so request lines stay short.
//!
//! Variants driven: memory layouts of records / targets (`C` row-major, `F` column-major,
//! `S` strided slice of a larger array, `R` reversed rows = negative row stride, `Q` reversed
//! columns = negative column stride, `O` standard layout that does NOT start at its allocation =
//! a row slice of a larger owned array), feature / target widths 0..4 / 0..3, element types
//! (records f64/f32, targets f64/f32/usize), storage (owned `Array`, read-only / mutable views,
//! `ArcArray`), `CountedTargets` (label recount of the folded parts), accumulator `FACC` f64/f32,
//! `k > 255`, no candidate model at all, several `linfa::Error` variants out of the evaluation closure.
//!
//! What is compared with the model is what the statement promises: the training part of a pair as a
//! multiset of (record, target) rows (printed sorted), the validation part in order; `fold`
//! requests outside the property's guard `2 <= k <= n` are run but answered `unguarded` on both
//! sides (its panics there are not documented); `iter_fold` / `cross_validate` are compared for
//! EVERY k and layout, their three documented panics included (`sr=`/`st=` = "as_slice_mut() is
//! Some", probed on a twin array); when several scripted cells of a cross-validation fail, any one
//! of them may surface.
use crate::util::*;
use linfa::dataset::{AsTargets, CountedTargets, DatasetBase, DatasetView, Labels, TargetDim};
use linfa::traits::{Fit, PredictInplace};
use ndarray::{s, Array, Array1, Array2, ArrayView, ArrayView1, ArrayView2, Axis, Dimension, Ix1, Ix2, ShapeBuilder};

const OFF: usize = 3;
use std::cell::RefCell;
use std::panic::{catch_unwind, AssertUnwindSafe};

const TBASE: usize = 100000;
const JUNK: usize = 7_000_000;

// ---------------------------------------------------------------- element types and layouts

trait El: Copy + Clone + PartialEq + std::fmt::Debug + 'static {
    const NAME: &'static str;
    fn of(x: usize) -> Self;
    fn id(self) -> u64;
}
impl El for f64 {
    const NAME: &'static str = "f64";
    fn of(x: usize) -> Self {
        x as f64
    }
    fn id(self) -> u64 {
        self as u64
    }
}
impl El for f32 {
    const NAME: &'static str = "f32";
    fn of(x: usize) -> Self {
        x as f32
    }
    fn id(self) -> u64 {
        self as u64
    }
}
impl El for usize {
    const NAME: &'static str = "usize";
    fn of(x: usize) -> Self {
        x
    }
    fn id(self) -> u64 {
        self as u64
    }
}

/// an owned `n x cols` array whose LOGICAL cell (i, j) is `f(i, j)`, stored in layout `lay`
fn build2_with<A: El>(n: usize, cols: usize, lay: char, f: impl Fn(usize, usize) -> A) -> Array2<A> {
    match lay {
        'C' => Array2::from_shape_fn((n, cols), |(i, j)| f(i, j)),
        'F' => Array2::from_shape_fn((n, cols).f(), |(i, j)| f(i, j)),
        'S' => {
            // every second row and every second column of a larger row-major array
            let big = Array2::from_shape_fn((2 * n, 2 * cols + 1), |(i, j)| if i % 2 == 0 && j % 2 == 1 { f(i / 2, j / 2) } else { A::of(JUNK + i + j) });
            big.slice_move(s![..;2, 1..;2])
        }
        'R' => {
            let mut a = Array2::from_shape_fn((n, cols), |(i, j)| f(n - 1 - i, j));
            a.invert_axis(Axis(0));
            a
        }
        'Q' => {
            // reversed columns: negative stride along axis 1 (contiguous in memory order, not standard)
            let mut a = Array2::from_shape_fn((n, cols), |(i, j)| f(i, cols - 1 - j));
            a.invert_axis(Axis(1));
            a
        }
        'O' => {
            // standard layout, but the first element is not the start of the allocation
            let big = Array2::from_shape_fn((n + OFF + 1, cols), |(i, j)| if i >= OFF && i < n + OFF { f(i - OFF, j) } else { A::of(JUNK + i + j) });
            big.slice_move(s![OFF..n + OFF, ..])
        }
        _ => unreachable!(),
    }
}
fn build1_with<A: El>(n: usize, lay: char, f: impl Fn(usize) -> A) -> Array1<A> {
    match lay {
        'C' | 'F' | 'Q' => Array1::from_shape_fn(n, |i| f(i)),
        'O' => {
            let big = Array1::from_shape_fn(n + OFF + 1, |i| if i >= OFF && i < n + OFF { f(i - OFF) } else { A::of(JUNK + i) });
            big.slice_move(s![OFF..n + OFF])
        }
        'S' => {
            let big = Array1::from_shape_fn(2 * n + 1, |i| if i % 2 == 1 { f(i / 2) } else { A::of(JUNK + i) });
            big.slice_move(s![1..;2])
        }
        'R' => {
            let mut a = Array1::from_shape_fn(n, |i| f(n - 1 - i));
            a.invert_axis(Axis(0));
            a
        }
        _ => unreachable!(),
    }
}
fn recs_l<A: El>(n: usize, p: usize, lay: char) -> Array2<A> {
    build2_with(n, p, lay, |i, j| A::of(i * p + j))
}

/// target dimension (Ix1 / Ix2) specific construction and read-out
trait TD: TargetDim + Dimension {
    const D: usize;
    fn build_with<B: El>(n: usize, t: usize, lay: char, f: impl Fn(usize, usize) -> B) -> Array<B, Self>;
    fn rows<B: El>(a: &ArrayView<B, Self>) -> Vec<Vec<u64>>;
}
impl TD for Ix1 {
    const D: usize = 1;
    fn build_with<B: El>(n: usize, _t: usize, lay: char, f: impl Fn(usize, usize) -> B) -> Array1<B> {
        build1_with(n, lay, |i| f(i, 0))
    }
    fn rows<B: El>(a: &ArrayView1<B>) -> Vec<Vec<u64>> {
        a.iter().map(|x| vec![x.id()]).collect()
    }
}
impl TD for Ix2 {
    const D: usize = 2;
    fn build_with<B: El>(n: usize, t: usize, lay: char, f: impl Fn(usize, usize) -> B) -> Array2<B> {
        build2_with(n, t, lay, f)
    }
    fn rows<B: El>(a: &ArrayView2<B>) -> Vec<Vec<u64>> {
        rows2(a)
    }
}
fn tgts_l<B: El, I: TD>(n: usize, t: usize, lay: char) -> Array<B, I> {
    I::build_with(n, t, lay, |i, c| B::of(TBASE + i * t + c))
}

/// does `iter_fold` get a slice out of this array, held the way the dataset holds it?  (ndarray's
/// contract, asked of ndarray on a twin array.)  Records: `records.as_slice_mut()` — standard layout,
/// checked BEFORE the storage is made unique.  Targets: `as_targets_mut()` = `view_mut()` first, which
/// makes a shared `ArcArray` unique — one that shows at most half of its allocation is copied
/// compactly at that point — and then `as_slice_mut()` on the view.
fn slice_mut_ok<A: Clone, D: Dimension>(a: Array<A, D>, own: u8, through_view: bool) -> bool {
    if own == 2 {
        let rs = a.into_shared();
        let mut x = rs.clone();
        let ok = if through_view {
            let mut v = x.view_mut();
            v.as_slice_mut().is_some()
        } else {
            x.as_slice_mut().is_some()
        };
        drop(rs);
        ok
    } else {
        let mut a = a;
        let mut v = a.view_mut();
        v.as_slice_mut().is_some()
    }
}
fn probe_std(n: usize, p: usize, t: usize, dim: usize, lr: char, lt: char, own: u8) -> (bool, bool) {
    let r = slice_mut_ok(recs_l::<f64>(n, p, lr), own, false);
    let t = if dim == 1 { slice_mut_ok(tgts_l::<f64, Ix1>(n, 1, lt), own, true) } else { slice_mut_ok(tgts_l::<f64, Ix2>(n, t, lt), own, true) };
    (r, t)
}

fn rows2<A: El>(a: &ArrayView2<A>) -> Vec<Vec<u64>> {
    a.rows().into_iter().map(|r| r.iter().map(|x| x.id()).collect()).collect()
}
fn show_rows(r: &[Vec<u64>]) -> String {
    list2(r.iter().map(|x| x.iter()), |x| x.to_string())
}
fn flat(v: &[Vec<u64>]) -> Vec<u64> {
    v.iter().flatten().copied().collect()
}
/// the statement promises the training part as a multiset of (record, target) rows: canonical order
fn sort_paired(r: &[Vec<u64>], t: &[Vec<u64>]) -> (Vec<Vec<u64>>, Vec<Vec<u64>>) {
    if r.len() != t.len() {
        return (r.to_vec(), t.to_vec());
    }
    let mut z: Vec<(Vec<u64>, Vec<u64>)> = r.iter().cloned().zip(t.iter().cloned()).collect();
    z.sort();
    z.into_iter().unzip()
}
/// sample id read off a tagged target row (for datasets without a feature column)
fn tagged_id(t: usize) -> impl Fn(&[u64]) -> Option<usize> {
    move |b: &[u64]| if t == 0 || b.is_empty() { None } else { (b[0] as usize).checked_sub(TBASE).map(|x| x / t) }
}
fn guard(n: usize, k: usize) -> bool {
    k >= 2 && k <= n
}
fn nk_class(what: &str, n: usize, k: usize) -> String {
    format!("{}:n_mod_k={}", what, if k > 0 && n % k == 0 { "0" } else { "nonzero" })
}

type Rows = Vec<Vec<u64>>;
type Pair = (Rows, Rows, Rows, Rows);

/// naive oracle for one (train, valid) pair: disjoint, union = everything, block position, pairing.
/// `exp_t(id)` is the target row that belongs to record `id`.
/// `id_from_t` identifies the sample by its target row; used only when the records have no column.
fn oracle_pair(ctx: &mut Ctx, what: &str, n: usize, k: usize, p: usize, i: usize, pair: (&[Vec<u64>], &[Vec<u64>], &[Vec<u64>], &[Vec<u64>]), exp_t: &dyn Fn(usize) -> Vec<u64>, id_from_t: &dyn Fn(&[u64]) -> Option<usize>) {
    let (tr_r, tr_t, va_r, va_t) = pair;
    let fs = n / k;
    let class = nk_class(what, n, k);
    let id_of_r = |row: &Vec<u64>, trow: &Vec<u64>| -> Option<usize> {
        if row.len() != p {
            return None;
        }
        let id = if p > 0 { (row[0] as usize) / p } else { id_from_t(trow)? };
        if id < n && row.iter().enumerate().all(|(j, v)| *v as usize == id * p + j) {
            Some(id)
        } else {
            None
        }
    };
    let mut seen = vec![0usize; n];
    let mut check_side = |ctx: &mut Ctx, rr: &[Vec<u64>], tt: &[Vec<u64>], side: &str| -> Vec<usize> {
        let mut ids = vec![];
        ctx.require(rr.len() == tt.len(), "pairing", &class, || format!("{} fold {}: {} records vs {} targets", side, i, rr.len(), tt.len()));
        for (a, b) in rr.iter().zip(tt.iter()) {
            match id_of_r(a, b) {
                Some(x) if exp_t(x) == *b => {
                    seen[x] += 1;
                    ids.push(x);
                }
                _ => ctx.fail("pairing", &class, format!("{} fold {}: record {:?} with target {:?}", side, i, a, b)),
            }
        }
        ids
    };
    let _tr_ids = check_side(ctx, tr_r, tr_t, "train");
    let va_ids = check_side(ctx, va_r, va_t, "valid");
    ctx.require(seen.iter().all(|c| *c == 1), "partition", &class, || format!("fold {}: multiplicities {:?}", i, seen));
    let want_va: Vec<usize> = (i * fs..(i + 1) * fs).collect();
    ctx.require(va_ids == want_va, "valid_block", &class, || format!("fold {}: validation ids {:?}, want {:?}", i, va_ids, want_va));
    // the tail n - k*fs is training-only: implied by partition + valid_block (every id once, block i validated)
}

#[derive(Clone, Copy)]
struct Cfg {
    n: usize,
    k: usize,
    p: usize,
    t: usize,
    dim: usize,
    own: u8, // 0 view (fold: ArrayView, iter_fold/cv: ArrayViewMut), 1 owned Array, 2 ArcArray
    lr: char,
    lt: char,
    er: &'static str,
    et: &'static str,
}
impl Cfg {
    fn base(n: usize, k: usize, p: usize, t: usize, dim: usize, own: u8) -> Cfg {
        Cfg { n, k, p, t: if dim == 1 { 1 } else { t }, dim, own, lr: 'C', lt: 'C', er: "f64", et: "f64" }
    }
    fn line(&self) -> String {
        format!("n={} k={} p={} t={} dim={} own={} lr={} lt={} er={} et={}", self.n, self.k, self.p, self.t, self.dim, self.own, self.lr, self.lt, self.er, self.et)
    }
    fn random(rng: &mut Rng, n: usize, k: usize, counted: bool) -> Cfg {
        let dim = 1 + rng.below(2);
        let lays = ['C', 'C', 'F', 'S', 'R', 'Q', 'O'];
        // "feature counts": no feature column at all in a twelfth of the draws, else (2-D targets) no
        // target column in a twelfth; never both (nothing would identify a sample)
        let p = if !counted && rng.chance(1, 12) { 0 } else { 1 + rng.below(4) };
        let t = if dim == 1 {
            1
        } else if !counted && p > 0 && rng.chance(1, 12) {
            0
        } else {
            1 + rng.below(3)
        };
        Cfg {
            n,
            k,
            p,
            t,
            dim,
            own: rng.below(3) as u8,
            lr: *rng.pick(&lays),
            lt: *rng.pick(&lays),
            er: if rng.chance(1, 3) { "f32" } else { "f64" },
            et: if counted { "usize" } else { *rng.pick(&["f64", "f64", "f32", "usize"]) },
        }
    }
}

// ---------------------------------------------------------------- fold

fn fold_run<A: El, B: El, I: TD>(c: &Cfg) -> Vec<Pair> {
    let r = recs_l::<A>(c.n, c.p, c.lr);
    let tg = tgts_l::<B, I>(c.n, c.t, c.lt);
    let f = match c.own {
        1 => DatasetBase::new(r, tg).fold(c.k),
        2 => DatasetBase::new(r.into_shared(), tg.into_shared()).fold(c.k),
        _ => DatasetBase::new(r.view(), tg.view()).fold(c.k),
    };
    f.iter().map(|(tr, va)| (rows2(&tr.records().view()), I::rows(&tr.targets().view()), rows2(&va.records().view()), I::rows(&va.targets().view()))).collect()
}
fn fold_dispatch(c: &Cfg) -> Vec<Pair> {
    macro_rules! go {
        ($a:ty, $b:ty) => {
            if c.dim == 1 {
                fold_run::<$a, $b, Ix1>(c)
            } else {
                fold_run::<$a, $b, Ix2>(c)
            }
        };
    }
    match (c.er, c.et) {
        ("f64", "f64") => go!(f64, f64),
        ("f64", "f32") => go!(f64, f32),
        ("f64", "usize") => go!(f64, usize),
        ("f32", "f64") => go!(f32, f64),
        ("f32", "f32") => go!(f32, f32),
        ("f32", "usize") => go!(f32, usize),
        _ => unreachable!(),
    }
}

fn op_fold(em: &mut Em, c: Cfg) {
    let op = format!("fold {}", c.line());
    let (n, k, p, t) = (c.n, c.k, c.p, c.t);
    if !guard(n, k) {
        // outside the property's guard: exercised, not compared (the statement promises nothing here)
        let mut outcome = "";
        em.case(op, |_ctx| {
            outcome = if catch_unwind(AssertUnwindSafe(|| fold_dispatch(&c))).is_ok() { "unguarded:fold:returned" } else { "unguarded:fold:panic" };
            "unguarded".to_string()
        });
        em.count(outcome);
        return;
    }
    let class = format!("fold:targets={}", if c.dim == 2 && t > 1 { "multi" } else { "single" });
    let mut ok = false;
    em.case_valid(op, &class, |ctx| {
        let pairs = fold_dispatch(&c);
        ctx.require(pairs.len() == k, "fold_count", "fold", || format!("{} pairs for k={}", pairs.len(), k));
        let exp_t = |id: usize| -> Vec<u64> { (0..t).map(|cc| (TBASE + id * t + cc) as u64).collect() };
        for (i, (a, b, cc, d)) in pairs.iter().enumerate() {
            oracle_pair(ctx, "fold", n, k, p, i, (a, b, cc, d), &exp_t, &tagged_id(t));
        }
        ok = true;
        let parts: Vec<String> = pairs
            .iter()
            .map(|(a, b, cc, d)| {
                let (a, b) = sort_paired(a, b);
                format!("TR:{}/TT:{}/VR:{}/VT:{}", show_rows(&a), show_rows(&b), show_rows(cc), show_rows(d))
            })
            .collect();
        format!("ok {}", parts.join(" "))
    });
    if ok {
        em.count(&format!("ok:fold:lr={}", c.lr));
        em.count(&format!("ok:fold:lt={}", c.lt));
        em.count(&format!("ok:fold:own={}", c.own));
        em.count(&format!("ok:fold:er={}", c.er));
        em.count(&format!("ok:fold:et={}", c.et));
        em.count(&format!("ok:fold:dim={}", c.dim));
        em.count(if n % k == 0 { "ok:fold:n_mod_k=0" } else { "ok:fold:n_mod_k=nonzero" });
        if p == 0 || t == 0 {
            em.count("ok:fold:zero_width");
        }
        if k > 255 {
            em.count("ok:fold:k>255");
        }
    }
}

// ---------------------------------------------------------------- fold on CountedTargets

const NLAB: usize = 4;
fn label_of(id: usize, c: usize) -> usize {
    (id * id + 3 * c + id / 3) % NLAB
}
type CPair = (Rows, Rows, Vec<Vec<u64>>, Rows, Rows, Vec<Vec<u64>>);

fn counts_of<I: TD, T: Labels<Elem = usize>>(ctx: &mut Ctx, what: &str, t: usize, tg: &T) -> Vec<Vec<u64>> {
    let lc = tg.label_count();
    ctx.require(lc.len() == t, "label_recount", "fold_counted", || format!("{}: {} label maps for {} target columns", what, lc.len(), t));
    lc.iter()
        .map(|m| {
            // (an entry with count 0 for a label of the parent would not contradict the statement)
            ctx.require(m.iter().all(|(l, _)| *l < NLAB), "label_recount", "fold_counted", || format!("{}: label map {:?} has a foreign label", what, m));
            (0..NLAB).map(|l| *m.get(&l).unwrap_or(&0) as u64).collect()
        })
        .collect()
}
fn fold_counted_run<I: TD>(ctx: &mut Ctx, c: &Cfg) -> Vec<CPair> {
    macro_rules! body {
        ($a:ty) => {{
            let r = recs_l::<$a>(c.n, c.p, c.lr);
            let tg: Array<usize, I> = I::build_with(c.n, c.t, c.lt, |i, cc| label_of(i, cc));
            let f = match c.own {
                0 => DatasetBase::new(r.view(), CountedTargets::new(tg.view())).fold(c.k),
                _ => DatasetBase::new(r, CountedTargets::new(tg)).fold(c.k),
            };
            f.iter()
                .enumerate()
                .map(|(i, (tr, va))| {
                    let ct = counts_of::<I, _>(ctx, &format!("train {}", i), c.t, tr.targets());
                    let cv = counts_of::<I, _>(ctx, &format!("valid {}", i), c.t, va.targets());
                    (rows2(&tr.records().view()), I::rows(&tr.targets().as_targets()), ct, rows2(&va.records().view()), I::rows(&va.targets().as_targets()), cv)
                })
                .collect()
        }};
    }
    if c.er == "f32" {
        body!(f32)
    } else {
        body!(f64)
    }
}

fn op_fold_counted(em: &mut Em, c: Cfg) {
    let op = format!("fold_counted {}", c.line());
    let (n, k, p, t) = (c.n, c.k, c.p, c.t);
    let mut ok = false;
    em.case_valid(op, "fold_counted", |ctx| {
        let pairs = if c.dim == 1 { fold_counted_run::<Ix1>(ctx, &c) } else { fold_counted_run::<Ix2>(ctx, &c) };
        ctx.require(pairs.len() == k, "fold_count", "fold_counted", || format!("{} pairs for k={}", pairs.len(), k));
        let exp_t = |id: usize| -> Vec<u64> { (0..t).map(|cc| label_of(id, cc) as u64).collect() };
        let recount = |rr: &Rows| -> Vec<Vec<u64>> {
            (0..t).map(|cc| (0..NLAB).map(|l| rr.iter().filter(|row| p > 0 && !row.is_empty() && label_of(row[0] as usize / p, cc) == l).count() as u64).collect()).collect()
        };
        for (i, (a, b, ct, cc, d, cv)) in pairs.iter().enumerate() {
            oracle_pair(ctx, "fold_counted", n, k, p, i, (a, b, cc, d), &exp_t, &|_| None);
            // the counts carried by each part are the counts OF that part
            ctx.require(*ct == recount(a), "label_recount", "fold_counted", || format!("fold {}: training label counts {:?}, recount {:?}", i, ct, recount(a)));
            ctx.require(*cv == recount(cc), "label_recount", "fold_counted", || format!("fold {}: validation label counts {:?}, recount {:?}", i, cv, recount(cc)));
        }
        ok = true;
        let parts: Vec<String> = pairs
            .iter()
            .map(|(a, b, ct, cc, d, cv)| {
                let (a, b) = sort_paired(a, b);
                format!("TR:{}/TT:{}/CT:{}/VR:{}/VT:{}/CV:{}", show_rows(&a), show_rows(&b), show_rows(ct), show_rows(cc), show_rows(d), show_rows(cv))
            })
            .collect();
        format!("ok {}", parts.join(" "))
    });
    if ok {
        em.count("ok:fold_counted");
        em.count(&format!("ok:fold_counted:dim={}", c.dim));
    }
}

// ---------------------------------------------------------------- iter_fold

struct IterOut {
    trains: Vec<(Rows, Rows)>,
    valids: Vec<(Rows, Rows)>,
    fin_r: Rows,
    fin_t: Rows,
    /// rows seen through the second handle of a shared (`ArcArray`) dataset after the call
    sibling: Option<(Rows, Rows)>,
}

fn iter_fold_run<A: El, B: El, I: TD>(c: &Cfg) -> IterOut {
    let mut r = recs_l::<A>(c.n, c.p, c.lr);
    let mut tg = tgts_l::<B, I>(c.n, c.t, c.lt);
    let trains: RefCell<Vec<(Rows, Rows)>> = RefCell::new(vec![]);
    let clo = |tr: &DatasetView<A, B, I>| {
        trains.borrow_mut().push((rows2(&tr.records().view()), I::rows(&tr.targets().view())));
    };
    let mut sibling = None;
    let (valids, fin_r, fin_t) = match c.own {
        1 => {
            let mut ds = DatasetBase::new(r, tg);
            let v: Vec<(Rows, Rows)> = ds.iter_fold(c.k, clo).map(|(_, va)| (rows2(&va.records().view()), I::rows(&va.targets().view()))).collect();
            (v, rows2(&ds.records().view()), I::rows(&ds.targets().view()))
        }
        2 => {
            // shared storage with a second handle alive: the in-place swaps must not leak into it either
            let (rs, ts) = (r.into_shared(), tg.into_shared());
            let (r2, t2) = (rs.clone(), ts.clone());
            let mut ds = DatasetBase::new(rs, ts);
            let v: Vec<(Rows, Rows)> = ds.iter_fold(c.k, clo).map(|(_, va)| (rows2(&va.records().view()), I::rows(&va.targets().view()))).collect();
            sibling = Some((rows2(&r2.view()), I::rows(&t2.view())));
            (v, rows2(&ds.records().view()), I::rows(&ds.targets().view()))
        }
        _ => {
            let v: Vec<(Rows, Rows)> = {
                let mut ds = DatasetBase::new(r.view_mut(), tg.view_mut());
                let v = ds.iter_fold(c.k, clo).map(|(_, va)| (rows2(&va.records().view()), I::rows(&va.targets().view()))).collect();
                v
            };
            (v, rows2(&r.view()), I::rows(&tg.view()))
        }
    };
    IterOut { trains: trains.into_inner(), valids, fin_r, fin_t, sibling }
}
fn iter_fold_dispatch(c: &Cfg) -> IterOut {
    macro_rules! go {
        ($a:ty, $b:ty) => {
            if c.dim == 1 {
                iter_fold_run::<$a, $b, Ix1>(c)
            } else {
                iter_fold_run::<$a, $b, Ix2>(c)
            }
        };
    }
    match (c.er, c.et) {
        ("f64", "f64") => go!(f64, f64),
        ("f64", "f32") => go!(f64, f32),
        ("f64", "usize") => go!(f64, usize),
        ("f32", "f64") => go!(f32, f64),
        ("f32", "f32") => go!(f32, f32),
        ("f32", "usize") => go!(f32, usize),
        _ => unreachable!(),
    }
}
fn iter_fold_oracle(ctx: &mut Ctx, c: &Cfg, o: &IterOut) {
    let (n, k, p, t) = (c.n, c.k, c.p, c.t);
    ctx.require(o.trains.len() == k && o.valids.len() == k, "fold_count", "iter_fold", || format!("{} closures / {} validation views for k={}", o.trains.len(), o.valids.len(), k));
    let exp_t = |id: usize| -> Vec<u64> { (0..t).map(|cc| (TBASE + id * t + cc) as u64).collect() };
    for i in 0..k.min(o.trains.len()).min(o.valids.len()) {
        oracle_pair(ctx, "iter_fold", n, k, p, i, (&o.trains[i].0, &o.trains[i].1, &o.valids[i].0, &o.valids[i].1), &exp_t, &tagged_id(t));
    }
    let want_r: Vec<u64> = (0..(n * p) as u64).collect();
    let want_t: Vec<u64> = (0..(n * t) as u64).map(|x| TBASE as u64 + x).collect();
    ctx.require(flat(&o.fin_r) == want_r && flat(&o.fin_t) == want_t && o.fin_r.len() == n && o.fin_t.len() == n, "restored", &nk_class("iter_fold", n, k), || format!("buffers after iter_fold: {:?} / {:?}", o.fin_r, o.fin_t));
    if let Some((sr, st)) = &o.sibling {
        // the other handle of the shared storage still shows the original rows in their order
        ctx.require(flat(sr) == want_r && flat(st) == want_t && sr.len() == n && st.len() == n, "restored", "iter_fold:sibling_handle", || format!("second ArcArray handle after iter_fold: {:?} / {:?}", sr, st));
    }
}

fn iter_fold_response(o: &IterOut) -> String {
    let sh = |x: &(Rows, Rows)| format!("{}/{}", list(flat(&x.0), |v| v.to_string()), list(flat(&x.1), |v| v.to_string()));
    let sh_sorted = |x: &(Rows, Rows)| sh(&sort_paired(&x.0, &x.1));
    format!(
        "ok trains={} valids={} final={}/{}",
        o.trains.iter().map(sh_sorted).collect::<Vec<_>>().join(" "),
        o.valids.iter().map(sh).collect::<Vec<_>>().join(" "),
        list(flat(&o.fin_r), |v| v.to_string()),
        list(flat(&o.fin_t), |v| v.to_string())
    )
}

/// every `iter_fold` request is compared with the model (`iterFoldLayout sr st …`): where the code
/// documents a panic (`k = 0`, `k > n`, not contiguous in standard order) the model answers
/// `panic` as well.  The ORACLE speaks only where the statement does (`2 <= k <= n`: a panic on a
/// dataset that `as_slice_mut` accepts is a failure) — and on every call that returns, whatever
/// the layout or `k`, all clauses must hold.
fn op_iter_fold(em: &mut Em, c: Cfg) {
    let (n, k) = (c.n, c.k);
    let (sr, st) = probe_std(n, c.p, c.t, c.dim, c.lr, c.lt, c.own);
    let op = format!("iter_fold {} sr={} st={}", c.line(), sr as u8, st as u8);
    let promised = guard(n, k) && sr && st;
    let mut returned = false;
    let body = |ctx: &mut Ctx| {
        let o = iter_fold_dispatch(&c);
        iter_fold_oracle(ctx, &c, &o);
        returned = true;
        iter_fold_response(&o)
    };
    if promised {
        em.case_valid(op, "iter_fold", body);
    } else {
        em.case(op, body);
    }
    if !guard(n, k) {
        em.count(if returned { "unguarded:iter_fold:returned" } else { "unguarded:iter_fold:panic" });
        if k == 1 && returned {
            em.count("ok:iter_fold:k=1");
        }
    } else if !(sr && st) {
        em.count(if returned { "nonstd:iter_fold:returned" } else { "nonstd:iter_fold:documented_panic" });
    } else if returned {
        em.count(&format!("ok:iter_fold:own={}", c.own));
        em.count(&format!("ok:iter_fold:er={}", c.er));
        em.count(&format!("ok:iter_fold:et={}", c.et));
        em.count(&format!("ok:iter_fold:dim={}", c.dim));
        em.count(&format!("ok:iter_fold:lr={}", c.lr));
        em.count(if n % k == 0 { "ok:iter_fold:n_mod_k=0" } else { "ok:iter_fold:n_mod_k=nonzero" });
        if c.p == 0 || c.t == 0 {
            em.count("ok:iter_fold:zero_width");
        }
        if k > 255 {
            em.count("ok:iter_fold:k>255");
        }
        let t_plain = if c.dim == 1 { tgts_l::<f64, Ix1>(n, 1, c.lt).is_standard_layout() } else { tgts_l::<f64, Ix2>(n, c.t, c.lt).is_standard_layout() };
        if c.own == 2 && !t_plain {
            // shared strided targets that ndarray compacted when `view_mut()` made them unique
            em.count("ok:iter_fold:arc_compacted");
        }
    }
}

// ---------------------------------------------------------------- cross_validate

#[derive(thiserror::Error, Debug)]
enum MockError {
    #[error("fit:{0}")]
    Fit(u32),
    #[error(transparent)]
    Linfa(#[from] linfa::error::Error),
}

/// the evaluation closure fails with different `linfa::Error` variants, selected by the code
fn eval_error(c: u32) -> linfa::error::Error {
    use linfa::error::Error as E;
    match c % 5 {
        0 => E::Parameters(format!("eval:{}", c)),
        1 => E::Priors(format!("eval:{}", c)),
        2 => E::NotConverged(format!("eval:{}", c)),
        3 => E::MismatchedShapes(c as usize, 7),
        _ => E::NotEnoughSamples,
    }
}
/// canonical name of an error that came out of cross_validate: `fit:c` / `eval:c` when it is the
/// very error value a scripted cell produced (variant and payload intact), else a description
fn canon_err(e: &MockError, scripted_eval: &[u32]) -> String {
    use linfa::error::Error as E;
    match e {
        MockError::Fit(c) => format!("fit:{}", c),
        MockError::Linfa(E::Parameters(s)) if s.strip_prefix("eval:").and_then(|x| x.parse::<u32>().ok()).map_or(false, |c| c % 5 == 0) => s.clone(),
        MockError::Linfa(E::Priors(s)) if s.strip_prefix("eval:").and_then(|x| x.parse::<u32>().ok()).map_or(false, |c| c % 5 == 1) => s.clone(),
        MockError::Linfa(E::NotConverged(s)) if s.strip_prefix("eval:").and_then(|x| x.parse::<u32>().ok()).map_or(false, |c| c % 5 == 2) => s.clone(),
        MockError::Linfa(E::MismatchedShapes(a, 7)) if a % 5 == 3 => format!("eval:{}", a),
        // NotEnoughSamples carries no payload: it names the first scripted cell that uses it (when two
        // cells use it, several cells fail and the response is `one-of-scripted` anyway)
        MockError::Linfa(E::NotEnoughSamples) => match scripted_eval.iter().find(|c| **c % 5 == 4) {
            Some(c) => format!("eval:{}", c),
            None => "eval:NotEnoughSamples".to_string(),
        },
        other => format!("foreign-error:{}", other),
    }
}

struct Script {
    n: usize,
    k: usize,
    p: usize,
    t: usize,
    fit: Vec<Vec<u32>>,
    ev: Vec<Vec<u32>>,
    vals: Vec<Vec<Vec<i64>>>,
    den: i64,
    notes: RefCell<Vec<(String, String)>>,
    fits_seen: RefCell<Vec<(usize, usize)>>,
    evals_seen: RefCell<Vec<(usize, usize)>>,
}
impl Script {
    fn fs(&self) -> usize {
        self.n / self.k
    }
    fn note(&self, clause: &str, detail: String) {
        self.notes.borrow_mut().push((clause.into(), detail));
    }
    /// fold index from the ids present in a training view (smallest missing id / fold size)
    fn fold_of_train(&self, r: &ArrayView2<f64>) -> usize {
        let mut present = vec![false; self.n];
        for row in r.rows() {
            if row.is_empty() {
                continue;
            }
            let id = (row[0] as usize) / self.p;
            if id < self.n {
                present[id] = true;
            }
        }
        let missing = present.iter().position(|x| !*x).unwrap_or(0);
        (missing / self.fs()).min(self.k - 1)
    }
}
struct MockParams<'s> {
    s: &'s Script,
    m: usize,
}
struct MockModel<'s> {
    s: &'s Script,
    m: usize,
    fold: usize,
}

fn check_train(s: &Script, fold: usize, rec: &ArrayView2<f64>, tg: Vec<Vec<u64>>) {
    // the training view of fold `fold` must be the complement of block `fold`, rows paired
    let fs = s.fs();
    let mut seen = vec![0usize; s.n];
    let rr = rows2(rec);
    if rr.len() != tg.len() {
        s.note("pairing", format!("cv train fold {}: {} vs {}", fold, rr.len(), tg.len()));
    }
    for (a, b) in rr.iter().zip(tg.iter()) {
        let id = a[0] as usize / s.p;
        let ok_r = a.len() == s.p && a.iter().enumerate().all(|(j, v)| *v as usize == id * s.p + j);
        let ok_t = b.len() == s.t && b.iter().enumerate().all(|(c, v)| *v as usize == TBASE + id * s.t + c);
        if !(ok_r && ok_t && id < s.n) {
            s.note("pairing", format!("cv train fold {}: {:?} with {:?}", fold, a, b));
        } else {
            seen[id] += 1;
        }
    }
    let ok = (0..s.n).all(|id| seen[id] == if id / fs == fold && id < s.k * fs { 0 } else { 1 });
    if !ok {
        s.note("partition", format!("cv train fold {}: multiplicities {:?}", fold, seen));
    }
}

impl<'s> MockParams<'s> {
    fn fit_common(&self, rec: &ArrayView2<f64>, tg: Vec<Vec<u64>>) -> Result<MockModel<'s>, MockError> {
        let fold = self.s.fold_of_train(rec);
        check_train(self.s, fold, rec, tg);
        self.s.fits_seen.borrow_mut().push((fold, self.m));
        match self.s.fit[fold][self.m] {
            0 => Ok(MockModel { s: self.s, m: self.m, fold }),
            c => Err(MockError::Fit(c)),
        }
    }
}
impl<'a, 's> Fit<ArrayView2<'a, f64>, ArrayView2<'a, f64>, MockError> for MockParams<'s> {
    type Object = MockModel<'s>;
    fn fit(&self, d: &DatasetView<f64, f64, Ix2>) -> Result<Self::Object, MockError> {
        self.fit_common(&d.records().view(), rows2(&d.targets().view()))
    }
}
impl<'a, 's> Fit<ArrayView2<'a, f64>, ArrayView1<'a, f64>, MockError> for MockParams<'s> {
    type Object = MockModel<'s>;
    fn fit(&self, d: &DatasetView<f64, f64, Ix1>) -> Result<Self::Object, MockError> {
        self.fit_common(&d.records().view(), Ix1::rows(&d.targets().view()))
    }
}
impl<'s> MockModel<'s> {
    fn check_valid(&self, x: &ArrayView2<f64>) {
        let fs = self.s.fs();
        let ids: Vec<usize> = x.rows().into_iter().map(|r| r[0] as usize / self.s.p).collect();
        let want: Vec<usize> = (self.fold * fs..(self.fold + 1) * fs).collect();
        if ids != want {
            self.s.note("valid_block", format!("cv predict fold {}: ids {:?}", self.fold, ids));
        }
        let cells_ok = x.rows().into_iter().all(|r| r.len() == self.s.p && r.iter().enumerate().all(|(j, v)| *v as usize == (r[0] as usize) + j));
        if !cells_ok {
            self.s.note("pairing", format!("cv predict fold {}: validation records are not whole rows", self.fold));
        }
    }
    fn code(&self) -> f64 {
        (self.fold * 1000 + self.m) as f64
    }
}
impl<'b, 's> PredictInplace<ArrayView2<'b, f64>, Array2<f64>> for MockModel<'s> {
    fn predict_inplace<'a>(&'a self, x: &'a ArrayView2<'b, f64>, y: &mut Array2<f64>) {
        self.check_valid(x);
        y.fill(self.code());
    }
    fn default_target(&self, x: &ArrayView2<f64>) -> Array2<f64> {
        Array2::zeros((x.nrows(), self.s.t))
    }
}
impl<'b, 's> PredictInplace<ArrayView2<'b, f64>, Array1<f64>> for MockModel<'s> {
    fn predict_inplace<'a>(&'a self, x: &'a ArrayView2<'b, f64>, y: &mut Array1<f64>) {
        self.check_valid(x);
        y.fill(self.code());
    }
    fn default_target(&self, x: &ArrayView2<f64>) -> Array1<f64> {
        Array1::zeros(x.nrows())
    }
}

/// what the evaluation closure is handed: the WHOLE prediction of one model on one fold (every cell
/// the model's code, one row per validation sample) and that fold's validation targets
fn eval_common(s: &Script, pred: Vec<f64>, pred_rows: usize, truth_rows: Vec<Vec<u64>>) -> Result<Vec<f64>, linfa::error::Error> {
    let code = pred.first().copied().unwrap_or(-1.0);
    if code < 0.0 || pred.iter().any(|x| *x != code) || pred_rows != truth_rows.len() || pred.len() != pred_rows * s.t {
        s.note("eval_pairs_own_fold", format!("eval got a prediction array that is not one model's prediction on one fold: {} rows / {} cells vs {} truth rows", pred_rows, pred.len(), truth_rows.len()));
    }
    let code = code.max(0.0) as usize;
    let (pf, m) = (code / 1000, code % 1000);
    let fs = s.fs();
    let truth_ids: Vec<usize> = truth_rows.iter().map(|r| (r[0] as usize).saturating_sub(TBASE) / s.t).collect();
    let rows_ok = truth_rows.iter().zip(truth_ids.iter()).all(|(r, id)| r.len() == s.t && r.iter().enumerate().all(|(c, v)| *v as usize == TBASE + id * s.t + c));
    let fold = (truth_ids.first().copied().unwrap_or(0) / fs).min(s.k - 1);
    if pf != fold {
        s.note("eval_pairs_own_fold", format!("eval got predictions of fold {} with truths of fold {}", pf, fold));
    }
    let want: Vec<usize> = (fold * fs..(fold + 1) * fs).collect();
    if truth_ids != want || !rows_ok {
        s.note("valid_block", format!("cv eval fold {}: truth rows {:?}", fold, truth_rows));
    }
    let m = m.min(s.ev[fold].len().saturating_sub(1));
    s.evals_seen.borrow_mut().push((fold, m));
    match s.ev[fold][m] {
        // the integers `q` stand for `q / den`; the division happens in the accumulator's type
        0 => Ok(s.vals[fold][m].iter().map(|q| *q as f64).collect()),
        c => Err(eval_error(c)),
    }
}

trait Acc: linfa::Float {
    const BITS: usize;
    const EPS: f64;
    fn of(x: f64) -> Self;
    fn to64(self) -> f64;
    /// the score `q / den`, one rounding in the accumulator's own type (as the Lean driver does)
    fn score(q: f64, den: i64) -> Self {
        Self::of(q) / Self::of(den as f64)
    }
}
impl Acc for f64 {
    const BITS: usize = 64;
    const EPS: f64 = f64::EPSILON;
    fn of(x: f64) -> Self {
        x
    }
    fn to64(self) -> f64 {
        self
    }
}
impl Acc for f32 {
    const BITS: usize = 32;
    const EPS: f64 = f32::EPSILON as f64;
    fn of(x: f64) -> Self {
        x as f32
    }
    fn to64(self) -> f64 {
        self as f64
    }
}

struct CvCfg {
    n: usize,
    k: usize,
    p: usize,
    t: usize,
    m: usize,
    single: bool,
    acc: usize,
    own: u8, // 0 mutable views, 1 owned, 2 ArcArray with a second handle alive
    lr: char,
    lt: char,
    /// `Some(l)`: the evaluation closure returns only the first `l` of its `t` scores (a closure
    /// that breaks the documented "one score per target": NOT promised, run and counted only)
    evlen: Option<usize>,
}

/// result, dataset rows after the call, rows seen through the second handle (own = 2)
type CvRes<FACC> = (Result<Vec<Vec<FACC>>, MockError>, Rows, Rows, Option<(Rows, Rows)>);

fn cv_run<FACC: Acc>(c: &CvCfg, s: &Script) -> CvRes<FACC> {
    let params: Vec<MockParams> = (0..c.m).map(|i| MockParams { s, m: i }).collect();
    let t = c.t;
    let den = s.den;
    let ev1 = |pred: &Array1<f64>, truth: &ArrayView1<f64>| -> Result<FACC, linfa::error::Error> { eval_common(s, pred.to_vec(), pred.len(), Ix1::rows(truth)).map(|v| FACC::score(v[0], den)) };
    let ev2 = |pred: &Array2<f64>, truth: &ArrayView2<f64>| -> Result<Array1<FACC>, linfa::error::Error> {
        eval_common(s, pred.iter().copied().collect(), pred.nrows(), rows2(truth)).map(|v| v.into_iter().take(c.evlen.unwrap_or(usize::MAX)).map(|q| FACC::score(q, den)).collect())
    };
    let out1 = |a: Array1<FACC>| -> Vec<Vec<FACC>> { a.iter().map(|x| vec![*x]).collect() };
    let out2 = |a: Array2<FACC>| -> Vec<Vec<FACC>> { a.rows().into_iter().map(|r| r.to_vec()).collect() };
    let mut r = recs_l::<f64>(c.n, c.p, c.lr);
    if c.single {
        let mut tg = tgts_l::<f64, Ix1>(c.n, 1, c.lt);
        match c.own {
            0 => {
                let res = {
                    let mut ds = DatasetBase::new(r.view_mut(), tg.view_mut());
                    let x = ds.cross_validate_single(c.k, &params, ev1).map(out1);
                    x
                };
                (res, rows2(&r.view()), Ix1::rows(&tg.view()), None)
            }
            2 => {
                let (rs, ts) = (r.into_shared(), tg.into_shared());
                let (r2, t2) = (rs.clone(), ts.clone());
                let mut ds = DatasetBase::new(rs, ts);
                let res = ds.cross_validate_single(c.k, &params, ev1).map(out1);
                (res, rows2(&ds.records().view()), Ix1::rows(&ds.targets().view()), Some((rows2(&r2.view()), Ix1::rows(&t2.view()))))
            }
            _ => {
                let mut ds = DatasetBase::new(r, tg);
                let res = ds.cross_validate_single(c.k, &params, ev1).map(out1);
                (res, rows2(&ds.records().view()), Ix1::rows(&ds.targets().view()), None)
            }
        }
    } else {
        let mut tg = tgts_l::<f64, Ix2>(c.n, t, c.lt);
        match c.own {
            0 => {
                let res = {
                    let mut ds = DatasetBase::new(r.view_mut(), tg.view_mut());
                    let x = ds.cross_validate(c.k, &params, ev2).map(out2);
                    x
                };
                (res, rows2(&r.view()), rows2(&tg.view()), None)
            }
            2 => {
                let (rs, ts) = (r.into_shared(), tg.into_shared());
                let (r2, t2) = (rs.clone(), ts.clone());
                let mut ds = DatasetBase::new(rs, ts);
                let res = ds.cross_validate(c.k, &params, ev2).map(out2);
                (res, rows2(&ds.records().view()), rows2(&ds.targets().view()), Some((rows2(&r2.view()), rows2(&t2.view()))))
            }
            _ => {
                let mut ds = DatasetBase::new(r, tg);
                let res = ds.cross_validate(c.k, &params, ev2).map(out2);
                (res, rows2(&ds.records().view()), rows2(&ds.targets().view()), None)
            }
        }
    }
}

fn cv_oracle_and_response<FACC: Acc>(ctx: &mut Ctx, c: &CvCfg, s: &Script, out: CvRes<FACC>) -> String {
    let (res, fin_r, fin_t, sibling) = out;
    let (n, k, p, t, m) = (c.n, c.k, c.p, c.t, c.m);
    let class = nk_class("cv", n, k);
    for (clause, detail) in s.notes.borrow().iter() {
        ctx.fail(clause, &class, detail.clone());
    }
    let want_r: Vec<u64> = (0..(n * p) as u64).collect();
    let want_t: Vec<u64> = (0..(n * t) as u64).map(|x| TBASE as u64 + x).collect();
    ctx.require(flat(&fin_r) == want_r && flat(&fin_t) == want_t, "restored", &class, || format!("buffers after cross_validate: {:?} / {:?}", fin_r, fin_t));
    if let Some((sr, st)) = &sibling {
        ctx.require(flat(sr) == want_r && flat(st) == want_t, "restored", "cv:sibling_handle", || format!("second ArcArray handle after cross_validate: {:?} / {:?}", sr, st));
    }
    // scripted failing cells
    let mut failing: Vec<String> = vec![];
    let mut scripted_eval: Vec<u32> = vec![];
    for f in 0..k {
        for mi in 0..m {
            if s.fit[f][mi] != 0 {
                failing.push(format!("fit:{}", s.fit[f][mi]));
            }
            if s.ev[f][mi] != 0 {
                failing.push(format!("eval:{}", s.ev[f][mi]));
                scripted_eval.push(s.ev[f][mi]);
            }
        }
    }
    match &res {
        Ok(a) => {
            ctx.require(failing.is_empty(), "cv_error_surfaces", &class, || format!("Ok although these cells fail: {:?}", failing));
            if failing.is_empty() {
                // every model is fitted on every fold and evaluated on every fold (a second call for
                // the same cell would not contradict the statement; double counting shows in the mean)
                let mut fs_seen = s.fits_seen.borrow().clone();
                let mut es_seen = s.evals_seen.borrow().clone();
                fs_seen.sort();
                fs_seen.dedup();
                es_seen.sort();
                es_seen.dedup();
                let all: Vec<(usize, usize)> = (0..k).flat_map(|f| (0..m).map(move |mi| (f, mi))).collect();
                ctx.require(fs_seen == all && es_seen == all, "cv_every_cell_once", &class, || format!("fits {:?} evals {:?}", fs_seen, es_seen));
                // the arithmetic mean, from first principles in f64; tolerance = what ANY order of
                // summation / division in the accumulator's type can lose
                let cls = format!("{}:acc=f{}", class, FACC::BITS);
                ctx.require(a.len() == m && a.iter().all(|r| r.len() == t), "cv_is_mean", &cls, || format!("score table {:?} is not {} models x {} targets", a, m, t));
                for mi in 0..m.min(a.len()) {
                    for cc in 0..t.min(a[mi].len()) {
                        let xs: Vec<f64> = (0..k).map(|f| s.vals[f][mi][cc] as f64 / s.den as f64).collect();
                        let mean = xs.iter().sum::<f64>() / k as f64;
                        let sabs = xs.iter().map(|x| x.abs()).sum::<f64>();
                        let tol = (k as f64 + 4.0) * FACC::EPS * sabs / k as f64 + 1e-300;
                        let got = a[mi][cc].to64();
                        ctx.require((got - mean).abs() <= tol, "cv_is_mean", &cls, || format!("model {} target {}: score {:e}, mean of the {} per-fold evaluations {:e} (tolerance {:e})", mi, cc, got, k, mean, tol));
                    }
                }
            }
            format!("ok {}", list2(a.iter().map(|r| r.iter()), |x| format!("~{}", hex64(x.to64()))))
        }
        Err(e) => {
            let name = canon_err(e, &scripted_eval);
            ctx.require(failing.contains(&name), "cv_error_surfaces", &class, || format!("error {:?} ({}) is not the error of any failing cell {:?}", e.to_string(), name, failing));
            if failing.len() > 1 && failing.contains(&name) {
                // several cells fail: the statement lets any of them surface
                "err one-of-scripted".to_string()
            } else {
                format!("err {}", name)
            }
        }
    }
}

fn op_cv(em: &mut Em, c: CvCfg, den: i64, fit: Vec<Vec<u32>>, ev: Vec<Vec<u32>>, vals: Vec<Vec<Vec<i64>>>) {
    let (sr, st) = probe_std(c.n, c.p, c.t, if c.single { 1 } else { 2 }, c.lr, c.lt, c.own);
    let line = format!(
        "n={} k={} p={} t={} m={} single={} acc={} own={} lr={} lt={} sr={} st={} den={} fit={} ev={} vals={}",
        c.n,
        c.k,
        c.p,
        c.t,
        c.m,
        c.single as u8,
        c.acc,
        c.own,
        c.lr,
        c.lt,
        sr as u8,
        st as u8,
        den,
        list2(fit.iter().map(|x| x.iter()), |x| x.to_string()),
        list2(ev.iter().map(|x| x.iter()), |x| x.to_string()),
        list3(vals.iter().map(|x| x.iter().map(|y| y.iter())), |x| x.to_string())
    );
    let s = Script { n: c.n, k: c.k, p: c.p, t: c.t, fit, ev, vals, den, notes: RefCell::new(vec![]), fits_seen: RefCell::new(vec![]), evals_seen: RefCell::new(vec![]) };
    // the op name selects the comparison rule of the score tokens (f64 / f32 accumulator)
    let op = format!("{} {}", if c.acc == 32 { "cv32" } else { "cv" }, line);
    // compared for every k and layout (the documented panics of iter_fold included); the oracle's
    // `no_panic` speaks where the statement does
    let promised = guard(c.n, c.k) && sr && st;
    let mut kind = String::new();
    let body = |ctx: &mut Ctx| {
        let resp = if c.acc == 32 {
            let out = cv_run::<f32>(&c, &s);
            cv_oracle_and_response::<f32>(ctx, &c, &s, out)
        } else {
            let out = cv_run::<f64>(&c, &s);
            cv_oracle_and_response::<f64>(ctx, &c, &s, out)
        };
        kind = resp.split(' ').next().unwrap_or("").to_string();
        resp
    };
    if promised {
        em.case_valid(op, "cv", body);
    } else {
        em.case(op, body);
    }
    let returned = !kind.is_empty();
    if !guard(c.n, c.k) {
        em.count(if returned { "unguarded:cv:returned" } else { "unguarded:cv:panic" });
        if c.k == 1 && kind == "ok" {
            em.count("ok:cv:k=1");
        }
    } else if !(sr && st) {
        em.count(if returned { "nonstd:cv:returned" } else { "nonstd:cv:documented_panic" });
    } else if kind == "ok" {
        em.count(&format!("ok:cv:acc=f{}", c.acc));
        em.count(&format!("ok:cv:own={}", c.own));
        em.count(&format!("ok:cv:single={}", c.single as u8));
        em.count(&format!("ok:cv:m={}", c.m.min(3)));
        em.count(&format!("ok:cv:den={}", den));
        if c.m > 0 && den != 4 {
            em.count(&format!("ok:cv:rounding_scores:acc=f{}", c.acc));
        }
        if c.k > 255 {
            em.count(&format!("ok:cv:k>255:acc=f{}", c.acc));
        }
    } else if kind == "err" {
        em.count("errsurfaced:cv");
    }
}

/// NOT promised (the documentation asks for one score per target): an evaluation closure that
/// returns fewer scores than there are target columns.  Run against the real code and counted:
/// ndarray broadcasts a single score into every column and refuses any other length.
fn op_cv_evalshape(em: &mut Em, n: usize, k: usize, t: usize, evlen: usize) {
    let m = 2;
    let c = CvCfg { n, k, p: 1, t, m, single: false, acc: 64, own: 1, lr: 'C', lt: 'C', evlen: Some(evlen) };
    let vals: Vec<Vec<Vec<i64>>> = (0..k).map(|f| (0..m).map(|mi| (0..t).map(|cc| (1 + f + 3 * mi + 7 * cc) as i64).collect()).collect()).collect();
    let s = Script { n, k, p: 1, t, fit: vec![vec![0; m]; k], ev: vec![vec![0; m]; k], vals, den: 4, notes: RefCell::new(vec![]), fits_seen: RefCell::new(vec![]), evals_seen: RefCell::new(vec![]) };
    let mut outcome = String::new();
    em.case(format!("#cv_evalshape n={} k={} t={} evlen={}", n, k, t, evlen), |_ctx| {
        outcome = match catch_unwind(AssertUnwindSafe(|| cv_run::<f64>(&c, &s))) {
            Err(_) => "panic".to_string(),
            Ok((Err(_), ..)) => "error".to_string(),
            Ok((Ok(a), ..)) => {
                // what came back: the first score's mean in every column?
                let bc = (0..m).all(|mi| {
                    let mean = (0..k).map(|f| s.vals[f][mi][0] as f64 / 4.0).sum::<f64>() / k as f64;
                    a.len() == m && a[mi].len() == t && a[mi].iter().all(|x| (*x - mean).abs() <= 1e-12 * mean.abs())
                });
                if bc { "broadcast".to_string() } else { "other".to_string() }
            }
        };
        "-".to_string()
    });
    em.count(&format!("unpromised:evalshape:len{}_of_{}:{}", evlen, t, outcome));
}

#[derive(Clone, Copy, Default)]
struct CvGen {
    nonstd: bool,
    acc: Option<usize>,
    force_ok: bool,
    positive: bool,
}

fn gen_cv(em: &mut Em, rng: &mut Rng, n: usize, k: usize, g: CvGen) {
    let p = 1 + rng.below(3);
    let single = rng.chance(1, 3);
    // mostly 1..3 target columns / models, sometimes more
    let t = if single { 1 } else if rng.chance(1, 10) { 4 + rng.below(2) } else { 1 + rng.below(3) };
    // "any number of candidate models": none at all in a tenth of the runs
    let m = if rng.chance(1, 10) { 0 } else if rng.chance(1, 10) { 4 + rng.below(3) } else { 1 + rng.below(3) };
    let acc = g.acc.unwrap_or(if rng.chance(1, 3) { 32 } else { 64 });
    let own = *rng.pick(&[0u8, 1, 1, 2]);
    let (lr, lt) = if g.nonstd { (*rng.pick(&['F', 'S', 'R', 'Q']), *rng.pick(&['C', 'S', 'R', 'O'])) } else { (*rng.pick(&['C', 'C', 'O']), *rng.pick(&['C', 'C', 'O'])) };
    // mostly valid runs; half with a scripted failure somewhere.  Codes are unique per cell.
    let mut fit = vec![vec![0u32; m]; k];
    let mut ev = vec![vec![0u32; m]; k];
    let mode = if m == 0 || g.force_ok { 5 } else { rng.below(6) };
    if mode == 0 || mode == 2 {
        for _ in 0..1 + rng.below(2) {
            let (f, mi) = (rng.below(k), rng.below(m));
            fit[f][mi] = (1 + f * m + mi) as u32;
        }
    }
    if mode == 1 || mode == 2 {
        for _ in 0..1 + rng.below(2) {
            let (f, mi) = (rng.below(k), rng.below(m));
            ev[f][mi] = (1 + f * m + mi) as u32;
        }
    }
    em.count(match mode {
        0 => "cv:fit_error",
        1 => "cv:eval_error",
        2 => "cv:both_errors",
        _ => "cv:ok",
    });
    // scores q/4 (exact sums) or q/10 (every score and every partial sum rounds: a mean taken
    // through a narrower type, or accumulated in another type than FACC, shows)
    let den = if rng.chance(1, 2) { 10 } else { 4 };
    let lo = if g.positive { 1 } else { -40 };
    let vals: Vec<Vec<Vec<i64>>> = (0..k).map(|_| (0..m).map(|_| (0..t).map(|_| rng.range(lo, 40)).collect()).collect()).collect();
    op_cv(em, CvCfg { n, k, p, t, m, single, acc, own, lr, lt, evlen: None }, den, fit, ev, vals);
}

pub fn run(em: &mut Em, rng: &mut Rng) {
    let nmax = if em.thorough() { 120 } else { 40 };
    // exhaustive in (n, k) incl. requests outside the guard (k = 0, 1, n+1)
    for n in 1..=nmax {
        for k in 0..=n + 1 {
            let p = 1 + (n + k) % 3;
            let t = 1 + (n + 2 * k) % 3;
            let dim = if (n + k) % 2 == 0 { 1 } else { 2 };
            // (1) the plain configuration: row-major f64, owned / view
            let base = Cfg::base(n, k, p, t, dim, if (n + k) % 4 < 2 { 1 } else { 0 });
            op_fold(em, base);
            op_iter_fold(em, Cfg { own: 1, ..base });
            // (2) a drawn configuration: layouts, element types, storage kinds, widths
            if guard(n, k) {
                let c = Cfg::random(rng, n, k, false);
                op_fold(em, c);
                if (n + k) % 3 == 0 {
                    op_fold_counted(em, Cfg::random(rng, n, k, true));
                }
            }
            if k >= 1 && k <= n {
                // iter_fold returns on what `as_slice_mut` accepts: mostly draw that (row-major, with
                // or without an offset into the allocation), sometimes any layout
                let mut ci = Cfg::random(rng, n, k, false);
                if !rng.chance(1, 5) {
                    ci.lr = *rng.pick(&['C', 'C', 'O']);
                    ci.lt = *rng.pick(&['C', 'C', 'O']);
                }
                op_iter_fold(em, ci);
            }
            if guard(n, k) && (n + 2 * k) % 11 == 0 {
                // shared strided targets: ndarray copies them compactly when `view_mut()` makes them
                // unique, so `iter_fold` gets its slice and returns (on a fixed share of the pairs)
                let mut ca = Cfg::random(rng, n, k, false);
                ca.own = 2;
                ca.lr = *rng.pick(&['C', 'O']);
                ca.lt = 'S';
                op_iter_fold(em, ca);
            }
            if k >= 1 && k <= n + 1 && n <= 24 {
                if k <= n || rng.chance(1, 4) {
                    gen_cv(em, rng, n, k, CvGen::default());
                }
                if guard(n, k) && rng.chance(1, 8) {
                    gen_cv(em, rng, n, k, CvGen { nonstd: true, ..CvGen::default() });
                }
            }
        }
    }
    // random larger shapes
    let extra = if em.thorough() { 400 } else { 60 };
    for _ in 0..extra {
        let n = 2 + rng.below(if em.thorough() { 3000 } else { 400 });
        let k = 2 + rng.below(n.min(64) - 1);
        let c = Cfg::random(rng, n, k, false);
        op_fold(em, c);
        let mut ci = Cfg::random(rng, n, k, false);
        if !rng.chance(1, 5) {
            ci.lr = *rng.pick(&['C', 'C', 'O']);
            ci.lt = *rng.pick(&['C', 'C', 'O']);
        }
        op_iter_fold(em, ci);
        if rng.chance(1, 4) {
            op_fold_counted(em, Cfg::random(rng, n, k, true));
        }
        if n <= 200 {
            gen_cv(em, rng, n, k, CvGen::default());
        }
    }
    // fold counts beyond u8 — cross-validation: the divisor of the mean is k itself, in f64 and f32
    let big = if em.thorough() { 60 } else { 24 };
    for i in 0..big {
        let n = 256 + rng.below(400);
        let k = 256 + rng.below(n - 255);
        gen_cv(em, rng, n, k, CvGen { acc: Some(if i % 2 == 0 { 32 } else { 64 }), force_ok: i % 4 < 3, positive: true, ..CvGen::default() });
    }
    // — and fold / iter_fold themselves (k pairs of n rows each: keep the rows narrow)
    let bigf = if em.thorough() { 8 } else { 3 };
    for _ in 0..bigf {
        let n = 256 + rng.below(45);
        let k = 256 + rng.below(n - 255);
        let mut c = Cfg::random(rng, n, k, false);
        c.p = 1;
        c.t = 1;
        op_fold(em, c);
        op_iter_fold(em, Cfg { lr: 'C', lt: 'C', ..c });
    }
    // not promised: evaluation closures that return the wrong number of scores
    for (t, evlen) in [(2usize, 1usize), (3, 1), (3, 2)] {
        op_cv_evalshape(em, 6, 3, t, evlen);
    }
}
