//! C09 — k-means: nearest-centroid assignment, Lloyd step, budgets, restarts.
//!
//! Ops (model counterpart in `lean/LinfaSpec/Drv/C09.lean`); every op exists for f64 and — with
//! the token `prec=32` and 8-hex-digit floats — for f32 (the driver runs the same model on `Float32`):
//!   closest  metric C x            hook `closest_centroid`
//!   update   C X mem               hook `compute_centroids`
//!   fit      metric X init m tol Q public API (`Precomputed`, `n_runs(1)`) on a training matrix in one of five
//!                                  memory layouts, then every calling form of predict / transform on X++Q
//!   traj     metric X init M tol   public API for budgets 1..M from one initial matrix
//!   restarts metric X inits k m tol  public API with a random initialiser and `n_runs(r)`, r = 1..R;
//!                                  the initial matrices of the runs are observed through the hook `init_run`
//!   sweep    metric X inits k ms tol  public API with `n_runs(R)` (R = number of initial matrices, random
//!                                  initialiser, fixed seed) for every budget in `ms`; also used for the
//!                                  constructors `KMeans::params` / `params_with_rng` with their default
//!                                  hyper-parameters (read back from the checked parameter set)
//!   #lp      …                     oracle only: `LpDist(p)` (goes through libm `powf`)
//! Everything numeric is sent as IEEE bit patterns; centroids, distances, memberships and counts are
//! compared exactly: the model performs the same operations in the same order, including the
//! eight-fold unrolled `ndarray::sum` behind the inertia, so the restart selection is exact too.
//! The oracle recomputes the statement's predicates from first principles and is tie-aware: where two
//! centroids are equally near, any of them is accepted (the statement promises *a* nearest centroid).
use crate::util::*;
use linfa::traits::{Fit, Predict, PredictInplace, Transformer};
use linfa::{DatasetBase, ParamGuard};
use linfa_clustering::verif_hooks_c09 as hooks;
use linfa_clustering::{KMeans, KMeansInit};
use linfa_nn::distance::{Distance, L1Dist, L2Dist, LInfDist, LpDist};
use ndarray::{s, Array1, Array2, ArrayView2, Axis, ShapeBuilder};
use rand::SeedableRng;
use rand_xoshiro::Xoshiro256Plus;
use std::cell::Cell;
use std::panic::{catch_unwind, AssertUnwindSafe};

// ------------------------------------------------------------------------------ scalars

trait Sc: linfa::Float {
    const PREC: u32;
    fn of(v: f64) -> Self;
    fn to(self) -> f64;
    fn hx(self) -> String;
    /// machine epsilon
    fn eps() -> f64;
    /// relative slack granted to a recomputed sum of up to a few hundred terms
    fn rel() -> f64;
    /// magnitudes next to the ends of the range on which squared distances still neither overflow nor
    /// (for the upper two) lose everything
    fn extreme_scales() -> [f64; 4];
    /// smallest positive value (a tolerance that only an exactly-zero shift satisfies)
    fn tiny() -> Self;
    /// initial position for the long-budget cases: halving it `m` times stays non-zero for m <= 260
    fn long_start() -> Self;
    /// a quarter of the largest finite value (a power-of-two scaling of it, so small multiples are exact)
    fn maxq() -> f64;
}
impl Sc for f64 {
    const PREC: u32 = 64;
    fn of(v: f64) -> f64 {
        v
    }
    fn to(self) -> f64 {
        self
    }
    fn hx(self) -> String {
        hex64(self)
    }
    fn eps() -> f64 {
        f64::EPSILON
    }
    fn rel() -> f64 {
        1e-12
    }
    fn extreme_scales() -> [f64; 4] {
        [1e-170, 1e-150, 1e140, 1e145]
    }
    fn tiny() -> f64 {
        f64::from_bits(1)
    }
    fn long_start() -> f64 {
        1.0
    }
    fn maxq() -> f64 {
        f64::MAX / 4.0
    }
}
impl Sc for f32 {
    const PREC: u32 = 32;
    fn of(v: f64) -> f32 {
        v as f32
    }
    fn to(self) -> f64 {
        self as f64
    }
    fn hx(self) -> String {
        hex32(self)
    }
    fn eps() -> f64 {
        f32::EPSILON as f64
    }
    fn rel() -> f64 {
        1e-4
    }
    fn extreme_scales() -> [f64; 4] {
        [1e-25, 1e-18, 1e15, 1e16]
    }
    fn tiny() -> f32 {
        f32::from_bits(1)
    }
    fn long_start() -> f32 {
        f32::from_bits(0x7b80_0000) // 2^120
    }
    fn maxq() -> f64 {
        (f32::MAX / 4.0) as f64
    }
}
fn hxc<F: Sc>(v: F) -> String {
    if v.is_nan() {
        "nan".into()
    } else {
        v.hx()
    }
}
fn prec_tok<F: Sc>() -> &'static str {
    if F::PREC == 32 {
        " prec=32"
    } else {
        ""
    }
}
/// configuration class of an f32 case: the f64 class with a suffix
fn cls<F: Sc>(s: String) -> String {
    if F::PREC == 32 {
        s + ":f32"
    } else {
        s
    }
}

// ------------------------------------------------------------------------------ metrics

#[derive(Clone, Copy, PartialEq, Debug)]
enum Metric {
    L1,
    L2,
    Linf,
    /// `LpDist(p)`: oracle only
    Lp(f64),
}
impl Metric {
    fn name(self) -> String {
        match self {
            Metric::L1 => "l1".into(),
            Metric::L2 => "l2".into(),
            Metric::Linf => "linf".into(),
            Metric::Lp(p) => format!("lp{}", p),
        }
    }
    /// reduced distance, written out from the definition
    fn rd<F: Sc>(self, a: &[F], b: &[F]) -> F {
        match self {
            Metric::L2 => a.iter().zip(b).fold(F::zero(), |s, (x, y)| s + (*x - *y) * (*x - *y)),
            Metric::L1 => a.iter().zip(b).fold(F::zero(), |s, (x, y)| s + (*x - *y).abs()),
            Metric::Linf => a.iter().zip(b).fold(F::zero(), |s: F, (x, y)| if (*x - *y).abs() > s { (*x - *y).abs() } else { s }),
            Metric::Lp(p) => {
                let pp = F::of(p);
                a.iter().zip(b).fold(F::zero(), |s, (x, y)| s + (*x - *y).abs().powf(pp)).powf(F::one() / pp)
            }
        }
    }
    /// relative slack of a recomputed reduced distance over `p` coordinates (zero on lattice data, where
    /// every operation is exact and the slack multiplies an exact value that either ties or does not)
    fn slack<F: Sc>(self, p: usize, d: F) -> F {
        let ulps = match self {
            Metric::Lp(_) => 64.0,
            _ => 4.0,
        };
        F::of(ulps * F::eps() * (p as f64 + 1.0)) * d.abs()
    }
}
const METRICS: [Metric; 3] = [Metric::L2, Metric::L1, Metric::Linf];

macro_rules! with_dist {
    ($metric:expr, $F:ty, |$d:ident| $body:expr) => {
        match $metric {
            Metric::L2 => {
                let $d = L2Dist;
                $body
            }
            Metric::L1 => {
                let $d = L1Dist;
                $body
            }
            Metric::Linf => {
                let $d = LInfDist;
                $body
            }
            Metric::Lp(p) => {
                let $d = LpDist(<$F as Sc>::of(p));
                $body
            }
        }
    };
}

// ------------------------------------------------------------------------------ matrices and layouts

fn mat<F: Sc>(rows: &[Vec<F>], p: usize) -> Array2<F> {
    Array2::from_shape_fn((rows.len(), p), |(i, j)| rows[i][j])
}
fn rows_of<F: Sc>(a: &Array2<F>) -> Vec<Vec<F>> {
    a.rows().into_iter().map(|r| r.to_vec()).collect()
}
fn show_mat<F: Sc>(rows: &[Vec<F>]) -> String {
    // NaN canonical (a returned centroid can be NaN on the overflow stream; requests never hold one)
    list2(rows.iter().map(|r| r.iter()), |x| hxc(*x))
}
fn show_count<F: Sc>(c: F) -> String {
    let c = c.to();
    if c.is_finite() && c >= 0.0 && c.fract() == 0.0 {
        format!("{}", c as u64)
    } else {
        format!("?{}", hex64c(c))
    }
}

/// memory layout in which a matrix is handed to linfa (the logical content is always the same)
#[derive(Clone, Copy, PartialEq, Debug)]
enum Lay {
    /// owned, row-major, contiguous
    C,
    /// column-major (Fortran order; what `x.t()` of a row-major matrix looks like)
    Fo,
    /// every second row of a taller matrix (`slice(s![..;2, ..])`)
    RowStrided,
    /// every second column of a wider matrix (rows are not contiguous)
    ColStrided,
    /// negative row stride (`slice(s![..;-1, ..])` of the reversed matrix)
    Reversed,
}
const LAYS: [Lay; 5] = [Lay::C, Lay::Fo, Lay::RowStrided, Lay::ColStrided, Lay::Reversed];
impl Lay {
    fn name(self) -> &'static str {
        match self {
            Lay::C => "C",
            Lay::Fo => "F",
            Lay::RowStrided => "rowstride",
            Lay::ColStrided => "colstride",
            Lay::Reversed => "reversed",
        }
    }
}
/// backing storage of a laid-out matrix; the gaps of the strided layouts hold NaN, so code that walks
/// the memory instead of the logical rows is noticed
struct Laid<F: Sc> {
    store: Array2<F>,
    lay: Lay,
}
impl<F: Sc> Laid<F> {
    fn new(x: &Array2<F>, lay: Lay) -> Self {
        let (n, p) = x.dim();
        let store = match lay {
            Lay::C => x.clone(),
            Lay::Fo => {
                let mut a = Array2::zeros((n, p).f());
                a.assign(x);
                a
            }
            Lay::RowStrided => {
                let mut a = Array2::from_elem((2 * n, p), F::nan());
                a.slice_mut(s![..;2, ..]).assign(x);
                a
            }
            Lay::ColStrided => {
                let mut a = Array2::from_elem((n, 2 * p), F::nan());
                a.slice_mut(s![.., ..;2]).assign(x);
                a
            }
            Lay::Reversed => x.slice(s![..;-1, ..]).to_owned(),
        };
        Laid { store, lay }
    }
    fn view(&self) -> ArrayView2<'_, F> {
        match self.lay {
            Lay::C | Lay::Fo => self.store.view(),
            Lay::RowStrided => self.store.slice(s![..;2, ..]),
            Lay::ColStrided => self.store.slice(s![.., ..;2]),
            Lay::Reversed => self.store.slice(s![..;-1, ..]),
        }
    }
}

// ------------------------------------------------------------------------------ calling linfa

/// what one call of the public API yields
struct FitOut<F: Sc> {
    centroids: Vec<Vec<F>>,
    counts: Vec<F>,
    inertia: F,
    /// `predict(&matrix)` on X++Q
    pred: Vec<usize>,
    /// the same rows predicted one observation at a time (the `Ix1` form of `predict`)
    pred1: Vec<usize>,
    /// `predict_inplace` on a caller-supplied buffer that held 7777 everywhere
    inplace: Vec<usize>,
    tr: Vec<F>,
    /// the other calling forms of `predict`: matrix by value, `DatasetBase` by value, `&DatasetBase`
    forms: Vec<(&'static str, Vec<usize>)>,
    /// `predict_inplace` with a buffer one cell short: "panic" (the documented assert), "accepted", "n/a"
    short_buf: &'static str,
}

#[derive(Clone)]
enum Init<F: Sc> {
    Pre(Array2<F>),
    Random,
    Kpp,
    Para,
}
impl<F: Sc> Init<F> {
    fn to_linfa(&self) -> KMeansInit<F> {
        match self {
            Init::Pre(c) => KMeansInit::Precomputed(c.clone()),
            Init::Random => KMeansInit::Random,
            Init::Kpp => KMeansInit::KMeansPlusPlus,
            Init::Para => KMeansInit::KMeansPara,
        }
    }
    fn name(&self) -> &'static str {
        match self {
            Init::Pre(_) => "precomputed",
            Init::Random => "random",
            Init::Kpp => "kmeans++",
            Init::Para => "kmeans||",
        }
    }
}
fn init_name<F: Sc>(i: &KMeansInit<F>) -> &'static str {
    match i {
        KMeansInit::Precomputed(_) => "precomputed",
        KMeansInit::Random => "random",
        KMeansInit::KMeansPlusPlus => "kmeans++",
        KMeansInit::KMeansPara => "kmeans||",
        #[allow(unreachable_patterns)]
        _ => "other",
    }
}

/// everything the fitted model is asked afterwards, in every calling form
fn observe<F: Sc, D: Distance<F>>(model: &KMeans<F, D>, x: &Array2<F>, q: &Array2<F>, lay_q: Lay) -> FitOut<F> {
    let all = if q.nrows() > 0 { ndarray::concatenate(Axis(0), &[x.view(), q.view()]).unwrap() } else { x.clone() };
    let laid = Laid::new(&all, lay_q);
    let av = laid.view();
    let pred: Array1<usize> = model.predict(&av);
    let tr: Array1<F> = model.transform(&av);
    let pred1: Vec<usize> = av
        .rows()
        .into_iter()
        .map(|r| {
            let a: usize = model.predict(&r);
            a
        })
        .collect();
    let mut buf = Array1::from_elem(av.nrows(), 7777usize);
    model.predict_inplace(&av, &mut buf);
    let by_value: DatasetBase<ArrayView2<F>, Array1<usize>> = model.predict(av.clone());
    let ds_in = DatasetBase::from(av.clone());
    let by_ds_ref: Array1<usize> = model.predict(&ds_in);
    let by_ds: DatasetBase<ArrayView2<F>, Array1<usize>> = model.predict(ds_in);
    let short_buf = if av.nrows() >= 1 {
        let mut b = Array1::from_elem(av.nrows() - 1, 0usize);
        match catch_unwind(AssertUnwindSafe(|| model.predict_inplace(&av, &mut b))) {
            Err(_) => "panic",
            Ok(_) => "accepted",
        }
    } else {
        "n/a"
    };
    FitOut {
        centroids: rows_of(model.centroids()),
        counts: model.cluster_count().to_vec(),
        inertia: model.inertia(),
        pred: pred.to_vec(),
        pred1,
        inplace: buf.to_vec(),
        tr: tr.to_vec(),
        forms: vec![("matrix_by_value", by_value.targets().to_vec()), ("dataset_by_value", by_ds.targets().to_vec()), ("dataset_by_ref", by_ds_ref.to_vec())],
        short_buf,
    }
}

struct Req<'a, F: Sc> {
    metric: Metric,
    k: usize,
    x: &'a Array2<F>,
    q: &'a Array2<F>,
    init: &'a Init<F>,
    runs: usize,
    m: u64,
    tol: F,
    seed: u64,
    lay_x: Lay,
    lay_q: Lay,
}
/// a precomputed initial matrix in column-major order (what `c.t().to_owned()` or
/// `Array2::from_shape_vec((k, p).f(), ..)` hand to `KMeansInit::Precomputed`)
fn f_order<F: Sc>(a: &Array2<F>) -> Array2<F> {
    let mut b = Array2::zeros(a.dim().f());
    b.assign(a);
    b
}

fn fit_with<F: Sc, D: Distance<F>>(d: D, r: &Req<F>) -> Option<FitOut<F>> {
    let laid = Laid::new(r.x, r.lay_x);
    let ds = DatasetBase::from(laid.view());
    let model = KMeans::params_with(r.k, Xoshiro256Plus::seed_from_u64(r.seed), d).n_runs(r.runs).max_n_iterations(r.m).tolerance(r.tol).init_method(r.init.to_linfa()).fit(&ds);
    match model {
        Ok(m) => Some(observe(&m, r.x, r.q, r.lay_q)),
        Err(_) => None,
    }
}
fn fit_api<F: Sc>(r: &Req<F>) -> Option<FitOut<F>> {
    with_dist!(r.metric, F, |d| fit_with(d, r))
}
/// the simple form used by most ops: row-major everything
fn fit_plain<F: Sc>(metric: Metric, k: usize, x: &Array2<F>, q: &Array2<F>, init: &Init<F>, runs: usize, m: u64, tol: F, seed: u64) -> Option<FitOut<F>> {
    fit_api(&Req { metric, k, x, q, init, runs, m, tol, seed, lay_x: Lay::C, lay_q: Lay::C })
}
fn fit_lay<F: Sc>(metric: Metric, k: usize, x: &Array2<F>, q: &Array2<F>, init: &Init<F>, runs: usize, m: u64, tol: F, seed: u64, lay_x: Lay) -> Option<FitOut<F>> {
    fit_api(&Req { metric, k, x, q, init, runs, m, tol, seed, lay_x, lay_q: Lay::C })
}
/// the initial matrices of the runs, by linfa's own initialiser on the training matrix in the given
/// memory layout (the same view type `fit` hands to it)
fn inits_api<F: Sc>(metric: Metric, k: usize, x: &Array2<F>, lay_x: Lay, init: &KMeansInit<F>, runs: usize, mut rng: Xoshiro256Plus) -> Vec<Array2<F>> {
    // `fit` clones the rng once and calls the initialiser once per run; nothing else draws from it
    let laid = Laid::new(x, lay_x);
    with_dist!(metric, F, |d| (0..runs).map(|_| hooks::init_run(init, &d, k, laid.view(), &mut rng)).collect())
}
/// `Distance::distance` between two matrices, by linfa's own implementation (used only to place a
/// tolerance exactly on a shift)
fn mdist<F: Sc>(metric: Metric, a: &Array2<F>, b: &Array2<F>) -> F {
    with_dist!(metric, F, |d| d.distance(a.view(), b.view()))
}

// ------------------------------------------------------------------------------ oracle

fn bbox<F: Sc>(x: &[Vec<F>]) -> Vec<(F, F)> {
    let p = x[0].len();
    (0..p).map(|j| x.iter().fold((F::infinity(), F::neg_infinity()), |(lo, hi), r| (lo.min(r[j]), hi.max(r[j])))).collect()
}
fn in_bbox<F: Sc>(bb: &[(F, F)], c: &[Vec<F>]) -> bool {
    let rel = if F::PREC == 32 { 1e-5 } else { 1e-12 };
    c.iter().all(|r| {
        r.iter().zip(bb).all(|(v, (lo, hi))| {
            let slack = F::of(rel) * (lo.abs().max(hi.abs())) + F::min_positive_value();
            *v >= *lo - slack && *v <= *hi + slack
        })
    })
}
/// Σ over rows of the distance to the nearest centroid (accumulated in f64)
fn cost_of<F: Sc>(metric: Metric, c: &[Vec<F>], x: &[Vec<F>]) -> f64 {
    x.iter().map(|r| c.iter().map(|cc| metric.rd(cc, r)).fold(F::infinity(), |a, b| a.min(b)).to()).sum()
}

/// the centroids at minimal reduced distance of a row: (all distances, minimum, indices within slack)
fn nearest<F: Sc>(metric: Metric, c: &[Vec<F>], r: &[F]) -> (Vec<F>, F, Vec<usize>) {
    let ds: Vec<F> = c.iter().map(|cc| metric.rd(cc, r)).collect();
    let dmin = ds.iter().cloned().fold(F::infinity(), |a, b| a.min(b));
    let sl = metric.slack(r.len(), dmin);
    let tied: Vec<usize> = (0..ds.len()).filter(|j| ds[*j] <= dmin + sl).collect();
    (ds, dmin, tied)
}

/// the clauses of the statement that speak about one fitted model
fn oracle_fitted<F: Sc>(ctx: &mut Ctx, class: &str, metric: Metric, k: usize, x: &[Vec<F>], q: &[Vec<F>], o: &FitOut<F>, init_in_bbox: bool) {
    let n = x.len();
    let p = x[0].len();
    ctx.require(o.centroids.len() == k && o.centroids.iter().all(|r| r.len() == p), "k_centroids_dim", class, || format!("{} centroids for k={} p={}", o.centroids.len(), k, p));
    ctx.require(o.centroids.iter().flatten().all(|v| v.is_finite()), "finite", class, || format!("centroids {:?}", o.centroids));
    if o.centroids.len() != k || o.centroids.iter().any(|r| r.len() != p) {
        return;
    }
    if init_in_bbox {
        let bb = bbox(x);
        ctx.require(in_bbox(&bb, &o.centroids), "centroids_in_bbox", class, || format!("centroids {:?} outside the bounding box {:?}", o.centroids, bb));
    }
    let all: Vec<&Vec<F>> = x.iter().chain(q.iter()).collect();
    let na = all.len();
    ctx.require(o.pred.len() == na && o.tr.len() == na && o.pred1.len() == na, "per_row_output", class, || format!("{} predictions / {} single predictions / {} distances for {} rows", o.pred.len(), o.pred1.len(), o.tr.len(), na));
    ctx.require(o.inplace.len() == na && o.inplace.iter().all(|a| *a != 7777), "per_row_output", &format!("{}:form=predict_inplace", class), || format!("predict_inplace on a caller's buffer left cells unwritten: {:?}", o.inplace));
    ctx.require(o.short_buf != "accepted", "per_row_output", &format!("{}:form=predict_inplace_short_buffer", class), || format!("predict_inplace accepted a buffer of {} cells for {} observations: some observation is left without a cluster", na.saturating_sub(1), na));
    for (name, v) in &o.forms {
        ctx.require(v.len() == na, "per_row_output", &format!("{}:form={}", class, name), || format!("{} predictions for {} rows", v.len(), na));
    }
    let mut lo = vec![0usize; k];
    let mut hi = vec![0usize; k];
    let mut trsum = 0.0f64;
    for (i, r) in all.iter().enumerate() {
        let (ds, dmin, tied) = nearest(metric, &o.centroids, r);
        let which = if i < n { "training" } else { "new" };
        let is_min = |a: usize| a < k && tied.contains(&a);
        if let Some(a) = o.pred.get(i) {
            ctx.require(is_min(*a), "assign_is_argmin", class, || format!("row {} {:?} ({}): assigned {} at {:?}, minimum {:?} (all {:?})", i, r, which, a, ds.get(*a), dmin, ds));
            if let Some(a1) = o.pred1.get(i) {
                ctx.require(is_min(*a1), "assign_is_argmin", &format!("{}:form=single_observation", class), || format!("row {} {:?} predicted alone: assigned {} at {:?}, minimum {:?} under the model's metric (all {:?})", i, r, a1, ds.get(*a1), dmin, ds));
            }
            if let Some(a2) = o.inplace.get(i) {
                ctx.require(is_min(*a2), "assign_is_argmin", &format!("{}:form=predict_inplace", class), || format!("row {} {:?} through predict_inplace: assigned {} at {:?}, minimum {:?} (all {:?})", i, r, a2, ds.get(*a2), dmin, ds));
            }
            for (name, v) in &o.forms {
                if let Some(a3) = v.get(i) {
                    ctx.require(is_min(*a3), "assign_is_argmin", &format!("{}:form={}", class, name), || format!("row {} {:?}: assigned {} at {:?}, minimum {:?} (all {:?})", i, r, a3, ds.get(*a3), dmin, ds));
                }
            }
        }
        if let Some(t) = o.tr.get(i) {
            // `transform` returns the minimal reduced distance (a few ulps for a differently ordered sum)
            ctx.require((*t - dmin).abs() <= metric.slack(p, dmin), "transform_is_min_rdist", class, || format!("row {} {:?}: transform {:?}, minimal reduced distance {:?}", i, r, t, dmin));
        }
        if i < n {
            trsum += dmin.to();
            for j in &tied {
                hi[*j] += 1;
            }
            if tied.len() == 1 {
                lo[tied[0]] += 1;
            }
        }
    }
    let total: f64 = o.counts.iter().map(|c| c.to()).sum();
    ctx.require(total == n as f64, "counts_sum_n", class, || format!("cluster_count {:?} for n={}", o.counts, n));
    // cluster j holds every row whose only nearest centroid is j, and no row that has a nearer one
    ctx.require(o.counts.len() == k && (0..k).all(|j| o.counts[j].to() >= lo[j] as f64 && o.counts[j].to() <= hi[j] as f64), "counts_describe_returned", class, || format!("cluster_count {:?}, but the returned centroids have between {:?} and {:?} nearest training rows", o.counts, lo, hi));
    let want = trsum / n as f64;
    let rel = if F::PREC == 32 { 1e-4 } else { 1e-9 };
    ctx.require((o.inertia.to() - want).abs() <= rel * want.abs().max(o.inertia.to().abs()) + 1e-300 + 16.0 * F::tiny().to(), "inertia_describes_returned", class, || format!("inertia {:?}, but the returned centroids have mean minimal distance {:?}", o.inertia, want));
}

/// "every iteration replaces each centroid by the mean of its assigned points together with its previous
/// position", checked on the fit with budget 1: skipped (and counted) when some row has two nearest centroids
fn oracle_first_step<F: Sc>(ctx: &mut Ctx, class: &str, metric: Metric, x: &[Vec<F>], init: &[Vec<F>], got: &[Vec<F>]) -> bool {
    let k = init.len();
    let p = x[0].len();
    let mut members: Vec<Vec<usize>> = vec![vec![]; k];
    for (i, r) in x.iter().enumerate() {
        let (_, _, tied) = nearest(metric, init, r);
        if tied.len() != 1 {
            return false;
        }
        members[tied[0]].push(i);
    }
    if got.len() != k {
        return true;
    }
    for j in 0..k {
        for t in 0..p {
            let sum: f64 = members[j].iter().map(|i| x[*i][t].to()).sum::<f64>() + init[j][t].to();
            let mag: f64 = members[j].iter().map(|i| x[*i][t].to().abs()).sum::<f64>() + init[j][t].to().abs();
            let cnt = members[j].len() as f64 + 1.0;
            let want = sum / cnt;
            let g = got[j][t].to();
            ctx.require((g - want).abs() <= F::rel() * mag / cnt + 1e-300, "lloyd_step_is_mean_of_assigned", class, || format!("after one iteration centroid {} coordinate {} is {:?}; the mean of its {} assigned rows and its previous position {:?} is {:?}", j, t, g, members[j].len(), init[j][t], want));
        }
    }
    true
}

/// "initialised from the data": every row of an initial matrix is, bit for bit, a row of the data
fn oracle_init_rows<F: Sc>(ctx: &mut Ctx, class: &str, k: usize, x: &[Vec<F>], inits: &[Array2<F>]) {
    for c in inits {
        let all_rows = rows_of(c).iter().all(|r| x.iter().any(|d| d.len() == r.len() && d.iter().zip(r).all(|(a, b)| a.hx() == b.hx())));
        ctx.require(all_rows && c.nrows() == k, "init_returns_data_rows", class, || format!("initial centroids {:?} are not {} rows of the data", c, k));
    }
}

fn show_fitted<F: Sc>(o: &Option<FitOut<F>>) -> String {
    match o {
        None => "err".to_string(),
        Some(o) => format!("C={} n={} in={}", show_mat(&o.centroids), list(o.counts.iter(), |c| show_count(*c)), hxc(o.inertia)),
    }
}

/// counts `keys` when the case just emitted answered `ok …` (coverage floors hang on these)
fn count_ok(em: &mut Em, before: usize, keys: &[String]) {
    if em.outs.len() > before && em.outs.last().map(|s| s.starts_with("ok")).unwrap_or(false) {
        for k in keys {
            em.count(k);
        }
    }
}

// ------------------------------------------------------------------------------ generators

struct Data<F: Sc> {
    x: Vec<Vec<F>>,
    kind: &'static str,
}
impl<F: Sc> Data<F> {
    fn p(&self) -> usize {
        self.x[0].len()
    }
    fn arr(&self) -> Array2<F> {
        mat(&self.x, self.p())
    }
}

/// `size`: 0 = small (n <= 12), 1 = the tier's normal maximum, 2 = wide (more rows, features and clusters)
fn gen_data<F: Sc>(rng: &mut Rng, big: bool, size: u8) -> Data<F> {
    let kinds = ["lattice", "dyadic", "dups", "fewdistinct", "onefeature", "blobs", "cloud", "scaled", "extreme"];
    let kind = *rng.pick(&kinds);
    let nmax = match (size, big) {
        (3, _) => 300,
        (2, false) => 64,
        (2, true) => 300,
        (_, true) => 40,
        _ => 12,
    };
    let n = if size == 3 { 257 + rng.below(nmax) } else { 1 + rng.below(nmax) };
    let pmax = if size == 2 { 8 } else if size == 3 { 2 } else { 3 };
    let p = if kind == "onefeature" { 1 } else { 1 + rng.below(pmax) };
    let x: Vec<Vec<f64>> = match kind {
        "lattice" | "onefeature" => (0..n).map(|_| (0..p).map(|_| rng.range(-4, 4) as f64).collect()).collect(),
        "dyadic" => (0..n).map(|_| (0..p).map(|_| rng.range(-16, 16) as f64 / 4.0).collect()).collect(),
        "dups" | "fewdistinct" => {
            let d = 1 + rng.below(3);
            let base: Vec<Vec<f64>> = (0..d).map(|_| (0..p).map(|_| rng.range(-3, 3) as f64).collect()).collect();
            (0..n).map(|_| base[rng.below(d)].clone()).collect()
        }
        "blobs" => {
            let b = 1 + rng.below(3);
            let cen: Vec<Vec<f64>> = (0..b).map(|_| (0..p).map(|_| 10.0 * rng.range(-3, 3) as f64).collect()).collect();
            (0..n).map(|i| cen[i % b].iter().map(|c| c + rng.unit() - 0.5).collect()).collect()
        }
        "cloud" => (0..n).map(|_| (0..p).map(|_| 2.0 * rng.unit() - 1.0).collect()).collect(),
        "extreme" => {
            // next to the ends of the exponent range: squared distances underflow to zero (every
            // centroid ties) or come close to overflow without reaching it
            let s = *rng.pick(&F::extreme_scales());
            (0..n).map(|_| (0..p).map(|_| s * rng.range(-8, 8) as f64 / 8.0).collect()).collect()
        }
        _ => {
            let s = 10f64.powf(12.0 * rng.unit() - 6.0);
            let off = if rng.coin() { 0.0 } else { s * rng.range(-100, 100) as f64 };
            (0..n).map(|_| (0..p).map(|_| off + s * (2.0 * rng.unit() - 1.0)).collect()).collect()
        }
    };
    Data { x: x.iter().map(|r| r.iter().map(|v| F::of(*v)).collect()).collect(), kind }
}

fn gen_k<F: Sc>(rng: &mut Rng, d: &Data<F>, size: u8) -> usize {
    let n = d.x.len();
    if d.kind == "fewdistinct" {
        // more clusters than distinct points whenever n allows
        return n.min(2 + rng.below(3)).max(1);
    }
    1 + rng.below(n.min(if size == 2 { 8 } else { 4 }))
}

/// precomputed initial matrix: data rows (in the bounding box) or arbitrary lattice points
fn gen_init<F: Sc>(rng: &mut Rng, d: &Data<F>, k: usize) -> (Vec<Vec<F>>, &'static str) {
    let n = d.x.len();
    let p = d.p();
    match rng.below(5) {
        0 | 1 => ((0..k).map(|_| d.x[rng.below(n)].clone()).collect(), "rows"),
        2 => {
            let mut idx: Vec<usize> = (0..n).collect();
            rng.shuffle(&mut idx);
            ((0..k).map(|i| d.x[idx[i % n]].clone()).collect(), "rows_distinct")
        }
        3 => {
            let r = d.x[rng.below(n)].clone();
            ((0..k).map(|_| r.clone()).collect(), "one_row_k_times")
        }
        _ => ((0..k).map(|_| (0..p).map(|_| F::of(rng.range(-6, 6) as f64)).collect()).collect(), "free_lattice"),
    }
}

fn gen_tol<F: Sc>(rng: &mut Rng) -> F {
    F::of(*rng.pick(&[1e-4, 1e-4, 1e-9, 1e-2, 0.5, 8.5]))
}

fn gen_queries<F: Sc>(rng: &mut Rng, d: &Data<F>, cs: &[Vec<F>]) -> Vec<Vec<F>> {
    let p = d.p();
    let nq = rng.below(5);
    (0..nq)
        .map(|_| match rng.below(4) {
            // midpoint of two initial centroids (a tie before the first update), a data row, a far point, a lattice point
            0 if cs.len() >= 2 => {
                let a = &cs[rng.below(cs.len())];
                let b = &cs[rng.below(cs.len())];
                a.iter().zip(b).map(|(u, v)| (*u + *v) / F::of(2.0)).collect()
            }
            1 => d.x[rng.below(d.x.len())].clone(),
            2 => (0..p).map(|_| F::of(1e3 * rng.range(-3, 3) as f64)).collect(),
            _ => (0..p).map(|_| F::of(rng.range(-5, 5) as f64 / 2.0)).collect(),
        })
        .collect()
}
fn qmat<F: Sc>(q: &[Vec<F>], p: usize) -> Array2<F> {
    if q.is_empty() {
        Array2::zeros((0, p))
    } else {
        mat(q, p)
    }
}

// ------------------------------------------------------------------------------ ops

fn op_closest<F: Sc>(em: &mut Em, metric: Metric, cs: Vec<Vec<F>>, x: Vec<F>) {
    let op = format!("closest metric={} C={} x={}{}", metric.name(), show_mat(&cs), list(x.iter(), |v| v.hx()), prec_tok::<F>());
    let class = cls::<F>(format!("closest:metric={}", metric.name()));
    let before = em.outs.len();
    em.case_valid(op, &class, |ctx| {
        let c = mat(&cs, x.len());
        let xv = Array1::from(x.clone());
        let (i, d) = with_dist!(metric, F, |dd| hooks::closest_centroid_of(&dd, &c, xv.view()));
        let (ds, dmin, tied) = nearest(metric, &cs, &x);
        ctx.require(tied.contains(&i), "assign_is_argmin", &class, || format!("index {} at {:?}, minimum {:?} of {:?}", i, ds.get(i), dmin, ds));
        ctx.require((d - dmin).abs() <= metric.slack(x.len(), dmin), "transform_is_min_rdist", &class, || format!("returned {:?}, minimum {:?}", d, dmin));
        format!("ok {} {}", i, hxc(d))
    });
    count_ok(em, before, &[format!("ok:closest:prec={}", F::PREC)]);
}

fn op_update<F: Sc>(em: &mut Em, cs: Vec<Vec<F>>, x: Vec<Vec<F>>, mem: Vec<usize>) {
    let op = format!("update C={} X={} mem={}{}", show_mat(&cs), show_mat(&x), list(mem.iter(), |v| v.to_string()), prec_tok::<F>());
    let class = cls::<F>("update".to_string());
    let before = em.outs.len();
    em.case_valid(op, &class, |ctx| {
        let p = cs[0].len();
        let out = rows_of(&hooks::compute_centroids_of(&mat(&cs, p), &mat(&x, p), &Array1::from(mem.clone())));
        for (j, c) in cs.iter().enumerate() {
            let rows: Vec<&Vec<F>> = x.iter().zip(&mem).filter(|(_, m)| **m == j).map(|(r, _)| r).collect();
            for t in 0..p {
                let cnt = rows.len() as f64 + 1.0;
                let want = (rows.iter().map(|r| r[t].to()).sum::<f64>() + c[t].to()) / cnt;
                // the error of a sum is bounded relative to the sum of the magnitudes, whatever the order
                let mag = (rows.iter().map(|r| r[t].to().abs()).sum::<f64>() + c[t].to().abs()) / cnt;
                let got = out[j][t].to();
                ctx.require((got - want).abs() <= F::rel() * mag + 1e-300, "update_is_mean_with_old", &class, || format!("cluster {} coordinate {}: {:?}, mean of members and old centroid {:?}", j, t, got, want));
            }
        }
        format!("ok {}", show_mat(&out))
    });
    count_ok(em, before, &[format!("ok:update:prec={}", F::PREC)]);
}

#[allow(clippy::too_many_arguments)]
fn op_fit<F: Sc>(em: &mut Em, metric: Metric, d: &Data<F>, init: Vec<Vec<F>>, ikind: &str, m: u64, tol: F, q: Vec<Vec<F>>, lay_x: Lay, lay_q: Lay, init_f: bool, tag: &str) {
    let k = init.len();
    let op = format!("fit metric={} X={} init={} m={} tol={} Q={}{} layx={} layq={} layi={}", metric.name(), show_mat(&d.x), show_mat(&init), m, tol.hx(), show_mat(&q), prec_tok::<F>(), lay_x.name(), lay_q.name(), if init_f { "F" } else { "C" });
    // `overflow` data: sums of a few rows leave the range; `fit` may then answer `Err(InertiaError)`
    // (no fitted model, nothing promised), but a model it does return must still have finite centroids
    let overflow = d.kind == "overflow";
    let class = cls::<F>(format!("fit:metric={}:runs=1", metric.name())) + if overflow { ":data=overflow" } else { "" };
    em.count(&format!("fit:data={}", d.kind));
    em.count(&format!("fit:init={}", ikind));
    let x = d.x.clone();
    let p = d.p();
    let before = em.outs.len();
    em.case_valid(op, &class, |ctx| {
        let xa = mat(&x, p);
        let qa = qmat(&q, p);
        let ia = Init::Pre(if init_f { f_order(&mat(&init, p)) } else { mat(&init, p) });
        let o = fit_api(&Req { metric, k, x: &xa, q: &qa, init: &ia, runs: 1, m, tol, seed: 0, lay_x, lay_q });
        match &o {
            None => {
                if !overflow {
                    ctx.fail("fit_succeeds", &class, "fit returned an error on finite data".to_string());
                }
                "err".to_string()
            }
            Some(f) => {
                let fin = f.centroids.iter().flatten().all(|v| v.is_finite());
                if overflow && !fin {
                    // only the clause that is broken; the distances to a non-finite centroid are inf / NaN
                    ctx.fail("finite", &class, format!("budget {}: fit returned Ok with centroids {:?} (inertia {:?}) on finite data {:?}", m, f.centroids, f.inertia, x));
                } else {
                    oracle_fitted(ctx, &class, metric, k, &x, &q, f, in_bbox(&bbox(&x), &init));
                    if m == 1 {
                        oracle_first_step(ctx, &class, metric, &x, &init, &f.centroids);
                    }
                }
                format!(
                    "ok {} pred={} pred1={} inplace={} short={} tr={}",
                    show_fitted(&o),
                    list(f.pred.iter(), |v| v.to_string()),
                    list(f.pred1.iter(), |v| v.to_string()),
                    list(f.inplace.iter(), |v| v.to_string()),
                    f.short_buf,
                    list(f.tr.iter(), |v| hxc(*v))
                )
            }
        }
    });
    count_ok(em, before, &[format!("ok:fit:prec={}", F::PREC), format!("ok:fit:metric={}", metric.name()), format!("ok:fit:layx={}", lay_x.name()), format!("ok:fit:layq={}", lay_q.name()), format!("ok:fit:layi={}", if init_f { "F" } else { "C" }), format!("ok:fit:data={}", d.kind), format!("ok:fit:{}", tag)]);
    if overflow && em.outs.len() > before {
        // both outcomes of the overflow stream are part of what the correspondence covers: the model's
        // `none` (`Err(InertiaError)`) and a returned model
        match em.outs.last().map(|s| s.as_str()) {
            Some("err") => em.count(&format!("ok:fit:overflow=err:metric={}", metric.name())),
            Some(s) if s.starts_with("ok") => em.count(&format!("ok:fit:overflow=model:metric={}", metric.name())),
            _ => {}
        }
    }
}

fn op_traj<F: Sc>(em: &mut Em, metric: Metric, d: &Data<F>, init: Vec<Vec<F>>, mm: u64, tol: F, q: Vec<Vec<F>>) {
    let k = init.len();
    let op = format!("traj metric={} X={} init={} M={} tol={}{}", metric.name(), show_mat(&d.x), show_mat(&init), mm, tol.hx(), prec_tok::<F>());
    let class = cls::<F>(format!("traj:metric={}", metric.name()));
    em.count(&format!("traj:data={}", d.kind));
    let x = d.x.clone();
    let p = d.p();
    let before = em.outs.len();
    let stepped = Cell::new(false);
    let rose = Cell::new(false);
    em.case_valid(op, &class, |ctx| {
        let xa = mat(&x, p);
        let qa = qmat(&q, p);
        let inb = in_bbox(&bbox(&x), &init);
        let ia = Init::Pre(mat(&init, p));
        let mut parts = vec![];
        let mut prev: Option<(u64, f64)> = None;
        for m in 1..=mm {
            let o = fit_plain(metric, k, &xa, &qa, &ia, 1, m, tol, 0);
            if let Some(f) = &o {
                oracle_fitted(ctx, &class, metric, k, &x, &q, f, inb);
                if m == 1 {
                    stepped.set(oracle_first_step(ctx, &class, metric, &x, &init, &f.centroids));
                }
                let c = cost_of(metric, &f.centroids, &x);
                if let Some((pm, pc)) = prev {
                    // the cost of the returned centroids never increases when the budget grows
                    let held = c <= pc * (1.0 + F::rel()) + 1e-300 + 4.0 * x.len() as f64 * F::tiny().to();
                    if !held {
                        rose.set(true);
                    }
                    ctx.require(held, "cost_antitone_in_budget", &class, || format!("budget {} -> {}: within-cluster cost {:?} -> {:?} (centroids {:?})", pm, m, pc, c, f.centroids));
                }
                prev = Some((m, c));
            } else {
                ctx.fail("fit_succeeds", &class, format!("fit with budget {} returned an error", m));
            }
            parts.push(format!("m={} {}", m, show_fitted(&o)));
        }
        format!("ok {}", parts.join(" "))
    });
    // the complement of what the open finding masks: trajectories on which the cost never rose (a floor on
    // this count is a ceiling on the masked ones)
    let held_key = format!("{}:traj:metric={}", if rose.get() { "rose:antitone" } else { "ok:antitone_held" }, metric.name());
    count_ok(em, before, &[format!("ok:traj:prec={}", F::PREC), format!("ok:traj:metric={}", metric.name()), held_key]);
    if stepped.get() {
        em.count("ok:first_step_checked");
    } else {
        em.count("first_step:tie_skipped");
    }
}

#[allow(clippy::too_many_arguments)]
fn op_restarts<F: Sc>(em: &mut Em, pool: &rayon::ThreadPool, metric: Metric, d: &Data<F>, k: usize, init: Init<F>, rr: usize, m: u64, tol: F, seed: u64, q: Vec<Vec<F>>, lay_x: Lay) {
    // the initial matrices are part of the request, so they are computed before the case is registered
    let xa = d.arr();
    let li = init.to_linfa();
    let threads = pool.current_num_threads();
    let inits: Vec<Array2<F>> = catch_unwind(AssertUnwindSafe(|| pool.install(|| inits_api(metric, k, &xa, lay_x, &li, rr, Xoshiro256Plus::seed_from_u64(seed))))).unwrap_or_default();
    let op = format!(
        "restarts metric={} X={} inits={} k={} m={} tol={} init={} seed={}{} layx={} threads={}",
        metric.name(),
        show_mat(&d.x),
        inits.iter().map(|c| show_mat(&rows_of(c))).collect::<Vec<_>>().join("|"),
        k,
        m,
        tol.hx(),
        init.name(),
        seed,
        prec_tok::<F>(),
        lay_x.name(),
        threads
    );
    let class = cls::<F>(format!("restarts:metric={}:init={}{}", metric.name(), init.name(), if threads == 1 { "" } else { ":threads=many" }));
    em.count(&format!("restarts:init={}", init.name()));
    em.count(&format!("restarts:data={}", d.kind));
    let x = d.x.clone();
    let p = d.p();
    let before = em.outs.len();
    em.case_valid(op, &class, |ctx| {
        let qa = qmat(&q, p);
        if inits.len() != rr {
            ctx.fail("no_panic", &class, "the initialiser panicked on data with k <= n".to_string());
            return "panic".to_string();
        }
        oracle_init_rows(ctx, &class, k, &x, &inits);
        let mut parts = vec![];
        let mut prev: Option<F> = None;
        for r in 1..=rr {
            let cl = format!("{}:runs={}", class, if r == 1 { "1" } else { "multi" });
            let o = pool.install(|| fit_lay(metric, k, &xa, &qa, &init, r, m, tol, seed, lay_x));
            if let Some(f) = &o {
                oracle_fitted(ctx, &cl, metric, k, &x, &q, f, true);
                if let Some(pi) = prev {
                    ctx.require(f.inertia <= pi, "more_restarts_not_worse", &cl, || format!("n_runs {} -> {}: reported inertia {:?} -> {:?}", r - 1, r, pi, f.inertia));
                }
                prev = Some(f.inertia);
            } else {
                ctx.fail("fit_succeeds", &cl, format!("fit with n_runs {} returned an error", r));
            }
            parts.push(format!("r={} {}", r, show_fitted(&o)));
        }
        format!("ok {}", parts.join(" "))
    });
    count_ok(em, before, &[format!("ok:restarts:prec={}", F::PREC), format!("ok:restarts:init={}", init.name()), format!("ok:restarts:layx={}", lay_x.name()), format!("ok:restarts:threads={}", if threads == 1 { "1" } else { "many" }), format!("ok:restarts:init={}:threads={}", init.name(), if threads == 1 { "1" } else { "many" })]);
}

/// "the within-cluster cost of the returned centroids never increases when the iteration budget grows",
/// with restarts: `n_runs = rr` from a fixed seed, budgets `ms` (ascending); the initial matrices of the
/// restarts do not depend on the budget and are observed through the hook
#[allow(clippy::too_many_arguments)]
fn op_sweep<F: Sc>(em: &mut Em, pool: &rayon::ThreadPool, metric: Metric, d: &Data<F>, k: usize, init: Init<F>, rr: usize, ms: Vec<u64>, tol: F, seed: u64, q: Vec<Vec<F>>, lay_x: Lay) {
    let xa = d.arr();
    let li = init.to_linfa();
    let inits: Vec<Array2<F>> = catch_unwind(AssertUnwindSafe(|| pool.install(|| inits_api(metric, k, &xa, lay_x, &li, rr, Xoshiro256Plus::seed_from_u64(seed))))).unwrap_or_default();
    let op = format!(
        "sweep metric={} X={} inits={} k={} ms={} tol={} init={} seed={}{} layx={}",
        metric.name(),
        show_mat(&d.x),
        inits.iter().map(|c| show_mat(&rows_of(c))).collect::<Vec<_>>().join("|"),
        k,
        list(ms.iter(), |m| m.to_string()),
        tol.hx(),
        init.name(),
        seed,
        prec_tok::<F>(),
        lay_x.name()
    );
    let class = cls::<F>(format!("sweep:metric={}:init={}:runs={}", metric.name(), init.name(), if rr == 1 { "1" } else { "multi" }));
    em.count(&format!("sweep:init={}", init.name()));
    em.count(&format!("sweep:data={}", d.kind));
    let x = d.x.clone();
    let p = d.p();
    let before = em.outs.len();
    let rose = Cell::new(false);
    let randomised = !matches!(init, Init::Pre(_));
    em.case_valid(op, &class, |ctx| {
        let qa = qmat(&q, p);
        if inits.len() != rr {
            ctx.fail("no_panic", &class, "the initialiser panicked on data with k <= n".to_string());
            return "panic".to_string();
        }
        if randomised {
            oracle_init_rows(ctx, &class, k, &x, &inits);
        }
        let inb = inits.iter().all(|c| in_bbox(&bbox(&x), &rows_of(c)));
        let mut parts = vec![];
        let mut prev: Option<(u64, f64, F)> = None;
        for m in &ms {
            let o = pool.install(|| fit_lay(metric, k, &xa, &qa, &init, rr, *m, tol, seed, lay_x));
            if let Some(f) = &o {
                oracle_fitted(ctx, &class, metric, k, &x, &q, f, inb);
                let c = cost_of(metric, &f.centroids, &x);
                if let Some((pm, pc, pi)) = prev {
                    let held = c <= pc * (1.0 + F::rel()) + 1e-300 + 4.0 * x.len() as f64 * F::tiny().to();
                    if !held || !(f.inertia.to() <= pi.to() * (1.0 + F::rel()) + 1e-300 + 16.0 * F::tiny().to()) {
                        rose.set(true);
                    }
                    ctx.require(held, "cost_antitone_in_budget", &class, || {
                        format!("n_runs={} seed={} init={}: budget {} -> {}: within-cluster cost of the returned centroids {:?} -> {:?} (centroids {:?})", rr, seed, init.name(), pm, m, pc, c, f.centroids)
                    });
                    ctx.require(f.inertia.to() <= pi.to() * (1.0 + F::rel()) + 1e-300 + 16.0 * F::tiny().to(), "cost_antitone_in_budget", &class, || format!("n_runs={} seed={} init={}: budget {} -> {}: reported inertia {:?} -> {:?}", rr, seed, init.name(), pm, m, pi, f.inertia));
                }
                prev = Some((*m, c, f.inertia));
            } else {
                ctx.fail("fit_succeeds", &class, format!("fit with budget {} and n_runs {} returned an error", m, rr));
            }
            parts.push(format!("m={} {}", m, show_fitted(&o)));
        }
        format!("ok {}", parts.join(" "))
    });
    let held_key = format!("{}:sweep:metric={}", if rose.get() { "rose:antitone" } else { "ok:antitone_held" }, metric.name());
    count_ok(em, before, &[format!("ok:sweep:prec={}", F::PREC), format!("ok:sweep:init={}", init.name()), format!("ok:sweep:metric={}", metric.name()), format!("ok:sweep:layx={}", lay_x.name()), held_key]);
}

/// the constructors `KMeans::params(k)` / `KMeans::params_with_rng(k, rng)` with nothing else set: the
/// hyper-parameters the fit will use are read back from the checked parameter set (whatever the defaults
/// are), the initial matrices come from the hook with the caller's rng (`params_with_rng`) or with the
/// rng the parameter set holds (`params`)
fn op_defaults<F: Sc>(em: &mut Em, pool: &rayon::ThreadPool, d: &Data<F>, k: usize, with_rng: bool, seed: u64) {
    let xa = d.arr();
    let x = d.x.clone();
    let p = d.p();
    let metric = Metric::L2;
    let form = if with_rng { "params_with_rng" } else { "params" };
    // read the effective hyper-parameters
    // the parameter set is built ONCE and the very same object is fitted below: a constructor that seeds its
    // rng from entropy would still be followed (the rng is read back from the object)
    let pr = if with_rng { KMeans::<F, L2Dist>::params_with_rng(k, Xoshiro256Plus::seed_from_u64(seed)) } else { KMeans::<F, L2Dist>::params(k) };
    let (runs, m, tol, li, rng0) = {
        let v = pr.check_ref().expect("default hyper-parameters are valid");
        (v.n_runs(), v.max_n_iterations(), v.tolerance(), v.init_method().clone(), v.rng().clone())
    };
    let inits: Vec<Array2<F>> = catch_unwind(AssertUnwindSafe(|| pool.install(|| inits_api(metric, k, &xa, Lay::C, &li, runs, rng0)))).unwrap_or_default();
    let op = format!(
        "sweep metric=l2 X={} inits={} k={} ms={} tol={} init={} form={} seed={}{}",
        show_mat(&d.x),
        inits.iter().map(|c| show_mat(&rows_of(c))).collect::<Vec<_>>().join("|"),
        k,
        m,
        tol.hx(),
        init_name(&li),
        form,
        seed,
        prec_tok::<F>()
    );
    let class = cls::<F>(format!("defaults:form={}", form));
    let before = em.outs.len();
    em.case_valid(op, &class, |ctx| {
        if inits.len() != runs {
            ctx.fail("no_panic", &class, "the initialiser panicked on data with k <= n".to_string());
            return "panic".to_string();
        }
        oracle_init_rows(ctx, &class, k, &x, &inits);
        let ds = DatasetBase::from(xa.clone());
        let model = pool.install(|| pr.fit(&ds));
        let o = model.ok().map(|mo| observe(&mo, &xa, &Array2::zeros((0, p)), Lay::C));
        match &o {
            Some(f) => oracle_fitted(ctx, &class, metric, k, &x, &[], f, true),
            None => ctx.fail("fit_succeeds", &class, "fit with default hyper-parameters returned an error".to_string()),
        }
        format!("ok m={} {}", m, show_fitted(&o))
    });
    count_ok(em, before, &[format!("ok:defaults:{}:prec={}", form, F::PREC)]);
}

/// `LpDist(p)`: oracle only (its distance goes through libm `powf`, which the model does not have)
/// `rinit`: `None` = the precomputed matrix `init`, `Some(i)` = a randomised initialiser (its weights go
/// through `LpDist::rdistance` too) with two restarts
fn op_lp<F: Sc>(em: &mut Em, d: &Data<F>, pw: f64, init: Vec<Vec<F>>, rinit: Option<Init<F>>, m: u64, q: Vec<Vec<F>>, seed: u64) {
    let metric = Metric::Lp(pw);
    let k = init.len();
    let iname = rinit.as_ref().map(|i| i.name()).unwrap_or("precomputed");
    let op = format!("#lp metric={} X={} init={} m={} Q={} via={} seed={}{}", metric.name(), show_mat(&d.x), show_mat(&init), m, show_mat(&q), iname, seed, prec_tok::<F>());
    let class = cls::<F>(format!("lp:metric={}", metric.name()));
    let x = d.x.clone();
    let p = d.p();
    let okf = Cell::new(false);
    em.case_valid(op, &class, |ctx| {
        let xa = mat(&x, p);
        let qa = qmat(&q, p);
        let (ia, runs, inb) = match &rinit {
            None => (Init::Pre(mat(&init, p)), 1, in_bbox(&bbox(&x), &init)),
            Some(i) => (i.clone(), 2, true),
        };
        match fit_plain(metric, k, &xa, &qa, &ia, runs, m, F::of(1e-4), seed) {
            None => ctx.fail("fit_succeeds", &class, "fit returned an error on finite data".to_string()),
            Some(f) => {
                oracle_fitted(ctx, &class, metric, k, &x, &q, &f, inb);
                okf.set(true);
            }
        }
        "-".to_string()
    });
    if okf.get() {
        em.count("ok:lp");
        em.count(&format!("ok:lp:prec={}", F::PREC));
        em.count(&format!("ok:lp:via={}", if rinit.is_some() { "randomised" } else { "precomputed" }));
    }
}

/// sums of a few rows leave the floating-point range: rows are small multiples of a quarter of the largest
/// finite value.  Squared-L2 distances overflow at once (every restart has inertia +inf: `Err(InertiaError)`,
/// the model's `none`); under L1 / L-inf some cluster sums overflow and others do not.
fn gen_overflow<F: Sc>(rng: &mut Rng) -> (Data<F>, Vec<Vec<F>>) {
    let q = F::maxq();
    let n = 2 + rng.below(7);
    let p = 1 + rng.below(2);
    let x: Vec<Vec<F>> = (0..n).map(|_| (0..p).map(|_| F::of(q * (rng.range(-6, 6) as f64 / 2.0))).collect()).collect();
    let k = 1 + rng.below(n.min(3));
    let mut idx: Vec<usize> = (0..n).collect();
    rng.shuffle(&mut idx);
    let init = (0..k).map(|i| x[idx[i]].clone()).collect();
    (Data { x, kind: "overflow" }, init)
}

// ------------------------------------------------------------------------------ run

fn run_prec<F: Sc>(em: &mut Em, rng: &mut Rng, pool: &rayon::ThreadPool, pool4: &rayon::ThreadPool, share: usize) {
    let big = em.thorough();
    let scale = if big { 12 } else { 1 };
    let cnt = |base: usize| (base * scale * share / 4).max(1);
    let metrics = METRICS;

    // closest: random, lattice and generic
    for _ in 0..cnt(300) {
        let d = gen_data::<F>(rng, big, 1);
        let k = 1 + rng.below(5);
        let (cs, _) = gen_init(rng, &d, k);
        let q = gen_queries(rng, &d, &cs);
        let x = if q.is_empty() { d.x[0].clone() } else { q[0].clone() };
        op_closest(em, *rng.pick(&metrics), cs, x);
    }
    // update: arbitrary memberships (not only nearest ones), empty clusters included
    for _ in 0..cnt(300) {
        let d = gen_data::<F>(rng, big, 1);
        let k = 1 + rng.below(4);
        let (cs, _) = gen_init(rng, &d, k);
        let used = 1 + rng.below(k);
        let mem: Vec<usize> = (0..d.x.len()).map(|_| rng.below(used)).collect();
        op_update(em, cs, d.x.clone(), mem);
    }
    // fit from a precomputed matrix in every memory layout, every calling form of predict / transform on
    // training and new rows
    for i in 0..cnt(800) {
        // one case in a hundred has more than 256 rows (blocked / chunked kernels with a partial last block)
        let size = if i % 100 == 99 { 3 } else if i % 8 == 7 { 2 } else { 1 };
        let d = gen_data::<F>(rng, big, size);
        let k = gen_k(rng, &d, size);
        let (init, ikind) = gen_init(rng, &d, k);
        let q = gen_queries(rng, &d, &init);
        let m = 1 + rng.below(if big { 12 } else { 6 }) as u64;
        let metric = *rng.pick(&metrics);
        let mut tol: F = gen_tol(rng);
        let lay_x = if rng.chance(1, 2) { Lay::C } else { *rng.pick(&LAYS) };
        let lay_q = if rng.chance(1, 2) { Lay::C } else { *rng.pick(&LAYS) };
        if rng.chance(1, 4) {
            // tolerance exactly on the shift of the first iteration: `distance < tolerance` is then
            // false by equality and the loop must go on
            let c0 = mat(&init, d.p());
            let xa = d.arr();
            let first = catch_unwind(AssertUnwindSafe(|| fit_plain(metric, k, &xa, &Array2::zeros((0, d.p())), &Init::Pre(c0.clone()), 1, 1, F::of(1e-4), 0))).unwrap_or(None);
            if let Some(f) = first {
                let shift = mdist(metric, &c0, &mat(&f.centroids, d.p()));
                if shift > F::zero() && shift.is_finite() {
                    tol = shift;
                    em.count("fit:tol=first_shift_exactly");
                }
            }
        }
        // the precomputed matrix itself in column-major order in a third of the cases
        let init_f = rng.chance(1, 3);
        op_fit(em, metric, &d, init, ikind, m, tol, q, lay_x, lay_q, init_f, if size == 3 { "size=over256" } else if size == 2 { "size=wide" } else { "size=normal" });
    }
    // data whose sums overflow: the `Err(InertiaError)` branch and the models returned next to it
    {
        // {1.5q, 1.5q, -q}, centroids on 1.5q and -q (q = MAX/4): the first cluster's sum overflows, its rows move to
        // the second centroid, whose sums stay in range
        let q = F::maxq();
        let w = Data { x: vec![vec![F::of(1.5 * q)], vec![F::of(1.5 * q)], vec![F::of(-q)]], kind: "overflow" };
        for metric in metrics {
            for m in [1u64, 2, 3] {
                op_fit(em, metric, &w, vec![vec![F::of(1.5 * q)], vec![F::of(-q)]], "rows", m, F::of(1e-4), vec![], Lay::C, Lay::C, false, "overflow");
            }
        }
    }
    for _ in 0..cnt(120) {
        let (d, init) = gen_overflow::<F>(rng);
        let m = 1 + rng.below(4) as u64;
        let metric = *rng.pick(&metrics);
        let q = if rng.coin() { vec![d.x[0].clone()] } else { vec![] };
        op_fit(em, metric, &d, init, "rows", m, F::of(1e-4), q, *rng.pick(&LAYS), Lay::C, rng.coin(), "overflow");
    }
    // long budgets: one point at 0, one centroid far away, a tolerance only an exactly-zero shift meets:
    // the centroid halves its distance once per iteration, so the iteration counter is what stops the loop
    for m in [255u64, 256, 257, 260] {
        for metric in metrics {
            let d = Data { x: vec![vec![F::zero()]], kind: "long" };
            op_fit(em, metric, &d, vec![vec![F::long_start()]], "long", m, F::tiny(), vec![], Lay::C, Lay::C, false, "budget>=255");
        }
    }
    // trajectories
    for _ in 0..cnt(300) {
        let d = gen_data::<F>(rng, big, 1);
        let k = gen_k(rng, &d, 1);
        let (init, _) = gen_init(rng, &d, k);
        let q = gen_queries(rng, &d, &init);
        let mm = 2 + rng.below(if big { 10 } else { 5 }) as u64;
        let metric = if rng.chance(1, 2) { Metric::L2 } else { *rng.pick(&metrics) };
        op_traj(em, metric, &d, init, mm, F::of(*rng.pick(&[1e-4, 1e-9, 1e-2])), q);
    }
    // restarts with the random initialisers
    for _ in 0..cnt(300) {
        let d = gen_data::<F>(rng, big, 1);
        let k = gen_k(rng, &d, 1);
        let init = rng.pick(&[Init::Random, Init::Kpp, Init::Para]).clone();
        let rr = 2 + rng.below(if big { 7 } else { 4 });
        let m = 1 + rng.below(6) as u64;
        let seed = rng.next() % 1000;
        let q = gen_queries(rng, &d, &d.x[..1]);
        let metric = *rng.pick(&metrics);
        // the training matrix in any memory layout (the initialisers read it too); every second case in a
        // pool of several threads (k-means|| samples its candidates in parallel)
        let lay_x = if rng.chance(1, 2) { Lay::C } else { *rng.pick(&LAYS) };
        let pl = if rng.coin() { pool } else { pool4 };
        op_restarts(em, pl, metric, &d, k, init, rr, m, gen_tol(rng), seed, q, lay_x);
    }
    // k-means|| on more rows than one sampling block, several threads: the restarts of `n_runs = r` must still
    // be a prefix of those of `n_runs = r + 1`
    for _ in 0..cnt(8) {
        let n = 300 + rng.below(500);
        let d = Data { x: (0..n).map(|_| (0..2).map(|_| F::of(2.0 * rng.unit() - 1.0)).collect()).collect(), kind: "cloud" };
        let seed = rng.next() % 1000;
        op_restarts(em, pool4, Metric::L2, &d, 2 + rng.below(4), Init::Para, 2 + rng.below(2), 1 + rng.below(3) as u64, F::of(1e-4), seed, vec![], Lay::C);
    }
    // budget sweeps with restarts (n_runs >= 2, randomised initialiser, fixed seed; also the same
    // precomputed matrix for every restart): mostly overlapping data with more rows, where a later
    // restart is often the better one and the tolerance is met somewhere inside the swept range
    for i in 0..cnt(300) {
        let size = if i % 3 == 0 { 1 } else { 2 };
        let mut d = gen_data::<F>(rng, big, size);
        if i % 2 == 0 {
            // overlapping cloud, 12..40 rows, 2 features
            let n = 12 + rng.below(29);
            d = Data { x: (0..n).map(|_| (0..2).map(|_| F::of(2.0 * rng.unit() - 1.0)).collect()).collect(), kind: "cloud" };
        }
        let k = if d.kind == "cloud" { (2 + rng.below(4)).min(d.x.len()) } else { gen_k(rng, &d, size) };
        let init = if rng.chance(1, 10) { Init::Pre(mat(&gen_init(rng, &d, k).0, d.p())) } else { rng.pick(&[Init::Random, Init::Random, Init::Kpp, Init::Para]).clone() };
        let rr = 2 + rng.below(3);
        let mm = 4 + rng.below(if big { 12 } else { 9 }) as u64;
        let seed = rng.next() % 1000;
        let metric = if rng.chance(3, 4) { Metric::L2 } else { *rng.pick(&metrics) };
        let tol = F::of(*rng.pick(&[1e-4, 1e-4, 1e-2, 1e-1, 1e-9]));
        let q = gen_queries(rng, &d, &d.x[..1]);
        let lay_x = if rng.chance(1, 2) { Lay::C } else { *rng.pick(&LAYS) };
        op_sweep(em, if rng.coin() { pool } else { pool4 }, metric, &d, k, init, rr, (1..=mm).collect(), tol, seed, q, lay_x);
    }
    // the constructors with default hyper-parameters
    for i in 0..cnt(24) {
        let d = gen_data::<F>(rng, big, 1);
        let k = gen_k(rng, &d, 1);
        let seed = rng.next() % 1000;
        op_defaults(em, if i % 4 < 2 { pool } else { pool4 }, &d, k, i % 2 == 0, seed);
    }
}


pub fn run(em: &mut Em, rng: &mut Rng) {
    let big = em.thorough();
    let scale = if big { 12 } else { 1 };
    let pool = rayon::ThreadPoolBuilder::new().num_threads(1).build().expect("rayon pool");

    // the 1-D witness of DESIGN section 7 / 8 #7 first: {0,0,10}, one centroid at 0
    for metric in METRICS {
        let d = Data { x: vec![vec![0.0f64], vec![0.0], vec![10.0]], kind: "witness" };
        op_traj(em, metric, &d, vec![vec![0.0]], 4, 1e-4, vec![]);
    }

    // closest: exhaustive on a small 1-D lattice (ties and duplicated centroids everywhere)
    let vals = [-1.0f64, 0.0, 1.0];
    let xs = [-1.0f64, -0.5, 0.0, 0.5, 1.0];
    for metric in METRICS {
        for k in 1..=3usize {
            for code in 0..3usize.pow(k as u32) {
                let cs: Vec<Vec<f64>> = (0..k).map(|i| vec![vals[(code / 3usize.pow(i as u32)) % 3]]).collect();
                for x in xs {
                    op_closest(em, metric, cs.clone(), vec![x]);
                }
            }
        }
    }
    // three quarters of the generated cases in f64, one quarter in f32
    let pool4 = rayon::ThreadPoolBuilder::new().num_threads(4).build().expect("rayon pool");
    run_prec::<f64>(em, rng, &pool, &pool4, 3);
    run_prec::<f32>(em, rng, &pool, &pool4, 1);

    // LpDist: oracle only
    fn lp_cases<F: Sc>(em: &mut Em, rng: &mut Rng, big: bool, count: usize) {
        for _ in 0..count {
            let d = gen_data::<F>(rng, big, 1);
            if d.kind == "extreme" {
                continue; // powf of the extreme magnitudes leaves the range
            }
            let k = gen_k(rng, &d, 1);
            let (init, _) = gen_init(rng, &d, k);
            let q = gen_queries(rng, &d, &init);
            let m = 1 + rng.below(6) as u64;
            let rinit = if rng.chance(1, 3) { Some(rng.pick(&[Init::Random, Init::Kpp, Init::Para]).clone()) } else { None };
            let seed = rng.next() % 1000;
            op_lp(em, &d, *rng.pick(&[1.5, 3.0, 4.0]), init, rinit, m, q, seed);
        }
    }
    lp_cases::<f64>(em, rng, big, 60 * scale);
    lp_cases::<f32>(em, rng, big, 30 * scale);
}
