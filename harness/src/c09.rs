//! C09 — k-means: nearest-centroid assignment, Lloyd step, budgets, restarts.
//!
//! Ops (model counterpart in `lean/LinfaSpec/Drv/C09.lean`):
//!   closest  metric C x            hook `closest_centroid`
//!   update   C X mem               hook `compute_centroids`
//!   fit      metric X init m tol Q public API (`Precomputed`, `n_runs(1)`), then predict/transform on X++Q
//!   traj     metric X init M tol   public API for budgets 1..M from one initial matrix
//!   restarts metric X inits k m tol  public API with a random initialiser and `n_runs(r)`, r = 1..R;
//!                                  the initial matrices of the runs are observed through the hook `init_run`
//!   #f32     …                     oracle only (f32 records)
//! Everything numeric is sent as IEEE bit patterns; centroids, distances, memberships and counts are
//! compared exactly: the model performs the same operations in the same order, including the
//! eight-fold unrolled `ndarray::sum` behind the inertia, so the restart selection is exact too.
use crate::util::*;
use linfa::traits::{Fit, Predict, Transformer};
use linfa::DatasetBase;
use linfa_clustering::verif_hooks_c09 as hooks;
use linfa_clustering::{KMeans, KMeansInit};
use linfa_nn::distance::{Distance, L1Dist, L2Dist, LInfDist};
use ndarray::{Array1, Array2, Axis};
use rand::SeedableRng;
use rand_xoshiro::Xoshiro256Plus;

#[derive(Clone, Copy, PartialEq, Debug)]
enum Metric {
    L1,
    L2,
    Linf,
}
impl Metric {
    fn name(self) -> &'static str {
        match self {
            Metric::L1 => "l1",
            Metric::L2 => "l2",
            Metric::Linf => "linf",
        }
    }
    /// reduced distance, written out from the definition
    fn rd(self, a: &[f64], b: &[f64]) -> f64 {
        match self {
            Metric::L2 => a.iter().zip(b).fold(0.0, |s, (x, y)| s + (x - y) * (x - y)),
            Metric::L1 => a.iter().zip(b).fold(0.0, |s, (x, y)| s + (x - y).abs()),
            Metric::Linf => a.iter().zip(b).fold(0.0, |s: f64, (x, y)| if (x - y).abs() > s { (x - y).abs() } else { s }),
        }
    }
}
const METRICS: [Metric; 3] = [Metric::L2, Metric::L1, Metric::Linf];

fn mat(rows: &[Vec<f64>]) -> Array2<f64> {
    let p = rows.first().map(|r| r.len()).unwrap_or(0);
    Array2::from_shape_fn((rows.len(), p), |(i, j)| rows[i][j])
}
fn rows_of(a: &Array2<f64>) -> Vec<Vec<f64>> {
    a.rows().into_iter().map(|r| r.to_vec()).collect()
}
fn show_mat(rows: &[Vec<f64>]) -> String {
    list2(rows.iter().map(|r| r.iter()), |x| hex64(*x))
}
fn show_count(c: f64) -> String {
    if c.is_finite() && c >= 0.0 && c.fract() == 0.0 {
        format!("{}", c as u64)
    } else {
        format!("?{}", hex64c(c))
    }
}

/// what one call of the public API yields
struct FitOut {
    centroids: Vec<Vec<f64>>,
    counts: Vec<f64>,
    inertia: f64,
    pred: Vec<usize>,
    /// the same rows predicted one observation at a time (the `Ix1` form of `predict`)
    pred1: Vec<usize>,
    tr: Vec<f64>,
}

#[derive(Clone)]
enum Init {
    Pre(Array2<f64>),
    Random,
    Kpp,
    Para,
}
impl Init {
    fn to_linfa(&self) -> KMeansInit<f64> {
        match self {
            Init::Pre(c) => KMeansInit::Precomputed(c.clone()),
            Init::Random => KMeansInit::Random,
            Init::Kpp => KMeansInit::KMeansPlusPlus,
            Init::Para => KMeansInit::KMeansPara,
        }
    }
    fn name(&self) -> &'static str {
        match self {
            Init::Pre(_) => "precomputed",
            Init::Random => "random",
            Init::Kpp => "kmeans++",
            Init::Para => "kmeans||",
        }
    }
}

fn fit_with<D: Distance<f64>>(d: D, k: usize, x: &Array2<f64>, q: &Array2<f64>, init: &Init, runs: usize, m: u64, tol: f64, seed: u64) -> Option<FitOut> {
    let ds = DatasetBase::from(x.clone());
    let model = KMeans::params_with(k, Xoshiro256Plus::seed_from_u64(seed), d).n_runs(runs).max_n_iterations(m).tolerance(tol).init_method(init.to_linfa()).fit(&ds);
    let model = match model {
        Ok(m) => m,
        Err(_) => return None,
    };
    let all = if q.nrows() > 0 { ndarray::concatenate(Axis(0), &[x.view(), q.view()]).unwrap() } else { x.clone() };
    let pred: Array1<usize> = model.predict(&all);
    let tr: Array1<f64> = model.transform(&all);
    let pred1: Vec<usize> = all.rows().into_iter().map(|r| model.predict(&r.to_owned())).collect();
    Some(FitOut { centroids: rows_of(model.centroids()), counts: model.cluster_count().to_vec(), inertia: model.inertia(), pred: pred.to_vec(), pred1, tr: tr.to_vec() })
}
fn fit_api(metric: Metric, k: usize, x: &Array2<f64>, q: &Array2<f64>, init: &Init, runs: usize, m: u64, tol: f64, seed: u64) -> Option<FitOut> {
    match metric {
        Metric::L2 => fit_with(L2Dist, k, x, q, init, runs, m, tol, seed),
        Metric::L1 => fit_with(L1Dist, k, x, q, init, runs, m, tol, seed),
        Metric::Linf => fit_with(LInfDist, k, x, q, init, runs, m, tol, seed),
    }
}
fn inits_with<D: Distance<f64>>(d: D, k: usize, x: &Array2<f64>, init: &Init, runs: usize, seed: u64) -> Vec<Array2<f64>> {
    // `fit` clones the rng once and calls the initialiser once per run; nothing else draws from it
    let mut rng = Xoshiro256Plus::seed_from_u64(seed);
    let li = init.to_linfa();
    (0..runs).map(|_| hooks::init_run(&li, &d, k, x.view(), &mut rng)).collect()
}
fn inits_api(metric: Metric, k: usize, x: &Array2<f64>, init: &Init, runs: usize, seed: u64) -> Vec<Array2<f64>> {
    match metric {
        Metric::L2 => inits_with(L2Dist, k, x, init, runs, seed),
        Metric::L1 => inits_with(L1Dist, k, x, init, runs, seed),
        Metric::Linf => inits_with(LInfDist, k, x, init, runs, seed),
    }
}

fn bbox(x: &[Vec<f64>]) -> Vec<(f64, f64)> {
    let p = x[0].len();
    (0..p).map(|j| x.iter().fold((f64::INFINITY, f64::NEG_INFINITY), |(lo, hi), r| (lo.min(r[j]), hi.max(r[j])))).collect()
}
fn in_bbox(bb: &[(f64, f64)], c: &[Vec<f64>]) -> bool {
    c.iter().all(|r| {
        r.iter().zip(bb).all(|(v, (lo, hi))| {
            let slack = 1e-12 * (lo.abs().max(hi.abs())) + 1e-300;
            *v >= lo - slack && *v <= hi + slack
        })
    })
}
/// Σ over rows of the distance to the nearest centroid
fn cost_of(metric: Metric, c: &[Vec<f64>], x: &[Vec<f64>]) -> f64 {
    x.iter().map(|r| c.iter().map(|cc| metric.rd(cc, r)).fold(f64::INFINITY, f64::min)).sum()
}

/// the clauses of the statement that speak about one fitted model
fn oracle_fitted(ctx: &mut Ctx, class: &str, metric: Metric, k: usize, x: &[Vec<f64>], q: &[Vec<f64>], o: &FitOut, init_in_bbox: bool) {
    let n = x.len();
    let p = x[0].len();
    ctx.require(o.centroids.len() == k && o.centroids.iter().all(|r| r.len() == p), "k_centroids_dim", class, || format!("{} centroids for k={} p={}", o.centroids.len(), k, p));
    ctx.require(o.centroids.iter().flatten().all(|v| v.is_finite()), "finite", class, || format!("centroids {:?}", o.centroids));
    if init_in_bbox {
        let bb = bbox(x);
        ctx.require(in_bbox(&bb, &o.centroids), "centroids_in_bbox", class, || format!("centroids {:?} outside the bounding box {:?}", o.centroids, bb));
    }
    let all: Vec<&Vec<f64>> = x.iter().chain(q.iter()).collect();
    ctx.require(o.pred.len() == all.len() && o.tr.len() == all.len(), "per_row_output", class, || format!("{} predictions / {} distances for {} rows", o.pred.len(), o.tr.len(), all.len()));
    for (i, r) in all.iter().enumerate().take(o.pred.len().min(o.tr.len())) {
        let ds: Vec<f64> = o.centroids.iter().map(|c| metric.rd(c, r)).collect();
        let dmin = ds.iter().cloned().fold(f64::INFINITY, f64::min);
        let a = o.pred[i];
        ctx.require(a < k && ds[a] <= dmin, "assign_is_argmin", class, || format!("row {} {:?} ({}): assigned {} at {:?}, minimum {:?} (all {:?})", i, r, if i < n { "training" } else { "new" }, a, ds.get(a), dmin, ds));
        if let Some(a1) = o.pred1.get(i) {
            ctx.require(*a1 < k && ds[*a1] <= dmin, "assign_is_argmin", &format!("{}:form=single_observation", class), || format!("row {} {:?} predicted alone: assigned {} at {:?}, minimum {:?} under the model's metric (all {:?})", i, r, a1, ds.get(*a1), dmin, ds));
            ctx.require(*a1 == a, "single_observation_same_as_batch", class, || format!("row {} {:?}: predicted alone -> {}, inside the batch -> {}", i, r, a1, a));
        }
        ctx.require(o.tr[i] == dmin, "transform_is_min_rdist", class, || format!("row {} {:?}: transform {:?}, minimal reduced distance {:?}", i, r, o.tr[i], dmin));
    }
    let mut recount = vec![0.0f64; k];
    for a in o.pred.iter().take(n) {
        if *a < k {
            recount[*a] += 1.0;
        }
    }
    ctx.require(o.counts.iter().sum::<f64>() == n as f64, "counts_sum_n", class, || format!("cluster_count {:?} for n={}", o.counts, n));
    // the count of a cluster may legitimately differ from `predict` only through a tie between two
    // *identical* distances; predict and fit use the same scan, so even then they agree
    ctx.require(o.counts == recount, "counts_describe_returned", class, || format!("cluster_count {:?}, but the returned centroids assign {:?}", o.counts, recount));
    let want = o.tr.iter().take(n).sum::<f64>() / n as f64;
    ctx.require((o.inertia - want).abs() <= 1e-9 * want.abs().max(o.inertia.abs()) + 1e-300, "inertia_describes_returned", class, || format!("inertia {:?}, but the returned centroids have mean minimal distance {:?}", o.inertia, want));
}

fn show_fitted(o: &Option<FitOut>) -> String {
    match o {
        None => "err".to_string(),
        Some(o) => format!("C={} n={} in={}", show_mat(&o.centroids), list(o.counts.iter(), |c| show_count(*c)), hex64c(o.inertia)),
    }
}

// ------------------------------------------------------------------------------ generators

struct Data {
    x: Vec<Vec<f64>>,
    kind: &'static str,
}

fn gen_data(rng: &mut Rng, big: bool) -> Data {
    let kinds = ["lattice", "dyadic", "dups", "fewdistinct", "onefeature", "blobs", "cloud", "scaled"];
    let kind = *rng.pick(&kinds);
    let nmax = if big { 40 } else { 12 };
    let n = 1 + rng.below(nmax);
    let p = if kind == "onefeature" { 1 } else { 1 + rng.below(3) };
    let x: Vec<Vec<f64>> = match kind {
        "lattice" | "onefeature" => (0..n).map(|_| (0..p).map(|_| rng.range(-4, 4) as f64).collect()).collect(),
        "dyadic" => (0..n).map(|_| (0..p).map(|_| rng.range(-16, 16) as f64 / 4.0).collect()).collect(),
        "dups" | "fewdistinct" => {
            let d = 1 + rng.below(3);
            let base: Vec<Vec<f64>> = (0..d).map(|_| (0..p).map(|_| rng.range(-3, 3) as f64).collect()).collect();
            (0..n).map(|_| base[rng.below(d)].clone()).collect()
        }
        "blobs" => {
            let b = 1 + rng.below(3);
            let cen: Vec<Vec<f64>> = (0..b).map(|_| (0..p).map(|_| 10.0 * rng.range(-3, 3) as f64).collect()).collect();
            (0..n).map(|i| cen[i % b].iter().map(|c| c + rng.unit() - 0.5).collect()).collect()
        }
        "cloud" => (0..n).map(|_| (0..p).map(|_| 2.0 * rng.unit() - 1.0).collect()).collect(),
        _ => {
            let s = 10f64.powf(12.0 * rng.unit() - 6.0);
            let off = if rng.coin() { 0.0 } else { s * rng.range(-100, 100) as f64 };
            (0..n).map(|_| (0..p).map(|_| off + s * (2.0 * rng.unit() - 1.0)).collect()).collect()
        }
    };
    Data { x, kind }
}

fn gen_k(rng: &mut Rng, d: &Data) -> usize {
    let n = d.x.len();
    if d.kind == "fewdistinct" {
        // more clusters than distinct points whenever n allows
        return n.min(2 + rng.below(3)).max(1);
    }
    1 + rng.below(n.min(4))
}

/// precomputed initial matrix: data rows (in the bounding box) or arbitrary lattice points
fn gen_init(rng: &mut Rng, d: &Data, k: usize) -> (Vec<Vec<f64>>, &'static str) {
    let n = d.x.len();
    let p = d.x[0].len();
    match rng.below(5) {
        0 | 1 => ((0..k).map(|_| d.x[rng.below(n)].clone()).collect(), "rows"),
        2 => {
            let mut idx: Vec<usize> = (0..n).collect();
            rng.shuffle(&mut idx);
            ((0..k).map(|i| d.x[idx[i % n]].clone()).collect(), "rows_distinct")
        }
        3 => {
            let r = d.x[rng.below(n)].clone();
            ((0..k).map(|_| r.clone()).collect(), "one_row_k_times")
        }
        _ => ((0..k).map(|_| (0..p).map(|_| rng.range(-6, 6) as f64).collect()).collect(), "free_lattice"),
    }
}

fn gen_tol(rng: &mut Rng) -> f64 {
    *rng.pick(&[1e-4, 1e-4, 1e-9, 1e-2, 0.5, 8.5])
}

fn gen_queries(rng: &mut Rng, d: &Data, cs: &[Vec<f64>]) -> Vec<Vec<f64>> {
    let p = d.x[0].len();
    let nq = rng.below(5);
    (0..nq)
        .map(|_| match rng.below(4) {
            // midpoint of two initial centroids (a tie before the first update), a data row, a far point, a lattice point
            0 if cs.len() >= 2 => {
                let a = &cs[rng.below(cs.len())];
                let b = &cs[rng.below(cs.len())];
                a.iter().zip(b).map(|(u, v)| (u + v) / 2.0).collect()
            }
            1 => d.x[rng.below(d.x.len())].clone(),
            2 => (0..p).map(|_| 1e3 * rng.range(-3, 3) as f64).collect(),
            _ => (0..p).map(|_| rng.range(-5, 5) as f64 / 2.0).collect(),
        })
        .collect()
}

// ------------------------------------------------------------------------------ ops

fn op_closest(em: &mut Em, metric: Metric, cs: Vec<Vec<f64>>, x: Vec<f64>) {
    let op = format!("closest metric={} C={} x={}", metric.name(), show_mat(&cs), list(x.iter(), |v| hex64(*v)));
    let class = format!("closest:metric={}", metric.name());
    em.case_valid(op, &class, |ctx| {
        let c = mat(&cs);
        let xv = Array1::from(x.clone());
        let (i, d) = match metric {
            Metric::L2 => hooks::closest_centroid_of(&L2Dist, &c, xv.view()),
            Metric::L1 => hooks::closest_centroid_of(&L1Dist, &c, xv.view()),
            Metric::Linf => hooks::closest_centroid_of(&LInfDist, &c, xv.view()),
        };
        let ds: Vec<f64> = cs.iter().map(|r| metric.rd(r, &x)).collect();
        let dmin = ds.iter().cloned().fold(f64::INFINITY, f64::min);
        ctx.require(i < cs.len() && ds[i] <= dmin, "assign_is_argmin", &class, || format!("index {} at {:?}, minimum {:?} of {:?}", i, ds.get(i), dmin, ds));
        ctx.require(d == dmin, "transform_is_min_rdist", &class, || format!("returned {:?}, minimum {:?}", d, dmin));
        format!("ok {} {}", i, hex64c(d))
    });
}

fn op_update(em: &mut Em, cs: Vec<Vec<f64>>, x: Vec<Vec<f64>>, mem: Vec<usize>) {
    let op = format!("update C={} X={} mem={}", show_mat(&cs), show_mat(&x), list(mem.iter(), |v| v.to_string()));
    em.case_valid(op, "update", |ctx| {
        let out = rows_of(&hooks::compute_centroids_of(&mat(&cs), &mat(&x), &Array1::from(mem.clone())));
        let p = cs[0].len();
        for (j, c) in cs.iter().enumerate() {
            let rows: Vec<&Vec<f64>> = x.iter().zip(&mem).filter(|(_, m)| **m == j).map(|(r, _)| r).collect();
            for t in 0..p {
                let want = (rows.iter().map(|r| r[t]).sum::<f64>() + c[t]) / (rows.len() as f64 + 1.0);
                let got = out[j][t];
                ctx.require((got - want).abs() <= 1e-12 * want.abs().max(1e-300) * (rows.len() as f64 + 1.0), "update_is_mean_with_old", "update", || format!("cluster {} coordinate {}: {:?}, mean of members and old centroid {:?}", j, t, got, want));
            }
        }
        format!("ok {}", show_mat(&out))
    });
}

fn op_fit(em: &mut Em, metric: Metric, d: &Data, init: Vec<Vec<f64>>, ikind: &str, m: u64, tol: f64, q: Vec<Vec<f64>>) {
    let k = init.len();
    let op = format!("fit metric={} X={} init={} m={} tol={} Q={}", metric.name(), show_mat(&d.x), show_mat(&init), m, hex64(tol), show_mat(&q));
    let class = format!("fit:metric={}:runs=1", metric.name());
    em.count(&format!("fit:data={}", d.kind));
    em.count(&format!("fit:init={}", ikind));
    let x = d.x.clone();
    em.case_valid(op, &class, |ctx| {
        let xa = mat(&x);
        let qa = if q.is_empty() { Array2::zeros((0, x[0].len())) } else { mat(&q) };
        let o = fit_api(metric, k, &xa, &qa, &Init::Pre(mat(&init)), 1, m, tol, 0);
        match &o {
            None => {
                ctx.fail("fit_succeeds", &class, "fit returned an error on finite data".to_string());
                "err".to_string()
            }
            Some(f) => {
                oracle_fitted(ctx, &class, metric, k, &x, &q, f, in_bbox(&bbox(&x), &init));
                format!("ok {} pred={} tr={}", show_fitted(&o), list(f.pred.iter(), |v| v.to_string()), list(f.tr.iter(), |v| hex64c(*v)))
            }
        }
    });
}

fn op_traj(em: &mut Em, metric: Metric, d: &Data, init: Vec<Vec<f64>>, mm: u64, tol: f64) {
    let k = init.len();
    let op = format!("traj metric={} X={} init={} M={} tol={}", metric.name(), show_mat(&d.x), show_mat(&init), mm, hex64(tol));
    let class = format!("traj:metric={}", metric.name());
    em.count(&format!("traj:data={}", d.kind));
    let x = d.x.clone();
    em.case_valid(op, &class, |ctx| {
        let xa = mat(&x);
        let qa = Array2::zeros((0, x[0].len()));
        let inb = in_bbox(&bbox(&x), &init);
        let mut parts = vec![];
        let mut prev: Option<(u64, f64)> = None;
        for m in 1..=mm {
            let o = fit_api(metric, k, &xa, &qa, &Init::Pre(mat(&init)), 1, m, tol, 0);
            if let Some(f) = &o {
                oracle_fitted(ctx, &class, metric, k, &x, &[], f, inb);
                let c = cost_of(metric, &f.centroids, &x);
                if let Some((pm, pc)) = prev {
                    // the cost of the returned centroids never increases when the budget grows
                    ctx.require(c <= pc * (1.0 + 1e-12) + 1e-300, "cost_antitone_in_budget", &class, || format!("budget {} -> {}: within-cluster cost {:?} -> {:?} (centroids {:?})", pm, m, pc, c, f.centroids));
                }
                prev = Some((m, c));
            } else {
                ctx.fail("fit_succeeds", &class, format!("fit with budget {} returned an error", m));
            }
            parts.push(format!("m={} {}", m, show_fitted(&o)));
        }
        format!("ok {}", parts.join(" "))
    });
}

fn op_restarts(em: &mut Em, pool: &rayon::ThreadPool, metric: Metric, d: &Data, k: usize, init: Init, rr: usize, m: u64, tol: f64, seed: u64) {
    // the initial matrices are part of the request, so they are computed before the case is registered
    let xa = mat(&d.x);
    let inits: Vec<Array2<f64>> = std::panic::catch_unwind(std::panic::AssertUnwindSafe(|| pool.install(|| inits_api(metric, k, &xa, &init, rr, seed)))).unwrap_or_default();
    let op = format!(
        "restarts metric={} X={} inits={} k={} m={} tol={} init={} seed={}",
        metric.name(),
        show_mat(&d.x),
        inits.iter().map(|c| show_mat(&rows_of(c))).collect::<Vec<_>>().join("|"),
        k,
        m,
        hex64(tol),
        init.name(),
        seed
    );
    let class = format!("restarts:metric={}:init={}", metric.name(), init.name());
    em.count(&format!("restarts:init={}", init.name()));
    em.count(&format!("restarts:data={}", d.kind));
    let x = d.x.clone();
    em.case_valid(op, &class, |ctx| {
        let qa = Array2::zeros((0, x[0].len()));
        if inits.len() != rr {
            ctx.fail("no_panic", &class, "the initialiser panicked on data with k <= n".to_string());
            return "panic".to_string();
        }
        for c in &inits {
            let all_rows = rows_of(c).iter().all(|r| x.iter().any(|d| d.iter().zip(r).all(|(a, b)| a.to_bits() == b.to_bits())));
            ctx.require(all_rows && c.nrows() == k, "init_returns_data_rows", &class, || format!("initial centroids {:?} are not {} rows of the data", c, k));
        }
        let mut parts = vec![];
        let mut prev: Option<f64> = None;
        for r in 1..=rr {
            let cls = format!("{}:runs={}", class, if r == 1 { "1" } else { "multi" });
            let o = pool.install(|| fit_api(metric, k, &xa, &qa, &init, r, m, tol, seed));
            if let Some(f) = &o {
                oracle_fitted(ctx, &cls, metric, k, &x, &[], f, true);
                if let Some(pi) = prev {
                    ctx.require(f.inertia <= pi, "more_restarts_not_worse", &cls, || format!("n_runs {} -> {}: reported inertia {:?} -> {:?}", r - 1, r, pi, f.inertia));
                }
                prev = Some(f.inertia);
            } else {
                ctx.fail("fit_succeeds", &cls, format!("fit with n_runs {} returned an error", r));
            }
            parts.push(format!("r={} {}", r, show_fitted(&o)));
        }
        format!("ok {}", parts.join(" "))
    });
}

/// f32 records: oracle only (the driver models f64)
fn op_f32(em: &mut Em, metric: Metric, d: &Data, k: usize, init: Init, runs: usize, m: u64, seed: u64) {
    let op = format!("#f32 metric={} n={} k={} init={} runs={} m={} seed={} kind={}", metric.name(), d.x.len(), k, init.name(), runs, m, seed, d.kind);
    let class = format!("f32:metric={}:runs={}", metric.name(), if runs == 1 { "1" } else { "multi" });
    let x32: Vec<Vec<f32>> = d.x.iter().map(|r| r.iter().map(|v| *v as f32).collect()).collect();
    em.case_valid(op, &class, |ctx| {
        let n = x32.len();
        let p = x32[0].len();
        let xa = Array2::from_shape_fn((n, p), |(i, j)| x32[i][j]);
        let ds = DatasetBase::from(xa.clone());
        let li: KMeansInit<f32> = match &init {
            Init::Random => KMeansInit::Random,
            Init::Kpp => KMeansInit::KMeansPlusPlus,
            _ => KMeansInit::KMeansPara,
        };
        fn go<D: Distance<f32>>(dist: D, k: usize, ds: &DatasetBase<Array2<f32>, Array1<()>>, li: KMeansInit<f32>, runs: usize, m: u64, seed: u64, xa: &Array2<f32>) -> Option<(Array2<f32>, Vec<f32>, f32, Vec<usize>, Vec<f32>)> {
            let model = KMeans::params_with(k, Xoshiro256Plus::seed_from_u64(seed), dist).n_runs(runs).max_n_iterations(m).init_method(li).fit(ds).ok()?;
            let pred: Array1<usize> = model.predict(xa);
            let tr: Array1<f32> = model.transform(xa);
            Some((model.centroids().clone(), model.cluster_count().to_vec(), model.inertia(), pred.to_vec(), tr.to_vec()))
        }
        let r = match metric {
            Metric::L2 => go(L2Dist, k, &ds, li, runs, m, seed, &xa),
            Metric::L1 => go(L1Dist, k, &ds, li, runs, m, seed, &xa),
            Metric::Linf => go(LInfDist, k, &ds, li, runs, m, seed, &xa),
        };
        let (c, counts, inertia, pred, tr) = match r {
            Some(t) => t,
            None => {
                ctx.fail("fit_succeeds", &class, "fit returned an error on finite data".to_string());
                return "-".to_string();
            }
        };
        ctx.require(c.nrows() == k && c.ncols() == p && c.iter().all(|v| v.is_finite()), "k_centroids_dim", &class, || format!("centroids {:?}", c));
        let rd = |a: &[f32], b: &[f32]| -> f32 {
            match metric {
                Metric::L2 => a.iter().zip(b).fold(0.0, |s, (x, y)| s + (x - y) * (x - y)),
                Metric::L1 => a.iter().zip(b).fold(0.0, |s, (x, y)| s + (x - y).abs()),
                Metric::Linf => a.iter().zip(b).fold(0.0, |s: f32, (x, y)| if (x - y).abs() > s { (x - y).abs() } else { s }),
            }
        };
        let crow: Vec<Vec<f32>> = c.rows().into_iter().map(|r| r.to_vec()).collect();
        let mut recount = vec![0.0f32; k];
        let mut tot = 0.0f64;
        for i in 0..n {
            let dsv: Vec<f32> = crow.iter().map(|cc| rd(cc, &x32[i])).collect();
            let dmin = dsv.iter().cloned().fold(f32::INFINITY, f32::min);
            ctx.require(pred[i] < k && dsv[pred[i]] <= dmin, "assign_is_argmin", &class, || format!("row {}: assigned {} of {:?}", i, pred[i], dsv));
            ctx.require(tr[i] == dmin, "transform_is_min_rdist", &class, || format!("row {}: transform {:?}, minimum {:?}", i, tr[i], dmin));
            if pred[i] < k {
                recount[pred[i]] += 1.0;
            }
            tot += dmin as f64;
        }
        for j in 0..p {
            let (lo, hi) = x32.iter().fold((f32::INFINITY, f32::NEG_INFINITY), |(lo, hi), r| (lo.min(r[j]), hi.max(r[j])));
            let slack = 1e-5 * lo.abs().max(hi.abs()) + 1e-30;
            ctx.require(crow.iter().all(|r| r[j] >= lo - slack && r[j] <= hi + slack), "centroids_in_bbox", &class, || format!("coordinate {}: centroids {:?}, data range [{:?}, {:?}]", j, crow, lo, hi));
        }
        ctx.require(counts.iter().sum::<f32>() == n as f32, "counts_sum_n", &class, || format!("cluster_count {:?} for n={}", counts, n));
        ctx.require(counts == recount, "counts_describe_returned", &class, || format!("cluster_count {:?}, but the returned centroids assign {:?}", counts, recount));
        let want = tot / n as f64;
        ctx.require((inertia as f64 - want).abs() <= 1e-4 * want.abs().max(inertia.abs() as f64) + 1e-30, "inertia_describes_returned", &class, || format!("inertia {:?}, but the returned centroids have mean minimal distance {:?}", inertia, want));
        "-".to_string()
    });
}

// ------------------------------------------------------------------------------ run

pub fn run(em: &mut Em, rng: &mut Rng) {
    let big = em.thorough();
    let scale = if big { 12 } else { 1 };
    let pool = rayon::ThreadPoolBuilder::new().num_threads(1).build().expect("rayon pool");

    // the 1-D witness of DESIGN section 7 / 8 #7 first: {0,0,10}, one centroid at 0
    for metric in METRICS {
        let d = Data { x: vec![vec![0.0], vec![0.0], vec![10.0]], kind: "witness" };
        op_traj(em, metric, &d, vec![vec![0.0]], 4, 1e-4);
    }

    // closest: exhaustive on a small 1-D lattice (ties and duplicated centroids everywhere)
    let vals = [-1.0, 0.0, 1.0];
    let xs = [-1.0, -0.5, 0.0, 0.5, 1.0];
    for metric in METRICS {
        for k in 1..=3usize {
            for code in 0..3usize.pow(k as u32) {
                let cs: Vec<Vec<f64>> = (0..k).map(|i| vec![vals[(code / 3usize.pow(i as u32)) % 3]]).collect();
                for x in xs {
                    op_closest(em, metric, cs.clone(), vec![x]);
                }
            }
        }
    }
    // closest: random, lattice and generic
    for _ in 0..300 * scale {
        let d = gen_data(rng, big);
        let k = 1 + rng.below(5);
        let (cs, _) = gen_init(rng, &d, k);
        let q = gen_queries(rng, &d, &cs);
        let x = if q.is_empty() { d.x[0].clone() } else { q[0].clone() };
        op_closest(em, *rng.pick(&METRICS), cs, x);
    }
    // update: arbitrary memberships (not only nearest ones), empty clusters included
    for _ in 0..300 * scale {
        let d = gen_data(rng, big);
        let k = 1 + rng.below(4);
        let (cs, _) = gen_init(rng, &d, k);
        let used = 1 + rng.below(k);
        let mem: Vec<usize> = (0..d.x.len()).map(|_| rng.below(used)).collect();
        op_update(em, cs, d.x.clone(), mem);
    }
    // fit from a precomputed matrix, predict / transform on training and new rows
    for _ in 0..800 * scale {
        let d = gen_data(rng, big);
        let k = gen_k(rng, &d);
        let (init, ikind) = gen_init(rng, &d, k);
        let q = gen_queries(rng, &d, &init);
        let m = 1 + rng.below(if big { 12 } else { 6 }) as u64;
        let metric = *rng.pick(&METRICS);
        let mut tol = gen_tol(rng);
        if rng.chance(1, 4) {
            // tolerance exactly on the shift of the first iteration: `distance < tolerance` is then
            // false by equality and the loop must go on
            let c0 = mat(&init);
            let first = std::panic::catch_unwind(std::panic::AssertUnwindSafe(|| fit_api(metric, k, &mat(&d.x), &Array2::zeros((0, d.x[0].len())), &Init::Pre(c0.clone()), 1, 1, 1e-4, 0))).unwrap_or(None);
            if let Some(f) = first {
                let a: Vec<f64> = init.iter().flatten().cloned().collect();
                let b: Vec<f64> = f.centroids.iter().flatten().cloned().collect();
                let shift = match metric {
                    Metric::L2 => metric.rd(&a, &b).sqrt(),
                    _ => metric.rd(&a, &b),
                };
                if shift > 0.0 && shift.is_finite() {
                    tol = shift;
                    em.count("fit:tol=first_shift_exactly");
                }
            }
        }
        op_fit(em, metric, &d, init, ikind, m, tol, q);
    }
    // trajectories
    for _ in 0..300 * scale {
        let d = gen_data(rng, big);
        let k = gen_k(rng, &d);
        let (init, _) = gen_init(rng, &d, k);
        let mm = 2 + rng.below(if big { 10 } else { 5 }) as u64;
        let metric = if rng.chance(1, 2) { Metric::L2 } else { *rng.pick(&METRICS) };
        op_traj(em, metric, &d, init, mm, *rng.pick(&[1e-4, 1e-9, 1e-2]));
    }
    // restarts with the random initialisers
    for _ in 0..300 * scale {
        let d = gen_data(rng, big);
        let k = gen_k(rng, &d);
        let init = rng.pick(&[Init::Random, Init::Kpp, Init::Para]).clone();
        let rr = 2 + rng.below(if big { 7 } else { 4 });
        let m = 1 + rng.below(6) as u64;
        let seed = rng.next() % 1000;
        op_restarts(em, &pool, *rng.pick(&METRICS), &d, k, init, rr, m, gen_tol(rng), seed);
    }
    // f32
    for _ in 0..80 * scale {
        let d = gen_data(rng, big);
        let k = gen_k(rng, &d);
        let init = rng.pick(&[Init::Random, Init::Kpp, Init::Para]).clone();
        let runs = 1 + rng.below(4);
        let m = 1 + rng.below(8) as u64;
        let seed = rng.next() % 1000;
        op_f32(em, *rng.pick(&METRICS), &d, k, init, runs, m, seed);
    }
}
