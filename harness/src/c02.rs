//! C02 — dataset operations keep record, target and weight of a sample together.
//!
//! One request line = one *history*: a tagged dataset and a sequence of operations, each applied
//! by the real linfa code to the dataset the previous step returned (`pick` selects which one when
//! an operation returns several).  Tags: record cell (id, j) = id*8 + j, weight of id = 1000 + id,
//! feature name of column j = "f<j>", target name of column c = "t<c>"; targets are labels
//! (codes 0..5 of `usize`, `bool` or `&str` labels).  Every dataset an operation returns is dumped
//! through the public accessors (`records()`, `as_targets()`, `weights()`, `feature_names()`,
//! `target_names()`, `label_count()`), compared with the Lean model's dump, and checked by the
//! oracle against the input of that step (selection law + alignment) and against the original
//! tags (a row's record cells, target(s) and weight all carry the same id).
//! RNG-driven operations: the chosen indices are read back from the record tags of the result
//! and written into the request, so `rand`'s stream is not part of the model.
use crate::util::*;
use linfa::dataset::{AsTargets, CountedTargets, Dataset, DatasetBase, DatasetView, Label, Labels, Records};
use ndarray::{s, Array1, Array2, ArrayBase, Axis, Data, Dimension, Ix1, Ix2, ShapeBuilder};
use rand::{rngs::SmallRng, SeedableRng};
use std::collections::{BTreeMap, BTreeSet, HashMap};
use std::panic::{catch_unwind, AssertUnwindSafe};

const STRS: [&str; 5] = ["lab-e", "lab-d", "lab-c", "lab-b", "lab-a"];

trait Lab: Label + Copy + 'static {
    const TAG: char;
    const DOM: usize;
    fn code(&self) -> usize;
    fn from_code(c: usize) -> Self;
}
impl Lab for usize {
    const TAG: char = 'u';
    const DOM: usize = 5;
    fn code(&self) -> usize {
        *self
    }
    fn from_code(c: usize) -> Self {
        c
    }
}
impl Lab for bool {
    const TAG: char = 'b';
    const DOM: usize = 2;
    fn code(&self) -> usize {
        *self as usize
    }
    fn from_code(c: usize) -> Self {
        c != 0
    }
}
impl Lab for &'static str {
    const TAG: char = 's';
    const DOM: usize = 5;
    fn code(&self) -> usize {
        STRS.iter().position(|s| s == self).unwrap()
    }
    fn from_code(c: usize) -> Self {
        STRS[c]
    }
}
fn dom_of(lt: char) -> usize {
    if lt == 'b' {
        2
    } else {
        5
    }
}

/// what the public accessors of a dataset show
#[derive(Clone, Debug, PartialEq)]
struct Snap {
    n: usize,
    p: usize,
    t: usize,
    ix1: bool,
    recs: Vec<Vec<u64>>,
    tg: Vec<Vec<usize>>,
    w: Vec<u64>,
    fnames: Vec<String>,
    tnames: Vec<String>,
    counts: Option<Vec<Vec<(usize, usize)>>>,
}

trait CountsOf<L> {
    fn counts_of(&self) -> Option<Vec<HashMap<L, usize>>>;
}
impl<L, S: Data<Elem = L>, I: Dimension> CountsOf<L> for ArrayBase<S, I> {
    fn counts_of(&self) -> Option<Vec<HashMap<L, usize>>> {
        None
    }
}
impl<L: Label, P: AsTargets<Elem = L>> CountsOf<L> for CountedTargets<L, P> {
    fn counts_of(&self) -> Option<Vec<HashMap<L, usize>>> {
        Some(self.label_count())
    }
}

fn snap<L: Lab, D: Data<Elem = f64>, T: AsTargets<Elem = L> + CountsOf<L>>(ds: &DatasetBase<ArrayBase<D, Ix2>, T>) -> Snap {
    let r = ds.records();
    let tv = ds.as_targets();
    let ix1 = tv.ndim() == 1;
    let tg: Vec<Vec<usize>> = if ix1 { tv.iter().map(|x| vec![x.code()]).collect() } else { tv.axis_iter(Axis(0)).map(|row| row.iter().map(|x| x.code()).collect()).collect() };
    Snap {
        n: r.nrows(),
        p: r.ncols(),
        t: ds.ntargets(),
        ix1,
        recs: r.rows().into_iter().map(|row| row.iter().map(|x| *x as u64).collect()).collect(),
        tg,
        // `weights()` hands out a slice; a weight array assigned to the public field in a non-contiguous
        // layout (lay.w = 5) has none, it is read from the field
        w: if ds.weights.is_standard_layout() { ds.weights().map(|w| w.iter().map(|x| *x as u64).collect()).unwrap_or_default() } else { ds.weights.iter().map(|x| *x as u64).collect() },
        fnames: ds.feature_names().to_vec(),
        tnames: ds.target_names().to_vec(),
        counts: ds.targets().counts_of().map(|cs| {
            cs.iter()
                .map(|m| {
                    let mut v: Vec<(usize, usize)> = m.iter().map(|(k, c)| (k.code(), *c)).collect();
                    v.sort();
                    v
                })
                .collect()
        }),
    }
}

fn show_names(v: &[String]) -> String {
    if v.is_empty() {
        "-".into()
    } else {
        v.join(",")
    }
}
fn show_rows<T: ToString>(r: &[Vec<T>]) -> String {
    if r.is_empty() {
        "-".into()
    } else {
        list2(r.iter().map(|x| x.iter()), |x| x.to_string())
    }
}
fn show_counts(c: &Option<Vec<Vec<(usize, usize)>>>) -> String {
    match c {
        None => "x".into(),
        Some(cs) if cs.is_empty() => "-".into(),
        Some(cs) => cs.iter().map(|m| if m.is_empty() { "-".to_string() } else { m.iter().map(|(l, c)| format!("{}*{}", l, c)).collect::<Vec<_>>().join(",") }).collect::<Vec<_>>().join(";"),
    }
}
fn show_snap(s: &Snap) -> String {
    format!(
        "{}x{}x{}x{}[R:{}][T:{}][W:{}][F:{}][N:{}][C:{}]",
        s.n,
        s.p,
        s.t,
        s.ix1 as u8,
        show_rows(&s.recs),
        show_rows(&s.tg),
        if s.w.is_empty() { "-".to_string() } else { list(s.w.iter(), |x| x.to_string()) },
        show_names(&s.fnames),
        show_names(&s.tnames),
        show_counts(&s.counts)
    )
}

type P1<L> = Dataset<f64, L, Ix1>;
type P2<L> = Dataset<f64, L, Ix2>;
type C1<L> = DatasetBase<Array2<f64>, CountedTargets<L, Array1<L>>>;
type C2<L> = DatasetBase<Array2<f64>, CountedTargets<L, Array2<L>>>;
enum St<L: Lab> {
    P1(P1<L>),
    P2(P2<L>),
    C1(C1<L>),
    C2(C2<L>),
}
enum StAny {
    U(St<usize>),
    B(St<bool>),
    S(St<&'static str>),
}

/// memory layout of the three arrays a step's dataset is built with (records, targets, weights):
/// 0 = C-contiguous own buffer, 1 = F-order (column-major), 2 = rows `2..2+n` of a larger
/// allocation (`slice_move`: standard layout, but offset and surplus elements in the raw vector),
/// 3 = every second row and column of a larger allocation (strided, not contiguous),
/// 4 = rows stored in reverse order (negative stride).  Cells outside the array proper hold fillers
/// that belong to no sample, so an operation that reads the raw buffer shows up in the tags.
/// Weights: 0, 2, 3, 4 as above, handed to `with_weights`; 5 = the strided array of 3 assigned to the
/// public field `weights` (no constructor in between).
#[derive(Clone, Copy, Debug, PartialEq)]
struct Lay {
    r: u8,
    t: u8,
    w: u8,
}
const LAY_C: Lay = Lay { r: 0, t: 0, w: 0 };
impl Lay {
    fn show(&self) -> String {
        format!("{}{}{}", self.r, self.t, self.w)
    }
}

fn arr2<A: Clone>(n: usize, p: usize, rows: &[Vec<A>], lay: u8, fill: A) -> Array2<A> {
    let at = |i: usize, j: usize| rows[i][j].clone();
    match lay {
        1 => Array2::from_shape_fn((n, p).f(), |(i, j)| at(i, j)),
        2 => Array2::from_shape_fn((n + 3, p), |(i, j)| if i >= 2 && i < 2 + n { at(i - 2, j) } else { fill.clone() }).slice_move(s![2..2 + n, ..]),
        3 => Array2::from_shape_fn((2 * n + 1, 2 * p + 1), |(i, j)| if i % 2 == 1 && j % 2 == 1 { at(i / 2, j / 2) } else { fill.clone() }).slice_move(s![1..;2, 1..;2]),
        4 => Array2::from_shape_fn((n, p), |(i, j)| at(n - 1 - i, j)).slice_move(s![..;-1, ..]),
        _ => Array2::from_shape_fn((n, p), |(i, j)| at(i, j)),
    }
}
fn arr1<A: Clone>(xs: &[A], lay: u8, fill: A) -> Array1<A> {
    let n = xs.len();
    match lay {
        2 => Array1::from_shape_fn(n + 3, |i| if i >= 2 && i < 2 + n { xs[i - 2].clone() } else { fill.clone() }).slice_move(s![2..2 + n]),
        3 => Array1::from_shape_fn(2 * n + 1, |i| if i % 2 == 1 { xs[i / 2].clone() } else { fill.clone() }).slice_move(s![1..;2]),
        4 => Array1::from_shape_fn(n, |i| xs[n - 1 - i].clone()).slice_move(s![..;-1]),
        _ => Array1::from(xs.to_vec()),
    }
}

/// a dataset with exactly the given public content (constructors only), in the given memory layout
fn build<L: Lab>(s: &Snap, lay: Lay) -> St<L> {
    let cells: Vec<Vec<f64>> = s.recs.iter().map(|r| r.iter().map(|x| *x as f64).collect()).collect();
    let recs = arr2(s.n, s.p, &cells, lay.r, 7777.0);
    debug_assert_eq!(recs.dim(), (s.n, s.p));
    let w = arr1(&s.w.iter().map(|x| *x as f32).collect::<Vec<f32>>(), if lay.w == 5 { 3 } else { lay.w }, 5555.0);
    let by_field = lay.w == 5;
    let (w, wf) = if by_field { (Array1::zeros(0), Some(w)) } else { (w, None) };
    macro_rules! fin {
        ($d:expr) => {{
            let mut d_ = $d;
            if let Some(x) = wf {
                d_.weights = x;
            }
            d_
        }};
    }
    if s.ix1 {
        let flat: Vec<L> = s.tg.iter().flatten().map(|c| L::from_code(*c)).collect();
        let tg = arr1(&flat, lay.t, L::from_code(0));
        if s.counts.is_some() {
            St::C1(fin!(DatasetBase::new(recs, CountedTargets::new(tg)).with_weights(w).with_feature_names(s.fnames.clone()).with_target_names(s.tnames.clone())))
        } else {
            St::P1(fin!(Dataset::new(recs, tg).with_weights(w).with_feature_names(s.fnames.clone()).with_target_names(s.tnames.clone())))
        }
    } else {
        let labs: Vec<Vec<L>> = s.tg.iter().map(|r| r.iter().map(|c| L::from_code(*c)).collect()).collect();
        let tg = arr2(s.n, s.t, &labs, lay.t, L::from_code(0));
        if s.counts.is_some() {
            St::C2(fin!(DatasetBase::new(recs, CountedTargets::new(tg)).with_weights(w).with_feature_names(s.fnames.clone()).with_target_names(s.tnames.clone())))
        } else {
            St::P2(fin!(Dataset::new(recs, tg).with_weights(w).with_feature_names(s.fnames.clone()).with_target_names(s.tnames.clone())))
        }
    }
}
/// both `is_standard_layout()` asserts of the owned split hold for this dataset
fn std_layout<L: Lab>(st: &St<L>) -> bool {
    match st {
        St::P1(x) => x.records().is_standard_layout() && x.targets().is_standard_layout(),
        St::P2(x) => x.records().is_standard_layout() && x.targets().is_standard_layout(),
        St::C1(x) => x.records().is_standard_layout() && x.as_targets().is_standard_layout(),
        St::C2(x) => x.records().is_standard_layout() && x.as_targets().is_standard_layout(),
    }
}
fn build_any(lt: char, s: &Snap, lay: Lay) -> StAny {
    match lt {
        'u' => StAny::U(build(s, lay)),
        'b' => StAny::B(build(s, lay)),
        _ => StAny::S(build(s, lay)),
    }
}
fn std_any(st: &StAny) -> bool {
    match st {
        StAny::U(s) => std_layout(s),
        StAny::B(s) => std_layout(s),
        StAny::S(s) => std_layout(s),
    }
}

#[derive(Clone, Debug)]
enum Op {
    SplitV { r: f32 },
    SplitO { r: f32 },
    Shuffle { v: bool, seed: u64 },
    /// `draw`: which item of the (infinite) bootstrap iterator is looked at
    Boot { v: bool, ns: usize, nf: usize, seed: u64, draw: usize },
    BootS { v: bool, ns: usize, seed: u64, draw: usize },
    BootF { v: bool, nf: usize, seed: u64, draw: usize },
    WithLabels { v: bool, labs: Vec<usize> },
    OneVsAll { v: bool },
    Map { v: bool, lt2: char, tab: Vec<usize> },
    View,
    ToOwned { v: bool },
    IntoSingle,
    SampleIter { v: bool },
    FeatureIter { v: bool },
    TargetIter { v: bool },
    Chunks { v: bool, size: usize },
    /// `weight_for(i)` for every sample `i < n`
    WeightFor { v: bool },
    /// `label_frequencies_with_mask(mask)` (`label_frequencies()` when the mask is empty)
    LabelFreq { v: bool, mask: Vec<bool> },
}
impl Op {
    fn name(&self) -> &'static str {
        match self {
            Op::SplitV { .. } => "splitV",
            Op::SplitO { .. } => "splitO",
            Op::Shuffle { .. } => "shuffle",
            Op::Boot { .. } => "boot",
            Op::BootS { .. } => "bootS",
            Op::BootF { .. } => "bootF",
            Op::WithLabels { .. } => "withLabels",
            Op::OneVsAll { .. } => "oneVsAll",
            Op::Map { .. } => "map",
            Op::View => "view",
            Op::ToOwned { .. } => "toOwned",
            Op::IntoSingle => "intoSingle",
            Op::SampleIter { .. } => "sampleIter",
            Op::FeatureIter { .. } => "featureIter",
            Op::TargetIter { .. } => "targetIter",
            Op::Chunks { .. } => "chunks",
            Op::WeightFor { .. } => "weightFor",
            Op::LabelFreq { .. } => "labelFreq",
        }
    }
    fn through_view(&self) -> bool {
        match self {
            Op::SplitV { .. } | Op::View => true,
            Op::SplitO { .. } | Op::IntoSingle => false,
            Op::Shuffle { v, .. } | Op::Boot { v, .. } | Op::BootS { v, .. } | Op::BootF { v, .. } | Op::WithLabels { v, .. } | Op::OneVsAll { v } | Op::Map { v, .. } | Op::ToOwned { v } | Op::SampleIter { v } | Op::FeatureIter { v } | Op::TargetIter { v } | Op::Chunks { v, .. } | Op::WeightFor { v } | Op::LabelFreq { v, .. } => *v,
        }
    }
}

/// what one step returned
#[derive(Default)]
struct Res {
    outs: Vec<Snap>,
    lt: char,
    /// one_vs_all: the label reported with each output
    labels: Vec<usize>,
    /// sample_iter: the pairs it yielded
    pairs: Option<Vec<(Vec<u64>, Vec<usize>)>>,
    /// weight_for: the values for i = 0 .. n+1
    wfor: Option<Vec<u64>>,
    /// label_frequencies_with_mask: (label code, summed weight), sorted by code
    freqs: Option<Vec<(usize, u64)>>,
}

/// `$d` is bound to the owned dataset (by reference) or to a view of it
macro_rules! each {
    ($st:expr, $v:expr, |$d:ident| $body:expr) => {
        match $st {
            St::P1(x) => {
                if $v {
                    let $d = x.view();
                    let out_ = $body;
                    out_
                } else {
                    let $d = x;
                    let out_ = $body;
                    out_
                }
            }
            St::P2(x) => {
                if $v {
                    let $d = x.view();
                    let out_ = $body;
                    out_
                } else {
                    let $d = x;
                    let out_ = $body;
                    out_
                }
            }
            St::C1(x) => {
                if $v {
                    let $d = x.view();
                    let out_ = $body;
                    out_
                } else {
                    let $d = x;
                    let out_ = $body;
                    out_
                }
            }
            St::C2(x) => {
                if $v {
                    let $d = x.view();
                    let out_ = $body;
                    out_
                } else {
                    let $d = x;
                    let out_ = $body;
                    out_
                }
            }
        }
    };
}
/// `$d` is bound to a view of the dataset
macro_rules! each_view {
    ($st:expr, |$d:ident| $body:expr) => {
        match $st {
            St::P1(x) => {
                let $d = x.view();
                let out_ = $body;
                out_
            }
            St::P2(x) => {
                let $d = x.view();
                let out_ = $body;
                out_
            }
            St::C1(x) => {
                let $d = x.view();
                let out_ = $body;
                out_
            }
            St::C2(x) => {
                let $d = x.view();
                let out_ = $body;
                out_
            }
        }
    };
}
/// `$d` is bound to the owned dataset (by reference)
macro_rules! each_own {
    ($st:expr, |$d:ident| $body:expr) => {
        match $st {
            St::P1($d) => {
                let out_ = $body;
                out_
            }
            St::P2($d) => {
                let out_ = $body;
                out_
            }
            St::C1($d) => {
                let out_ = $body;
                out_
            }
            St::C2($d) => {
                let out_ = $body;
                out_
            }
        }
    };
}
/// single-target datasets only
macro_rules! each1 {
    ($st:expr, $v:expr, |$d:ident| $body:expr) => {
        match $st {
            St::P1(x) => {
                if $v {
                    let $d = x.view();
                    let out_ = $body;
                    out_
                } else {
                    let $d = x;
                    let out_ = $body;
                    out_
                }
            }
            St::C1(x) => {
                if $v {
                    let $d = x.view();
                    let out_ = $body;
                    out_
                } else {
                    let $d = x;
                    let out_ = $body;
                    out_
                }
            }
            _ => unreachable!("one_vs_all is generated for Ix1 targets only"),
        }
    };
}

fn map_out<L: Lab, L2: Lab>(st: &St<L>, v: bool, tab: &[usize]) -> Vec<Snap> {
    let f = |x: &L| L2::from_code(tab[x.code()]);
    vec![each!(st, v, |d| snap(&d.clone().map_targets(f)))]
}

/// runs one operation of the real code on the current dataset (may panic)
fn exec<L: Lab>(st: &St<L>, op: &Op) -> Res {
    let mut res = Res { lt: L::TAG, ..Default::default() };
    match op {
        Op::SplitV { r } => {
            res.outs = each_own!(st, |x| {
                let mut d = x.view();
                // `view()` goes through `with_weights`; a non-contiguous weight array reaches a view only through
                // the public field (lay.w = 5)
                if !x.weights.is_standard_layout() {
                    d.weights = x.weights.clone();
                }
                let (a, b) = d.split_with_ratio(*r);
                vec![snap(&a), snap(&b)]
            });
        }
        Op::SplitO { r } => {
            res.outs = match st {
                St::P1(x) => {
                    let (a, b) = x.clone().split_with_ratio(*r);
                    vec![snap(&a), snap(&b)]
                }
                St::P2(x) => {
                    let (a, b) = x.clone().split_with_ratio(*r);
                    vec![snap(&a), snap(&b)]
                }
                _ => unreachable!("owned split is generated for plain targets only"),
            };
        }
        Op::Shuffle { v, seed } => {
            let mut rng = SmallRng::seed_from_u64(*seed);
            res.outs = vec![each!(st, *v, |d| snap(&d.shuffle(&mut rng)))];
        }
        Op::Boot { v, ns, nf, seed, draw } => {
            let mut rng = SmallRng::seed_from_u64(*seed);
            res.outs = vec![each!(st, *v, |d| snap(&d.bootstrap((*ns, *nf), &mut rng).nth(*draw).unwrap()))];
        }
        Op::BootS { v, ns, seed, draw } => {
            let mut rng = SmallRng::seed_from_u64(*seed);
            res.outs = vec![each!(st, *v, |d| snap(&d.bootstrap_samples(*ns, &mut rng).nth(*draw).unwrap()))];
        }
        Op::BootF { v, nf, seed, draw } => {
            let mut rng = SmallRng::seed_from_u64(*seed);
            res.outs = vec![each!(st, *v, |d| snap(&d.bootstrap_features(*nf, &mut rng).nth(*draw).unwrap()))];
        }
        Op::WithLabels { v, labs } => {
            let labs: Vec<L> = labs.iter().map(|c| L::from_code(*c)).collect();
            res.outs = vec![each!(st, *v, |d| snap(&d.with_labels(&labs)))];
        }
        Op::OneVsAll { v } => {
            let mut pairs: Vec<(usize, Snap)> = each1!(st, *v, |d| d.one_vs_all().unwrap().iter().map(|(l, ds)| (l.code(), snap::<bool, _, _>(ds))).collect());
            pairs.sort_by_key(|x| x.0);
            res.labels = pairs.iter().map(|x| x.0).collect();
            res.outs = pairs.into_iter().map(|x| x.1).collect();
            res.lt = 'b';
        }
        Op::Map { v, lt2, tab } => {
            res.lt = *lt2;
            res.outs = match lt2 {
                'u' => map_out::<L, usize>(st, *v, tab),
                'b' => map_out::<L, bool>(st, *v, tab),
                _ => map_out::<L, &'static str>(st, *v, tab),
            };
        }
        Op::View => {
            res.outs = vec![each_view!(st, |d| snap(&d))];
        }
        Op::ToOwned { v } => {
            res.outs = vec![each!(st, *v, |d| snap(&d.to_owned()))];
        }
        Op::IntoSingle => {
            res.outs = match st {
                St::P2(x) => vec![snap(&x.clone().into_single_target())],
                _ => unreachable!("into_single_target is generated for owned Ix2 array targets only"),
            };
        }
        Op::SampleIter { v } => {
            res.pairs = Some(each!(st, *v, |d| d.sample_iter().map(|(r, t)| (r.iter().map(|x| *x as u64).collect(), t.iter().map(|x| x.code()).collect())).collect()));
            res.outs = vec![each_own!(st, |d| snap(d))];
        }
        Op::FeatureIter { v } => {
            res.outs = each!(st, *v, |d| d.feature_iter().map(|x| snap(&x)).collect());
        }
        Op::TargetIter { v } => {
            res.outs = each!(st, *v, |d| d.target_iter().map(|x| snap(&x)).collect());
        }
        Op::Chunks { v, size } => {
            res.outs = each!(st, *v, |d| d.sample_chunks(*size).map(|x| snap(&x)).collect());
        }
        Op::WeightFor { v } => {
            res.wfor = Some(each!(st, *v, |d| (0..d.nsamples()).map(|i| d.weight_for(i) as u64).collect()));
            res.outs = vec![each_own!(st, |d| snap(d))];
        }
        Op::LabelFreq { v, mask } => {
            let m: HashMap<L, f32> = each!(st, *v, |d| if mask.is_empty() { d.label_frequencies() } else { d.label_frequencies_with_mask(mask) });
            let mut fr: Vec<(usize, u64)> = m.iter().map(|(k, x)| (k.code(), *x as u64)).collect();
            fr.sort();
            // the weights are integers, so are their sums (exact in f32 far beyond these sizes)
            assert!(m.values().all(|x| *x == (*x as u64) as f32), "label frequency is not an integer");
            res.freqs = Some(fr);
            res.outs = vec![each_own!(st, |d| snap(d))];
        }
    }
    res
}

fn exec_any(st: &StAny, op: &Op) -> Option<Res> {
    catch_unwind(AssertUnwindSafe(|| match st {
        StAny::U(s) => exec(s, op),
        StAny::B(s) => exec(s, op),
        StAny::S(s) => exec(s, op),
    }))
    .ok()
}

// ------------------------------------------------------------------ reading RNG choices back

/// sample indices chosen by the implementation, from the record tags: the smallest (for a
/// permutation: smallest unused) input row with the same id
/// (with zero-width records the row is recognised by its targets: any consistent choice reproduces
/// the same result, and the oracle still demands a permutation / existing rows)
fn read_rows(inp: &Snap, out: &Snap, distinct: bool) -> Option<Vec<usize>> {
    let mut used = vec![false; inp.n];
    let mut idx = vec![];
    for (ro, row) in out.recs.iter().enumerate() {
        let k = match row.first() {
            Some(c) => {
                let id = c / 8;
                (0..inp.n).find(|i| !(distinct && used[*i]) && inp.recs[*i].first().map(|c| c / 8) == Some(id))?
            }
            // zero-width records: the weight (if the result carries weights) or else the target row
            None if out.w.len() == out.n && inp.w.len() == inp.n && out.n > 0 => (0..inp.n).find(|i| !(distinct && used[*i]) && inp.w.get(*i) == out.w.get(ro))?,
            None => (0..inp.n).find(|i| !(distinct && used[*i]) && inp.tg.get(*i) == out.tg.get(ro))?,
        };
        used[k] = true;
        idx.push(k);
    }
    Some(idx)
}
/// feature indices chosen by the implementation, from the column tags of the first row
fn read_cols(inp: &Snap, out: &Snap) -> Option<Vec<usize>> {
    if out.n == 0 || inp.n == 0 {
        return Some(vec![0; out.p]);
    }
    let in_tags: Vec<u64> = inp.recs[0].iter().map(|c| c % 8).collect();
    out.recs[0].iter().map(|c| in_tags.iter().position(|t| *t == c % 8)).collect()
}

// ------------------------------------------------------------------ oracle

fn sel<T: Clone>(xs: &[T], idx: &[usize]) -> Option<Vec<T>> {
    idx.iter().map(|i| xs.get(*i).cloned()).collect()
}
fn recount(tg: &[Vec<usize>], t: usize) -> Vec<Vec<(usize, usize)>> {
    (0..t)
        .map(|c| {
            let mut m = BTreeMap::new();
            for row in tg {
                *m.entry(row[c]).or_insert(0usize) += 1;
            }
            m.into_iter().collect()
        })
        .collect()
}

/// which of weights / feature names / target names an operation is documented (or built) to hand on
#[derive(Clone, Copy)]
struct Keep {
    w: bool,
    f: bool,
    t: bool,
}
const KEEP_ALL: Keep = Keep { w: true, f: true, t: true };
const KEEP_NONE: Keep = Keep { w: false, f: false, t: false };

/// alignment of one returned dataset with the step's input: row k of the output is input row
/// idx[k] (record columns `cols`, target columns `tcols`, labels through `f`), weights and names —
/// whenever carried — are those of the same rows / columns; cached label counts are a recount.
fn aligned(ctx: &mut Ctx, class: &str, what: &str, inp: &Snap, out: &Snap, idx: &[usize], cols: &[usize], tcols: &[usize], f: &dyn Fn(usize) -> usize, keep: Keep) -> bool {
    let mut ok = true;
    // "beyond the documented selection nothing changes": operations that hand weights / names on today
    // (splits, label filter, one-vs-all, map, view, column iterators) must not start losing them
    if keep.w && inp.w.len() == inp.n && !idx.is_empty() && out.w.len() != idx.len() {
        ctx.fail("metadata_kept", class, format!("{}: input has one weight per sample, the result carries {} weights for {} samples", what, out.w.len(), idx.len()));
        ok = false;
    }
    if keep.f && !inp.fnames.is_empty() && !cols.is_empty() && out.fnames.len() != cols.len() {
        ctx.fail("metadata_kept", class, format!("{}: input has feature names {:?}, the result {:?}", what, inp.fnames, out.fnames));
        ok = false;
    }
    if keep.t && !inp.tnames.is_empty() && !tcols.is_empty() && out.tnames.len() != tcols.len() {
        ctx.fail("metadata_kept", class, format!("{}: input has target names {:?}, the result {:?}", what, inp.tnames, out.tnames));
        ok = false;
    }
    let want_r: Option<Vec<Vec<u64>>> = sel(&inp.recs, idx).and_then(|rows| rows.iter().map(|r| sel(r, cols)).collect());
    let want_t: Option<Vec<Vec<usize>>> = sel(&inp.tg, idx).and_then(|rows| rows.iter().map(|r| sel(r, tcols).map(|x| x.iter().map(|c| f(*c)).collect())).collect());
    if want_r.as_ref() != Some(&out.recs) || out.n != idx.len() || out.p != cols.len() {
        ctx.fail("records_selected", class, format!("{}: records {:?}, want rows {:?} cols {:?} of {:?}", what, out.recs, idx, cols, inp.recs));
        ok = false;
    }
    if want_t.as_ref() != Some(&out.tg) || out.t != tcols.len() {
        ctx.fail("target_of_same_sample", class, format!("{}: targets {:?}, want rows {:?} cols {:?} of {:?}", what, out.tg, idx, tcols, inp.tg));
        ok = false;
    }
    // a weight vector that is not one per sample (`with_weights` checks nothing; `w=2|3`): only the weights
    // that sit next to a row of the result are weights "of a sample"
    let w_ok = if inp.w.is_empty() || inp.w.len() == inp.n { sel(&inp.w, idx).as_ref() == Some(&out.w) } else { out.w.iter().zip(idx.iter()).all(|(w, i)| inp.w.get(*i) == Some(w)) };
    if !out.w.is_empty() && !w_ok {
        ctx.fail("weight_of_same_sample", class, format!("{}: weights {:?}, rows {:?} of {:?}", what, out.w, idx, inp.w));
        ok = false;
    }
    if !out.fnames.is_empty() && sel(&inp.fnames, cols).as_ref() != Some(&out.fnames) {
        ctx.fail("feature_name_of_same_column", class, format!("{}: feature names {:?}, columns {:?} of {:?}", what, out.fnames, cols, inp.fnames));
        ok = false;
    }
    if !out.tnames.is_empty() && sel(&inp.tnames, tcols).as_ref() != Some(&out.tnames) {
        ctx.fail("target_name_of_same_column", class, format!("{}: target names {:?}, columns {:?} of {:?}", what, out.tnames, tcols, inp.tnames));
        ok = false;
    }
    if let Some(c) = &out.counts {
        if out.tg.iter().all(|r| r.len() == out.t) && *c != recount(&out.tg, out.t) {
            ctx.fail("label_counts", class, format!("{}: cached label counts {:?}, targets {:?}", what, c, out.tg));
            ok = false;
        }
    }
    ok
}

/// bookkeeping of the original tags along a history
#[derive(Clone)]
struct Truth {
    /// expected current target row of original sample `id`
    tg: Vec<Vec<usize>>,
    /// original column of each current target column
    tcols: Vec<usize>,
}

/// a row's record cells, target(s), weight and the column names all carry the same original tags
fn tags_ok(ctx: &mut Ctx, class: &str, what: &str, s: &Snap, truth: &Truth) {
    for (k, row) in s.recs.iter().enumerate() {
        if row.is_empty() {
            continue;
        }
        let id = (row[0] / 8) as usize;
        if !row.iter().all(|c| (*c / 8) as usize == id) || id >= truth.tg.len() {
            ctx.fail("record_cells_one_sample", class, format!("{}: row {} mixes samples: {:?}", what, k, row));
            continue;
        }
        if s.tg.get(k) != Some(&truth.tg[id]) {
            ctx.fail("target_of_same_sample", class, format!("{}: row {} is sample {} but carries targets {:?}, that sample's are {:?}", what, k, id, s.tg.get(k), truth.tg[id]));
        }
        // (a row without a weight — fewer weights than rows — is reported by `containers_parallel`, unless
        // the history started from such a weight vector)
        if s.w.get(k).map_or(false, |w| *w != 1000 + id as u64) {
            ctx.fail("weight_of_same_sample", class, format!("{}: row {} is sample {} but carries weight {:?}", what, k, id, s.w.get(k)));
        }
    }
    if let Some(row) = s.recs.first() {
        if !s.fnames.is_empty() && s.fnames != row.iter().map(|c| format!("f{}", c % 8)).collect::<Vec<_>>() {
            ctx.fail("feature_name_of_same_column", class, format!("{}: feature names {:?} over columns {:?}", what, s.fnames, row));
        }
    }
    if !s.tnames.is_empty() && s.tnames != truth.tcols.iter().map(|c| format!("t{}", c)).collect::<Vec<_>>() {
        ctx.fail("target_name_of_same_column", class, format!("{}: target names {:?} over original columns {:?}", what, s.tnames, truth.tcols));
    }
}

fn ceil_ratio(n: usize, r: f32) -> usize {
    // the product of n and an f32 is exact in f64 (24 + 24 bits); rounding it to f32 is the single
    // precision product; `as usize` saturates
    let prod = ((n as f64) * (r as f64)) as f32;
    prod.ceil() as usize
}

/// the same for sample counts that `f32` cannot hold: `n as f32` is one rounding of `n` (to nearest, ties
/// to even — computed here on the integer, 24 significant bits), the product of two `f32` is exact in
/// `f64`, rounding that to `f32` is the single precision product
fn ceil_ratio_large(n: usize, r: f32) -> usize {
    let bits = 64 - (n as u64).leading_zeros() as i32;
    let nf: f64 = if bits <= 24 {
        n as f64
    } else {
        let sh = (bits - 24) as u32;
        let (q, rem, half) = ((n as u64) >> sh, (n as u64) & ((1u64 << sh) - 1), 1u64 << (sh - 1));
        let q = if rem > half || (rem == half && q & 1 == 1) { q + 1 } else { q };
        (q as f64) * (2.0f64).powi(sh as i32)
    };
    ((nf * (r as f64)) as f32).ceil() as usize
}

fn class_of(op: &Op, inp: &Snap) -> String {
    format!("{}:ix1={}:cnt={}:v={}", op.name(), inp.ix1 as u8, inp.counts.is_some() as u8, op.through_view() as u8)
}

/// does the property promise a result for this step?
fn promised(op: &Op, inp: &Snap, std: bool) -> bool {
    match op {
        Op::SplitV { r } => *r >= 0.0 && *r <= 1.0,
        // the owned split documents a panic for records / targets that are not in row-major layout
        Op::SplitO { r } => *r >= 0.0 && *r <= 1.0 && std,
        Op::Boot { ns, nf, .. } => (inp.n > 0 || *ns == 0) && (inp.p > 0 || *nf == 0),
        Op::BootS { ns, .. } => inp.n > 0 || *ns == 0,
        Op::BootF { nf, .. } => inp.p > 0 || *nf == 0,
        Op::IntoSingle => inp.t == 1,
        Op::Chunks { size, .. } => *size > 0,
        // `weight[i]` of a kept row: fewer weights than samples (possible only through `with_weights`, which
        // checks nothing) is outside "with or without weights"
        Op::WithLabels { .. } => inp.w.is_empty() || inp.w.len() >= inp.n,
        _ => true,
    }
}

/// the selection law of the step, checked on what the implementation returned
fn oracle_step(ctx: &mut Ctx, op: &Op, inp: &Snap, res: &Res, idx: &Option<Vec<usize>>, fidx: &Option<Vec<usize>>) {
    let class = class_of(op, inp);
    let all: Vec<usize> = (0..inp.n).collect();
    let cols: Vec<usize> = (0..inp.p).collect();
    let tcols: Vec<usize> = (0..inp.t).collect();
    let id = |c: usize| c;
    for o in &res.outs {
        let wpar = o.w.is_empty() || o.w.len() == o.n || !(inp.w.is_empty() || inp.w.len() == inp.n);
        let wf = wpar && (o.fnames.is_empty() || o.fnames.len() == o.p) && (o.tnames.is_empty() || o.tnames.len() == o.t) && o.tg.len() == o.n && o.tg.iter().all(|r| r.len() == o.t) && o.recs.iter().all(|r| r.len() == o.p);
        ctx.require(wf, "containers_parallel", &class, || format!("{}: n={} p={} t={} but {} target rows, {} weights, {} feature names, {} target names", op.name(), o.n, o.p, o.t, o.tg.len(), o.w.len(), o.fnames.len(), o.tnames.len()));
    }
    match op {
        Op::SplitV { r } | Op::SplitO { r } => {
            let n1 = ceil_ratio(inp.n, *r);
            if res.outs.len() != 2 || n1 > inp.n {
                ctx.fail("split_first_ceil", &class, format!("split of n={} at ratio {:?} returned {} parts", inp.n, r, res.outs.len()));
                return;
            }
            ctx.require(res.outs[0].n == n1 && res.outs[1].n == inp.n - n1, "split_first_ceil", &class, || format!("n={} ratio={:?}: parts of {} and {} samples, want ceil = {}", inp.n, r, res.outs[0].n, res.outs[1].n, n1));
            aligned(ctx, &class, "first part", inp, &res.outs[0], &all[..n1.min(inp.n)], &cols, &tcols, &id, KEEP_ALL);
            aligned(ctx, &class, "second part", inp, &res.outs[1], &all[n1.min(inp.n)..], &cols, &tcols, &id, KEEP_ALL);
        }
        Op::Shuffle { .. } => {
            let o = &res.outs[0];
            match idx {
                Some(ix) if ix.len() == inp.n => {
                    let mut sorted = ix.clone();
                    sorted.sort();
                    ctx.require(sorted == all, "shuffle_perm", &class, || format!("rows {:?} are not a permutation of 0..{}", ix, inp.n));
                    aligned(ctx, &class, "shuffled", inp, o, ix, &cols, &tcols, &id, Keep { w: false, f: true, t: true });
                }
                _ => ctx.fail("shuffle_perm", &class, format!("shuffled records {:?} are not a permutation of {:?}", o.recs, inp.recs)),
            }
        }
        Op::Boot { ns, nf, .. } => boot_oracle(ctx, &class, inp, &res.outs[0], idx, fidx, *ns, *nf),
        Op::BootS { ns, .. } => boot_oracle(ctx, &class, inp, &res.outs[0], idx, &Some(cols.clone()), *ns, inp.p),
        Op::BootF { nf, .. } => boot_oracle(ctx, &class, inp, &res.outs[0], &Some(all.clone()), fidx, inp.n, *nf),
        Op::WithLabels { labs, .. } => {
            let keep: Vec<usize> = (0..inp.n).filter(|i| inp.tg[*i].iter().any(|c| labs.contains(c))).collect();
            let o = &res.outs[0];
            if aligned(ctx, &class, "filtered", inp, o, &keep, &cols, &tcols, &id, KEEP_ALL) {
                let kept_t: Vec<Vec<usize>> = keep.iter().map(|i| inp.tg[*i].clone()).collect();
                ctx.require(o.counts == Some(recount(&kept_t, inp.t)), "label_counts", &class, || format!("label counts {:?} for kept targets {:?}", o.counts, kept_t));
            } else {
                ctx.fail("with_labels_filter", &class, format!("labels {:?}: kept rows are not exactly {:?}", labs, keep));
            }
        }
        Op::OneVsAll { .. } => {
            let distinct: Vec<usize> = inp.tg.iter().map(|r| r[0]).collect::<BTreeSet<_>>().into_iter().collect();
            ctx.require(res.labels == distinct, "one_vs_all_labels", &class, || format!("one view per distinct label: got labels {:?}, distinct labels {:?}", res.labels, distinct));
            for (l, o) in res.labels.iter().zip(res.outs.iter()) {
                let l = *l;
                aligned(ctx, &class, &format!("label {}", l), inp, o, &all, &cols, &tcols, &move |c| (c == l) as usize, KEEP_ALL);
                ctx.require(o.counts.is_some(), "label_counts", &class, || "one_vs_all view without label counts".to_string());
            }
        }
        Op::Map { tab, .. } => {
            aligned(ctx, &class, "mapped", inp, &res.outs[0], &all, &cols, &tcols, &|c| tab[c], KEEP_ALL);
        }
        Op::View => {
            aligned(ctx, &class, op.name(), inp, &res.outs[0], &all, &cols, &tcols, &id, KEEP_ALL);
        }
        Op::ToOwned { .. } => {
            aligned(ctx, &class, op.name(), inp, &res.outs[0], &all, &cols, &tcols, &id, KEEP_NONE);
        }
        // documented to panic unless there is exactly one target column; nothing is promised otherwise
        Op::IntoSingle if inp.t != 1 => {}
        Op::IntoSingle => {
            let o = &res.outs[0];
            aligned(ctx, &class, "single target", inp, o, &all, &cols, &tcols, &id, KEEP_NONE);
            ctx.require(o.ix1, "single_target_shape", &class, || "targets still two-dimensional".to_string());
        }
        Op::SampleIter { .. } => {
            let want: Vec<(Vec<u64>, Vec<usize>)> = inp.recs.iter().cloned().zip(inp.tg.iter().cloned()).collect();
            ctx.require(res.pairs.as_ref() == Some(&want), "sample_iter_pairs", &class, || format!("yielded {:?}, dataset rows {:?}", res.pairs, want));
        }
        Op::FeatureIter { .. } => {
            ctx.require(res.outs.len() == inp.p, "one_view_per_column", &class, || format!("{} views for {} features", res.outs.len(), inp.p));
            for (j, o) in res.outs.iter().enumerate() {
                aligned(ctx, &class, &format!("feature {}", j), inp, o, &all, &[j], &tcols, &id, Keep { w: true, f: false, t: true });
            }
        }
        Op::TargetIter { .. } => {
            ctx.require(res.outs.len() == inp.t, "one_view_per_column", &class, || format!("{} views for {} targets", res.outs.len(), inp.t));
            for (c, o) in res.outs.iter().enumerate() {
                aligned(ctx, &class, &format!("target {}", c), inp, o, &all, &cols, &[c], &id, KEEP_ALL);
            }
        }
        Op::Chunks { size, .. } => {
            // every full block, none skipped, none twice (a trailing partial block — not yielded today —
            // would be one more chunk of the same kind)
            let full = inp.n / size;
            ctx.require(res.outs.len() == full || (inp.n % size != 0 && res.outs.len() == full + 1), "chunk_count", &class, || format!("{} chunks of size {} from {} samples, want {}", res.outs.len(), size, inp.n, full));
            for (i, o) in res.outs.iter().enumerate() {
                let blk: Vec<usize> = (i * size..((i + 1) * size).min(inp.n.max(full * size))).collect();
                aligned(ctx, &class, &format!("chunk {}", i), inp, o, &blk, &cols, &tcols, &id, KEEP_NONE);
            }
        }
        Op::WeightFor { .. } => {
            // (positions past the last sample are not samples: what `weight_for` answers there is not part of the property)
            let want: Vec<u64> = (0..inp.n).map(|i| inp.w.get(i).copied().unwrap_or(1)).collect();
            ctx.require(res.wfor.as_ref() == Some(&want), "weight_for_sample", &class, || format!("weight_for(0..n) = {:?}, weights {:?}", res.wfor, inp.w));
        }
        Op::LabelFreq { mask, .. } => {
            // every sample that passes the mask adds *its own* weight (1 without weights) to each of its labels
            let mut m: BTreeMap<usize, u64> = BTreeMap::new();
            for i in 0..inp.n {
                if *mask.get(i).unwrap_or(&true) {
                    for c in &inp.tg[i] {
                        *m.entry(*c).or_insert(0) += inp.w.get(i).copied().unwrap_or(1);
                    }
                }
            }
            let want: Vec<(usize, u64)> = m.into_iter().collect();
            ctx.require(res.freqs.as_ref() == Some(&want), "label_freq_own_weight", &class, || format!("mask {:?}: frequencies {:?}, want {:?} (targets {:?}, weights {:?})", mask, res.freqs, want, inp.tg, inp.w));
        }
    }
}

fn boot_oracle(ctx: &mut Ctx, class: &str, inp: &Snap, o: &Snap, idx: &Option<Vec<usize>>, fidx: &Option<Vec<usize>>, ns: usize, nf: usize) {
    ctx.require(o.n == ns && o.p == nf, "bootstrap_size", class, || format!("{}x{} drawn, ({}, {}) requested", o.n, o.p, ns, nf));
    match (idx, fidx) {
        (Some(ix), Some(fx)) if ix.len() == o.n && fx.len() == o.p => {
            let tcols: Vec<usize> = (0..inp.t).collect();
            aligned(ctx, class, "bootstrap", inp, o, ix, fx, &tcols, &|c| c, KEEP_NONE);
        }
        _ => ctx.fail("bootstrap_mem", class, format!("drawn records {:?} are not rows/columns of {:?}", o.recs, inp.recs)),
    }
}

// ------------------------------------------------------------------ histories

#[derive(Clone, Debug)]
struct StepRec {
    op: Op,
    pick: usize,
    lay: Lay,
}

fn op_token(op: &Op, lay: Lay, std: bool, pick: usize, idx: &Option<Vec<usize>>, fidx: &Option<Vec<usize>>) -> String {
    let li = |v: &Option<Vec<usize>>| list(v.clone().unwrap_or_default().iter(), |x| x.to_string());
    let body = match op {
        Op::SplitV { r } => format!("r={}", hex32(*r)),
        Op::SplitO { r } => format!("r={}:std={}", hex32(*r), std as u8),
        Op::Shuffle { v, seed } => format!("v={}:seed={}:idx={}", *v as u8, seed, li(idx)),
        Op::Boot { v, ns, nf, seed, draw } => format!("v={}:seed={}:draw={}:ns={}:nf={}:idx={}:fidx={}", *v as u8, seed, draw, ns, nf, li(idx), li(fidx)),
        Op::BootS { v, ns, seed, draw } => format!("v={}:seed={}:draw={}:ns={}:idx={}", *v as u8, seed, draw, ns, li(idx)),
        Op::BootF { v, nf, seed, draw } => format!("v={}:seed={}:draw={}:nf={}:fidx={}", *v as u8, seed, draw, nf, li(fidx)),
        Op::WithLabels { v, labs } => format!("v={}:labs={}", *v as u8, list(labs.iter(), |x| x.to_string())),
        Op::OneVsAll { v } | Op::ToOwned { v } | Op::SampleIter { v } | Op::FeatureIter { v } | Op::TargetIter { v } | Op::WeightFor { v } => format!("v={}", *v as u8),
        Op::LabelFreq { v, mask } => format!("v={}:mask={}", *v as u8, list(mask.iter(), |x| (*x as u8).to_string())),
        Op::Map { v, lt2, tab } => format!("v={}:lt2={}:tab={}", *v as u8, lt2, list(tab.iter(), |x| x.to_string())),
        Op::View | Op::IntoSingle => "v=0".to_string(),
        Op::Chunks { v, size } => format!("v={}:size={}", *v as u8, size),
    };
    format!("{}:{}:lay={}:pick={}", op.name(), body, lay.show(), pick)
}

/// The statement demands weights / names only "whenever the result carries" them.  Operations that
/// today return bare records and targets (shuffle: no weights; bootstrap*, to_owned,
/// into_single_target, sample_chunks: no weights, no names; feature_iter: no feature name unless
/// there is exactly one feature) may start carrying them: what they carry has been checked by the
/// oracle against the step's input (`aligned`), and is then left out of the comparison with the
/// model and of the continuation (the next step rebuilds its dataset from this snapshot anyway).
/// Likewise a trailing partial chunk.  Returns whether anything was left out.
fn strip_optional(op: &Op, inp: &Snap, res: &mut Res) -> bool {
    let mut any = false;
    let (w, f, t) = match op {
        Op::Shuffle { .. } => (true, false, false),
        Op::Boot { .. } | Op::BootS { .. } | Op::BootF { .. } | Op::ToOwned { .. } | Op::IntoSingle | Op::Chunks { .. } => (true, true, true),
        Op::FeatureIter { .. } => (false, inp.fnames.len() != 1, false),
        _ => (false, false, false),
    };
    if let Op::Chunks { size, .. } = op {
        if *size > 0 && inp.n % size != 0 && res.outs.len() == inp.n / size + 1 {
            res.outs.pop();
            any = true;
        }
    }
    for o in res.outs.iter_mut() {
        if w && !o.w.is_empty() {
            o.w.clear();
            any = true;
        }
        if f && !o.fnames.is_empty() {
            o.fnames.clear();
            any = true;
        }
        if t && !o.tnames.is_empty() {
            o.tnames.clear();
            any = true;
        }
    }
    any
}

/// RNG choices of a step read back from its result
fn read_back(op: &Op, inp: &Snap, res: &Res) -> (Option<Vec<usize>>, Option<Vec<usize>>) {
    match op {
        Op::Shuffle { .. } => (read_rows(inp, &res.outs[0], true), None),
        Op::BootS { .. } => (read_rows(inp, &res.outs[0], false), None),
        Op::BootF { .. } => (None, read_cols(inp, &res.outs[0])),
        Op::Boot { .. } => (read_rows(inp, &res.outs[0], false), read_cols(inp, &res.outs[0])),
        _ => (None, None),
    }
}

fn update_truth(truth: &mut Truth, op: &Op, res: &Res, pick: usize) {
    match op {
        Op::Map { tab, .. } => truth.tg.iter_mut().for_each(|r| r.iter_mut().for_each(|c| *c = tab[*c])),
        Op::OneVsAll { .. } => {
            let l = res.labels[pick];
            truth.tg.iter_mut().for_each(|r| r.iter_mut().for_each(|c| *c = (*c == l) as usize));
        }
        Op::TargetIter { .. } => {
            // (an empty 0 x 0 target array converted by into_single_target has one column of no origin)
            truth.tg.iter_mut().for_each(|r| *r = r.get(pick).copied().into_iter().collect());
            truth.tcols = truth.tcols.get(pick).copied().into_iter().collect();
        }
        _ => {}
    }
}

struct Init {
    lt: char,
    snap: Snap,
}

/// `w`: 0 no weights, 1 one per sample, 2 one too many, 3 one too few
fn init_snap(n: usize, p: usize, t: usize, ix1: bool, w: usize, fnm: bool, tnm: bool, cnt: bool, y: &[Vec<usize>]) -> Snap {
    Snap {
        n,
        p,
        t,
        ix1,
        recs: (0..n).map(|i| (0..p).map(|j| (i * 8 + j) as u64).collect()).collect(),
        tg: y.to_vec(),
        w: (0..match w {
            0 => 0,
            1 => n,
            2 => n + 1,
            _ => n - 1,
        })
            .map(|i| 1000 + i as u64)
            .collect(),
        fnames: if fnm { (0..p).map(|j| format!("f{}", j)).collect() } else { vec![] },
        tnames: if tnm { (0..t).map(|c| format!("t{}", c)).collect() } else { vec![] },
        counts: if cnt { Some(recount(y, t)) } else { None },
    }
}

/// ops the Rust type system admits on the current dataset
fn gen_op(rng: &mut Rng, cur: &Snap, lt: char, em: &mut Em) -> Op {
    let v = rng.coin();
    let dom = dom_of(lt);
    let draw = if rng.chance(1, 2) { 0 } else { rng.below(4) };
    loop {
        let k = rng.below(19);
        let op = match k {
            0 | 1 => Op::SplitV { r: gen_ratio(rng, cur.n) },
            2 if cur.counts.is_none() => Op::SplitO { r: gen_ratio(rng, cur.n) },
            3 => Op::Shuffle { v, seed: rng.next() },
            4 => {
                let ns = if cur.n == 0 && rng.chance(3, 4) { 0 } else { rng.below(cur.n + 3) };
                let nf = if (cur.p == 0 && rng.chance(3, 4)) || rng.chance(1, 10) { 0 } else { 1 + rng.below(cur.p + 1) };
                Op::Boot { v, ns, nf, seed: rng.next(), draw }
            }
            5 => {
                let ns = if cur.n == 0 && rng.chance(3, 4) { 0 } else { rng.below(cur.n + 3) };
                Op::BootS { v, ns, seed: rng.next(), draw }
            }
            6 => {
                let nf = if cur.p == 0 && rng.chance(3, 4) { 0 } else { rng.below(cur.p + 2) };
                Op::BootF { v, nf, seed: rng.next(), draw }
            }
            7 | 8 => {
                let m = rng.below(4);
                let labs = (0..m).map(|_| rng.below(dom)).collect();
                Op::WithLabels { v, labs }
            }
            9 if cur.ix1 => Op::OneVsAll { v },
            10 | 11 => {
                let lt2 = *rng.pick(&['u', 'b', 's']);
                let d2 = dom_of(lt2);
                let tab = (0..dom).map(|_| rng.below(d2)).collect();
                Op::Map { v, lt2, tab }
            }
            12 => {
                if rng.coin() {
                    Op::View
                } else {
                    Op::ToOwned { v }
                }
            }
            13 if !cur.ix1 && cur.counts.is_none() && (cur.t == 1 || rng.chance(1, 6)) => Op::IntoSingle,
            14 => {
                if rng.chance(1, 3) {
                    Op::SampleIter { v }
                } else {
                    Op::FeatureIter { v }
                }
            }
            15 => Op::TargetIter { v },
            16 => Op::Chunks { v, size: if rng.chance(1, 12) { 0 } else { 1 + rng.below(cur.n.max(1) + 1) } },
            17 => Op::WeightFor { v },
            18 => {
                // masks shorter / longer than the dataset, and none at all (`label_frequencies()`)
                // one entry per sample, or none at all (`label_frequencies()`); what a mask of another length
                // means is not documented and not part of the property
                let m = if rng.chance(1, 4) { 0 } else { cur.n };
                Op::LabelFreq { v, mask: (0..m).map(|_| rng.chance(2, 3)).collect() }
            }
            _ => continue,
        };
        em.count(&format!("step:{}", op.name()));
        return op;
    }
}

/// half of the steps on plain C-contiguous arrays, the others on F-order / offset / strided /
/// reversed records and targets and on weights that are a slice of a larger allocation
fn gen_lay(rng: &mut Rng, ix1: bool) -> Lay {
    if rng.coin() {
        return LAY_C;
    }
    let r = rng.below(5) as u8;
    let t = if ix1 { *rng.pick(&[0u8, 2, 3, 4]) } else { rng.below(5) as u8 };
    let w = *rng.pick(&[0u8, 0, 2, 2, 3, 4, 5, 5]);
    Lay { r, t, w }
}

fn gen_ratio(rng: &mut Rng, n: usize) -> f32 {
    match rng.below(10) {
        0 => 0.0,
        1 => 1.0,
        2 => rng.below(17) as f32 / 16.0,
        3 => rng.below(11) as f32 / 10.0,
        4 => rng.below(8) as f32 / 7.0,
        // a ratio that hits a sample boundary exactly (k/n) or just misses it
        5 | 6 if n > 0 => {
            let x = rng.below(n + 1) as f32 / n as f32;
            match rng.below(3) {
                0 => f32::from_bits(x.to_bits().saturating_sub(1)),
                1 => f32::from_bits(x.to_bits() + 1),
                _ => x,
            }
        }
        7 if rng.chance(1, 4) => *rng.pick(&[1.5f32, -0.25, f32::NAN, 1.0000001]),
        _ => rng.unit() as f32,
    }
}

fn history(em: &mut Em, rng: &mut Rng, nmax: usize, maxlen: usize) {
    let lt = *rng.pick(&['u', 'b', 's']);
    let dom = dom_of(lt);
    let n = if rng.chance(1, 12) { rng.below(2) } else { 2 + rng.below(nmax - 1) };
    let p = if rng.chance(1, 15) { 0 } else { 1 + rng.below(4) };
    let ix1 = rng.coin();
    let t = if ix1 {
        1
    } else if rng.chance(1, 15) {
        0
    } else {
        1 + rng.below(3)
    };
    let (w, fnm, tnm, cnt) = (rng.chance(2, 3), rng.chance(2, 3), rng.chance(2, 3), rng.chance(1, 3));
    // one history in ten starts from a weight vector that is not one per sample (`with_weights` checks nothing)
    let w: usize = if w && n >= 2 && rng.chance(1, 7) { 2 + rng.below(2) } else { w as usize };
    // skewed labels so that some are absent and some frequent
    let hi = if rng.chance(1, 4) { 1 + rng.below(dom) } else { dom };
    let y: Vec<Vec<usize>> = (0..n).map(|_| (0..t).map(|_| rng.below(hi)).collect()).collect();
    let init = Init { lt, snap: init_snap(n, p, t, ix1, w, fnm, tnm, cnt, &y) };
    em.count(&format!("labels:{}", lt));
    em.count(if ix1 { "targets:ix1" } else { "targets:ix2" });
    em.count(if cnt { "targets:counted" } else { "targets:plain" });
    if w > 0 {
        em.count(&format!("init:weights{}", w));
    }
    if fnm {
        em.count("init:feature_names");
    }
    if tnm {
        em.count("init:target_names");
    }

    // generation pass: run the real code to learn what each step returns (shapes decide which
    // operations can follow, RNG-driven steps reveal their indices)
    let len = 1 + rng.below(maxlen);
    let mut steps: Vec<StepRec> = vec![];
    let mut toks: Vec<String> = vec![];
    let (mut cur, mut cur_lt) = (init.snap.clone(), lt);
    for _ in 0..len {
        let op = gen_op(rng, &cur, cur_lt, em);
        let lay = gen_lay(rng, cur.ix1);
        let wpar_in = cur.w.is_empty() || cur.w.len() == cur.n;
        if !wpar_in {
            em.count(&format!("nonparallel_weights:{}", op.name()));
        }
        let st = build_any(cur_lt, &cur, lay);
        let std = std_any(&st);
        em.count(&format!("lay:r{}", lay.r));
        em.count(&format!("lay:t{}", lay.t));
        if !cur.w.is_empty() {
            em.count(&format!("lay:w{}", lay.w));
            em.count(&format!("lay:w{}:{}", lay.w, op.name()));
        }
        if !promised(&op, &cur, std) {
            // outside the property's guard: recorded, not run, not compared
            em.count(&format!("step_unpromised:{}", op.name()));
            toks.push(op_token(&op, lay, std, 0, &None, &None));
            steps.push(StepRec { op, pick: 0, lay });
            break;
        }
        match exec_any(&st, &op) {
            None => {
                em.count(&format!("step_panic:{}", op.name()));
                toks.push(op_token(&op, lay, std, 0, &None, &None));
                steps.push(StepRec { op, pick: 0, lay });
                break;
            }
            Some(mut res) => {
                em.count(&format!("ok_step:{}", op.name()));
                em.count(&format!("ok_step:{}:r{}", op.name(), lay.r));
                if matches!(op, Op::Boot { .. } | Op::BootS { .. } | Op::BootF { .. }) {
                    em.count(&format!("ok_draw:{}", match &op { Op::Boot { draw, .. } | Op::BootS { draw, .. } | Op::BootF { draw, .. } => *draw, _ => 0 }));
                }
                let (idx, fidx) = read_back(&op, &cur, &res);
                if strip_optional(&op, &cur, &mut res) {
                    em.count(&format!("optional_metadata_carried:{}", op.name()));
                }
                let pick = if res.outs.is_empty() { 0 } else { rng.below(res.outs.len()) };
                // one_vs_all: the views are listed by label code here; the model yields them in the order the
                // labels first appear in the targets, and `pick=` counts in the model's order (the order in which
                // the implementation yields them is not compared)
                let mpick = match &op {
                    Op::OneVsAll { .. } if !res.outs.is_empty() => {
                        let mut seen: Vec<usize> = vec![];
                        for r in &cur.tg {
                            if !seen.contains(&r[0]) {
                                seen.push(r[0]);
                            }
                        }
                        seen.iter().position(|l| *l == res.labels[pick]).unwrap_or(0)
                    }
                    _ => pick,
                };
                toks.push(op_token(&op, lay, std, mpick, &idx, &fidx));
                steps.push(StepRec { op, pick, lay });
                if res.outs.is_empty() {
                    break;
                }
                cur = res.outs[pick].clone();
                cur_lt = res.lt;
                // a dataset whose containers are no longer parallel cannot be rebuilt
                let wf = (cur.w.is_empty() || cur.w.len() == cur.n || !wpar_in) && (cur.fnames.is_empty() || cur.fnames.len() == cur.p) && (cur.tnames.is_empty() || cur.tnames.len() == cur.t) && cur.tg.len() == cur.n;
                if !wf {
                    break;
                }
            }
        }
    }
    em.count(&format!("history_len:{}", steps.len()));
    let s0 = &init.snap;
    let req = format!(
        "seq n={} p={} t={} ix1={} lt={} w={} fn={} tn={} cnt={} y={} ops={}",
        n,
        p,
        t,
        ix1 as u8,
        lt,
        w,
        fnm as u8,
        tnm as u8,
        cnt as u8,
        list2(s0.tg.iter().map(|r| r.iter()), |x| x.to_string()),
        toks.join("/")
    );
    // the case proper: replay the recorded history on the real code, with the oracle
    em.case(req, |ctx| {
        let mut out = vec![format!("init:{}", show_snap(&init.snap))];
        let (mut cur, mut cur_lt) = (init.snap.clone(), init.lt);
        let mut truth = Truth { tg: init.snap.tg.clone(), tcols: (0..t).collect() };
        for s in &steps {
            let st = build_any(cur_lt, &cur, s.lay);
            let class = class_of(&s.op, &cur);
            let wpar_in = cur.w.is_empty() || cur.w.len() == cur.n;
            if !promised(&s.op, &cur, std_any(&st)) {
                // outside the guard nothing is promised and nothing is compared with the model; but a
                // dataset that *is* returned (instead of the documented panic) must still be aligned
                // (only the operations that cut or reshape: a zero chunk size or an empty bootstrap source
                // has no result to look at)
                let look = matches!(s.op, Op::SplitV { .. } | Op::SplitO { .. } | Op::IntoSingle);
                if let Some(res) = if look { exec_any(&st, &s.op) } else { None } {
                    let n1_ok = match &s.op {
                        Op::SplitV { r } | Op::SplitO { r } => ceil_ratio(cur.n, *r) <= cur.n,
                        _ => false,
                    };
                    if n1_ok {
                        oracle_step(ctx, &s.op, &cur, &res, &None, &None);
                    }
                    for o in &res.outs {
                        tags_ok(ctx, &class, s.op.name(), o, &truth);
                    }
                }
                out.push(format!("{}:unpromised", s.op.name()));
                break;
            }
            match exec_any(&st, &s.op) {
                None => {
                    // every step that is run lies inside the guard
                    ctx.fail("no_panic", &class, format!("{} (layout {}) panicked on {}", s.op.name(), s.lay.show(), show_snap(&cur)));
                    out.push(format!("{}:panic", s.op.name()));
                    break;
                }
                Some(mut res) => {
                    let (idx, fidx) = read_back(&s.op, &cur, &res);
                    oracle_step(ctx, &s.op, &cur, &res, &idx, &fidx);
                    // carried-although-optional metadata of the picked output is still checked against the
                    // original tags, then left out of the comparison
                    if ctx.fails.is_empty() {
                        if let Some(o) = res.outs.get(s.pick) {
                            let mut tr = truth.clone();
                            update_truth(&mut tr, &s.op, &res, s.pick);
                            tags_ok(ctx, &class, s.op.name(), o, &tr);
                        }
                    }
                    strip_optional(&s.op, &cur, &mut res);
                    let txt = match (&s.op, &res.pairs) {
                        (Op::SampleIter { .. }, Some(prs)) => {
                            if prs.is_empty() {
                                "-".to_string()
                            } else {
                                prs.iter().map(|(r, g)| format!("{}>{}", list(r.iter(), |x| x.to_string()), list(g.iter(), |x| x.to_string()))).collect::<Vec<_>>().join(";")
                            }
                        }
                        (Op::WeightFor { .. }, _) => list(res.wfor.clone().unwrap_or_default().iter(), |x| x.to_string()),
                        (Op::LabelFreq { .. }, _) => {
                            let fr = res.freqs.clone().unwrap_or_default();
                            if fr.is_empty() {
                                "-".to_string()
                            } else {
                                fr.iter().map(|(l, c)| format!("{}*{}", l, c)).collect::<Vec<_>>().join(",")
                            }
                        }
                        (Op::OneVsAll { .. }, _) => res.labels.iter().zip(res.outs.iter()).map(|(l, o)| format!("{}>{}", l, show_snap(o))).collect::<Vec<_>>().join("+"),
                        _ => res.outs.iter().map(show_snap).collect::<Vec<_>>().join("+"),
                    };
                    out.push(format!("{}:{}", s.op.name(), txt));
                    if res.outs.is_empty() {
                        break;
                    }
                    update_truth(&mut truth, &s.op, &res, s.pick);
                    cur = res.outs[s.pick].clone();
                    cur_lt = res.lt;
                    // cumulative check against the original tags: reported at the first step that breaks
                    // it, not again under the class of every later step
                    if ctx.fails.is_empty() {
                        tags_ok(ctx, &class, s.op.name(), &cur, &truth);
                    }
                    let wf = (cur.w.is_empty() || cur.w.len() == cur.n || !wpar_in) && (cur.fnames.is_empty() || cur.fnames.len() == cur.p) && (cur.tnames.is_empty() || cur.tnames.len() == cur.t) && cur.tg.len() == cur.n;
                    if !wf {
                        break;
                    }
                }
            }
        }
        format!("ok {}", out.join(" "))
    });
}

// ------------------------------------------------------------------ the ceil grid

fn ceil_case(em: &mut Em, base_r: &Array2<f64>, base_t: &Array1<usize>, n: usize, r: f32) {
    em.case(format!("ceil n={} r={}", n, hex32(r)), |ctx| {
        let want = ceil_ratio(n, r);
        let ds = DatasetView::new(base_r.slice(s![..n, ..]), base_t.slice(s![..n]));
        let got = catch_unwind(AssertUnwindSafe(|| {
            let (a, b) = ds.split_with_ratio(r);
            (a.nsamples(), b.nsamples())
        }));
        // a ratio outside [0, 1] (NaN included): nothing is promised, nothing compared (a hardening assert or
        // a clamp there is a legitimate rewrite)
        if !(r >= 0.0 && r <= 1.0) {
            return "unpromised".to_string();
        }
        match got {
            Ok((a, b)) => {
                ctx.require(a == want && a + b == n, "split_first_ceil", "ceil_grid", || format!("n={} ratio={:?} ({}): first part {} + {}, ceil of the single precision product is {}", n, r, hex32(r), a, b, want));
                format!("ok {}", a)
            }
            Err(_) => {
                if r >= 0.0 && r <= 1.0 {
                    ctx.fail("no_panic", "ceil_grid", format!("split_with_ratio panicked for n={} ratio={:?}", n, r));
                }
                "panic".to_string()
            }
        }
    });
}

/// the owned split evaluates its own copy of the expression
fn ceil_owned_case(em: &mut Em, n: usize, r: f32) {
    em.case(format!("ceilo n={} r={}", n, hex32(r)), |ctx| {
        let want = ceil_ratio(n, r);
        let ds = Dataset::new(Array2::<f64>::zeros((n, 1)), Array1::<usize>::zeros(n)).with_weights(Array1::<f32>::ones(n));
        let got = catch_unwind(AssertUnwindSafe(|| {
            let (a, b) = ds.split_with_ratio(r);
            (a.nsamples(), b.nsamples(), a.weights().map(|w| w.len()).unwrap_or(0), b.weights().map(|w| w.len()).unwrap_or(0))
        }));
        if !(r >= 0.0 && r <= 1.0) {
            return "unpromised".to_string();
        }
        match got {
            Ok((a, b, wa, wb)) => {
                ctx.require(a == want && a + b == n && wa == a && wb == b, "split_first_ceil", "ceil_grid_owned", || format!("n={} ratio={:?} ({}): parts {} + {} (weights {} + {}), ceil of the single precision product is {}", n, r, hex32(r), a, b, wa, wb, want));
                format!("ok {}", a)
            }
            Err(_) => {
                if r >= 0.0 && r <= 1.0 {
                    ctx.fail("no_panic", "ceil_grid_owned", format!("owned split_with_ratio panicked for n={} ratio={:?}", n, r));
                }
                "panic".to_string()
            }
        }
    });
}

fn ceil_grid(em: &mut Em, rng: &mut Rng) {
    let nmax = if em.thorough() { 2000 } else { 400 };
    let base_r = Array2::<f64>::zeros((nmax + 1, 1));
    let base_t = Array1::<usize>::zeros(nmax + 1);
    let mut ratios: Vec<f32> = vec![];
    for j in 0..=16 {
        ratios.push(j as f32 / 16.0);
    }
    for j in 0..=10 {
        ratios.push(j as f32 / 10.0);
    }
    for j in 0..=7 {
        ratios.push(j as f32 / 7.0);
    }
    let mut all: Vec<f32> = vec![];
    for r in ratios {
        all.push(r);
        if r > 0.0 {
            all.push(f32::from_bits(r.to_bits() - 1));
        }
        all.push(f32::from_bits(r.to_bits() + 1));
    }
    all.extend_from_slice(&[-0.5, f32::NAN, 1.25, f32::INFINITY, f32::NEG_INFINITY, -0.0]);
    // quick: every ratio for every third n (offset by the seed) + all n for the tenths; thorough: full grid
    let off = rng.below(3);
    for n in 0..=nmax {
        for (k, r) in all.iter().enumerate() {
            if em.thorough() || n % 3 == off || (n + k) % 7 == 0 {
                ceil_case(em, &base_r, &base_t, n, *r);
                ceil_owned_case(em, n, *r);
            }
        }
        // the boundary ratios k/n and their neighbours
        if n > 0 {
            for _ in 0..if em.thorough() { 6 } else { 2 } {
                let x = rng.below(n + 1) as f32 / n as f32;
                let r = match rng.below(3) {
                    0 => f32::from_bits(x.to_bits().saturating_sub(1)),
                    1 => f32::from_bits(x.to_bits() + 1),
                    _ => x,
                };
                ceil_case(em, &base_r, &base_t, n, r);
                ceil_owned_case(em, n, r);
            }
        }
    }
}

/// sample counts beyond 2^24, where `n as f32` itself rounds (zero-width records and unit targets
/// make such datasets free)
fn ceil_large(em: &mut Em, rng: &mut Rng) {
    let cnt = if em.thorough() { 4000 } else { 400 };
    for i in 0..cnt {
        let bits = 24 + rng.below(17);
        let n = match i % 4 {
            0 => (1usize << bits) + rng.below(5),
            1 => (1usize << bits) + (1usize << (bits - 24)) / 2 + rng.below(3),
            _ => (1usize << bits) + rng.below(1usize << bits),
        };
        let r = match rng.below(4) {
            0 => rng.below(17) as f32 / 16.0,
            1 => rng.below(11) as f32 / 10.0,
            2 => 1.0,
            _ => rng.unit() as f32,
        };
        em.case(format!("ceil n={} r={}", n, hex32(r)), |ctx| {
            let want = ceil_ratio_large(n, r);
            let recs = Array2::<f64>::zeros((n, 0));
            let tg = Array1::<()>::default(n);
            let ds = DatasetView::new(recs.view(), tg.view());
            let got = catch_unwind(AssertUnwindSafe(|| {
                let (a, b) = ds.split_with_ratio(r);
                (a.nsamples(), b.nsamples())
            }));
            match got {
                Ok((a, b)) => {
                    ctx.require(a == want && a + b == n, "split_first_ceil", "ceil_large", || format!("n={} ratio={:?}: first part {} + {}, want {}", n, r, a, b, want));
                    format!("ok {}", a)
                }
                // n as f32 may round up, so the ceiling of the single precision product can exceed n:
                // only then is there no such split
                Err(_) => {
                    if want <= n {
                        ctx.fail("no_panic", "ceil_large", format!("split_with_ratio panicked for n={} ratio={:?} although the split point {} is within the data", n, r, want));
                    }
                    "panic".to_string()
                }
            }
        });
    }
}

/// the owned split evaluates its own copy of the expression: sample counts just beyond 2^24 (zero-width
/// records and unit targets; the owned split walks the target buffer, so the counts stay below 2^25)
fn ceil_large_owned(em: &mut Em, rng: &mut Rng) {
    let cnt = if em.thorough() { 300 } else { 60 };
    for i in 0..cnt {
        let n = match i % 3 {
            0 => (1usize << 24) + 1 + rng.below(64),
            1 => (1usize << 24) + rng.below(1usize << 22),
            _ => (1usize << 24) + (1usize << 23) + rng.below(1usize << 23),
        };
        let r = match rng.below(4) {
            0 => rng.below(17) as f32 / 16.0,
            1 => rng.below(11) as f32 / 10.0,
            2 => 1.0,
            _ => rng.unit() as f32,
        };
        em.case(format!("ceilo n={} r={}", n, hex32(r)), |ctx| {
            let want = ceil_ratio_large(n, r);
            let ds = Dataset::new(Array2::<f64>::zeros((n, 0)), Array1::<()>::default(n));
            let got = catch_unwind(AssertUnwindSafe(|| {
                let (a, b) = ds.split_with_ratio(r);
                (a.nsamples(), b.nsamples())
            }));
            match got {
                Ok((a, b)) => {
                    ctx.require(a == want && a + b == n, "split_first_ceil", "ceil_large_owned", || format!("n={} ratio={:?}: first part {} + {}, want {}", n, r, a, b, want));
                    format!("ok {}", a)
                }
                Err(_) => {
                    if want <= n {
                        ctx.fail("no_panic", "ceil_large_owned", format!("owned split_with_ratio panicked for n={} ratio={:?} although the split point {} is within the data", n, r, want));
                    }
                    "panic".to_string()
                }
            }
        });
    }
}

pub fn run(em: &mut Em, rng: &mut Rng) {
    let (hist, nmax, maxlen) = if em.thorough() { (150000, 24, 12) } else { (30000, 12, 6) };
    for _ in 0..hist {
        history(em, rng, nmax, maxlen);
    }
    ceil_grid(em, rng);
    ceil_large(em, rng);
    ceil_large_owned(em, rng);
}
