//! C18 — PCA (`linfa_reduction::Pca`): fit / accessors / predict / inverse_transform.
//!
//! Correspondence: the Lean model receives the record matrix, the embedding size, the whitening
//! flag and what the external truncated SVD returned on the centred matrix (obtained through the
//! `verif_hooks_c18::truncated_svd_largest` hook — same solver, order and seed as `fit`), and
//! recomputes mean, sigma floor, whitening scale, explained variance (ratio), `predict` and
//! `inverse_transform` on a few query rows.
//!
//! Oracle: everything the statement says, recomputed from first principles against a dense
//! cyclic-Jacobi eigen-decomposition of the sample covariance written below.
use crate::util::*;
use linfa::traits::{Fit, Predict};
use linfa::DatasetBase;
use linfa_reduction::{Pca, ReductionError};
use ndarray::{Array1, Array2, Axis};

type Mat = Vec<Vec<f64>>;

// ---------------------------------------------------------------------------------------------
// dense helpers (naive, sequential)

fn to_arr(x: &Mat, p: usize) -> Array2<f64> {
    Array2::from_shape_fn((x.len(), p), |(i, j)| x[i][j])
}
fn from_arr(a: &Array2<f64>) -> Mat {
    a.rows().into_iter().map(|r| r.to_vec()).collect()
}
fn dot(a: &[f64], b: &[f64]) -> f64 {
    a.iter().zip(b).map(|(x, y)| x * y).sum()
}
fn col_mean(x: &Mat, p: usize) -> Vec<f64> {
    let n = x.len() as f64;
    (0..p).map(|j| x.iter().map(|r| r[j]).sum::<f64>() / n).collect()
}
fn centred(x: &Mat, m: &[f64]) -> Mat {
    x.iter().map(|r| r.iter().zip(m).map(|(a, b)| a - b).collect()).collect()
}
/// `Aᵀ A / d` for the rows of `a` (width `p`)
fn gram(a: &Mat, p: usize, d: f64) -> Mat {
    let mut c = vec![vec![0.0; p]; p];
    for r in a {
        for i in 0..p {
            for j in 0..p {
                c[i][j] += r[i] * r[j];
            }
        }
    }
    for i in 0..p {
        for j in 0..p {
            c[i][j] /= d;
        }
    }
    c
}
fn max_abs(a: &Mat) -> f64 {
    a.iter().flat_map(|r| r.iter()).fold(0.0f64, |m, x| m.max(x.abs()))
}

/// cyclic Jacobi for a symmetric matrix: eigenvalues (descending) and the matching eigenvectors
/// as rows
fn jacobi_eigh(c: &Mat) -> (Vec<f64>, Mat) {
    let p = c.len();
    let mut a = c.clone();
    let mut v = vec![vec![0.0; p]; p];
    for i in 0..p {
        v[i][i] = 1.0;
    }
    for _sweep in 0..100 {
        let mut off = 0.0;
        let mut diag = 0.0;
        for i in 0..p {
            diag += a[i][i] * a[i][i];
            for j in 0..p {
                if i != j {
                    off += a[i][j] * a[i][j];
                }
            }
        }
        if off <= 1e-32 * diag || off == 0.0 {
            break;
        }
        for i in 0..p {
            for j in (i + 1)..p {
                if a[i][j] == 0.0 {
                    continue;
                }
                let theta = (a[j][j] - a[i][i]) / (2.0 * a[i][j]);
                let t = theta.signum() / (theta.abs() + (theta * theta + 1.0).sqrt());
                let t = if theta == 0.0 { 1.0 } else { t };
                let cs = 1.0 / (t * t + 1.0).sqrt();
                let sn = t * cs;
                // A <- Jᵀ A J, V <- V J  (rotation in the (i, j) plane)
                for k in 0..p {
                    let aki = a[k][i];
                    let akj = a[k][j];
                    a[k][i] = cs * aki - sn * akj;
                    a[k][j] = sn * aki + cs * akj;
                }
                for k in 0..p {
                    let aik = a[i][k];
                    let ajk = a[j][k];
                    a[i][k] = cs * aik - sn * ajk;
                    a[j][k] = sn * aik + cs * ajk;
                }
                for k in 0..p {
                    let vki = v[k][i];
                    let vkj = v[k][j];
                    v[k][i] = cs * vki - sn * vkj;
                    v[k][j] = sn * vki + cs * vkj;
                }
            }
        }
    }
    let mut idx: Vec<usize> = (0..p).collect();
    idx.sort_by(|x, y| a[*y][*y].partial_cmp(&a[*x][*x]).unwrap());
    let vals = idx.iter().map(|i| a[*i][*i]).collect();
    let vecs = idx.iter().map(|i| (0..p).map(|k| v[k][*i]).collect()).collect();
    (vals, vecs)
}

// ---------------------------------------------------------------------------------------------
// generators

fn gauss(rng: &mut Rng) -> f64 {
    // sum of 12 uniforms - 6: close enough to normal, bounded, reproducible
    (0..12).map(|_| rng.unit()).sum::<f64>() - 6.0
}
/// random orthogonal p×p matrix as a product of Givens rotations
fn rand_orth(rng: &mut Rng, p: usize) -> Mat {
    let mut q = vec![vec![0.0; p]; p];
    for i in 0..p {
        q[i][i] = 1.0;
    }
    for _ in 0..(2 * p * p) {
        if p < 2 {
            break;
        }
        let i = rng.below(p);
        let mut j = rng.below(p - 1);
        if j >= i {
            j += 1;
        }
        let th = rng.unit() * std::f64::consts::TAU;
        let (s, c) = th.sin_cos();
        for r in 0..p {
            let a = q[r][i];
            let b = q[r][j];
            q[r][i] = c * a - s * b;
            q[r][j] = s * a + c * b;
        }
    }
    q
}
fn mat_mul(a: &Mat, b: &Mat) -> Mat {
    let m = b[0].len();
    a.iter().map(|r| (0..m).map(|j| r.iter().zip(b).map(|(x, br)| x * br[j]).sum()).collect()).collect()
}

const KINDS: [&str; 7] = ["lattice", "isotropic", "anisotropic", "lowrank_noise", "offset", "badly_scaled", "rank_deficient"];

fn gen_matrix(rng: &mut Rng, kind: &str, n: usize, p: usize) -> Mat {
    match kind {
        "lattice" => (0..n).map(|_| (0..p).map(|_| rng.range(-8, 8) as f64).collect()).collect(),
        "isotropic" => (0..n).map(|_| (0..p).map(|_| gauss(rng)).collect()).collect(),
        "anisotropic" => {
            // axis scales 1, 10^-s, 10^-2s …, s in (0.3, 1], then a random rotation
            let s = 0.3 + 0.7 * rng.unit();
            let sc: Vec<f64> = (0..p).map(|j| 10f64.powf(-s * j as f64)).collect();
            let q = rand_orth(rng, p);
            let g: Mat = (0..n).map(|_| (0..p).map(|j| gauss(rng) * sc[j]).collect()).collect();
            mat_mul(&g, &q)
        }
        "lowrank_noise" => {
            let r = 1 + rng.below(p.max(2) - 1).min(p - 1);
            let r = r.min(p);
            let noise = 10f64.powf(-(2.0 + 3.0 * rng.unit()));
            let b: Mat = (0..r).map(|_| (0..p).map(|_| gauss(rng)).collect()).collect();
            (0..n)
                .map(|_| {
                    let w: Vec<f64> = (0..r).map(|_| gauss(rng)).collect();
                    (0..p).map(|j| (0..r).map(|i| w[i] * b[i][j]).sum::<f64>() + noise * gauss(rng)).collect()
                })
                .collect()
        }
        "offset" => {
            let off: Vec<f64> = (0..p).map(|_| (rng.unit() - 0.5) * 2.0 * 10f64.powf(rng.range(0, 5) as f64)).collect();
            (0..n).map(|_| (0..p).map(|j| gauss(rng) + off[j]).collect()).collect()
        }
        "badly_scaled" => {
            let sc: Vec<f64> = (0..p).map(|_| 10f64.powf(rng.range(-2, 2) as f64)).collect();
            let off: Vec<f64> = (0..p).map(|_| if rng.coin() { 0.0 } else { rng.range(-50, 50) as f64 }).collect();
            (0..n).map(|_| (0..p).map(|j| (gauss(rng) + off[j]) * sc[j]).collect()).collect()
        }
        // exact linear dependence between columns (integers): outside "low-rank plus noise",
        // kept as a separate class — the SVD may return fewer than k components here
        _ => {
            let r = 1 + rng.below(p.max(2) - 1).min(p.saturating_sub(2));
            (0..n)
                .map(|_| {
                    let base: Vec<f64> = (0..r).map(|_| rng.range(-6, 6) as f64).collect();
                    (0..p).map(|j| if j < r { base[j] } else { base[j % r] * (1 + j / r) as f64 }).collect()
                })
                .collect()
        }
    }
}

// ---------------------------------------------------------------------------------------------

fn show_err(e: &ReductionError) -> String {
    match e {
        ReductionError::NotEnoughSamples => "err NotEnoughSamples".into(),
        ReductionError::EmbeddingTooSmall(k) => format!("err EmbeddingTooSmall({})", k),
        ReductionError::LinalgError(_) => "err Linalg".into(),
        other => format!("err Other({})", other),
    }
}
fn approx2(m: &Mat) -> String {
    list2(m.iter().map(|r| r.iter()), |x| format!("~{}", hex64c(*x)))
}
fn exact2(m: &Mat) -> String {
    list2(m.iter().map(|r| r.iter()), |x| hex64c(*x))
}

struct Fitted {
    mean: Vec<f64>,
    sigma: Vec<f64>,
    comp: Mat,
    ev: Vec<f64>,
    evr: Vec<f64>,
    model: Pca<f64>,
}
fn fit_pca(x: &Mat, p: usize, k: usize, w: bool) -> Result<Fitted, ReductionError> {
    let ds = DatasetBase::from(to_arr(x, p));
    let model = Pca::params(k).whiten(w).fit(&ds)?;
    Ok(Fitted {
        mean: model.mean().to_vec(),
        sigma: model.singular_values().to_vec(),
        comp: from_arr(model.components()),
        ev: model.explained_variance().to_vec(),
        evr: model.explained_variance_ratio().to_vec(),
        model,
    })
}
fn predict(m: &Pca<f64>, q: &Mat, p: usize) -> Mat {
    if q.is_empty() {
        return vec![];
    }
    from_arr(&m.predict(&to_arr(q, p)))
}
fn inverse(m: &Pca<f64>, z: &Mat) -> Mat {
    if z.is_empty() {
        return vec![];
    }
    let k = z[0].len();
    from_arr(&m.inverse_transform(to_arr(z, k)))
}

/// the statement's clauses on one training matrix, embedding size and whitening flag
fn oracle(ctx: &mut Ctx, kind: &str, x: &Mat, p: usize, k: usize, w: bool, f: &Fitted) {
    let n = x.len();
    let kp = regime(k, p);
    let class = format!("data={};{};whiten={}", kind, kp, w as u8);
    let m = col_mean(x, p);
    let xc = centred(x, &m);
    let c = gram(&xc, p, (n - 1) as f64);
    let (lam, _u) = jacobi_eigh(&c);
    let lmax = lam[0].max(0.0);
    if !(lmax > 0.0) {
        ctx.mark_trivial();
        return;
    }
    let scale = max_abs(&xc).max(f64::MIN_POSITIVE);
    let r = f.sigma.len();
    // The truncated SVD drops singular values with sigma_i^2 <= eps*1e6*sigma_max^2 (2.2e-10 relative
    // variance; linfa's test_explained_variance_cutoff pins that), so fewer than k components may
    // come back.  Required: never more than k, and every direction whose variance is clearly above
    // that cut-off (1e-9 of the largest) is present; `max_variance` below then bounds what the
    // dropped ones could have carried.
    let needed = lam.iter().take(k).filter(|l| **l > 1e-9 * lmax).count();
    ctx.require(r <= k && r >= needed, "component_count", &class, || format!("{} components for k={}; {} of the k leading eigenvalues are above 1e-9 of the largest: {:?}", r, k, needed, lam));
    ctx.require(f.comp.len() == r && f.comp.iter().all(|v| v.len() == p), "component_count", &class, || format!("components shape {}x? vs sigma {}", f.comp.len(), r));
    if f.comp.len() != r || r == 0 {
        return;
    }
    let finite = f.sigma.iter().all(|s| s.is_finite()) && f.comp.iter().flatten().all(|v| v.is_finite()) && f.mean.iter().all(|v| v.is_finite());
    ctx.require(finite, "finite", &class, || format!("non-finite sigma/components: sigma={:?}", f.sigma));
    if !finite {
        return;
    }
    // mean
    let dm = f.mean.iter().zip(&m).fold(0.0f64, |a, (x, y)| a.max((x - y).abs()));
    ctx.require(dm <= 1e-9 * (scale + max_abs(&vec![m.clone()])), "mean", &class, || format!("mean differs from the column mean by {:e}", dm));

    // unit directions: without whitening the rows themselves; with whitening the rows are the
    // directions times sqrt(n-1)/sigma_i, so divide that factor out again
    let cs = ((n - 1) as f64).sqrt();
    let dirs: Mat = if w { f.comp.iter().zip(&f.sigma).map(|(v, s)| v.iter().map(|a| a * s / cs).collect()).collect() } else { f.comp.clone() };

    // (1) orthonormal
    let mut worst = 0.0f64;
    for i in 0..r {
        for j in 0..r {
            let d = dot(&dirs[i], &dirs[j]) - if i == j { 1.0 } else { 0.0 };
            worst = worst.max(d.abs());
        }
    }
    let worst_orth = worst;
    ctx.require(worst <= 1e-7, "orthonormal", &class, || format!("max |V Vt - I| = {:e}", worst));
    // (2) order
    ctx.require(f.sigma.windows(2).all(|w| w[0] >= w[1]), "sigma_order", &class, || format!("singular values not non-increasing: {:?}", f.sigma));
    // (3) true variances: sigma_i^2/(n-1) is the i-th largest eigenvalue of the covariance
    let theta: Vec<f64> = f.sigma.iter().map(|s| s * s / (n - 1) as f64).collect();
    let tol_l = 1e-6 * lmax;
    for i in 0..r {
        let d = (theta[i] - lam[i].max(0.0)).abs();
        // singular values floored at 1e-8 are allowed to sit above a vanishing eigenvalue
        let floored = f.sigma[i] <= 1e-8;
        ctx.require(d <= tol_l || floored, "leading_eigenvalues", &class, || {
            format!("sigma[{}]^2/(n-1) = {:e} but eigenvalue #{} of the covariance is {:e} (largest {:e}); sigma={:?} eig={:?}", i, theta[i], i, lam[i], lmax, f.sigma, lam)
        });
    }
    // (4) eigen-certificate: C v_i = theta_i v_i
    let mut worst_res = 0.0f64;
    for i in 0..r {
        let cv: Vec<f64> = c.iter().map(|row| dot(row, &dirs[i])).collect();
        let res: f64 = cv.iter().zip(&dirs[i]).map(|(a, b)| (a - theta[i] * b).powi(2)).sum::<f64>().sqrt();
        worst_res = worst_res.max(res);
    }
    ctx.require(worst_res <= 1e-5 * lmax, "eigenvector_residual", &class, || format!("max |C v - theta v| = {:e} (largest eigenvalue {:e})", worst_res, lmax));

    // (5) projected training data
    let z = predict(&f.model, x, p);
    let zm = col_mean(&z, r);
    let zc = centred(&z, &zm);
    let cz = gram(&zc, r, (n - 1) as f64);
    if !w {
        let zscale = lmax.sqrt();
        ctx.require(zm.iter().all(|v| v.abs() <= 1e-7 * zscale.max(scale)), "projected_centred", &class, || format!("projected training data has mean {:?}", zm));
        let mut off = 0.0f64;
        for i in 0..r {
            for j in 0..r {
                if i != j {
                    off = off.max(cz[i][j].abs());
                }
            }
        }
        ctx.require(off <= 1e-6 * lmax, "uncorrelated", &class, || format!("max off-diagonal covariance of the projection {:e} (largest eigenvalue {:e})", off, lmax));
        // sample variances of the coordinates are the reported explained variances
        ctx.require(f.ev.len() == r, "explained_variance", &class, || format!("{} explained variances for {} components", f.ev.len(), r));
        for i in 0..r.min(f.ev.len()) {
            let d = (cz[i][i] - f.ev[i]).abs();
            ctx.require(d <= 1e-6 * lmax, "explained_variance", &format!("{};k{}", class, if r == 1 { "=1" } else { ">1" }), || {
                format!("coordinate {} of the projected training data has sample variance {:e}, explained_variance() reports {:e} (n={}, components={})", i, cz[i][i], f.ev[i], n, r)
            });
        }
        // no k-dimensional orthogonal projection retains more: Ky Fan bound = sum of the top-r eigenvalues
        let kept: f64 = (0..r).map(|i| cz[i][i]).sum();
        let best: f64 = (0..k).map(|i| lam[i].max(0.0)).sum();
        ctx.require(kept >= best - 1e-6 * lmax * r as f64, "max_variance", &class, || format!("retained variance {:e} < optimum {:e} (sum of the {} largest eigenvalues)", kept, best, k));
    } else {
        // whitened: identity covariance; the error of a covariance eigenvalue theta_i computed
        // through X^T X in f64 is ~ eps*lmax, hence eps*lmax/theta_i relative
        let lmin = (0..r).map(|i| lam[i]).fold(f64::INFINITY, f64::min);
        let floored = f.sigma.iter().any(|s| *s <= 1e-8);
        let tol = 1e-6 + 1e-12 * (lmax / lmin.max(f64::MIN_POSITIVE));
        let mut worst = 0.0f64;
        for i in 0..r {
            for j in 0..r {
                worst = worst.max((cz[i][j] - if i == j { 1.0 } else { 0.0 }).abs());
            }
        }
        if floored || !(tol < 1e-3) {
            ctx.mark_trivial();
        } else {
            ctx.require(worst <= tol, "whitened_identity", &class, || {
                let rel: Vec<f64> = (0..r)
                    .map(|i| {
                        let cv: Vec<f64> = c.iter().map(|row| dot(row, &dirs[i])).collect();
                        cv.iter().zip(&dirs[i]).map(|(a, b)| (a - theta[i] * b).powi(2)).sum::<f64>().sqrt() / theta[i]
                    })
                    .collect();
                format!("max |cov(projected) - I| = {:e} (tolerance {:e}); |C v_i - theta_i v_i|/theta_i = {:?}; sigma = {:?}; max |V Vt - I| = {:e}", worst, tol, rel, f.sigma, worst_orth)
            });
        }
    }

    // (6) inverse_transform ∘ transform = orthogonal projection onto span(dirs) about the mean
    let back = inverse(&f.model, &z);
    let mut worst_p = 0.0f64;
    let mut worst_id = 0.0f64;
    for (row, b) in xc.iter().zip(&back) {
        let coef: Vec<f64> = dirs.iter().map(|v| dot(row, v)).collect();
        for j in 0..p {
            let want = m[j] + (0..r).map(|i| coef[i] * dirs[i][j]).sum::<f64>();
            worst_p = worst_p.max((b[j] - want).abs());
            worst_id = worst_id.max((b[j] - (row[j] + m[j])).abs());
        }
    }
    let big = scale + max_abs(&vec![m.clone()]);
    ctx.require(worst_p <= 1e-7 * big, "inverse_is_projection", &class, || format!("inverse_transform(transform(x)) differs from mean + P(x-mean) by {:e} (data scale {:e})", worst_p, big));
    if r == p {
        ctx.require(worst_id <= 1e-6 * big, "inverse_identity_full", &class, || format!("all components kept but inverse_transform(transform(x)) differs from x by {:e}", worst_id));
    }

    // (7) ratios finite, non-negative, proportional to the explained variances
    ctx.require(f.evr.len() == f.ev.len(), "ratio", &class, || "ratio length".into());
    let okfin = f.evr.iter().all(|v| v.is_finite() && *v >= 0.0) && f.ev.iter().all(|v| v.is_finite() && *v >= 0.0);
    ctx.require(okfin, "ratio_finite_nonneg", &format!("{};k{}", class, if r == 1 { "=1" } else { ">1" }), || format!("explained_variance={:?} ratio={:?}", f.ev, f.evr));
    if okfin && f.evr.len() == f.ev.len() {
        let mut bad = 0.0f64;
        for i in 0..r {
            for j in 0..r {
                let a = f.evr[i] * f.ev[j];
                let b = f.evr[j] * f.ev[i];
                bad = bad.max((a - b).abs() / (a.abs() + b.abs()).max(f64::MIN_POSITIVE));
            }
        }
        ctx.require(bad <= 1e-12, "ratio_proportional", &class, || format!("ratios not proportional to the explained variances: ev={:?} ratio={:?}", f.ev, f.evr));
    }
}

/// LOBPCG's design envelope (scipy falls back to a dense solver below `5k`; linfa-linalg has that
/// guard commented out): all components / block too large for the dimension / supported
fn regime(k: usize, p: usize) -> &'static str {
    if k == p { "k=p" } else if p < 5 * k { "k<p<5k" } else { "5k<=p" }
}

fn op_fit(em: &mut Em, kind: &'static str, x: Mat, p: usize, k: usize, w: bool, q: Mat) {
    let n = x.len();
    let xa = to_arr(&x, p);
    // what the external solver returns on the centred matrix (None when fit rejects before it)
    let guard_rejects = n == 0 || p < k || k == 0;
    let svd = if guard_rejects {
        None
    } else {
        let mean = xa.mean_axis(Axis(0)).unwrap();
        let xc = &xa - &mean;
        // the solver may panic (it unwraps a partial_cmp); `fit` then panics the same way
        match std::panic::catch_unwind(std::panic::AssertUnwindSafe(|| linfa_reduction::verif_hooks_c18::truncated_svd_largest(xc, k))) {
            Ok(r) => Some(r),
            Err(_) => Some(Err("panic".to_string())),
        }
    };
    let svd_s = match &svd {
        None => "svd=none".to_string(),
        Some(Err(e)) if e == "panic" => "svd=panic".to_string(),
        Some(Err(_)) => "svd=err".to_string(),
        Some(Ok((s, vt))) => format!("svd=ok sv={} vt={}", list(s.iter(), |v| hex64c(*v)), exact2(&from_arr(vt))),
    };
    let op = format!("fit n={} p={} k={} w={} x={} {} q={}", n, p, k, w as u8, exact2(&x), svd_s, exact2(&q));
    em.count(&format!("kind:{}", kind));
    em.count(&format!("whiten:{}", w as u8));
    em.count(if guard_rejects { "stream:guard_error" } else { "stream:valid" });
    if !guard_rejects {
        em.count(if k == p { "k:full" } else if k == 1 { "k:one" } else { "k:mid" });
        em.count(&format!("regime:{}", regime(k, p)));
    }
    let covered = n > p && p >= 1 && k >= 1 && k <= p;
    let body = move |ctx: &mut Ctx| -> String {
        match fit_pca(&x, p, k, w) {
            Err(e) => {
                if covered {
                    ctx.fail("fit_succeeds", &format!("data={};{};whiten={}", kind, regime(k, p), w as u8), format!("fit returned {} on n={} p={} k={}", show_err(&e), n, p, k));
                } else if n > 0 && p >= k && k > 0 {
                    // n <= p: outside the quantifier, no promise either way
                } else {
                    // the statement: empty dataset or embedding size outside 1..p is an error
                }
                show_err(&e)
            }
            Ok(f) => {
                if n == 0 || k == 0 || k > p {
                    ctx.fail("error_on_bad_input", &format!("n={};k_vs_p={}", if n == 0 { "0" } else { "pos" }, if k == 0 { "zero" } else if k > p { "above" } else { "in" }), format!("fit succeeded on n={} p={} k={}", n, p, k));
                }
                if covered {
                    oracle(ctx, kind, &x, p, k, w, &f);
                }
                let z = predict(&f.model, &q, p);
                let inv = inverse(&f.model, &z);
                format!(
                    "ok mean={} sigma={} comp={} ev={} evr={} z={} inv={}",
                    list(f.mean.iter(), |v| hex64c(*v)),
                    list(f.sigma.iter(), |v| hex64c(*v)),
                    exact2(&f.comp),
                    list(f.ev.iter(), |v| hex64c(*v)),
                    list(f.evr.iter(), |v| format!("~{}", hex64c(*v))),
                    approx2(&z),
                    approx2(&inv)
                )
            }
        }
    };
    if covered {
        em.case_valid(op, &format!("data={};{};whiten={}", kind, regime(k, p), w as u8), body);
    } else {
        em.case(op, body);
    }
}

fn queries(rng: &mut Rng, x: &Mat, p: usize) -> Mat {
    let mut q: Mat = vec![];
    for _ in 0..2.min(x.len()) {
        q.push(x[rng.below(x.len())].clone());
    }
    // one new point on the lattice, one generic
    q.push((0..p).map(|_| rng.range(-4, 4) as f64).collect());
    q.push((0..p).map(|_| gauss(rng) * 3.0).collect());
    q
}

pub fn run(em: &mut Em, rng: &mut Rng) {
    let thorough = em.thorough();
    if std::env::var("VERIF_C18_PANICS").is_ok() {
        // debugging aid: show where the implementation panics
        std::panic::set_hook(Box::new(|i| eprintln!("{}", i)));
    }
    let (pmax, nextra, reps) = if thorough { (10usize, 120usize, 12usize) } else { (7usize, 30usize, 4usize) };

    // fixed witnesses first: the 6x3 matrix of DESIGN section 8 #13, all k, both flags
    let w63: Mat = vec![vec![2.0, 0.0, 1.0], vec![-1.0, 3.0, 0.0], vec![0.0, -2.0, 4.0], vec![5.0, 1.0, -3.0], vec![-4.0, -1.0, -1.0], vec![1.0, 2.0, 2.0]];
    for k in 1..=3 {
        for w in [false, true] {
            let q = vec![w63[0].clone(), vec![1.0, 1.0, 1.0]];
            op_fit(em, "lattice", w63.clone(), 3, k, w, q);
        }
    }

    // valid stream: every kind × p × all k × whitening
    for rep in 0..reps {
        for kind in KINDS {
            for p in 1..=pmax {
                if kind == "rank_deficient" && p < 2 {
                    continue;
                }
                // n > p: close to p, moderate, larger
                let n = match (rep + p) % 3 {
                    0 => p + 1 + rng.below(2),
                    1 => p + 2 + rng.below(nextra / 3 + 1),
                    _ => p + 1 + rng.below(nextra + 1),
                };
                let x = gen_matrix(rng, kind, n, p);
                let q = queries(rng, &x, p);
                for k in 1..=p {
                    for w in [false, true] {
                        op_fit(em, kind, x.clone(), p, k, w, q.clone());
                    }
                }
            }
        }
    }

    // wide stream: p >= 5k, the regime LOBPCG is meant for
    let wide: &[usize] = if thorough { &[5, 6, 8, 10, 12, 16, 20, 30, 40] } else { &[5, 6, 8, 10, 15, 20] };
    for rep in 0..(if thorough { 6 } else { 2 }) {
        for kind in KINDS {
            for &p in wide {
                let n = p + 1 + rng.below(if rep % 2 == 0 { 3 * p } else { nextra + 1 });
                let x = gen_matrix(rng, kind, n, p);
                let q = queries(rng, &x, p);
                for k in 1..=(p / 5) {
                    for w in [false, true] {
                        op_fit(em, kind, x.clone(), p, k, w, q.clone());
                    }
                }
            }
        }
    }

    // error stream: empty dataset, k = 0, k > p (also together), n <= p (outside the quantifier)
    let nerr = if thorough { 400 } else { 80 };
    for _ in 0..nerr {
        let p = 1 + rng.below(5);
        let which = rng.below(5);
        let (n, k) = match which {
            0 => (0, rng.below(p + 2)),
            1 => (1 + rng.below(8), 0),
            2 => (1 + rng.below(8), p + 1 + rng.below(3)),
            3 => (0, 0),
            _ => (1 + rng.below(p), 1 + rng.below(p)), // n <= p, valid k: not covered, correspondence only
        };
        let x: Mat = (0..n).map(|_| (0..p).map(|_| rng.range(-5, 5) as f64).collect()).collect();
        let q: Mat = vec![(0..p).map(|_| rng.range(-3, 3) as f64).collect()];
        em.count(match which { 0 | 3 => "err:n=0", 1 => "err:k=0", 2 => "err:k>p", _ => "uncovered:n<=p" });
        op_fit(em, "lattice", x, p, k, rng.coin(), q);
    }
}
