//! C18 — PCA (`linfa_reduction::Pca`): fit / accessors / predict / inverse_transform.
//!
//! Correspondence: the Lean model receives the record matrix, the embedding size, the whitening
//! flag and what the external truncated SVD returned on the centred matrix (obtained through the
//! `verif_hooks_c18::truncated_svd_largest` hook — same solver, order and seed as `fit`), and
//! recomputes mean, sigma floor, whitening scale, explained variance (ratio), `predict` and
//! `inverse_transform` on a few query rows.
//!
//! Oracle: everything the statement says, recomputed from first principles against a dense
//! cyclic-Jacobi eigen-decomposition of the sample covariance written below.
use crate::util::*;
use linfa::traits::{Fit, Predict, PredictInplace, Transformer};
use linfa::DatasetBase;
use linfa_reduction::{Pca, ReductionError};
use ndarray::{s, Array1, Array2, ArrayBase, ArrayView2, Axis, Data, Ix2, ShapeBuilder};
use std::cell::Cell;

type Mat = Vec<Vec<f64>>;

// ---------------------------------------------------------------------------------------------
// dense helpers (naive, sequential)

fn to_arr(x: &Mat, p: usize) -> Array2<f64> {
    Array2::from_shape_fn((x.len(), p), |(i, j)| x[i][j])
}
fn from_arr(a: &Array2<f64>) -> Mat {
    a.rows().into_iter().map(|r| r.to_vec()).collect()
}
fn dot(a: &[f64], b: &[f64]) -> f64 {
    a.iter().zip(b).map(|(x, y)| x * y).sum()
}
fn col_mean(x: &Mat, p: usize) -> Vec<f64> {
    let n = x.len() as f64;
    (0..p).map(|j| x.iter().map(|r| r[j]).sum::<f64>() / n).collect()
}
fn centred(x: &Mat, m: &[f64]) -> Mat {
    x.iter().map(|r| r.iter().zip(m).map(|(a, b)| a - b).collect()).collect()
}
/// `Aᵀ A / d` for the rows of `a` (width `p`)
fn gram(a: &Mat, p: usize, d: f64) -> Mat {
    let mut c = vec![vec![0.0; p]; p];
    for r in a {
        for i in 0..p {
            for j in 0..p {
                c[i][j] += r[i] * r[j];
            }
        }
    }
    for i in 0..p {
        for j in 0..p {
            c[i][j] /= d;
        }
    }
    c
}
/// order-sensitive 64-bit checksum of the bits of a matrix, row by row (FNV-style; the driver computes
/// the same over the model's `center X mean`): ties the argument of the solver parameter in the model
/// to the matrix the hook was evaluated on
fn checksum(a: &Array2<f64>) -> u64 {
    let mut h = 0xcbf29ce484222325u64;
    for row in a.rows() {
        h = h.wrapping_mul(31).wrapping_add(7);
        for v in row {
            h = (h ^ v.to_bits()).wrapping_mul(0x100000001b3);
        }
    }
    h
}
fn max_abs(a: &Mat) -> f64 {
    a.iter().flat_map(|r| r.iter()).fold(0.0f64, |m, x| m.max(x.abs()))
}

/// cyclic Jacobi for a symmetric matrix: eigenvalues (descending) and the matching eigenvectors
/// as rows
fn jacobi_eigh(c: &Mat) -> (Vec<f64>, Mat) {
    let p = c.len();
    let mut a = c.clone();
    let mut v = vec![vec![0.0; p]; p];
    for i in 0..p {
        v[i][i] = 1.0;
    }
    for _sweep in 0..100 {
        let mut off = 0.0;
        let mut diag = 0.0;
        for i in 0..p {
            diag += a[i][i] * a[i][i];
            for j in 0..p {
                if i != j {
                    off += a[i][j] * a[i][j];
                }
            }
        }
        if off <= 1e-32 * diag || off == 0.0 {
            break;
        }
        for i in 0..p {
            for j in (i + 1)..p {
                if a[i][j] == 0.0 {
                    continue;
                }
                let theta = (a[j][j] - a[i][i]) / (2.0 * a[i][j]);
                let t = theta.signum() / (theta.abs() + (theta * theta + 1.0).sqrt());
                let t = if theta == 0.0 { 1.0 } else { t };
                let cs = 1.0 / (t * t + 1.0).sqrt();
                let sn = t * cs;
                // A <- Jᵀ A J, V <- V J  (rotation in the (i, j) plane)
                for k in 0..p {
                    let aki = a[k][i];
                    let akj = a[k][j];
                    a[k][i] = cs * aki - sn * akj;
                    a[k][j] = sn * aki + cs * akj;
                }
                for k in 0..p {
                    let aik = a[i][k];
                    let ajk = a[j][k];
                    a[i][k] = cs * aik - sn * ajk;
                    a[j][k] = sn * aik + cs * ajk;
                }
                for k in 0..p {
                    let vki = v[k][i];
                    let vkj = v[k][j];
                    v[k][i] = cs * vki - sn * vkj;
                    v[k][j] = sn * vki + cs * vkj;
                }
            }
        }
    }
    let mut idx: Vec<usize> = (0..p).collect();
    idx.sort_by(|x, y| a[*y][*y].partial_cmp(&a[*x][*x]).unwrap());
    let vals = idx.iter().map(|i| a[*i][*i]).collect();
    let vecs = idx.iter().map(|i| (0..p).map(|k| v[k][*i]).collect()).collect();
    (vals, vecs)
}

// ---------------------------------------------------------------------------------------------
// generators

fn gauss(rng: &mut Rng) -> f64 {
    // sum of 12 uniforms - 6: close enough to normal, bounded, reproducible
    (0..12).map(|_| rng.unit()).sum::<f64>() - 6.0
}
/// random orthogonal p×p matrix as a product of Givens rotations
fn rand_orth(rng: &mut Rng, p: usize) -> Mat {
    let mut q = vec![vec![0.0; p]; p];
    for i in 0..p {
        q[i][i] = 1.0;
    }
    for _ in 0..(2 * p * p) {
        if p < 2 {
            break;
        }
        let i = rng.below(p);
        let mut j = rng.below(p - 1);
        if j >= i {
            j += 1;
        }
        let th = rng.unit() * std::f64::consts::TAU;
        let (s, c) = th.sin_cos();
        for r in 0..p {
            let a = q[r][i];
            let b = q[r][j];
            q[r][i] = c * a - s * b;
            q[r][j] = s * a + c * b;
        }
    }
    q
}
fn mat_mul(a: &Mat, b: &Mat) -> Mat {
    let m = b[0].len();
    a.iter().map(|r| (0..m).map(|j| r.iter().zip(b).map(|(x, br)| x * br[j]).sum()).collect()).collect()
}

const KINDS: [&str; 9] = ["lattice", "isotropic", "anisotropic", "lowrank_noise", "offset", "badly_scaled", "rank_deficient", "tied", "tiny_scale"];
const LAYOUTS: [&str; 4] = ["C", "F", "Cs", "Fs"];
const FORMS: [&str; 4] = ["plain", "targets", "weights", "view"];

fn gen_matrix(rng: &mut Rng, kind: &str, n: usize, p: usize) -> Mat {
    match kind {
        "lattice" => (0..n).map(|_| (0..p).map(|_| rng.range(-8, 8) as f64).collect()).collect(),
        "isotropic" => (0..n).map(|_| (0..p).map(|_| gauss(rng)).collect()).collect(),
        "anisotropic" => {
            // axis scales 1, 10^-s, 10^-2s …, s in (0.3, 1], then a random rotation
            let s = 0.3 + 0.7 * rng.unit();
            let sc: Vec<f64> = (0..p).map(|j| 10f64.powf(-s * j as f64)).collect();
            let q = rand_orth(rng, p);
            let g: Mat = (0..n).map(|_| (0..p).map(|j| gauss(rng) * sc[j]).collect()).collect();
            mat_mul(&g, &q)
        }
        "lowrank_noise" => {
            let r = 1 + rng.below(p.max(2) - 1).min(p - 1);
            let r = r.min(p);
            let noise = 10f64.powf(-(2.0 + 3.0 * rng.unit()));
            let b: Mat = (0..r).map(|_| (0..p).map(|_| gauss(rng)).collect()).collect();
            (0..n)
                .map(|_| {
                    let w: Vec<f64> = (0..r).map(|_| gauss(rng)).collect();
                    (0..p).map(|j| (0..r).map(|i| w[i] * b[i][j]).sum::<f64>() + noise * gauss(rng)).collect()
                })
                .collect()
        }
        "offset" => {
            let off: Vec<f64> = (0..p).map(|_| (rng.unit() - 0.5) * 2.0 * 10f64.powf(rng.range(0, 5) as f64)).collect();
            (0..n).map(|_| (0..p).map(|j| gauss(rng) + off[j]).collect()).collect()
        }
        "badly_scaled" => {
            let sc: Vec<f64> = (0..p).map(|_| 10f64.powf(rng.range(-2, 2) as f64)).collect();
            let off: Vec<f64> = (0..p).map(|_| if rng.coin() { 0.0 } else { rng.range(-50, 50) as f64 }).collect();
            (0..n).map(|_| (0..p).map(|j| (gauss(rng) + off[j]) * sc[j]).collect()).collect()
        }
        // exactly repeated eigenvalues: rows +-a_g e_j, every axis of a group equally often, so the
        // covariance is exactly diagonal with one value per group (1 to 3 groups)
        "tied" => {
            let groups = 1 + rng.below(3.min(p));
            let amp: Vec<f64> = (0..groups).map(|g| (1 << (2 * (groups - 1 - g))) as f64).collect();
            let reps = (n / (2 * p)).max(1);
            let mut rows: Mat = vec![];
            for _ in 0..reps {
                for j in 0..p {
                    for sgn in [1.0, -1.0] {
                        let mut r = vec![0.0; p];
                        r[j] = sgn * amp[j * groups / p];
                        rows.push(r);
                    }
                }
            }
            // n is only a hint for this kind (2p | rows); keep n > p
            rng.shuffle(&mut rows);
            rows
        }
        // data of scale 1e-4 .. 1e-10: singular values below the 1e-8 floor survive the solver's
        // relative cut-off, so the floor is what `fit` reports
        "tiny_scale" => {
            let sc = 10f64.powf(-(4.0 + 6.0 * rng.unit()));
            let s = 0.5 * rng.unit();
            let axis: Vec<f64> = (0..p).map(|j| sc * 10f64.powf(-s * j as f64)).collect();
            let q = rand_orth(rng, p);
            let g: Mat = (0..n).map(|_| (0..p).map(|j| gauss(rng) * axis[j]).collect()).collect();
            mat_mul(&g, &q)
        }
        // data of scale 1e6 .. 1e9 (column standard deviations up to 1e9): the whitened rows have squared
        // norm (n-1)/sigma^2 far below f64::EPSILON, the covariance entries reach 1e18
        "huge_scale" => {
            let sc = 10f64.powf(6.0 + 3.0 * rng.unit());
            let s = 0.5 * rng.unit();
            let axis: Vec<f64> = (0..p).map(|j| sc * 10f64.powf(-s * j as f64)).collect();
            let q = rand_orth(rng, p);
            let g: Mat = (0..n).map(|_| (0..p).map(|j| gauss(rng) * axis[j]).collect()).collect();
            mat_mul(&g, &q)
        }
        // exact linear dependence between columns (integers): outside "low-rank plus noise",
        // kept as a separate class — the SVD may return fewer than k components here
        _ => {
            let r = 1 + rng.below(p.max(2) - 1).min(p.saturating_sub(2));
            (0..n)
                .map(|_| {
                    let base: Vec<f64> = (0..r).map(|_| rng.range(-6, 6) as f64).collect();
                    (0..p).map(|j| if j < r { base[j] } else { base[j % r] * (1 + j / r) as f64 }).collect()
                })
                .collect()
        }
    }
}

// ---------------------------------------------------------------------------------------------

fn show_err(e: &ReductionError) -> String {
    match e {
        // the statement promises an error, not which one: both guard errors are one token
        ReductionError::NotEnoughSamples => "err Guard".into(),
        ReductionError::EmbeddingTooSmall(_) => "err Guard".into(),
        ReductionError::LinalgError(_) => "err Linalg".into(),
        other => format!("err Other({})", other),
    }
}
fn approx2(m: &Mat) -> String {
    list2(m.iter().map(|r| r.iter()), |x| format!("~{}", hex64c(*x)))
}
fn exact2(m: &Mat) -> String {
    list2(m.iter().map(|r| r.iter()), |x| hex64c(*x))
}

/// the record matrix in one of the four memory layouts: backing storage + the (possibly strided)
/// view the implementation is given
struct Laid {
    store: Array2<f64>,
    lay: &'static str,
}
impl Laid {
    fn new(x: &Mat, p: usize, lay: &'static str) -> Laid {
        let n = x.len();
        let store = match lay {
            "C" => Array2::from_shape_fn((n, p), |(i, j)| x[i][j]),
            "F" => Array2::from_shape_fn((n, p).f(), |(i, j)| x[i][j]),
            // every second column of a C-order n x 2p allocation (the others hold junk)
            "Cs" => Array2::from_shape_fn((n, 2 * p), |(i, j)| if j % 2 == 0 { x[i][j / 2] } else { 1e9 + j as f64 }),
            // every second row of an F-order 2n x p allocation
            _ => Array2::from_shape_fn((2 * n, p).f(), |(i, j)| if i % 2 == 0 { x[i / 2][j] } else { -1e9 - i as f64 }),
        };
        Laid { store, lay }
    }
    fn view(&self) -> ArrayView2<'_, f64> {
        match self.lay {
            "C" | "F" => self.store.view(),
            "Cs" => self.store.slice(s![.., ..;2]),
            _ => self.store.slice(s![..;2, ..]),
        }
    }
}

struct Fitted {
    mean: Vec<f64>,
    sigma: Vec<f64>,
    comp: Mat,
    ev: Vec<f64>,
    evr: Vec<f64>,
    model: Pca<f64>,
}
fn fit_any<D: Data<Elem = f64>>(rec: ArrayBase<D, Ix2>, form: &str, k: usize, w: bool) -> Result<Pca<f64>, ReductionError> {
    let n = rec.nrows();
    let params = Pca::params(k).whiten(w);
    match form {
        "targets" => params.fit(&DatasetBase::new(rec, Array1::from_shape_fn(n, |i| i % 3))),
        "weights" => params.fit(&DatasetBase::new(rec, Array2::from_shape_fn((n, 2), |(i, j)| (i * 2 + j) as f64)).with_weights(Array1::from_shape_fn(n, |i| (1 + i % 4) as f32))),
        _ => params.fit(&DatasetBase::from(rec)),
    }
}
/// `fit` through the calling form: owned array for plain / targets / weights on a contiguous
/// layout, a view for `form = view` and for the strided layouts
fn fit_pca(x: &Mat, p: usize, k: usize, w: bool, lay: &'static str, form: &str) -> Result<Fitted, ReductionError> {
    let laid = Laid::new(x, p, lay);
    let model = if form == "view" || lay == "Cs" || lay == "Fs" { fit_any(laid.view(), form, k, w)? } else { fit_any(laid.store, form, k, w)? };
    Ok(Fitted {
        mean: model.mean().to_vec(),
        sigma: model.singular_values().to_vec(),
        comp: from_arr(model.components()),
        ev: model.explained_variance().to_vec(),
        evr: model.explained_variance_ratio().to_vec(),
        model,
    })
}
fn predict(m: &Pca<f64>, q: &Mat, p: usize) -> Mat {
    if q.is_empty() {
        return vec![];
    }
    from_arr(&m.predict(&to_arr(q, p)))
}
fn inverse(m: &Pca<f64>, z: &Mat) -> Mat {
    if z.is_empty() {
        return vec![];
    }
    let k = z[0].len();
    from_arr(&m.inverse_transform(to_arr(z, k)))
}
fn same_bits(a: &Mat, b: &Mat) -> bool {
    a.len() == b.len() && a.iter().zip(b).all(|(r, s)| r.len() == s.len() && r.iter().zip(s).all(|(x, y)| x.to_bits() == y.to_bits()))
}

/// every calling form of the projection on the training records in their layout: all of them are
/// `predict_inplace` underneath and must give the same numbers; targets / weights travel as the
/// form promises
fn calling_forms(ctx: &mut Ctx, f: &Fitted, x: &Mat, p: usize, lay: &'static str, zref: &Mat, scale: f64) {
    let n = x.len();
    let laid = Laid::new(x, p, lay);
    let class = |form: &str| format!("form={};lay={}", form, lay);
    let tg = Array1::from_shape_fn(n, |i| (7 * i + 1) % 5);
    let wt = Array1::from_shape_fn(n, |i| (1 + i % 3) as f32);
    // predict(&records) on the laid-out view: the reference for the other forms
    let zl = from_arr(&f.model.predict(&laid.view()));
    let d = zl.iter().zip(zref).flat_map(|(a, b)| a.iter().zip(b).map(|(x, y)| (x - y).abs())).fold(0.0f64, f64::max);
    let zmax = max_abs(zref).max(f64::MIN_POSITIVE);
    ctx.require(zl.len() == n && d <= 1e-9 * zmax.max(scale * max_abs(&f.comp)), "calling_form", &class("predict_view"), || format!("predict(&view in layout {}) differs from predict(&C-order array) by {:e}", lay, d));
    // Transformer::transform(dataset with targets and weights)
    let ds = DatasetBase::new(laid.view(), tg.clone()).with_weights(wt.clone());
    let out = f.model.transform(ds);
    let ok = same_bits(&from_arr(out.records()), &zl) && out.targets() == &tg && out.weights().map(|w| w.to_vec()) == Some(wt.to_vec());
    ctx.require(ok, "calling_form", &class("transform_dataset"), || format!("transform(dataset): records equal predict: {}, targets kept: {}, weights {:?} (expected {:?})", same_bits(&from_arr(out.records()), &zl), out.targets() == &tg, out.weights().map(|w| w.len()), wt.len()));
    // transform(dataset without weights, unit targets)
    let out = f.model.transform(DatasetBase::from(laid.view()));
    let okp = same_bits(&from_arr(out.records()), &zl) && out.weights().map(|w| w.len()).unwrap_or(0) == 0;
    ctx.require(okp, "calling_form", &class("transform_plain"), || format!("transform(DatasetBase::from(records)): records equal predict(&records): {}, weights {:?}", same_bits(&from_arr(out.records()), &zl), out.weights().map(|w| w.len())));
    // predict(&dataset), predict(dataset), predict(records by value)
    let ds = DatasetBase::new(laid.view(), tg.clone()).with_weights(wt.clone());
    let z1: Array2<f64> = f.model.predict(&ds);
    ctx.require(same_bits(&from_arr(&z1), &zl), "calling_form", &class("predict_ref_dataset"), || "predict(&dataset) differs from predict(&records)".into());
    let out = f.model.predict(ds);
    ctx.require(same_bits(&from_arr(out.targets()), &zl) && same_bits(&from_arr(&out.records().to_owned()), x), "calling_form", &class("predict_dataset"), || "predict(dataset): targets differ from predict(&records) or the records were changed".into());
    let out = f.model.predict(laid.view());
    ctx.require(same_bits(&from_arr(out.targets()), &zl) && same_bits(&from_arr(&out.records().to_owned()), x), "calling_form", &class("predict_records"), || "predict(records): targets differ from predict(&records) or the records were changed".into());
    // predict_inplace overwrites a pre-filled buffer of the right shape
    let mut buf = Array2::from_elem((n, f.comp.len()), f64::NAN);
    f.model.predict_inplace(&laid.view(), &mut buf);
    ctx.require(same_bits(&from_arr(&buf), &zl), "calling_form", &class("predict_inplace"), || "predict_inplace into a pre-filled buffer differs from predict(&records)".into());
}

/// what the oracle found, for the coverage counters
#[derive(Default, Clone, Copy)]
struct Seen {
    fitted: bool,
    spectral_ok: bool,
    whitened_checked: bool,
    floored: bool,
    wide_spread: bool,
}

/// the statement's clauses on one training matrix, embedding size and whitening flag
fn oracle(ctx: &mut Ctx, kind: &str, x: &Mat, p: usize, k: usize, w: bool, lay: &'static str, f: &Fitted) -> Seen {
    let mut seen = Seen { fitted: true, ..Default::default() };
    let n = x.len();
    let kp = regime(k, p);
    let dense = kp != "5k<=p";
    let fails0 = ctx.fails.len();
    let m = col_mean(x, p);
    let xc = centred(x, &m);
    let c = gram(&xc, p, (n - 1) as f64);
    let (lam, _u) = jacobi_eigh(&c);
    let lmax = lam[0].max(0.0);
    if !(lmax > 0.0) {
        ctx.mark_trivial();
        return seen;
    }
    // dense regimes: the class says whether the spectrum of the covariance is spread over more than five
    // orders of magnitude (smallest eigenvalue below 1e-5 of the largest — the thorough tier has a 54x7
    // low-rank+noise matrix failing at 2.7e-6; the dense solver decomposes the whole matrix whatever k) — the open finding about linfa-linalg's dense `eigh` concerns only
    // those fits, every other fit of the same kind is strict
    let wide_spread = dense && !(lam[p - 1] >= 1e-5 * lmax);
    seen.wide_spread = wide_spread;
    let class = format!("data={};{};whiten={}{}", kind, kp, w as u8, if wide_spread { ";spread=wide" } else { "" });
    let scale = max_abs(&xc).max(f64::MIN_POSITIVE);
    let r = f.sigma.len();
    // The truncated SVD drops singular values with sigma_i^2 <= eps*1e6*sigma_max^2 (2.2e-10 relative
    // variance; linfa's test_explained_variance_cutoff pins that), so fewer than k components may
    // come back.  Required: never more than k, and every direction whose variance is clearly above
    // that cut-off (1e-9 of the largest) is present; `max_variance` below then bounds what the
    // dropped ones could have carried.
    let needed = lam.iter().take(k).filter(|l| **l > 1e-9 * lmax).count();
    ctx.require(r <= k && r >= needed, "component_count", &class, || format!("{} components for k={}; {} of the k leading eigenvalues are above 1e-9 of the largest: {:?}", r, k, needed, lam));
    ctx.require(f.comp.len() == r && f.comp.iter().all(|v| v.len() == p), "component_count", &class, || format!("components shape {}x? vs sigma {}", f.comp.len(), r));
    if f.comp.len() != r || r == 0 {
        return seen;
    }
    let finite = f.sigma.iter().all(|s| s.is_finite()) && f.comp.iter().flatten().all(|v| v.is_finite()) && f.mean.iter().all(|v| v.is_finite());
    ctx.require(finite, "finite", &class, || format!("non-finite sigma/components: sigma={:?}", f.sigma));
    if !finite {
        return seen;
    }
    // mean
    let dm = f.mean.iter().zip(&m).fold(0.0f64, |a, (x, y)| a.max((x - y).abs()));
    ctx.require(dm <= 1e-9 * (scale + max_abs(&vec![m.clone()])), "mean", &class, || format!("mean differs from the column mean by {:e}", dm));

    // unit directions: without whitening the rows themselves; with whitening the rows are the
    // directions times sqrt(n-1)/sigma_i, so divide that factor out again
    let cs = ((n - 1) as f64).sqrt();
    let dirs: Mat = if w { f.comp.iter().zip(&f.sigma).map(|(v, s)| v.iter().map(|a| a * s / cs).collect()).collect() } else { f.comp.clone() };
    // a singular value on the 1e-8 floor is not the data's: the clauses that read sigma_i skip it
    let floored: Vec<bool> = f.sigma.iter().map(|s| *s <= 1e-8).collect();
    let any_floored = floored.iter().any(|b| *b);
    seen.floored = any_floored;

    // (1) orthonormal
    let mut worst = 0.0f64;
    for i in 0..r {
        for j in 0..r {
            let d = dot(&dirs[i], &dirs[j]) - if i == j { 1.0 } else { 0.0 };
            worst = worst.max(d.abs());
        }
    }
    let worst_orth = worst;
    ctx.require(worst <= 1e-7, "orthonormal", &class, || format!("max |V Vt - I| = {:e}", worst));
    // (2) order
    ctx.require(f.sigma.windows(2).all(|w| w[0] >= w[1]), "sigma_order", &class, || format!("singular values not non-increasing: {:?}", f.sigma));
    // (3) true variances: sigma_i^2/(n-1) is the i-th largest eigenvalue of the covariance
    let theta: Vec<f64> = f.sigma.iter().map(|s| s * s / (n - 1) as f64).collect();
    let tol_l = 1e-6 * lmax;
    for i in 0..r {
        let d = (theta[i] - lam[i].max(0.0)).abs();
        ctx.require(d <= tol_l || floored[i], "leading_eigenvalues", &class, || {
            format!("sigma[{}]^2/(n-1) = {:e} but eigenvalue #{} of the covariance is {:e} (largest {:e}); sigma={:?} eig={:?}", i, theta[i], i, lam[i], lmax, f.sigma, lam)
        });
    }
    // (4) eigen-certificate: C v_i = theta_i v_i
    let resid: Vec<f64> = (0..r)
        .map(|i| {
            let cv: Vec<f64> = c.iter().map(|row| dot(row, &dirs[i])).collect();
            cv.iter().zip(&dirs[i]).map(|(a, b)| (a - theta[i] * b).powi(2)).sum::<f64>().sqrt()
        })
        .collect();
    let worst_res = (0..r).filter(|i| !floored[*i]).map(|i| resid[i]).fold(0.0f64, f64::max);
    ctx.require(worst_res <= 1e-5 * lmax, "eigenvector_residual", &class, || format!("max |C v - theta v| = {:e} (largest eigenvalue {:e})", worst_res, lmax));
    // (4') every component for itself, relative to its OWN variance: the reported variance is an
    // eigenvalue of the covariance (|theta_i - nearest eigenvalue| small against theta_i) and the
    // direction is an eigenvector for it (residual small against theta_i).  The absolute part
    // 1e-12*lmax is the accuracy of an eigenvalue of X^T X formed in f64 (about p*eps*lmax); only
    // the dense regimes are held to it (LOBPCG stops at its own tolerance, clause (4) covers it).
    if dense {
        for i in 0..r {
            if floored[i] {
                continue;
            }
            let near = lam.iter().map(|l| (l - theta[i]).abs()).fold(f64::INFINITY, f64::min);
            let tol = 1e-6 * theta[i] + 1e-12 * lmax;
            ctx.require(near <= tol && (theta[i] - lam[i].max(0.0)).abs() <= tol, "component_variance_relative", &class, || {
                format!("component {}: sigma^2/(n-1) = {:e}, eigenvalue #{} = {:e}, nearest eigenvalue at distance {:e} (tolerance {:e}); eig={:?}", i, theta[i], i, lam[i], near, tol, lam)
            });
            let tol_r = 1e-5 * theta[i] + 1e-11 * lmax;
            ctx.require(resid[i] <= tol_r, "component_residual_relative", &class, || format!("component {}: |C v - theta v| = {:e} with theta = {:e} (tolerance {:e}, largest eigenvalue {:e})", i, resid[i], theta[i], tol_r, lmax));
        }
    }

    // (5) projected training data; with whitening the coordinates are divided by the whitening
    // factor sqrt(n-1)/sigma_i again, so the un-whitened clauses are evaluated for both settings
    let z = predict(&f.model, x, p);
    let zu: Mat = if w { z.iter().map(|row| row.iter().zip(&f.sigma).map(|(a, s)| a * s / cs).collect()).collect() } else { z.clone() };
    let zm = col_mean(&zu, r);
    let zc = centred(&zu, &zm);
    let cz = gram(&zc, r, (n - 1) as f64);
    {
        let zscale = lmax.sqrt();
        ctx.require(zm.iter().all(|v| v.abs() <= 1e-7 * zscale.max(scale)), "projected_centred", &class, || format!("projected training data has mean {:?}", zm));
        let mut off = 0.0f64;
        for i in 0..r {
            for j in 0..r {
                if i != j {
                    off = off.max(cz[i][j].abs());
                }
            }
        }
        ctx.require(off <= 1e-6 * lmax, "uncorrelated", &class, || format!("max off-diagonal covariance of the projection {:e} (largest eigenvalue {:e})", off, lmax));
        // sample variances of the coordinates are the reported explained variances
        ctx.require(f.ev.len() == r, "explained_variance", &class, || format!("{} explained variances for {} components", f.ev.len(), r));
        for i in 0..r.min(f.ev.len()) {
            if floored[i] {
                continue;
            }
            let d = (cz[i][i] - f.ev[i]).abs();
            // relative to the coordinate's own variance in the dense regimes (see (4'))
            let tol = if dense { 1e-6 * f.ev[i].abs() + 1e-12 * lmax } else { 1e-6 * lmax };
            ctx.require(d <= tol, "explained_variance", &format!("{};k{}", class, if r == 1 { "=1" } else { ">1" }), || {
                format!("coordinate {} of the projected training data has sample variance {:e}, explained_variance() reports {:e} (n={}, components={}, tolerance {:e})", i, cz[i][i], f.ev[i], n, r, tol)
            });
        }
        // no k-dimensional orthogonal projection retains more: Ky Fan bound = sum of the top-k eigenvalues
        let kept: f64 = (0..r).map(|i| cz[i][i]).sum();
        let best: f64 = (0..k).map(|i| lam[i].max(0.0)).sum();
        let slack = if dense { 1e-9 * lmax * k as f64 } else { 1e-6 * lmax * k as f64 };
        ctx.require(kept >= best - slack, "max_variance", &class, || format!("retained variance {:e} < optimum {:e} (sum of the {} largest eigenvalues) by {:e}", kept, best, k, best - kept));
    }
    if w {
        // whitened: identity covariance; the error of a covariance eigenvalue theta_i computed
        // through X^T X in f64 is ~ eps*lmax, hence eps*lmax/theta_i relative.  Components below
        // 2.2e-10*lmax are dropped by the solver, so the tolerance never exceeds 5e-3 and the
        // clause is evaluated for every spectrum (skipped only when a sigma sits on the floor).
        let zmw = col_mean(&z, r);
        let czw = gram(&centred(&z, &zmw), r, (n - 1) as f64);
        let lmin = (0..r).filter(|i| !floored[*i]).map(|i| lam[i]).fold(f64::INFINITY, f64::min);
        let tol = (1e-6 + 1e-12 * (lmax / lmin.max(f64::MIN_POSITIVE))).min(1e-2);
        // components on the floor are scaled by sqrt(n-1)/1e-8, not by their own sigma: the clause is
        // evaluated on the block of the other components (skipped only when every component is floored)
        let mut worst = 0.0f64;
        for i in 0..r {
            for j in 0..r {
                if !floored[i] && !floored[j] {
                    worst = worst.max((czw[i][j] - if i == j { 1.0 } else { 0.0 }).abs());
                }
            }
        }
        if floored.iter().all(|b| *b) {
            ctx.mark_trivial();
        } else {
            seen.whitened_checked = true;
            ctx.require(worst <= tol, "whitened_identity", &class, || {
                let rel: Vec<f64> = (0..r).map(|i| resid[i] / theta[i]).collect();
                format!("max |cov(projected) - I| = {:e} (tolerance {:e}); |C v_i - theta_i v_i|/theta_i = {:?}; sigma = {:?}; max |V Vt - I| = {:e}", worst, tol, rel, f.sigma, worst_orth)
            });
        }
    }

    // (6) inverse_transform ∘ transform = orthogonal projection onto span(dirs) about the mean
    let back = inverse(&f.model, &z);
    let mut worst_p = 0.0f64;
    let mut worst_id = 0.0f64;
    for (row, b) in xc.iter().zip(&back) {
        let coef: Vec<f64> = dirs.iter().map(|v| dot(row, v)).collect();
        for j in 0..p {
            let want = m[j] + (0..r).map(|i| coef[i] * dirs[i][j]).sum::<f64>();
            worst_p = worst_p.max((b[j] - want).abs());
            worst_id = worst_id.max((b[j] - (row[j] + m[j])).abs());
        }
    }
    let big = scale + max_abs(&vec![m.clone()]);
    ctx.require(worst_p <= 1e-7 * big, "inverse_is_projection", &class, || format!("inverse_transform(transform(x)) differs from mean + P(x-mean) by {:e} (data scale {:e})", worst_p, big));
    if r == p {
        ctx.require(worst_id <= 1e-6 * big, "inverse_identity_full", &class, || format!("all components kept but inverse_transform(transform(x)) differs from x by {:e}", worst_id));
    }

    // (7) ratios finite, non-negative, proportional to the explained variances
    ctx.require(f.evr.len() == f.ev.len(), "ratio", &class, || "ratio length".into());
    let okfin = f.evr.iter().all(|v| v.is_finite() && *v >= 0.0) && f.ev.iter().all(|v| v.is_finite() && *v >= 0.0);
    ctx.require(okfin, "ratio_finite_nonneg", &format!("{};k{}", class, if r == 1 { "=1" } else { ">1" }), || format!("explained_variance={:?} ratio={:?}", f.ev, f.evr));
    if okfin && f.evr.len() == f.ev.len() {
        let mut bad = 0.0f64;
        for i in 0..r {
            for j in 0..r {
                let a = f.evr[i] * f.ev[j];
                let b = f.evr[j] * f.ev[i];
                bad = bad.max((a - b).abs() / (a.abs() + b.abs()).max(f64::MIN_POSITIVE));
            }
        }
        ctx.require(bad <= 1e-12, "ratio_proportional", &class, || format!("ratios not proportional to the explained variances: ev={:?} ratio={:?}", f.ev, f.evr));
    }
    // (8) the other calling forms of the projection, on the training records in their layout
    calling_forms(ctx, f, x, p, lay, &z, scale);
    seen.spectral_ok = ctx.fails.len() == fails0;
    // (9) a component on the 1e-8 floor: the statement has no exception for it — the reported singular
    // value / explained variance must still be the data's.  Own clause (the clauses above skip the
    // component), evaluated after the `clean` verdict; it fails whenever the floor really acts.
    for i in 0..r {
        if floored[i] {
            let truth = lam[i].max(0.0);
            let rep = if i < f.ev.len() { f.ev[i] } else { f64::NAN };
            ctx.require((rep - truth).abs() <= 1e-6 * truth + 1e-12 * lmax, "floored_variance", &class, || {
                format!("component {}: singular value {:e} is the 1e-8 floor; explained_variance() reports {:e} but coordinate {} of the projected training data has eigenvalue / sample variance {:e} (true singular value {:e})", i, f.sigma[i], rep, i, truth, (truth * (n - 1) as f64).sqrt())
            });
        }
    }
    seen
}

/// LOBPCG's design envelope (scipy falls back to a dense solver below `5k`; linfa-linalg has that
/// guard commented out): all components / block too large for the dimension / supported
fn regime(k: usize, p: usize) -> &'static str {
    if k == p { "k=p" } else if p < 5 * k { "k<p<5k" } else { "5k<=p" }
}

/// one fit request
struct Req {
    kind: &'static str,
    x: Mat,
    p: usize,
    k: usize,
    w: bool,
    lay: &'static str,
    form: &'static str,
    q: Mat,
}

fn op_fit(em: &mut Em, rq: Req) {
    let Req { kind, x, p, k, w, lay, form, q } = rq;
    let n = x.len();
    // tiny / huge data: the two query rows that are not training rows (a lattice point, a generic point,
    // both of size 1) are brought to the data's scale — a query 1e7 times larger than the data only measures
    // how orthonormal the components are, and the absolute tolerances of `fitt` / `fith` assume the scale
    let q: Mat = if kind == "tiny_scale" || kind == "huge_scale" {
        let sc = max_abs(&x);
        q.into_iter().enumerate().map(|(i, r)| if i >= 2 { r.iter().map(|v| v * sc).collect() } else { r }).collect()
    } else {
        q
    };
    // what the external solver returns on the centred matrix (None when fit rejects before it).
    // The SPECIFIED rule of `leading_svd` decides which of the two solver calls is asked: dense full
    // block on min(n,p) pairs when min(n,p) < 5k, LOBPCG on k pairs otherwise; the model applies the
    // same rule on its own and rejects a request that carries the other call's output.
    let guard_rejects = n == 0 || p < k || k == 0;
    let dim = n.min(p);
    let raw = if dim < 5 * k { "dense" } else { "iter" };
    let mut xch = 0u64;
    let svd = if guard_rejects {
        None
    } else {
        // same expressions as `fit` on the same memory layout (the solver's kernels see the layout)
        let laid = Laid::new(&x, p, lay);
        let xv = laid.view();
        let mean = xv.mean_axis(Axis(0)).unwrap();
        let xc = &xv - &mean;
        xch = checksum(&xc);
        // the solver may panic (it unwraps a partial_cmp); `fit` then panics the same way
        match std::panic::catch_unwind(std::panic::AssertUnwindSafe(|| {
            if raw == "dense" {
                linfa_reduction::verif_hooks_c18::dense_svd_full(xc, dim)
            } else {
                linfa_reduction::verif_hooks_c18::lobpcg_svd(xc, k)
            }
        })) {
            Ok(r) => Some(r),
            Err(_) => Some(Err("panic".to_string())),
        }
    };
    let svd_s = match &svd {
        None => "svd=none".to_string(),
        Some(Err(e)) if e == "panic" => "svd=panic".to_string(),
        Some(Err(_)) => "svd=err".to_string(),
        Some(Ok((s, vt))) => format!("svd=ok raw={} num={} xch={:016x} sv={} vt={}", raw, if raw == "dense" { dim } else { k }, xch, list(s.iter(), |v| hex64c(*v)), exact2(&from_arr(vt))),
    };
    // un-whitened tiny-scale data: predictions of size 1e-4 .. 1e-10 — the absolute part of the float
    // comparison is 1e-15 there (op name `fitt`, same request otherwise) instead of 1e-9
    // huge-scale data (means and predictions up to 1e9): `fith`, absolute part 1e-4 — a query row of
    // size 1 is reconstructed from numbers of size 1e9, with an error of about 1e-16 * 1e9 * p
    let opname = if kind == "tiny_scale" && !w { "fitt" } else if kind == "huge_scale" { "fith" } else { "fit" };
    // integer targets and weights of the dataset over the query rows (transform / predict forms)
    let tq: Vec<i64> = (0..q.len()).map(|i| ((3 * i + k) % 7) as i64 - 2).collect();
    let wq: Vec<i64> = (0..q.len()).map(|i| (1 + (i + p) % 4) as i64).collect();
    let op = format!(
        "{} n={} p={} k={} w={} lay={} form={} x={} {} q={} t={} wt={}",
        opname, n, p, k, w as u8, lay, form, exact2(&x), svd_s, exact2(&q), list(tq.iter(), |v| v.to_string()), list(wq.iter(), |v| v.to_string())
    );
    em.count(&format!("kind:{}", kind));
    em.count(&format!("whiten:{}", w as u8));
    em.count(if guard_rejects { "stream:guard_error" } else { "stream:valid" });
    if !guard_rejects {
        em.count(if k == p { "k:full" } else if k == 1 { "k:one" } else { "k:mid" });
        em.count(&format!("regime:{}", regime(k, p)));
    }
    // constant records (zero covariance): every direction is a principal axis with variance 0 and the
    // statement's clauses say nothing testable; correspondence only
    let covered = n > p && p >= 1 && k >= 1 && k <= p && kind != "constant";
    let seen = Cell::new(Seen::default());
    let class_s = format!("data={};{};whiten={}", kind, regime(k.max(1), p.max(1)), w as u8);
    let body = |ctx: &mut Ctx| -> String {
        match fit_pca(&x, p, k, w, lay, form) {
            Err(e) => {
                if covered {
                    ctx.fail("fit_succeeds", &class_s, format!("fit returned {} on n={} p={} k={}", show_err(&e), n, p, k));
                }
                // n <= p with a valid k: outside the quantifier, no promise either way;
                // otherwise the statement: empty dataset or embedding size outside 1..p is an error
                show_err(&e)
            }
            Ok(f) => {
                if n == 0 || k == 0 || k > p {
                    ctx.fail("error_on_bad_input", &format!("n={};k_vs_p={}", if n == 0 { "0" } else { "pos" }, if k == 0 { "zero" } else if k > p { "above" } else { "in" }), format!("fit succeeded on n={} p={} k={}", n, p, k));
                }
                if covered {
                    seen.set(oracle(ctx, kind, &x, p, k, w, lay, &f));
                }
                let z = predict(&f.model, &q, p);
                let inv = inverse(&f.model, &z);
                // Transformer::transform / Predict::predict on a dataset over the query rows
                let qa = to_arr(&q, p);
                let ta = Array1::from(tq.clone());
                let wa = Array1::from(wq.iter().map(|v| *v as f32).collect::<Vec<f32>>());
                let td = f.model.transform(DatasetBase::new(qa.clone(), ta.clone()).with_weights(wa.clone()));
                let pd = f.model.predict(DatasetBase::new(qa, ta).with_weights(wa));
                let ws = |w: Option<&[f32]>| list(w.unwrap_or(&[]).iter(), |v| (*v as i64).to_string());
                format!(
                    "ok mean={} sigma={} comp={} ev={} evr={} z={} inv={} td={}/{}/{} pd={}/{}/{}",
                    list(f.mean.iter(), |v| hex64c(*v)),
                    list(f.sigma.iter(), |v| hex64c(*v)),
                    exact2(&f.comp),
                    list(f.ev.iter(), |v| hex64c(*v)),
                    list(f.evr.iter(), |v| format!("~{}", hex64c(*v))),
                    approx2(&z),
                    approx2(&inv),
                    approx2(&from_arr(td.records())),
                    list(td.targets().iter(), |v| v.to_string()),
                    ws(td.weights()),
                    exact2(&from_arr(pd.records())),
                    approx2(&from_arr(pd.targets())),
                    ws(pd.weights())
                )
            }
        }
    };
    if covered {
        em.case_valid(op, &class_s, body);
    } else {
        em.case(op, body);
    }
    // coverage counters (success-like outcomes; conf "floors")
    let s = seen.get();
    if s.fitted {
        em.count(&format!("fitted:lay={}", lay));
        em.count(&format!("fitted:form={}", form));
        em.count(&format!("fitted:kind={}", kind));
        if s.spectral_ok {
            em.count(&format!("clean:{};{}", kind, regime(k, p)));
        }
        if s.whitened_checked {
            em.count("whitened_identity:evaluated");
        }
        if s.floored {
            em.count("sigma:floored");
        }
        if s.wide_spread {
            em.count("spread:wide");
        }
    }
}

fn queries(rng: &mut Rng, x: &Mat, p: usize) -> Mat {
    let mut q: Mat = vec![];
    for _ in 0..2.min(x.len()) {
        q.push(x[rng.below(x.len())].clone());
    }
    // one new point on the lattice, one generic
    q.push((0..p).map(|_| rng.range(-4, 4) as f64).collect());
    q.push((0..p).map(|_| gauss(rng) * 3.0).collect());
    q
}

pub fn run(em: &mut Em, rng: &mut Rng) {
    let thorough = em.thorough();
    if std::env::var("VERIF_C18_PANICS").is_ok() {
        // debugging aid: show where the implementation panics
        std::panic::set_hook(Box::new(|i| eprintln!("{}", i)));
    }
    let (pmax, nextra, reps) = if thorough { (10usize, 120usize, 12usize) } else { (7usize, 30usize, 4usize) };
    // layout and calling form rotate with a running counter so that every (kind, p, k, w) meets all
    // of them over the repetitions
    let mut rot = 0usize;
    let next = |rot: &mut usize| -> (&'static str, &'static str) {
        let r = *rot;
        *rot += 1;
        (LAYOUTS[r % 4], FORMS[(r / 4 + r) % 4])
    };

    // fixed witnesses first: the 6x3 matrix of DESIGN section 8 #13, all k, both flags
    let w63: Mat = vec![vec![2.0, 0.0, 1.0], vec![-1.0, 3.0, 0.0], vec![0.0, -2.0, 4.0], vec![5.0, 1.0, -3.0], vec![-4.0, -1.0, -1.0], vec![1.0, 2.0, 2.0]];
    for k in 1..=3 {
        for w in [false, true] {
            let q = vec![w63[0].clone(), vec![1.0, 1.0, 1.0]];
            op_fit(em, Req { kind: "lattice", x: w63.clone(), p: 3, k, w, lay: "C", form: "plain", q });
        }
    }

    // valid stream: every kind × p × all k × whitening
    for rep in 0..reps {
        for kind in KINDS {
            for p in 1..=pmax {
                if kind == "rank_deficient" && p < 2 {
                    continue;
                }
                // n > p: close to p, moderate, larger
                let n = match (rep + p) % 3 {
                    0 => p + 1 + rng.below(2),
                    1 => p + 2 + rng.below(nextra / 3 + 1),
                    _ => p + 1 + rng.below(nextra + 1),
                };
                let x = gen_matrix(rng, kind, n, p);
                let q = queries(rng, &x, p);
                for k in 1..=p {
                    for w in [false, true] {
                        let (lay, form) = next(&mut rot);
                        op_fit(em, Req { kind, x: x.clone(), p, k, w, lay, form, q: q.clone() });
                    }
                }
            }
        }
    }

    // wide stream: p >= 5k, the regime LOBPCG is meant for
    let wide: &[usize] = if thorough { &[5, 6, 8, 10, 12, 16, 20, 30, 40] } else { &[5, 6, 8, 10, 15, 20] };
    for rep in 0..(if thorough { 8 } else { 4 }) {
        for kind in KINDS {
            for &p in wide {
                let n = p + 1 + rng.below(if rep % 2 == 0 { 3 * p } else { nextra + 1 });
                let x = gen_matrix(rng, kind, n, p);
                let q = queries(rng, &x, p);
                for k in 1..=(p / 5) {
                    for w in [false, true] {
                        let (lay, form) = next(&mut rot);
                        op_fit(em, Req { kind, x: x.clone(), p, k, w, lay, form, q: q.clone() });
                    }
                }
            }
        }
    }

    // switch stream: embedding sizes on both sides of the dense / LOBPCG switch (dim = 5k - 1, 5k,
    // 5k + 1 and 4k, 6k) — the model applies the switch itself, so a moved switch is a disagreement
    for rep in 0..(if thorough { 6 } else { 2 }) {
        for kind in KINDS {
            for k in 1..=(if thorough { 5usize } else { 3 }) {
                for p in [4 * k, 5 * k - 1, 5 * k, 5 * k + 1, 6 * k] {
                    if p < k || p == 0 {
                        continue;
                    }
                    let n = p + 1 + rng.below(nextra + 1);
                    let x = gen_matrix(rng, kind, n, p);
                    let q = queries(rng, &x, p);
                    let (lay, form) = next(&mut rot);
                    em.count("stream:switch");
                    op_fit(em, Req { kind, x, p, k, w: (rep + k + p) % 2 == 0, lay, form, q });
                }
            }
        }
    }

    // large stream: more features and many more samples than the grid above
    let large: &[(usize, usize)] = if thorough { &[(12, 300), (16, 500), (24, 800), (32, 1000), (40, 400)] } else { &[(12, 150), (16, 300), (24, 200)] };
    for rep in 0..(if thorough { 4 } else { 1 }) {
        for kind in KINDS {
            for &(p, nmax) in large {
                let n = p + 1 + rng.below(nmax);
                let x = gen_matrix(rng, kind, n, p);
                let q = queries(rng, &x, p);
                for k in [1, 2, p / 5, p / 5 + 1, p / 2, p - 1, p] {
                    let (lay, form) = next(&mut rot);
                    em.count("stream:large");
                    op_fit(em, Req { kind, x: x.clone(), p, k, w: (rep + k) % 2 == 1, lay, form, q: q.clone() });
                }
            }
        }
    }

    // big stream: sizes beyond every other stream — more than 64 features in both dense regimes and in
    // the LOBPCG regime, more than 1000 records — so that a size-gated path (`dim <= 64`, `nrows > 1000`)
    // is entered; clean kinds only (their clauses are all strict)
    let big: &[(usize, usize, usize)] = if thorough {
        &[(72, 90, 20), (66, 70, 14), (70, 75, 70), (80, 100, 3), (96, 130, 40), (128, 140, 30), (3, 1200, 2), (5, 1100, 1), (4, 2100, 4), (12, 1500, 3)]
    } else {
        &[(72, 90, 20), (66, 70, 14), (70, 75, 70), (80, 100, 3), (3, 1200, 2), (5, 1100, 1)]
    };
    for (i, &(p, n, k)) in big.iter().enumerate() {
        for kind in ["isotropic", "offset", "lattice"] {
            if kind == "lattice" && 5 * k <= p {
                continue; // open finding lobpcg-nan-panic covers lattice in that regime
            }
            let x = gen_matrix(rng, kind, n, p);
            let q = queries(rng, &x, p);
            let (lay, form) = next(&mut rot);
            em.count("stream:big");
            op_fit(em, Req { kind, x, p, k, w: i % 2 == 1, lay, form, q });
        }
    }

    // huge stream: column scales 1e6 .. 1e9 (the mirror image of `tiny_scale`): squared norms of the
    // whitened rows far below f64::EPSILON, covariance entries up to 1e18
    for rep in 0..(if thorough { 6 } else { 2 }) {
        for p in 2..=(if thorough { 8usize } else { 6 }) {
            let n = p + 1 + rng.below(nextra + 1);
            let x = gen_matrix(rng, "huge_scale", n, p);
            let q = queries(rng, &x, p);
            for k in 1..=p {
                let (lay, form) = next(&mut rot);
                em.count("stream:huge");
                op_fit(em, Req { kind: "huge_scale", x: x.clone(), p, k, w: (rep + k) % 2 == 0, lay, form, q: q.clone() });
                if k == p {
                    let (lay, form) = next(&mut rot);
                    op_fit(em, Req { kind: "huge_scale", x: x.clone(), p, k, w: (rep + k) % 2 == 1, lay, form, q: q.clone() });
                }
            }
        }
    }

    // constant records: zero covariance (correspondence only, see op_fit)
    for i in 0..(if thorough { 24 } else { 8 }) {
        let p = 1 + i % 4;
        let n = p + 1 + rng.below(6);
        let row: Vec<f64> = (0..p).map(|_| rng.range(-5, 5) as f64).collect();
        let x: Mat = (0..n).map(|_| row.clone()).collect();
        let q = queries(rng, &x, p);
        let (lay, form) = next(&mut rot);
        op_fit(em, Req { kind: "constant", x, p, k: 1 + i % p, w: i % 2 == 1, lay, form, q });
    }

    // error stream: empty dataset, k = 0, k > p (also together), 2 <= n <= p (outside the quantifier;
    // n = 1 is not sent: the statement says nothing about a single sample and the variance divisor
    // n - 1 is zero there)
    let nerr = if thorough { 400 } else { 100 };
    // no feature at all (p = 0): every embedding size is outside 1..p
    for (n, k) in [(3usize, 0usize), (3, 1), (1, 2), (0, 0), (0, 1)] {
        let x: Mat = (0..n).map(|_| vec![]).collect();
        em.count("err:p=0");
        let (lay, form) = next(&mut rot);
        op_fit(em, Req { kind: "lattice", x, p: 0, k, w: k % 2 == 1, lay, form, q: vec![] });
    }
    for _ in 0..nerr {
        let p = 1 + rng.below(5);
        let which = rng.below(5);
        let (n, k) = match which {
            0 => (0, rng.below(p + 2)),
            1 => (1 + rng.below(8), 0),
            2 => (1 + rng.below(8), p + 1 + rng.below(3)),
            3 => (0, 0),
            _ => (2 + rng.below(p.max(2) - 1), 1 + rng.below(p)), // 2 <= n <= p, valid k: not covered, correspondence only
        };
        if which == 4 && (n > p || n < 2) {
            continue;
        }
        let x: Mat = (0..n).map(|_| (0..p).map(|_| rng.range(-5, 5) as f64).collect()).collect();
        let q: Mat = vec![(0..p).map(|_| rng.range(-3, 3) as f64).collect()];
        em.count(match which { 0 | 3 => "err:n=0", 1 => "err:k=0", 2 => "err:k>p", _ => "uncovered:n<=p" });
        let (lay, form) = next(&mut rot);
        op_fit(em, Req { kind: "lattice", x, p, k, w: rng.coin(), lay, form, q });
    }
}
