//! C12 — logistic regression (binary, multinomial) and Tweedie GLM.
//!
//! Correspondence ops (model = lean/LinfaSpec/Model/{Logistic,Glm}.lean): label coding, scalar
//! functions, loss/gradient of both logistic problems, prediction at |x.w| ~ 1e3, Tweedie deviance,
//! derivative, links, cost and gradient — all through the cfg-guarded hooks `verif_hooks_c12`.
//! Oracle-only ops (`#fit2`, `#fitm`, `#glmfit`): the real `fit`, then the gradient of the DOCUMENTED
//! objective recomputed here from the textbook formulas at the returned parameters.
use crate::util::*;
use linfa::prelude::*;
use linfa::traits::{Fit, Predict};
use linfa_linear::verif_hooks_c12 as gh;
use linfa_linear::{Link, TweedieRegressor};
use linfa_logistic::verif_hooks_c12 as lh;
use linfa_logistic::{LogisticRegression, MultiLogisticRegression};
use ndarray::{Array1, Array2};

type M = Vec<Vec<f64>>;

/// `C12_TRACE=1` prints every fit request to stderr before it runs (to locate a hanging case)
fn trace(op: &str) {
    if std::env::var("C12_TRACE").is_ok() {
        eprintln!("{}", &op[..op.len().min(200)]);
    }
}

fn tf(x: f64) -> String {
    format!("~{}", hex64c(x))
}
fn tfs(v: &[f64]) -> String {
    list(v.iter(), |x| tf(*x))
}
fn tfs2(m: &M) -> String {
    list2(m.iter().map(|r| r.iter()), |x| tf(*x))
}
fn hx(v: &[f64]) -> String {
    list(v.iter(), |x| hex64(*x))
}
fn hx2(m: &M) -> String {
    list2(m.iter().map(|r| r.iter()), |x| hex64(*x))
}
fn arr2(m: &M, ncols: usize) -> Array2<f64> {
    Array2::from_shape_fn((m.len(), ncols), |(i, j)| m[i][j])
}
fn to_m(a: &Array2<f64>) -> M {
    a.rows().into_iter().map(|r| r.to_vec()).collect()
}
fn norm2(v: &[f64]) -> f64 {
    v.iter().map(|x| x * x).sum::<f64>().sqrt()
}

/// dyadic lattice value k/8, |k| <= 8*range
fn lat(rng: &mut Rng, range: i64) -> f64 {
    rng.range(-8 * range, 8 * range) as f64 / 8.0
}
fn gen_val(rng: &mut Rng, lattice: bool, scale: f64) -> f64 {
    if lattice {
        lat(rng, 4)
    } else {
        (rng.unit() * 2.0 - 1.0) * scale
    }
}
fn gen_mat(rng: &mut Rng, n: usize, p: usize, lattice: bool, scale: f64) -> M {
    (0..n).map(|_| (0..p).map(|_| gen_val(rng, lattice, scale)).collect()).collect()
}

// ------------------------------------------------------------------ label coding

fn op_label2(em: &mut Em, y: Vec<usize>, ty: usize) {
    let op = format!("label2 y={} ty={}", list(y.iter(), |v| v.to_string()), ty);
    em.count(&format!("label2:ty={}", ty));
    let names = ["pear", "apple", "zebra", "fig", "kiwi"];
    em.case(op, move |ctx| {
        let res: Result<(usize, usize, Vec<f64>), String> = match ty {
            0 => lh::label_classes_hook(&Array1::from(y.clone())).map(|(p, n, t)| (p, n, t.to_vec())).map_err(|e| format!("{:?}", e)),
            1 => {
                let ys: Vec<String> = y.iter().map(|c| names[*c].to_string()).collect();
                let back = |s: &String| names.iter().position(|n| n == s).unwrap();
                lh::label_classes_hook(&Array1::from(ys)).map(|(p, n, t)| (back(&p), back(&n), t.to_vec())).map_err(|e| format!("{:?}", e))
            }
            _ => {
                let yb: Vec<bool> = y.iter().map(|c| *c == 1).collect();
                lh::label_classes_hook(&Array1::from(yb)).map(|(p, n, t)| (p as usize, n as usize, t.to_vec())).map_err(|e| format!("{:?}", e))
            }
        };
        match res {
            Err(e) => format!("err {}", e),
            Ok((pos, neg, t)) => {
                // oracle: +-1 coding, positive = pos class, pos at least as frequent, class set
                let cp = y.iter().filter(|c| **c == pos).count();
                let cn = y.iter().filter(|c| **c == neg).count();
                ctx.require(pos != neg && cp + cn == y.len() && cp > 0 && cn > 0, "class_set", "label2", || format!("pos={} neg={} y={:?}", pos, neg, y));
                ctx.require(cp >= cn, "larger_class_positive", "label2", || format!("pos={} ({}x) neg={} ({}x)", pos, cp, neg, cn));
                ctx.require(t.len() == y.len() && t.iter().zip(y.iter()).all(|(t, c)| *t == if *c == pos { 1.0 } else { -1.0 }), "labels_pm_one", "label2", || format!("targets {:?} for y={:?} pos={}", t, y, pos));
                format!("ok pos={} neg={} t={}", pos, neg, list(t.iter(), |v| (*v as i64).to_string()))
            }
        }
    });
}

fn op_labelm(em: &mut Em, y: Vec<usize>, ty: usize) {
    // ty 0: usize; 1: strings named so that the string order differs from the generation order —
    // the request carries the ranks under the string order, so the model sees what the code sees
    let names = ["pear", "apple", "zebra", "fig", "kiwi", "date"];
    let mut sorted: Vec<&str> = names.to_vec();
    sorted.sort();
    let rank = |c: usize| sorted.iter().position(|s| *s == names[c]).unwrap();
    let yr: Vec<usize> = if ty == 1 { y.iter().map(|c| rank(*c)).collect() } else { y.clone() };
    let op = format!("labelm y={} ty={}", list(yr.iter(), |v| v.to_string()), ty);
    em.count(&format!("labelm:ty={}", ty));
    em.case(op, move |ctx| {
        let (classes, onehot): (Vec<usize>, Array2<f64>) = if ty == 1 {
            let ys: Vec<String> = y.iter().map(|c| names[*c].to_string()).collect();
            let (cl, oh) = lh::label_classes_multi_hook(&Array1::from(ys)).unwrap();
            (cl.iter().map(|s| sorted.iter().position(|t| t == s).unwrap()).collect(), oh)
        } else {
            lh::label_classes_multi_hook(&Array1::from(y.clone())).unwrap()
        };
        let mut want = yr.clone();
        want.sort();
        want.dedup();
        ctx.require(classes == want, "classes_sorted_dedup", "labelm", || format!("classes {:?}, want {:?}", classes, want));
        for (i, c) in yr.iter().enumerate() {
            let row = onehot.row(i);
            let ok = row.len() == classes.len() && row.iter().enumerate().all(|(j, v)| *v == if classes[j] == *c { 1.0 } else { 0.0 });
            ctx.require(ok, "onehot_row", "labelm", || format!("row {} = {:?} for class {} of {:?}", i, row, c, classes));
        }
        format!("ok classes={} onehot={}", list(classes.iter(), |v| v.to_string()), list2(onehot.rows().into_iter().map(|r| r.to_vec()), |v| (v as i64).to_string()))
    });
}

// ------------------------------------------------------------------ textbook formulas (oracle side)

/// ln(1 + e^t), stable
fn softplus(t: f64) -> f64 {
    if t > 0.0 {
        t + (-t).exp().ln_1p()
    } else {
        t.exp().ln_1p()
    }
}
fn sigmoid(t: f64) -> f64 {
    if t >= 0.0 {
        1.0 / (1.0 + (-t).exp())
    } else {
        let e = t.exp();
        e / (1.0 + e)
    }
}
/// documented binary objective: sum_i ln(1 + exp(-y_i (x_i.w + b))) + alpha/2 |w|^2
fn doc_loss2(x: &M, y: &[f64], alpha: f64, w: &[f64], b: f64) -> f64 {
    let mut s = 0.0;
    for (row, yi) in x.iter().zip(y) {
        let z: f64 = row.iter().zip(w).map(|(a, b)| a * b).sum::<f64>() + b;
        s += softplus(-yi * z);
    }
    s + 0.5 * alpha * w.iter().map(|v| v * v).sum::<f64>()
}
/// its gradient: (d/dw, d/db)
fn doc_grad2(x: &M, y: &[f64], alpha: f64, w: &[f64], b: f64) -> (Vec<f64>, f64) {
    let mut gw: Vec<f64> = w.iter().map(|v| alpha * v).collect();
    let mut gb = 0.0;
    for (row, yi) in x.iter().zip(y) {
        let z: f64 = row.iter().zip(w).map(|(a, b)| a * b).sum::<f64>() + b;
        let r = -yi * sigmoid(-yi * z);
        for (g, a) in gw.iter_mut().zip(row) {
            *g += r * a;
        }
        gb += r;
    }
    (gw, gb)
}
fn softmax_row(h: &[f64]) -> Vec<f64> {
    let m = h.iter().cloned().fold(f64::NEG_INFINITY, f64::max);
    let e: Vec<f64> = h.iter().map(|v| (v - m).exp()).collect();
    let s: f64 = e.iter().sum();
    e.iter().map(|v| v / s).collect()
}
/// documented multinomial objective: -sum_i ln softmax(x_i W + b)[c_i] + alpha/2 |W|^2
fn doc_loss_m(x: &M, cls: &[usize], alpha: f64, w: &M, b: &[f64]) -> f64 {
    let k = b.len();
    let mut s = 0.0;
    for (row, c) in x.iter().zip(cls) {
        let h: Vec<f64> = (0..k).map(|c| row.iter().enumerate().map(|(j, a)| a * w[j][c]).sum::<f64>() + b[c]).collect();
        let m = h.iter().cloned().fold(f64::NEG_INFINITY, f64::max);
        let lse = m + h.iter().map(|v| (v - m).exp()).sum::<f64>().ln();
        s += lse - h[*c];
    }
    s + 0.5 * alpha * w.iter().flatten().map(|v| v * v).sum::<f64>()
}
fn doc_grad_m(x: &M, cls: &[usize], alpha: f64, w: &M, b: &[f64]) -> (M, Vec<f64>) {
    let k = b.len();
    let mut gw: M = w.iter().map(|r| r.iter().map(|v| alpha * v).collect()).collect();
    let mut gb = vec![0.0; k];
    for (row, ci) in x.iter().zip(cls) {
        let h: Vec<f64> = (0..k).map(|c| row.iter().enumerate().map(|(j, a)| a * w[j][c]).sum::<f64>() + b[c]).collect();
        let p = softmax_row(&h);
        for c in 0..k {
            let d = p[c] - if c == *ci { 1.0 } else { 0.0 };
            for (j, a) in row.iter().enumerate() {
                gw[j][c] += a * d;
            }
            gb[c] += d;
        }
    }
    (gw, gb)
}

/// textbook Tweedie unit deviance
fn doc_unit_dev(power: f64, y: f64, mu: f64) -> f64 {
    if power == 0.0 {
        (y - mu) * (y - mu)
    } else if power == 1.0 {
        2.0 * ((if y == 0.0 { 0.0 } else { y * (y / mu).ln() }) - y + mu)
    } else if power == 2.0 {
        2.0 * ((mu / y).ln() + y / mu - 1.0)
    } else {
        2.0 * (y.max(0.0).powf(2.0 - power) / ((1.0 - power) * (2.0 - power)) - y * mu.powf(1.0 - power) / (1.0 - power) + mu.powf(2.0 - power) / (2.0 - power))
    }
}
fn doc_link_inv(l: Link, eta: f64) -> f64 {
    match l {
        Link::Identity => eta,
        Link::Log => eta.exp(),
        Link::Logit => sigmoid(eta),
    }
}
fn doc_link_inv_der(l: Link, eta: f64) -> f64 {
    match l {
        Link::Identity => 1.0,
        Link::Log => eta.exp(),
        Link::Logit => sigmoid(eta) * sigmoid(-eta),
    }
}
/// documented GLM objective 1/2 (deviance + alpha |coef|^2)
fn doc_glm_obj(power: f64, l: Link, alpha: f64, x: &M, y: &[f64], coef: &[f64], b: f64) -> f64 {
    let mut dev = 0.0;
    for (row, yi) in x.iter().zip(y) {
        let eta: f64 = row.iter().zip(coef).map(|(a, c)| a * c).sum::<f64>() + b;
        dev += doc_unit_dev(power, *yi, doc_link_inv(l, eta));
    }
    0.5 * (dev + alpha * coef.iter().map(|v| v * v).sum::<f64>())
}
/// its gradient (d/dcoef, d/db), d(unit deviance)/dmu = -2 (y - mu) / mu^power
fn doc_glm_grad(power: f64, l: Link, alpha: f64, x: &M, y: &[f64], coef: &[f64], b: f64) -> (Vec<f64>, f64) {
    let mut gw: Vec<f64> = coef.iter().map(|v| alpha * v).collect();
    let mut gb = 0.0;
    for (row, yi) in x.iter().zip(y) {
        let eta: f64 = row.iter().zip(coef).map(|(a, c)| a * c).sum::<f64>() + b;
        let mu = doc_link_inv(l, eta);
        let r = 0.5 * (-2.0) * (yi - mu) / mu.powf(power) * doc_link_inv_der(l, eta);
        for (g, a) in gw.iter_mut().zip(row) {
            *g += r * a;
        }
        gb += r;
    }
    (gw, gb)
}

/// Noise floor of the trusted solver: argmin's L-BFGS also reports convergence once a step changes
/// the cost by less than f64 epsilon, i.e. once |g|^2 / |H| drops below epsilon; |H| is bounded by
/// `hbound` (sum of squared row norms (+ n for the intercept) + alpha, times the curvature bound
/// of the loss); a cost change is invisible below ulp(cost) ~ eps * |cost|.  The oracle accepts
/// `tol + 4 sqrt(eps * max(1, |cost|) * hbound)`.
fn stagnation_floor(x: &M, icpt: bool, alpha: f64, curv: f64, cost: f64) -> f64 {
    let s: f64 = x.iter().map(|r| r.iter().map(|v| v * v).sum::<f64>() + if icpt { 1.0 } else { 0.0 }).sum();
    4.0 * (f64::EPSILON * cost.abs().max(1.0) * (curv * s + alpha)).sqrt()
}

/// central finite difference of `f` along coordinate `i` of `p`
fn fd(f: &dyn Fn(&[f64]) -> f64, p: &[f64], i: usize) -> f64 {
    let h = 1e-5 * (1.0 + p[i].abs());
    let mut a = p.to_vec();
    let mut b = p.to_vec();
    a[i] += h;
    b[i] -= h;
    (f(&a) - f(&b)) / (2.0 * h)
}
fn close(a: f64, b: f64, rel: f64, abs: f64) -> bool {
    (a - b).abs() <= abs + rel * a.abs().max(b.abs())
}

// ------------------------------------------------------------------ scalar functions

fn op_sfn(em: &mut Em, f: &str, v: Vec<f64>) {
    let op = format!("sfn f={} v={}", f, hx(&v));
    let f = f.to_string();
    em.case(op, move |ctx| {
        let out: Vec<f64> = v.iter().map(|x| if f == "logistic" { lh::logistic_hook(*x) } else { lh::log_logistic_hook(*x) }).collect();
        for (x, o) in v.iter().zip(&out) {
            if f == "logistic" {
                ctx.require(*o >= 0.0 && *o <= 1.0, "proba_in_unit_interval", "logistic", || format!("logistic({}) = {}", x, o));
            } else {
                ctx.require(close(*o, -softplus(-x), 1e-12, 1e-15), "log_logistic_is_log_of_logistic", "log_logistic", || format!("log_logistic({}) = {}, want {}", x, o, -softplus(-x)));
            }
        }
        format!("ok {}", tfs(&out))
    });
}

fn op_softmax(em: &mut Em, v: Vec<f64>) {
    let op = format!("softmax v={}", hx(&v));
    em.case(op, move |ctx| {
        let out = lh::softmax_hook(&Array1::from(v.clone())).to_vec();
        ctx.require(out.iter().all(|p| *p >= 0.0 && *p <= 1.0), "proba_in_unit_interval", "softmax", || format!("softmax({:?}) = {:?}", v, out));
        ctx.require((out.iter().sum::<f64>() - 1.0).abs() <= 1e-12, "rows_sum_to_one", "softmax", || format!("softmax({:?}) sums to {}", v, out.iter().sum::<f64>()));
        format!("ok {}", tfs(&out))
    });
}

fn op_lse(em: &mut Em, m: M) {
    let k = m[0].len();
    let op = format!("lse m={}", hx2(&m));
    em.case(op, move |ctx| {
        let out = lh::log_sum_exp_rows_hook(&arr2(&m, k)).to_vec();
        for (row, o) in m.iter().zip(&out) {
            let mx = row.iter().cloned().fold(f64::NEG_INFINITY, f64::max);
            let want = mx + row.iter().map(|v| (v - mx).exp()).sum::<f64>().ln();
            ctx.require(close(*o, want, 1e-12, 1e-12), "log_sum_exp_is_log_of_sum_of_exp", "multi:lse", || format!("log_sum_exp row {:?} of {:?} = {}, want {}", row, m, o, want));
        }
        format!("ok {}", tfs(&out))
    });
}

// ------------------------------------------------------------------ loss / gradient correspondences

fn op_loss_grad(em: &mut Em, rng: &mut Rng, lattice: bool) {
    let n = 1 + rng.below(7);
    let nf = 1 + rng.below(4);
    let scale = *rng.pick(&[1.0, 10.0, 100.0]);
    let x = gen_mat(rng, n, nf, lattice, scale);
    let y: Vec<f64> = (0..n).map(|_| if rng.coin() { 1.0 } else { -1.0 }).collect();
    let alpha = if lattice { *rng.pick(&[0.0, 0.5, 1.0, 2.0]) } else { rng.unit() * 3.0 };
    let icpt = rng.chance(2, 3);
    // a small share of wrong-length parameter vectors (panic branch of convert_params)
    let wl = if rng.chance(1, 25) { nf + 2 } else { nf + icpt as usize };
    let wscale = if lattice { 1.0 } else { 1.0 / scale };
    let w: Vec<f64> = (0..wl).map(|_| gen_val(rng, lattice, 1.0) * wscale).collect();
    em.count(if lattice { "lossgrad:lattice" } else { "lossgrad:generic" });
    let args = format!("nf={} x={} y={} alpha={} w={}", nf, hx2(&x), hx(&y), hex64(alpha), hx(&w));
    {
        let (x, y, w) = (x.clone(), y.clone(), w.clone());
        em.case(format!("loss {}", args), move |ctx| {
            let l = lh::logistic_loss_hook(&arr2(&x, nf), &Array1::from(y.clone()), alpha, &Array1::from(w.clone()));
            let (ww, b) = if w.len() == nf + 1 { (&w[..nf], w[nf]) } else { (&w[..], 0.0) };
            let want = doc_loss2(&x, &y, alpha, ww, b);
            ctx.require(close(l, want, 1e-9, 1e-9), "loss_is_documented_objective", "binary", || format!("logistic_loss = {}, documented objective = {}", l, want));
            format!("ok {}", tf(l))
        });
    }
    em.case(format!("grad {}", args), move |ctx| {
        let g = lh::logistic_grad_hook(&arr2(&x, nf), &Array1::from(y.clone()), alpha, &Array1::from(w.clone())).to_vec();
        let has_b = w.len() == nf + 1;
        let (ww, b) = if has_b { (&w[..nf], w[nf]) } else { (&w[..], 0.0) };
        let (gw, gb) = doc_grad2(&x, &y, alpha, ww, b);
        let mut want = gw;
        if has_b {
            want.push(gb);
        }
        let sc = 1.0 + norm2(&want);
        let ok = g.len() == want.len() && g.iter().zip(&want).all(|(a, b)| (a - b).abs() <= 1e-9 * sc);
        ctx.require(ok, "grad_is_derivative_of_documented_objective", if has_b { "binary:icpt=1" } else { "binary:icpt=0" }, || format!("logistic_grad = {:?}, textbook gradient = {:?}", g, want));
        // independent of any closed form: central differences of the documented objective
        let f = |p: &[f64]| if has_b { doc_loss2(&x, &y, alpha, &p[..nf], p[nf]) } else { doc_loss2(&x, &y, alpha, p, 0.0) };
        for i in 0..g.len().min(w.len()) {
            let d = fd(&f, &w, i);
            ctx.require(close(g[i], d, 1e-4, 1e-5 * sc), "grad_matches_finite_difference", if has_b { "binary:icpt=1" } else { "binary:icpt=0" }, || format!("coordinate {}: gradient {} vs finite difference {}", i, g[i], d));
        }
        format!("ok {}", tfs(&g))
    });
}

fn op_mloss_mgrad(em: &mut Em, rng: &mut Rng, lattice: bool) {
    let n = 1 + rng.below(6);
    let nf = 1 + rng.below(3);
    let k = 2 + rng.below(4);
    let scale = *rng.pick(&[1.0, 10.0]);
    let x = gen_mat(rng, n, nf, lattice, scale);
    let cls: Vec<usize> = (0..n).map(|_| rng.below(k)).collect();
    let y: M = cls.iter().map(|c| (0..k).map(|j| if j == *c { 1.0 } else { 0.0 }).collect()).collect();
    let alpha = if lattice { *rng.pick(&[0.0, 0.5, 1.0, 2.0]) } else { rng.unit() * 3.0 };
    let icpt = rng.chance(2, 3);
    let wr = if rng.chance(1, 25) { nf + 2 } else { nf + icpt as usize };
    // mostly moderate score spreads; every 5th lattice case has rows whose scores differ by > 40
    let wide = lattice && rng.chance(1, 5);
    let wscale = if wide { 16.0 } else if lattice { 0.25 } else { 0.5 / scale };
    if wide {
        em.count("mlossgrad:wide_spread");
    }
    let w: M = (0..wr).map(|_| (0..k).map(|_| gen_val(rng, lattice, 1.0) * wscale).collect()).collect();
    em.count(if lattice { "mlossgrad:lattice" } else { "mlossgrad:generic" });
    let args = format!("nf={} k={} x={} y={} alpha={} w={}", nf, k, hx2(&x), hx2(&y), hex64(alpha), hx2(&w));
    {
        let (x, y, w, cls) = (x.clone(), y.clone(), w.clone(), cls.clone());
        em.case(format!("mloss {}", args), move |ctx| {
            let l = lh::multi_logistic_loss_hook(&arr2(&x, nf), &arr2(&y, k), alpha, &arr2(&w, k));
            let has_b = w.len() == nf + 1;
            let b = if has_b { w[nf].clone() } else { vec![0.0; k] };
            let want = doc_loss_m(&x, &cls, alpha, &w[..nf].to_vec(), &b);
            ctx.require(close(l, want, 1e-9, 1e-9), "loss_is_documented_objective", "multi", || format!("multi_logistic_loss = {}, documented objective = {}", l, want));
            format!("ok {}", tf(l))
        });
    }
    em.case(format!("mgrad {}", args), move |ctx| {
        let g = to_m(&lh::multi_logistic_grad_hook(&arr2(&x, nf), &arr2(&y, k), alpha, &arr2(&w, k)));
        let has_b = w.len() == nf + 1;
        let b = if has_b { w[nf].clone() } else { vec![0.0; k] };
        let (mut want, gb) = doc_grad_m(&x, &cls, alpha, &w[..nf].to_vec(), &b);
        if has_b {
            want.push(gb);
        }
        let sc = 1.0 + norm2(&want.iter().flatten().cloned().collect::<Vec<_>>());
        let ok = g.len() == want.len() && g.iter().zip(&want).all(|(r, s)| r.len() == s.len() && r.iter().zip(s).all(|(a, b)| (a - b).abs() <= 1e-9 * sc));
        ctx.require(ok, "grad_is_derivative_of_documented_objective", if has_b { "multi:icpt=1" } else { "multi:icpt=0" }, || format!("multi_logistic_grad = {:?}, textbook gradient = {:?}", g, want));
        let flat: Vec<f64> = w.iter().flatten().cloned().collect();
        let f = |p: &[f64]| {
            let wm: M = p.chunks(k).map(|c| c.to_vec()).collect();
            let b = if has_b { wm[nf].clone() } else { vec![0.0; k] };
            doc_loss_m(&x, &cls, alpha, &wm[..nf].to_vec(), &b)
        };
        let gf: Vec<f64> = g.iter().flatten().cloned().collect();
        for i in 0..gf.len().min(flat.len()) {
            let d = fd(&f, &flat, i);
            ctx.require(close(gf[i], d, 1e-4, 1e-5 * sc), "grad_matches_finite_difference", if has_b { "multi:icpt=1" } else { "multi:icpt=0" }, || format!("entry {}: gradient {} vs finite difference {}", i, gf[i], d));
        }
        format!("ok {}", tfs2(&g))
    });
}

// ------------------------------------------------------------------ prediction at extreme scores

fn op_predict2(em: &mut Em, rng: &mut Rng) {
    let n = 1 + rng.below(6);
    let nf = 1 + rng.below(3);
    let x = gen_mat(rng, n, nf, true, 1.0);
    // |x.w| up to ~ 2e3
    let big = *rng.pick(&[1i64, 8, 64, 512]);
    let w: Vec<f64> = (0..nf).map(|_| rng.range(-big, big) as f64).collect();
    let b = rng.range(-big, big) as f64 / 2.0;
    let thr = *rng.pick(&[0.5, 0.5, 0.25, 0.75, 0.0, 1.0]);
    em.count(&format!("predict2:scale={}", big));
    let op = format!("predict2 x={} w={} b={} thr={}", hx2(&x), hx(&w), hex64(b), hex64(thr));
    em.case_valid(op, "predict2", move |ctx| {
        let m = lh::fitted_binary_hook(b, Array1::from(w.clone()), 1usize, 0usize).set_threshold(thr);
        let xa = arr2(&x, nf);
        let p = m.predict_probabilities(&xa).to_vec();
        let cls = m.predict(&xa).to_vec();
        ctx.require(p.iter().all(|q| *q >= 0.0 && *q <= 1.0), "proba_in_unit_interval", "binary", || format!("probabilities {:?}", p));
        for i in 0..n {
            let want = if p[i] >= thr { 1 } else { 0 };
            ctx.require(cls[i] == want, "class_is_what_threshold_implies", "binary", || format!("row {}: p={} thr={} class={}", i, p[i], thr, cls[i]));
        }
        let margin = p.iter().map(|q| (q - thr).abs()).fold(f64::INFINITY, f64::min);
        format!("ok p={} cls={} margin={}", tfs(&p), list(cls.iter(), |c| c.to_string()), tf(margin))
    });
}

fn op_predictm(em: &mut Em, rng: &mut Rng) {
    let n = 1 + rng.below(5);
    let nf = 1 + rng.below(3);
    let k = 2 + rng.below(5);
    let x = gen_mat(rng, n, nf, true, 1.0);
    let big = *rng.pick(&[1i64, 8, 64, 512]);
    let w: M = (0..nf).map(|_| (0..k).map(|_| rng.range(-big, big) as f64).collect()).collect();
    let b: Vec<f64> = (0..k).map(|_| rng.range(-big, big) as f64 / 2.0).collect();
    em.count(&format!("predictm:scale={}", big));
    let op = format!("predictm k={} x={} w={} b={}", k, hx2(&x), hx2(&w), hx(&b));
    em.case_valid(op, "predictm", move |ctx| {
        let m = lh::fitted_multi_hook(Array1::from(b.clone()), arr2(&w, k), (0..k).collect::<Vec<usize>>());
        let xa = arr2(&x, nf);
        let p = to_m(&m.predict_probabilities(&xa));
        let cls = m.predict(&xa).to_vec();
        let mut margin = f64::INFINITY;
        for i in 0..n {
            ctx.require(p[i].iter().all(|q| *q >= 0.0 && *q <= 1.0), "proba_in_unit_interval", "multi", || format!("row {}: {:?}", i, p[i]));
            ctx.require((p[i].iter().sum::<f64>() - 1.0).abs() <= 1e-12, "rows_sum_to_one", "multi", || format!("row {}: {:?} sums to {}", i, p[i], p[i].iter().sum::<f64>()));
            // the class must carry the largest probability (several classes may share it after saturation)
            let pm = p[i].iter().cloned().fold(f64::NEG_INFINITY, f64::max);
            ctx.require(cls[i] < k && p[i][cls[i]] == pm, "class_is_argmax_of_probabilities", "multi", || format!("row {}: class {} with probabilities {:?}", i, cls[i], p[i]));
            // scores are exact on this lattice: gap of the un-normalised scores
            let h: Vec<f64> = (0..k).map(|c| x[i].iter().enumerate().map(|(j, a)| a * w[j][c]).sum::<f64>() + b[c]).collect();
            let top = h.iter().cloned().fold(f64::NEG_INFINITY, f64::max);
            let first = h.iter().position(|v| *v == top).unwrap();
            for (c, v) in h.iter().enumerate() {
                if c != first {
                    margin = margin.min(top - v);
                }
            }
        }
        format!("ok p={} cls={} margin={}", tfs2(&p), list(cls.iter(), |c| c.to_string()), tf(margin))
    });
}

// ------------------------------------------------------------------ fits (oracle only)

/// data for a binary / multinomial fit; with `alpha == 0` every point occurs with every class, so
/// the data are not separable and a finite stationary point exists
fn gen_class_data(rng: &mut Rng, k: usize, alpha0: bool, scale: f64, thorough: bool) -> (M, Vec<usize>) {
    let nf = 1 + rng.below(4);
    let base = k + 2 + rng.below(if thorough { 40 } else { 14 });
    let centers: M = (0..k).map(|_| (0..nf).map(|_| (rng.unit() * 4.0 - 2.0) * scale).collect()).collect();
    let mut x: M = vec![];
    let mut y: Vec<usize> = vec![];
    // every class at least once
    for i in 0..base {
        let c = if i < k { i } else if rng.chance(1, 3) { 0 } else { rng.below(k) };
        let row: Vec<f64> = (0..nf).map(|j| centers[c][j] + (rng.unit() * 3.0 - 1.5) * scale).collect();
        x.push(row);
        y.push(c);
    }
    if alpha0 {
        let n0 = x.len();
        for i in 0..n0 {
            for c in 0..k {
                if c != y[i] {
                    x.push(x[i].clone());
                    y.push(c);
                }
            }
        }
    }
    // sample order is part of the quantifier
    let mut idx: Vec<usize> = (0..x.len()).collect();
    rng.shuffle(&mut idx);
    (idx.iter().map(|i| x[*i].clone()).collect(), idx.iter().map(|i| y[*i]).collect())
}

const LABEL_NAMES: [&str; 6] = ["pear", "apple", "zebra", "fig", "kiwi", "date"];

fn op_fit2(em: &mut Em, rng: &mut Rng) {
    let alpha = *rng.pick(&[0.0, 0.01, 0.1, 1.0, 1.0, 10.0]);
    let scale = *rng.pick(&[1.0, 1.0, 0.01, 10.0, 100.0]);
    let (x, y) = gen_class_data(rng, 2, alpha == 0.0, scale, em.thorough());
    let nf = x[0].len();
    let icpt = rng.chance(2, 3);
    let ty = rng.below(3);
    let tol = *rng.pick(&[1e-4, 1e-4, 1e-6, 1e-2]);
    let init: Option<Vec<f64>> = if rng.chance(1, 4) { Some((0..nf + icpt as usize).map(|_| (rng.unit() - 0.5) / scale).collect()) } else { None };
    let xbig: M = x.iter().take(4).map(|r| r.iter().map(|v| v * 1e3).collect()).collect();
    let class = format!("fit2:alpha={},icpt={},scale={}", if alpha == 0.0 { "0" } else { "pos" }, icpt as u8, scale);
    em.count(&format!("fit2:ty={}", ty));
    em.count(&class);
    let op = format!("#fit2 ty={} alpha={} icpt={} tol={} init={} x={} y={}", ty, alpha, icpt as u8, tol, init.as_ref().map_or("none".to_string(), |i| hx(i)), hx2(&x), list(y.iter(), |c| c.to_string()));
    trace(&op);
    em.case_valid(op, &class.clone(), move |ctx| {
        let xa = arr2(&x, nf);
        let mut params = LogisticRegression::default().alpha(alpha).with_intercept(icpt).gradient_tolerance(tol).max_iterations(10_000);
        if let Some(i) = &init {
            params = params.initial_params(Array1::from(i.clone()));
        }
        // fit with the label type of the case; results are mapped back to class indices
        let (w, b, pos, neg, p_ext, c_ext): (Vec<f64>, f64, usize, usize, Vec<f64>, Vec<usize>) = match ty {
            0 => match params.fit(&Dataset::new(xa.clone(), Array1::from(y.clone()))) {
                Ok(m) => (m.params().to_vec(), m.intercept(), m.labels().pos.class, m.labels().neg.class, m.predict_probabilities(&arr2(&xbig, nf)).to_vec(), m.predict(&arr2(&xbig, nf)).to_vec()),
                Err(e) => {
                    ctx.fail("fit_succeeds", &class, format!("fit returned {}", format!("{:?}", e).lines().next().unwrap_or("").to_string()));
                    return "err".into();
                }
            },
            1 => {
                let ys: Vec<String> = y.iter().map(|c| LABEL_NAMES[*c].to_string()).collect();
                let back = |s: &String| LABEL_NAMES.iter().position(|n| n == s).unwrap();
                match params.fit(&Dataset::new(xa.clone(), Array1::from(ys))) {
                    Ok(m) => (m.params().to_vec(), m.intercept(), back(&m.labels().pos.class), back(&m.labels().neg.class), m.predict_probabilities(&arr2(&xbig, nf)).to_vec(), m.predict(&arr2(&xbig, nf)).iter().map(back).collect()),
                    Err(e) => {
                        ctx.fail("fit_succeeds", &class, format!("fit returned {}", format!("{:?}", e).lines().next().unwrap_or("").to_string()));
                        return "err".into();
                    }
                }
            }
            _ => {
                let yb: Vec<bool> = y.iter().map(|c| *c == 1).collect();
                match params.fit(&Dataset::new(xa.clone(), Array1::from(yb))) {
                    Ok(m) => (m.params().to_vec(), m.intercept(), m.labels().pos.class as usize, m.labels().neg.class as usize, m.predict_probabilities(&arr2(&xbig, nf)).to_vec(), m.predict(&arr2(&xbig, nf)).iter().map(|b| *b as usize).collect()),
                    Err(e) => {
                        ctx.fail("fit_succeeds", &class, format!("fit returned {}", format!("{:?}", e).lines().next().unwrap_or("").to_string()));
                        return "err".into();
                    }
                }
            }
        };
        ctx.require((pos == 0 && neg == 1) || (pos == 1 && neg == 0), "class_set", &class, || format!("labels pos={} neg={}", pos, neg));
        let t: Vec<f64> = y.iter().map(|c| if *c == pos { 1.0 } else { -1.0 }).collect();
        let (gw, gb) = doc_grad2(&x, &t, alpha, &w, b);
        let mut g = gw;
        if icpt {
            g.push(gb);
        } else {
            ctx.require(b == 0.0, "no_intercept_means_zero", &class, || format!("intercept {} although fit_intercept = false", b));
        }
        let gn = norm2(&g);
        let floor = stagnation_floor(&x, icpt, alpha, 1.0, doc_loss2(&x, &t, alpha, &w, b));
        ctx.require(gn <= tol * 1.0001 + floor, "stationary", &class, || format!("|gradient of the documented objective| = {:e} > gradient_tolerance {:e} (+ solver noise floor {:e}) at w={:?} b={}", gn, tol, floor, w, b));
        ctx.require(p_ext.iter().all(|q| *q >= 0.0 && *q <= 1.0), "proba_in_unit_interval", &class, || format!("probabilities {:?} on 1e3-scaled rows", p_ext));
        for (q, c) in p_ext.iter().zip(&c_ext) {
            let want = if *q >= 0.5 { pos } else { neg };
            ctx.require(*c == want, "class_is_what_threshold_implies", &class, || format!("p={} class={} (pos={})", q, c, pos));
        }
        "ok".into()
    });
}

fn op_fitm(em: &mut Em, rng: &mut Rng) {
    let k = 2 + rng.below(5);
    let alpha = *rng.pick(&[0.0, 0.01, 0.1, 1.0, 1.0, 10.0]);
    let scale = *rng.pick(&[1.0, 1.0, 0.01, 10.0, 100.0]);
    let (x, y) = gen_class_data(rng, k, alpha == 0.0, scale, em.thorough());
    let nf = x[0].len();
    let icpt = rng.chance(2, 3);
    let ty = rng.below(2);
    let tol = *rng.pick(&[1e-4, 1e-4, 1e-6, 1e-2]);
    let init: Option<M> = if rng.chance(1, 4) { Some((0..nf + icpt as usize).map(|_| (0..k).map(|_| (rng.unit() - 0.5) / scale).collect()).collect()) } else { None };
    let class = format!("fitm:alpha={},icpt={},scale={}", if alpha == 0.0 { "0" } else { "pos" }, icpt as u8, scale);
    run_fitm(em, class, x, y, k, alpha, icpt, ty, tol, init);
}

fn run_fitm(em: &mut Em, class: String, x: M, y: Vec<usize>, k: usize, alpha: f64, icpt: bool, ty: usize, tol: f64, init: Option<M>) {
    let nf = x[0].len();
    let xbig: M = x.iter().take(4).map(|r| r.iter().map(|v| v * 1e3).collect()).collect();
    em.count(&format!("fitm:k={}", k));
    em.count(&class);
    let op = format!("#fitm ty={} k={} alpha={} icpt={} tol={} init={} x={} y={}", ty, k, alpha, icpt as u8, tol, init.as_ref().map_or("none".to_string(), |i| hx2(i)), hx2(&x), list(y.iter(), |c| c.to_string()));
    trace(&op);
    em.case_valid(op, &class.clone(), move |ctx| {
        let xa = arr2(&x, nf);
        let mut params = MultiLogisticRegression::default().alpha(alpha).with_intercept(icpt).gradient_tolerance(tol).max_iterations(10_000);
        if let Some(i) = &init {
            params = params.initial_params(arr2(i, k));
        }
        // class index -> rank in the order of the label type (the model's column order)
        let mut sorted: Vec<&str> = LABEL_NAMES[..k].to_vec();
        sorted.sort();
        let rank: Vec<usize> = (0..k).map(|c| if ty == 1 { sorted.iter().position(|s| *s == LABEL_NAMES[c]).unwrap() } else { c }).collect();
        let (w, b, classes, p_ext, c_ext): (M, Vec<f64>, Vec<usize>, M, Vec<usize>) = if ty == 0 {
            match params.fit(&Dataset::new(xa.clone(), Array1::from(y.clone()))) {
                Ok(m) => (to_m(m.params()), m.intercept().to_vec(), m.classes().to_vec(), to_m(&m.predict_probabilities(&arr2(&xbig, nf))), m.predict(&arr2(&xbig, nf)).to_vec()),
                Err(e) => {
                    ctx.fail("fit_succeeds", &class, format!("fit returned {}", format!("{:?}", e).lines().next().unwrap_or("").to_string()));
                    return "err".into();
                }
            }
        } else {
            let ys: Vec<String> = y.iter().map(|c| LABEL_NAMES[*c].to_string()).collect();
            let rk = |s: &String| sorted.iter().position(|n| n == s).unwrap();
            match params.fit(&Dataset::new(xa.clone(), Array1::from(ys))) {
                Ok(m) => (to_m(m.params()), m.intercept().to_vec(), m.classes().iter().map(rk).collect(), to_m(&m.predict_probabilities(&arr2(&xbig, nf))), m.predict(&arr2(&xbig, nf)).iter().map(rk).collect()),
                Err(e) => {
                    ctx.fail("fit_succeeds", &class, format!("fit returned {}", format!("{:?}", e).lines().next().unwrap_or("").to_string()));
                    return "err".into();
                }
            }
        };
        ctx.require(classes == (0..k).collect::<Vec<_>>(), "class_set", &class, || format!("classes() = {:?} for {} classes", classes, k));
        let cls: Vec<usize> = y.iter().map(|c| rank[*c]).collect();
        ctx.require(w.len() == nf && b.len() == k, "shape", &class, || format!("params {}x?, intercept {}", w.len(), b.len()));
        let (gw, gb) = doc_grad_m(&x, &cls, alpha, &w, &b);
        let mut g: Vec<f64> = gw.iter().flatten().cloned().collect();
        if icpt {
            g.extend(gb);
        } else {
            ctx.require(b.iter().all(|v| *v == 0.0), "no_intercept_means_zero", &class, || format!("intercept {:?} although fit_intercept = false", b));
        }
        let gn = norm2(&g);
        let floor = stagnation_floor(&x, icpt, alpha, 1.0, doc_loss_m(&x, &cls, alpha, &w, &b));
        ctx.require(gn <= tol * 1.0001 + floor, "stationary", &class, || format!("|gradient of the documented objective| = {:e} > gradient_tolerance {:e} (+ solver noise floor {:e})", gn, tol, floor));
        for (row, c) in p_ext.iter().zip(&c_ext) {
            ctx.require(row.iter().all(|q| *q >= 0.0 && *q <= 1.0), "proba_in_unit_interval", &class, || format!("probabilities {:?} on a 1e3-scaled row", row));
            ctx.require((row.iter().sum::<f64>() - 1.0).abs() <= 1e-12, "rows_sum_to_one", &class, || format!("probabilities {:?} sum to {}", row, row.iter().sum::<f64>()));
            let pm = row.iter().cloned().fold(f64::NEG_INFINITY, f64::max);
            ctx.require(*c < k && row[*c] == pm, "class_is_argmax_of_probabilities", &class, || format!("class {} with probabilities {:?}", c, row));
        }
        "ok".into()
    });
}

// ------------------------------------------------------------------ GLM

fn link_of(l: usize) -> Link {
    match l {
        0 => Link::Identity,
        1 => Link::Log,
        _ => Link::Logit,
    }
}
fn pick_power(rng: &mut Rng) -> f64 {
    *rng.pick(&[0.0, 1.0, 1.5, 1.25, 2.0, 3.0])
}
fn power_name(p: f64) -> &'static str {
    if p == 0.0 {
        "0"
    } else if p == 1.0 {
        "1"
    } else if p < 2.0 {
        "(1,2)"
    } else if p == 2.0 {
        "2"
    } else {
        "3"
    }
}

fn op_inrange(em: &mut Em, rng: &mut Rng) {
    let power = *rng.pick(&[0.0, 1.0, 1.5, 2.0, 3.0, 0.5, 0.999, 1.999, -1.0, 2.5]);
    let n = 1 + rng.below(5);
    let y: Vec<f64> = (0..n).map(|_| *rng.pick(&[0.0, 0.0, 0.5, 1.0, 2.0, 3.5, -1.0, -0.125, 1e-300])).collect();
    let op = format!("inrange power={} y={}", hex64(power), hx(&y));
    em.case(op, move |ctx| {
        match gh::in_range_hook(power, Array1::from(y.clone()).view()) {
            Err(_) => "err InvalidTweediePower".into(),
            Ok(b) => {
                let want = if power <= 0.0 { true } else if power < 2.0 { y.iter().all(|v| *v >= 0.0) } else { y.iter().all(|v| *v > 0.0) };
                ctx.require(b == want, "in_range_iff_support", &format!("glm:power={}", power), || format!("in_range({:?}) = {} for power {}", y, b, power));
                format!("ok {}", b)
            }
        }
    });
}

/// targets inside the support and means inside the domain of the deviance
fn gen_y_mu(rng: &mut Rng, power: f64, n: usize, lattice: bool) -> (Vec<f64>, Vec<f64>) {
    let pos = |rng: &mut Rng| if lattice { (1 + rng.below(32)) as f64 / 8.0 } else { 0.05 + rng.unit() * 5.0 };
    let y: Vec<f64> = (0..n)
        .map(|_| {
            if power == 0.0 {
                gen_val(rng, lattice, 5.0)
            } else if power < 2.0 && rng.chance(1, 4) {
                0.0
            } else {
                pos(rng)
            }
        })
        .collect();
    let mu: Vec<f64> = (0..n).map(|_| if power == 0.0 { gen_val(rng, lattice, 5.0) } else { pos(rng) }).collect();
    (y, mu)
}

fn op_dev(em: &mut Em, rng: &mut Rng, lattice: bool) {
    let power = if rng.chance(1, 12) { *rng.pick(&[0.5, 0.25]) } else { pick_power(rng) };
    let n = 1 + rng.below(6);
    let (y, mu) = gen_y_mu(rng, power, n, lattice);
    em.count(&format!("dev:power={}", power_name(power)));
    let args = format!("power={} y={} yp={}", hex64(power), hx(&y), hx(&mu));
    {
        let (y, mu) = (y.clone(), mu.clone());
        em.case(format!("dev {}", args), move |_ctx| match gh::deviance_hook(power, Array1::from(y.clone()).view(), Array1::from(mu.clone()).view()) {
            Err(_) => "err InvalidTweediePower".into(),
            Ok(d) => format!("ok {}", tf(d)),
        });
    }
    if !(power > 0.0 && power < 1.0) {
        em.case(format!("ddev {}", args), move |ctx| {
            let d = gh::deviance_derivative_hook(power, Array1::from(y.clone()).view(), Array1::from(mu.clone()).view()).unwrap().to_vec();
            for i in 0..y.len() {
                let f = |m: &[f64]| doc_unit_dev(power, y[i], m[0]);
                let want = fd(&f, &[mu[i]], 0);
                // the central difference is off by O(h^2) times the third derivative; scale the absolute slack with the curvature seen at this step
                let h = 1e-5 * (1.0 + mu[i].abs());
                let curv = ((f(&[mu[i] + h]) - 2.0 * f(&[mu[i]]) + f(&[mu[i] - h])) / (h * h)).abs();
                ctx.require(close(d[i], want, 1e-4, 1e-6 * (1.0 + curv)), "deviance_derivative_is_derivative_of_textbook_deviance", &format!("glm:power={}", power_name(power)), || format!("y={} mu={}: derivative {} vs finite difference {}", y[i], mu[i], d[i], want));
            }
            format!("ok {}", tfs(&d))
        });
    }
}

fn op_link(em: &mut Em, rng: &mut Rng) {
    let l = rng.below(3);
    let n = 1 + rng.below(5);
    let v: Vec<f64> = (0..n).map(|_| if rng.chance(1, 5) { *rng.pick(&[-1000.0, 1000.0, -40.0, 40.0, 0.0]) } else { lat(rng, 4) }).collect();
    let op = format!("link l={} v={}", l, hx(&v));
    em.case(op, move |ctx| {
        let a = Array1::from(v.clone());
        let inv = link_of(l).inverse(&a).to_vec();
        let der = link_of(l).inverse_derviative(&a).to_vec();
        for i in 0..v.len() {
            let ok = match l {
                0 => true,
                1 => inv[i] >= 0.0,
                _ => inv[i] >= 0.0 && inv[i] <= 1.0,
            };
            ctx.require(ok, "predictions_in_link_range", &format!("glm:link={}", l), || format!("inverse({}) = {}", v[i], inv[i]));
        }
        format!("ok inv={} der={}", tfs(&inv), tfs(&der))
    });
}

/// a GLM data set whose targets are in range and compatible with the link
fn gen_glm_data(rng: &mut Rng, power: f64, l: usize, n: usize, nf: usize, lattice: bool) -> (M, Vec<f64>) {
    let x: M = (0..n).map(|_| (0..nf).map(|_| if lattice { lat(rng, 2) } else { rng.unit() * 2.0 - 1.0 }).collect()).collect();
    let beta: Vec<f64> = (0..nf).map(|_| rng.unit() * 0.6 - 0.3).collect();
    let y: Vec<f64> = x
        .iter()
        .map(|row| {
            let eta: f64 = row.iter().zip(&beta).map(|(a, b)| a * b).sum();
            let noise = 0.8 + 0.4 * rng.unit();
            let v = match l {
                0 => (3.0 + eta) * noise,
                1 => (0.5 + eta).exp() * noise,
                _ => (sigmoid(eta) * noise).min(0.95).max(0.05),
            };
            let v = if power == 0.0 && l == 0 { v - 3.0 } else { v };
            if lattice {
                let q = (v * 8.0).round() / 8.0;
                if power > 0.0 && q <= 0.0 { 0.125 } else { q }
            } else {
                v
            }
        })
        .collect();
    (x, y)
}

fn op_gcost_ggrad(em: &mut Em, rng: &mut Rng, lattice: bool) {
    let power = pick_power(rng);
    let l = rng.below(3);
    let n = 2 + rng.below(6);
    let nf = 1 + rng.below(3);
    let icpt = rng.coin();
    let alpha = if lattice { *rng.pick(&[0.0, 0.5, 1.0, 2.0]) } else { rng.unit() * 2.0 };
    let (x, y) = gen_glm_data(rng, power, l, n, nf, lattice);
    // parameters near the start point, small coefficients: mean stays inside the domain
    let mut p: Vec<f64> = vec![];
    if icpt {
        p.push(match l {
            0 => 3.0,
            1 => 0.5,
            _ => 0.0,
        });
    }
    for _ in 0..nf {
        p.push(if lattice { lat(rng, 1) / 8.0 } else { (rng.unit() - 0.5) * 0.2 });
    }
    if !icpt && l == 0 && power > 0.0 {
        // identity link without intercept: keep the mean positive through the first coefficient
        return;
    }
    em.count(&format!("glm:power={},link={}", power_name(power), l));
    let args = format!("l={} power={} alpha={} icpt={} nf={} x={} y={} p={}", l, hex64(power), hex64(alpha), icpt as u8, nf, hx2(&x), hx(&y), hx(&p));
    {
        let (x, y, p) = (x.clone(), y.clone(), p.clone());
        em.case(format!("gcost {}", args), move |_ctx| {
            match gh::tweedie_cost_hook(&arr2(&x, nf), &Array1::from(y.clone()), icpt, link_of(l), power, alpha, &Array1::from(p.clone())) {
                Err(_) => "err InvalidTweediePower".into(),
                Ok(c) => format!("ok {}", tf(c)),
            }
        });
    }
    em.case(format!("ggrad {}", args), move |ctx| {
        let g = gh::tweedie_gradient_hook(&arr2(&x, nf), &Array1::from(y.clone()), icpt, link_of(l), power, alpha, &Array1::from(p.clone())).unwrap().to_vec();
        let class = format!("glm:power={},link={},icpt={}", power_name(power), l, icpt as u8);
        let off = icpt as usize;
        let f = |q: &[f64]| doc_glm_obj(power, link_of(l), alpha, &x, &y, &q[off..], if icpt { q[0] } else { 0.0 });
        let sc = 1.0 + norm2(&g);
        if g.iter().all(|v| v.is_finite()) {
            for i in 0..g.len() {
                let d = fd(&f, &p, i);
                ctx.require(close(g[i], d, 1e-4, 1e-5 * sc), "grad_matches_finite_difference", &class, || format!("coordinate {}: gradient {} vs finite difference of 1/2(deviance + alpha |w|^2) {}", i, g[i], d));
            }
        }
        format!("ok {}", tfs(&g))
    });
}

fn op_gpredict(em: &mut Em, rng: &mut Rng) {
    let l = rng.below(3);
    let n = 1 + rng.below(5);
    let nf = 1 + rng.below(3);
    let x = gen_mat(rng, n, nf, true, 1.0);
    let big = *rng.pick(&[1i64, 8, 64]);
    let coef: Vec<f64> = (0..nf).map(|_| rng.range(-big, big) as f64).collect();
    let b = rng.range(-big, big) as f64 / 2.0;
    let op = format!("gpredict l={} x={} coef={} b={}", l, hx2(&x), hx(&coef), hex64(b));
    em.case_valid(op, "gpredict", move |ctx| {
        // a fitted regressor with these parameters: fit something tiny with the link, then overwrite the public fields
        let ds = Dataset::new(Array2::from_shape_fn((3, nf), |(i, j)| ((i + j) % 3) as f64 * 0.1), Array1::from(vec![0.4, 0.5, 0.6]));
        let mut m = TweedieRegressor::params().power(0.0).link(link_of(l)).alpha(1.0).fit(&ds).unwrap();
        m.coef = Array1::from(coef.clone());
        m.intercept = b;
        let out = m.predict(&arr2(&x, nf)).to_vec();
        for v in &out {
            let ok = match l {
                0 => v.is_finite(),
                1 => *v >= 0.0,
                _ => *v >= 0.0 && *v <= 1.0,
            };
            ctx.require(ok, "predictions_in_link_range", &format!("glm:link={}", l), || format!("prediction {} outside the range of link {}", v, l));
        }
        format!("ok {}", tfs(&out))
    });
}


/// Watchdog: re-runs case `idx` of this very run in a child process (`--only idx`) and reports whether
/// it returned within `secs` seconds.  Used for the GLM configurations whose mean can leave the domain
/// of the deviance (identity link, power >= 1), where the real `fit` may never return.
fn child_finishes(idx: usize, tier: &str, secs: u64) -> bool {
    let args: Vec<String> = std::env::args().collect();
    let seed = args.get(3).cloned().unwrap_or_else(|| "1".into());
    let dir = std::env::temp_dir().join(format!("hx_c12_child_{}_{}", std::process::id(), idx));
    let child = std::process::Command::new(std::env::current_exe().unwrap())
        .args(["C12", tier, &seed, dir.to_str().unwrap(), "--only", &idx.to_string()])
        .env("C12_CHILD", "1")
        .stdout(std::process::Stdio::null())
        .stderr(std::process::Stdio::null())
        .spawn();
    let mut child = match child {
        Ok(c) => c,
        Err(_) => return true,
    };
    let deadline = std::time::Instant::now() + std::time::Duration::from_secs(secs);
    let mut done = false;
    while std::time::Instant::now() < deadline {
        if let Ok(Some(_)) = child.try_wait() {
            done = true;
            break;
        }
        std::thread::sleep(std::time::Duration::from_millis(10));
    }
    if !done {
        let _ = child.kill();
        let _ = child.wait();
    }
    let _ = std::fs::remove_dir_all(&dir);
    done
}

fn op_glmfit(em: &mut Em, rng: &mut Rng) {
    let power = pick_power(rng);
    let l = rng.below(3);
    let n = 6 + rng.below(if em.thorough() { 60 } else { 20 });
    let nf = 1 + rng.below(3);
    let icpt = rng.chance(2, 3);
    let alpha = *rng.pick(&[0.0, 0.01, 0.1, 1.0, 1.0]);
    let tol = *rng.pick(&[1e-4, 1e-4, 1e-6]);
    let (x, mut y) = gen_glm_data(rng, power, l, n, nf, false);
    // a share of out-of-support targets: must be rejected with an error
    let bad = power > 0.0 && rng.chance(1, 8);
    if bad {
        let i = rng.below(n);
        y[i] = if power >= 2.0 && rng.coin() { 0.0 } else { -0.5 };
    }
    run_glmfit(em, power, l, icpt, alpha, tol, bad, x, y);
}

fn run_glmfit(em: &mut Em, power: f64, l: usize, icpt: bool, alpha: f64, tol: f64, bad: bool, x: M, y: Vec<f64>) {
    let nf = x[0].len();
    let class = format!("glmfit:power={},link={},icpt={}", power_name(power), l, icpt as u8);
    em.count(&class);
    if bad {
        em.count("glmfit:target_out_of_support");
    }
    let op = format!("#glmfit power={} l={} icpt={} alpha={} tol={} bad={} x={} y={}", power, l, icpt as u8, alpha, tol, bad as u8, hx2(&x), hx(&y));
    let class_v = class.clone();
    trace(&op);
    // identity link with power >= 1: the mean can reach <= 0, where the deviance is undefined
    let risky = l == 0 && power > 0.0 && !bad;
    let mut hangs = false;
    if risky && std::env::var("C12_CHILD").is_err() && em.only.map_or(true, |o| o == em.idx) {
        let timeouts = *em.dist.get("glmfit:watchdog_timeout").unwrap_or(&0);
        if timeouts >= if em.thorough() { 6 } else { 2 } {
            // enough witnesses of the non-termination in this run; do not spend more time on it
            em.count("glmfit:skipped_after_watchdog_timeouts");
            return;
        }
        let tier = em.tier.clone();
        hangs = !child_finishes(em.idx, &tier, 5);
        if hangs {
            em.count("glmfit:watchdog_timeout");
        }
    }
    let body = move |ctx: &mut Ctx| {
        if hangs {
            ctx.fail("terminates", &class, "fit did not return within 5 s (watchdog child process killed); start point has mean <= 0 or the line search left the domain of the deviance".to_string());
            return "timeout".into();
        }
        let ds = Dataset::new(arr2(&x, nf), Array1::from(y.clone()));
        let res = TweedieRegressor::params().power(power).link(link_of(l)).alpha(alpha).fit_intercept(icpt).tol(tol).max_iter(10_000).fit(&ds);
        if bad {
            ctx.require(matches!(res, Err(linfa_linear::LinearError::InvalidTargetRange(_))), "rejects_out_of_support_targets", &format!("glmfit:power={}", power_name(power)), || format!("fit on targets {:?} returned {:?}", y, res.as_ref().map(|m| m.coef.to_vec())));
            return "ok".into();
        }
        match res {
            Err(e) => {
                ctx.fail("fit_succeeds", &class, format!("fit returned {}", format!("{:?}", e).lines().next().unwrap_or("").to_string()));
                "err".into()
            }
            Ok(m) => {
                let coef = m.coef.to_vec();
                let b = m.intercept;
                let (gw, gb) = doc_glm_grad(power, link_of(l), alpha, &x, &y, &coef, b);
                let mut g = gw;
                if icpt {
                    g.push(gb);
                }
                let gn = norm2(&g);
                // curvature bound of the unit deviance along the fit: 2 (1 + max|y|) / min(mu, 1)^(power+1) is generous for these data
                let ymax = y.iter().cloned().fold(0.0, |a: f64, b: f64| a.max(b.abs()));
                let floor = stagnation_floor(&x, icpt, alpha, 2.0 * (1.0 + ymax) * 20.0, doc_glm_obj(power, link_of(l), alpha, &x, &y, &coef, b));
                ctx.require(gn <= tol * 1.0001 + floor, "stationary", &class, || format!("|gradient of 1/2(deviance + alpha |w|^2)| = {:e} > tol {:e} (+ solver noise floor {:e}) at coef={:?} intercept={}", gn, tol, floor, coef, b));
                let pr = m.predict(&arr2(&x, nf)).to_vec();
                for v in &pr {
                    let ok = match l {
                        0 => v.is_finite(),
                        1 => *v >= 0.0,
                        _ => *v >= 0.0 && *v <= 1.0,
                    };
                    ctx.require(ok, "predictions_in_link_range", &class, || format!("prediction {}", v));
                }
                "ok".into()
            }
        }
    };
    if bad {
        em.case(op, body)
    } else {
        em.case_valid(op, &class_v, body)
    }
}

// ------------------------------------------------------------------ run

pub fn run(em: &mut Em, rng: &mut Rng) {
    let f = if em.thorough() { 10 } else { 1 };
    // label coding: exhaustive over short label vectors over 3 symbols, plus random longer ones
    let lmax = if em.thorough() { 7 } else { 5 };
    for len in 0..=lmax {
        let mut idx = vec![0usize; len];
        loop {
            let ty = if idx.iter().all(|c| *c < 2) { (len + idx.iter().sum::<usize>()) % 3 } else { (len + idx.iter().sum::<usize>()) % 2 };
            op_label2(em, idx.clone(), ty);
            if len > 0 {
                op_labelm(em, idx.clone(), ty % 2);
            }
            let mut i = 0;
            while i < len {
                idx[i] += 1;
                if idx[i] < 3 {
                    break;
                }
                idx[i] = 0;
                i += 1;
            }
            if i == len {
                break;
            }
        }
    }
    for _ in 0..100 * f {
        let len = 1 + rng.below(14);
        let k = 2 + rng.below(4);
        let y: Vec<usize> = (0..len).map(|_| if rng.chance(1, 3) { 0 } else { rng.below(k) }).collect();
        if k == 2 || rng.chance(1, 4) {
            let y2: Vec<usize> = y.iter().map(|c| c % 2).collect();
            op_label2(em, y2, rng.below(3));
        } else {
            op_label2(em, y.clone(), rng.below(2));
        }
        op_labelm(em, y, rng.below(2));
    }
    // scalar functions incl. the extremes
    op_sfn(em, "logistic", vec![0.0, 1.0, -1.0, 36.0, -36.0, 709.0, -709.0, 710.0, -710.0, 745.5, -745.5, 1000.0, -1000.0, 1e300, -1e300]);
    op_sfn(em, "loglogistic", vec![0.0, 1.0, -1.0, 36.0, -36.0, 709.0, -709.0, 1000.0, -1000.0, 1e-300, -1e-300]);
    for _ in 0..40 * f {
        let n = 1 + rng.below(6);
        let v: Vec<f64> = (0..n).map(|_| if rng.coin() { lat(rng, 8) } else { (rng.unit() * 2.0 - 1.0) * 1e3 }).collect();
        op_sfn(em, if rng.coin() { "logistic" } else { "loglogistic" }, v);
    }
    for _ in 0..60 * f {
        let n = 1 + rng.below(6);
        let sc = *rng.pick(&[1i64, 8, 100, 1000]);
        let v: Vec<f64> = (0..n).map(|_| rng.range(-8 * sc, 8 * sc) as f64 / 8.0).collect();
        op_softmax(em, v);
        let rows = 1 + rng.below(4);
        let k = 1 + rng.below(4);
        let m: M = (0..rows).map(|_| (0..k).map(|_| rng.range(-8 * sc, 8 * sc) as f64 / 8.0).collect()).collect();
        op_lse(em, m);
    }
    for i in 0..150 * f {
        op_loss_grad(em, rng, i % 3 != 2);
        op_mloss_mgrad(em, rng, i % 3 != 2);
    }
    for _ in 0..100 * f {
        op_predict2(em, rng);
        op_predictm(em, rng);
    }
    // GLM pieces
    for _ in 0..80 * f {
        op_inrange(em, rng);
        op_link(em, rng);
        op_gpredict(em, rng);
    }
    for i in 0..150 * f {
        op_dev(em, rng, i % 3 != 2);
        op_gcost_ggrad(em, rng, i % 3 != 2);
    }
    // fits: first the witnesses of the two repaired defects (they fail again if a fix is reverted)
    {
        // Poisson cost without the factor 2 on (mu - y): cost and gradient inconsistent, the line search stops early
        let x: M = (0..8).map(|i| vec![(i as f64) / 4.0 - 1.0]).collect();
        let y = vec![1.0, 3.0, 2.0, 2.0, 4.0, 3.0, 6.0, 5.0];
        for l in [1usize, 2, 0] {
            let yy: Vec<f64> = if l == 2 { y.iter().map(|v| v / 8.0).collect() } else { y.clone() };
            run_glmfit(em, 1.0, l, true, 0.1, 1e-6, false, x.clone(), yy);
        }
        // log_sum_exp with the max of the whole matrix: rows far below it underflow, the gradient is wrong
        let x: M = [-117.2, -131.9, 151.0, -74.3, 87.9, -149.4, -58.0].iter().map(|v| vec![*v]).collect();
        run_fitm(em, "fitm:alpha=pos,icpt=1,scale=100".to_string(), x.clone(), vec![1, 2, 3, 0, 0, 4, 0], 5, 0.1, true, 0, 1e-4, None);
        run_fitm(em, "fitm:alpha=pos,icpt=1,scale=100".to_string(), x, vec![1, 2, 3, 0, 0, 4, 0], 5, 0.1, true, 1, 1e-4, Some(vec![vec![0.001, -0.002, 0.0, 0.003, -0.001], vec![0.0; 5]]));
    }
    for _ in 0..60 * f {
        op_fit2(em, rng);
        op_fitm(em, rng);
        op_glmfit(em, rng);
    }
}
