//! C12 — logistic regression (binary, multinomial) and Tweedie GLM.
//!
//! Correspondence ops (model = lean/LinfaSpec/Model/{Logistic,Glm}.lean): label coding, scalar
//! functions, loss/gradient of both logistic problems, prediction at |x.w| ~ 1e3, Tweedie deviance,
//! derivative, links, cost and gradient — all through the cfg-guarded hooks `verif_hooks_c12`.
//! Oracle-only ops (`#fit2`, `#fitm`, `#glmfit`): the real `fit`, then the gradient of the DOCUMENTED
//! objective recomputed here from the textbook formulas at the returned parameters.
use crate::util::*;
use linfa::prelude::*;
use linfa::traits::{Fit, Predict};
use linfa_linear::verif_hooks_c12 as gh;
use linfa_linear::{Link, TweedieRegressor};
use linfa_logistic::verif_hooks_c12 as lh;
use linfa_logistic::{LogisticRegression, MultiLogisticRegression};
use ndarray::{s, Array1, Array2, ArrayView1, ArrayView2, ShapeBuilder};

#[path = "c12_ext.rs"]
mod ext;

type M = Vec<Vec<f64>>;

/// `C12_TRACE=1` prints every fit request to stderr before it runs (to locate a hanging case)
fn trace(op: &str) {
    if std::env::var("C12_TRACE").is_ok() {
        eprintln!("{}", &op[..op.len().min(200)]);
    }
}

fn tf(x: f64) -> String {
    format!("~{}", hex64c(x))
}
fn tfs(v: &[f64]) -> String {
    list(v.iter(), |x| tf(*x))
}
fn tfs2(m: &M) -> String {
    list2(m.iter().map(|r| r.iter()), |x| tf(*x))
}
fn hx(v: &[f64]) -> String {
    list(v.iter(), |x| hex64(*x))
}
fn hx2(m: &M) -> String {
    list2(m.iter().map(|r| r.iter()), |x| hex64(*x))
}
fn arr2(m: &M, ncols: usize) -> Array2<f64> {
    Array2::from_shape_fn((m.len(), ncols), |(i, j)| m[i][j])
}
fn to_m(a: &Array2<f64>) -> M {
    a.rows().into_iter().map(|r| r.to_vec()).collect()
}
/// the matrix `m` stored in one of several memory layouts; `view()` always shows the same logical matrix.
/// 0: standard (C order), 1: Fortran order, 2: every second row and column of a larger NaN-filled
/// array (strided view), 3: rows stored in reverse (negative row stride)
pub struct Lay {
    base: Array2<f64>,
    lay: usize,
}
impl Lay {
    pub fn new(m: &M, ncols: usize, lay: usize) -> Lay {
        let n = m.len();
        let base = match lay {
            0 => arr2(m, ncols),
            1 => Array2::from_shape_fn((n, ncols).f(), |(i, j)| m[i][j]),
            2 => Array2::from_shape_fn((2 * n, 2 * ncols), |(i, j)| if i % 2 == 0 && j % 2 == 0 { m[i / 2][j / 2] } else { f64::NAN }),
            _ => Array2::from_shape_fn((n, ncols), |(i, j)| m[n - 1 - i][j]),
        };
        Lay { base, lay }
    }
    pub fn view(&self) -> ArrayView2<'_, f64> {
        match self.lay {
            0 | 1 => self.base.view(),
            2 => self.base.slice(s![..;2, ..;2]),
            _ => self.base.slice(s![..;-1, ..]),
        }
    }
}
/// targets in one of three memory layouts; `view()` always shows the same logical vector.
/// 0: owned contiguous, 1: every second element of a longer array (stride 2; the elements in between are `filler`, a value
/// that changes the outcome if raw memory is read instead of the view), 2: stored in reverse (stride -1)
pub struct TLay<C> {
    base: Array1<C>,
    tlay: usize,
}
impl<C: Clone> TLay<C> {
    pub fn new(y: &[C], filler: C, tlay: usize) -> TLay<C> {
        let n = y.len();
        let base = match tlay {
            1 => Array1::from_shape_fn(2 * n, |i| if i % 2 == 0 { y[i / 2].clone() } else { filler.clone() }),
            2 => Array1::from_shape_fn(n, |i| y[n - 1 - i].clone()),
            _ => Array1::from(y.to_vec()),
        };
        TLay { base, tlay }
    }
    pub fn view(&self) -> ArrayView1<'_, C> {
        match self.tlay {
            1 => self.base.slice(s![..;2]),
            2 => self.base.slice(s![..;-1]),
            _ => self.base.view(),
        }
    }
}
/// runs `f` (a real fit whose result is needed to BUILD the next request line) only if the next case is selected
/// (`--only`), under `catch_unwind`; `None` = not selected, panicked or no result
pub fn pre<R>(em: &Em, f: impl FnOnce() -> Option<R>) -> Option<R> {
    if !em.only.map_or(true, |o| o == em.idx) {
        return None;
    }
    std::panic::catch_unwind(std::panic::AssertUnwindSafe(f)).ok().flatten()
}
fn norm2(v: &[f64]) -> f64 {
    v.iter().map(|x| x * x).sum::<f64>().sqrt()
}

/// dyadic lattice value k/8, |k| <= 8*range
fn lat(rng: &mut Rng, range: i64) -> f64 {
    rng.range(-8 * range, 8 * range) as f64 / 8.0
}
fn gen_val(rng: &mut Rng, lattice: bool, scale: f64) -> f64 {
    if lattice {
        lat(rng, 4)
    } else {
        (rng.unit() * 2.0 - 1.0) * scale
    }
}
fn gen_mat(rng: &mut Rng, n: usize, p: usize, lattice: bool, scale: f64) -> M {
    (0..n).map(|_| (0..p).map(|_| gen_val(rng, lattice, scale)).collect()).collect()
}

// ------------------------------------------------------------------ label coding

fn op_label2(em: &mut Em, y: Vec<usize>, ty: usize) {
    let op = format!("label2 y={} ty={}", list(y.iter(), |v| v.to_string()), ty);
    em.count(&format!("label2:ty={}", ty));
    {
        let mut d: Vec<usize> = y.clone();
        d.sort();
        d.dedup();
        if d.len() == 2 && 2 * y.iter().filter(|c| **c == d[0]).count() == y.len() {
            em.count("label2:balanced_classes");
        }
    }
    let names = ["pear", "apple", "zebra", "fig", "kiwi"];
    em.case(op, move |ctx| {
        let res: Result<(usize, usize, Vec<f64>), String> = match ty {
            0 => lh::label_classes_hook(&Array1::from(y.clone())).map(|(p, n, t)| (p, n, t.to_vec())).map_err(|e| format!("{:?}", e)),
            1 => {
                let ys: Vec<String> = y.iter().map(|c| names[*c].to_string()).collect();
                let back = |s: &String| names.iter().position(|n| n == s).unwrap();
                lh::label_classes_hook(&Array1::from(ys)).map(|(p, n, t)| (back(&p), back(&n), t.to_vec())).map_err(|e| format!("{:?}", e))
            }
            _ => {
                let yb: Vec<bool> = y.iter().map(|c| *c == 1).collect();
                lh::label_classes_hook(&Array1::from(yb)).map(|(p, n, t)| (p as usize, n as usize, t.to_vec())).map_err(|e| format!("{:?}", e))
            }
        };
        match res {
            Err(e) => format!("err {}", e),
            Ok((pos, neg, t)) => {
                // oracle: +-1 coding, positive = pos class, pos at least as frequent, class set
                let cp = y.iter().filter(|c| **c == pos).count();
                let cn = y.iter().filter(|c| **c == neg).count();
                ctx.require(pos != neg && cp + cn == y.len() && cp > 0 && cn > 0, "class_set", "label2", || format!("pos={} neg={} y={:?}", pos, neg, y));
                ctx.require(cp >= cn, "larger_class_positive", "label2", || format!("pos={} ({}x) neg={} ({}x)", pos, cp, neg, cn));
                ctx.require(t.len() == y.len() && t.iter().zip(y.iter()).all(|(t, c)| *t == if *c == pos { 1.0 } else { -1.0 }), "labels_pm_one", "label2", || format!("targets {:?} for y={:?} pos={}", t, y, pos));
                if cp == cn {
                    // both classes equally frequent: the statement fixes the class set and a +-1 coding, not which of
                    // the two is called positive -> compared up to the swap (targets normalised to start with +1)
                    let sgn = if t.first().map_or(false, |v| *v < 0.0) { -1.0 } else { 1.0 };
                    return format!("ok tie classes={},{} t={}", pos.min(neg), pos.max(neg), list(t.iter(), |v| ((*v * sgn) as i64).to_string()));
                }
                format!("ok pos={} neg={} t={}", pos, neg, list(t.iter(), |v| (*v as i64).to_string()))
            }
        }
    });
}

fn op_labelm(em: &mut Em, y: Vec<usize>, ty: usize) {
    // ty 0: usize; 1: strings named so that the string order differs from the generation order —
    // the request carries the ranks under the string order, so the model sees what the code sees
    let names = ["pear", "apple", "zebra", "fig", "kiwi", "date"];
    let mut sorted: Vec<&str> = names.to_vec();
    sorted.sort();
    let rank = |c: usize| sorted.iter().position(|s| *s == names[c]).unwrap();
    let yr: Vec<usize> = if ty == 1 { y.iter().map(|c| rank(*c)).collect() } else { y.clone() };
    let op = format!("labelm y={} ty={}", list(yr.iter(), |v| v.to_string()), ty);
    em.count(&format!("labelm:ty={}", ty));
    em.case(op, move |ctx| {
        let (classes, onehot): (Vec<usize>, Array2<f64>) = if ty == 1 {
            let ys: Vec<String> = y.iter().map(|c| names[*c].to_string()).collect();
            let (cl, oh) = lh::label_classes_multi_hook(&Array1::from(ys)).unwrap();
            (cl.iter().map(|s| sorted.iter().position(|t| t == s).unwrap()).collect(), oh)
        } else {
            lh::label_classes_multi_hook(&Array1::from(y.clone())).unwrap()
        };
        let mut want = yr.clone();
        want.sort();
        want.dedup();
        ctx.require(classes == want, "classes_sorted_dedup", "labelm", || format!("classes {:?}, want {:?}", classes, want));
        for (i, c) in yr.iter().enumerate() {
            let row = onehot.row(i);
            let ok = row.len() == classes.len() && row.iter().enumerate().all(|(j, v)| *v == if classes[j] == *c { 1.0 } else { 0.0 });
            ctx.require(ok, "onehot_row", "labelm", || format!("row {} = {:?} for class {} of {:?}", i, row, c, classes));
        }
        format!("ok classes={} onehot={}", list(classes.iter(), |v| v.to_string()), list2(onehot.rows().into_iter().map(|r| r.to_vec()), |v| (v as i64).to_string()))
    });
}

// ------------------------------------------------------------------ textbook formulas (oracle side)

/// ln(1 + e^t), stable
fn softplus(t: f64) -> f64 {
    if t > 0.0 {
        t + (-t).exp().ln_1p()
    } else {
        t.exp().ln_1p()
    }
}
fn sigmoid(t: f64) -> f64 {
    if t >= 0.0 {
        1.0 / (1.0 + (-t).exp())
    } else {
        let e = t.exp();
        e / (1.0 + e)
    }
}
/// documented binary objective: sum_i ln(1 + exp(-y_i (x_i.w + b))) + alpha/2 |w|^2
fn doc_loss2(x: &M, y: &[f64], alpha: f64, w: &[f64], b: f64) -> f64 {
    let mut s = 0.0;
    for (row, yi) in x.iter().zip(y) {
        let z: f64 = row.iter().zip(w).map(|(a, b)| a * b).sum::<f64>() + b;
        s += softplus(-yi * z);
    }
    s + 0.5 * alpha * w.iter().map(|v| v * v).sum::<f64>()
}
/// its gradient: (d/dw, d/db)
fn doc_grad2(x: &M, y: &[f64], alpha: f64, w: &[f64], b: f64) -> (Vec<f64>, f64) {
    let mut gw: Vec<f64> = w.iter().map(|v| alpha * v).collect();
    let mut gb = 0.0;
    for (row, yi) in x.iter().zip(y) {
        let z: f64 = row.iter().zip(w).map(|(a, b)| a * b).sum::<f64>() + b;
        let r = -yi * sigmoid(-yi * z);
        for (g, a) in gw.iter_mut().zip(row) {
            *g += r * a;
        }
        gb += r;
    }
    (gw, gb)
}
fn softmax_row(h: &[f64]) -> Vec<f64> {
    let m = h.iter().cloned().fold(f64::NEG_INFINITY, f64::max);
    let e: Vec<f64> = h.iter().map(|v| (v - m).exp()).collect();
    let s: f64 = e.iter().sum();
    e.iter().map(|v| v / s).collect()
}
/// documented multinomial objective: -sum_i ln softmax(x_i W + b)[c_i] + alpha/2 |W|^2
fn doc_loss_m(x: &M, cls: &[usize], alpha: f64, w: &M, b: &[f64]) -> f64 {
    let k = b.len();
    let mut s = 0.0;
    for (row, c) in x.iter().zip(cls) {
        let h: Vec<f64> = (0..k).map(|c| row.iter().enumerate().map(|(j, a)| a * w[j][c]).sum::<f64>() + b[c]).collect();
        let m = h.iter().cloned().fold(f64::NEG_INFINITY, f64::max);
        let lse = m + h.iter().map(|v| (v - m).exp()).sum::<f64>().ln();
        s += lse - h[*c];
    }
    s + 0.5 * alpha * w.iter().flatten().map(|v| v * v).sum::<f64>()
}
fn doc_grad_m(x: &M, cls: &[usize], alpha: f64, w: &M, b: &[f64]) -> (M, Vec<f64>) {
    let k = b.len();
    let mut gw: M = w.iter().map(|r| r.iter().map(|v| alpha * v).collect()).collect();
    let mut gb = vec![0.0; k];
    for (row, ci) in x.iter().zip(cls) {
        let h: Vec<f64> = (0..k).map(|c| row.iter().enumerate().map(|(j, a)| a * w[j][c]).sum::<f64>() + b[c]).collect();
        let p = softmax_row(&h);
        for c in 0..k {
            let d = p[c] - if c == *ci { 1.0 } else { 0.0 };
            for (j, a) in row.iter().enumerate() {
                gw[j][c] += a * d;
            }
            gb[c] += d;
        }
    }
    (gw, gb)
}

/// textbook Tweedie unit deviance
fn doc_unit_dev(power: f64, y: f64, mu: f64) -> f64 {
    if power == 0.0 {
        (y - mu) * (y - mu)
    } else if power == 1.0 {
        2.0 * ((if y == 0.0 { 0.0 } else { y * (y / mu).ln() }) - y + mu)
    } else if power == 2.0 {
        2.0 * ((mu / y).ln() + y / mu - 1.0)
    } else {
        2.0 * (y.max(0.0).powf(2.0 - power) / ((1.0 - power) * (2.0 - power)) - y * mu.powf(1.0 - power) / (1.0 - power) + mu.powf(2.0 - power) / (2.0 - power))
    }
}
fn doc_link_inv(l: Link, eta: f64) -> f64 {
    match l {
        Link::Identity => eta,
        Link::Log => eta.exp(),
        Link::Logit => sigmoid(eta),
    }
}
fn doc_link_inv_der(l: Link, eta: f64) -> f64 {
    match l {
        Link::Identity => 1.0,
        Link::Log => eta.exp(),
        Link::Logit => sigmoid(eta) * sigmoid(-eta),
    }
}
/// documented GLM objective 1/2 (deviance + alpha |coef|^2)
fn doc_glm_obj(power: f64, l: Link, alpha: f64, x: &M, y: &[f64], coef: &[f64], b: f64) -> f64 {
    let mut dev = 0.0;
    for (row, yi) in x.iter().zip(y) {
        let eta: f64 = row.iter().zip(coef).map(|(a, c)| a * c).sum::<f64>() + b;
        dev += doc_unit_dev(power, *yi, doc_link_inv(l, eta));
    }
    0.5 * (dev + alpha * coef.iter().map(|v| v * v).sum::<f64>())
}
/// its gradient (d/dcoef, d/db), d(unit deviance)/dmu = -2 (y - mu) / mu^power
fn doc_glm_grad(power: f64, l: Link, alpha: f64, x: &M, y: &[f64], coef: &[f64], b: f64) -> (Vec<f64>, f64) {
    let mut gw: Vec<f64> = coef.iter().map(|v| alpha * v).collect();
    let mut gb = 0.0;
    for (row, yi) in x.iter().zip(y) {
        let eta: f64 = row.iter().zip(coef).map(|(a, c)| a * c).sum::<f64>() + b;
        let mu = doc_link_inv(l, eta);
        let r = 0.5 * (-2.0) * (yi - mu) / mu.powf(power) * doc_link_inv_der(l, eta);
        for (g, a) in gw.iter_mut().zip(row) {
            *g += r * a;
        }
        gb += r;
    }
    (gw, gb)
}

/// Noise floor of the trusted solver: argmin's L-BFGS also reports convergence once a step changes
/// the cost by less than f64 epsilon, i.e. once |g|^2 / |H| drops below epsilon; |H| is bounded by
/// `hbound` (sum of squared row norms (+ n for the intercept) + alpha, times the curvature bound
/// of the loss); a cost change is invisible below ulp(cost) ~ eps * |cost|.  The oracle accepts
/// `tol + 4 sqrt(eps * max(1, |cost|) * hbound)`.
fn stagnation_floor(x: &M, icpt: bool, alpha: f64, curv: f64, cost: f64) -> f64 {
    let s: f64 = x.iter().map(|r| r.iter().map(|v| v * v).sum::<f64>() + if icpt { 1.0 } else { 0.0 }).sum();
    4.0 * (f64::EPSILON * cost.abs().max(1.0) * (curv * s + alpha)).sqrt()
}

/// central finite difference of `f` along coordinate `i` of `p`
fn fd(f: &dyn Fn(&[f64]) -> f64, p: &[f64], i: usize) -> f64 {
    let h = 1e-5 * (1.0 + p[i].abs());
    let mut a = p.to_vec();
    let mut b = p.to_vec();
    a[i] += h;
    b[i] -= h;
    (f(&a) - f(&b)) / (2.0 * h)
}
fn close(a: f64, b: f64, rel: f64, abs: f64) -> bool {
    (a - b).abs() <= abs + rel * a.abs().max(b.abs())
}

// ------------------------------------------------------------------ scalar functions

fn op_sfn(em: &mut Em, f: &str, v: Vec<f64>) {
    let op = format!("sfn f={} v={}", f, hx(&v));
    let f = f.to_string();
    em.case(op, move |ctx| {
        let out: Vec<f64> = v.iter().map(|x| if f == "logistic" { lh::logistic_hook(*x) } else { lh::log_logistic_hook(*x) }).collect();
        for (x, o) in v.iter().zip(&out) {
            if f == "logistic" {
                ctx.require(*o >= 0.0 && *o <= 1.0, "proba_in_unit_interval", "logistic", || format!("logistic({}) = {}", x, o));
            } else {
                ctx.require(close(*o, -softplus(-x), 1e-12, 1e-15), "log_logistic_is_log_of_logistic", "log_logistic", || format!("log_logistic({}) = {}, want {}", x, o, -softplus(-x)));
            }
        }
        format!("ok {}", tfs(&out))
    });
}

fn op_softmax(em: &mut Em, v: Vec<f64>) {
    let op = format!("softmax v={}", hx(&v));
    em.case(op, move |ctx| {
        let out = lh::softmax_hook(&Array1::from(v.clone())).to_vec();
        ctx.require(out.iter().all(|p| *p >= 0.0 && *p <= 1.0), "proba_in_unit_interval", "softmax", || format!("softmax({:?}) = {:?}", v, out));
        ctx.require((out.iter().sum::<f64>() - 1.0).abs() <= 1e-12, "rows_sum_to_one", "softmax", || format!("softmax({:?}) sums to {}", v, out.iter().sum::<f64>()));
        format!("ok {}", tfs(&out))
    });
}

fn op_lse(em: &mut Em, m: M) {
    let k = m[0].len();
    let op = format!("lse m={}", hx2(&m));
    em.case(op, move |ctx| {
        let out = lh::log_sum_exp_rows_hook(&arr2(&m, k)).to_vec();
        for (row, o) in m.iter().zip(&out) {
            let mx = row.iter().cloned().fold(f64::NEG_INFINITY, f64::max);
            let want = mx + row.iter().map(|v| (v - mx).exp()).sum::<f64>().ln();
            ctx.require(close(*o, want, 1e-12, 1e-12), "log_sum_exp_is_log_of_sum_of_exp", "multi:lse", || format!("log_sum_exp row {:?} of {:?} = {}, want {}", row, m, o, want));
        }
        format!("ok {}", tfs(&out))
    });
}

// ------------------------------------------------------------------ loss / gradient correspondences

fn op_loss_grad(em: &mut Em, rng: &mut Rng, lattice: bool) {
    let n = 1 + rng.below(7);
    let nf = 1 + rng.below(4);
    let scale = *rng.pick(&[1.0, 10.0, 100.0]);
    let x = gen_mat(rng, n, nf, lattice, scale);
    let y: Vec<f64> = (0..n).map(|_| if rng.coin() { 1.0 } else { -1.0 }).collect();
    let alpha = if lattice { *rng.pick(&[0.0, 0.5, 1.0, 2.0]) } else { rng.unit() * 3.0 };
    let icpt = rng.chance(2, 3);
    // a small share of wrong-length parameter vectors (panic branch of convert_params)
    let wl = if rng.chance(1, 25) { nf + 2 } else { nf + icpt as usize };
    let wscale = if lattice { 1.0 } else { 1.0 / scale };
    let w: Vec<f64> = (0..wl).map(|_| gen_val(rng, lattice, 1.0) * wscale).collect();
    em.count(if lattice { "lossgrad:lattice" } else { "lossgrad:generic" });
    let args = format!("nf={} x={} y={} alpha={} w={}", nf, hx2(&x), hx(&y), hex64(alpha), hx(&w));
    {
        let (x, y, w) = (x.clone(), y.clone(), w.clone());
        em.case(format!("loss {}", args), move |ctx| {
            let l = lh::logistic_loss_hook(&arr2(&x, nf), &Array1::from(y.clone()), alpha, &Array1::from(w.clone()));
            let (ww, b) = if w.len() == nf + 1 { (&w[..nf], w[nf]) } else { (&w[..], 0.0) };
            let want = doc_loss2(&x, &y, alpha, ww, b);
            ctx.require(close(l, want, 1e-9, 1e-9), "loss_is_documented_objective", "binary", || format!("logistic_loss = {}, documented objective = {}", l, want));
            format!("ok {}", tf(l))
        });
    }
    em.case(format!("grad {}", args), move |ctx| {
        let g = lh::logistic_grad_hook(&arr2(&x, nf), &Array1::from(y.clone()), alpha, &Array1::from(w.clone())).to_vec();
        let has_b = w.len() == nf + 1;
        let (ww, b) = if has_b { (&w[..nf], w[nf]) } else { (&w[..], 0.0) };
        let (gw, gb) = doc_grad2(&x, &y, alpha, ww, b);
        let mut want = gw;
        if has_b {
            want.push(gb);
        }
        let sc = 1.0 + norm2(&want);
        let ok = g.len() == want.len() && g.iter().zip(&want).all(|(a, b)| (a - b).abs() <= 1e-9 * sc);
        ctx.require(ok, "grad_is_derivative_of_documented_objective", if has_b { "binary:icpt=1" } else { "binary:icpt=0" }, || format!("logistic_grad = {:?}, textbook gradient = {:?}", g, want));
        // independent of any closed form: central differences of the documented objective
        let f = |p: &[f64]| if has_b { doc_loss2(&x, &y, alpha, &p[..nf], p[nf]) } else { doc_loss2(&x, &y, alpha, p, 0.0) };
        for i in 0..g.len().min(w.len()) {
            let d = fd(&f, &w, i);
            ctx.require(close(g[i], d, 1e-4, 1e-5 * sc), "grad_matches_finite_difference", if has_b { "binary:icpt=1" } else { "binary:icpt=0" }, || format!("coordinate {}: gradient {} vs finite difference {}", i, g[i], d));
        }
        format!("ok {}", tfs(&g))
    });
}

fn op_mloss_mgrad(em: &mut Em, rng: &mut Rng, lattice: bool) {
    let n = 1 + rng.below(6);
    let nf = 1 + rng.below(3);
    let k = 2 + rng.below(4);
    let scale = *rng.pick(&[1.0, 10.0]);
    let x = gen_mat(rng, n, nf, lattice, scale);
    let cls: Vec<usize> = (0..n).map(|_| rng.below(k)).collect();
    let y: M = cls.iter().map(|c| (0..k).map(|j| if j == *c { 1.0 } else { 0.0 }).collect()).collect();
    let alpha = if lattice { *rng.pick(&[0.0, 0.5, 1.0, 2.0]) } else { rng.unit() * 3.0 };
    let icpt = rng.chance(2, 3);
    let wr = if rng.chance(1, 25) { nf + 2 } else { nf + icpt as usize };
    // mostly moderate score spreads; every 5th lattice case has rows whose scores differ by > 40
    let wide = lattice && rng.chance(1, 5);
    let wscale = if wide { 16.0 } else if lattice { 0.25 } else { 0.5 / scale };
    if wide {
        em.count("mlossgrad:wide_spread");
    }
    let w: M = (0..wr).map(|_| (0..k).map(|_| gen_val(rng, lattice, 1.0) * wscale).collect()).collect();
    em.count(if lattice { "mlossgrad:lattice" } else { "mlossgrad:generic" });
    let args = format!("nf={} k={} x={} y={} alpha={} w={}", nf, k, hx2(&x), hx2(&y), hex64(alpha), hx2(&w));
    {
        let (x, y, w, cls) = (x.clone(), y.clone(), w.clone(), cls.clone());
        em.case(format!("mloss {}", args), move |ctx| {
            let l = lh::multi_logistic_loss_hook(&arr2(&x, nf), &arr2(&y, k), alpha, &arr2(&w, k));
            let has_b = w.len() == nf + 1;
            let b = if has_b { w[nf].clone() } else { vec![0.0; k] };
            let want = doc_loss_m(&x, &cls, alpha, &w[..nf].to_vec(), &b);
            ctx.require(close(l, want, 1e-9, 1e-9), "loss_is_documented_objective", "multi", || format!("multi_logistic_loss = {}, documented objective = {}", l, want));
            format!("ok {}", tf(l))
        });
    }
    em.case(format!("mgrad {}", args), move |ctx| {
        let g = to_m(&lh::multi_logistic_grad_hook(&arr2(&x, nf), &arr2(&y, k), alpha, &arr2(&w, k)));
        let has_b = w.len() == nf + 1;
        let b = if has_b { w[nf].clone() } else { vec![0.0; k] };
        let (mut want, gb) = doc_grad_m(&x, &cls, alpha, &w[..nf].to_vec(), &b);
        if has_b {
            want.push(gb);
        }
        let sc = 1.0 + norm2(&want.iter().flatten().cloned().collect::<Vec<_>>());
        let ok = g.len() == want.len() && g.iter().zip(&want).all(|(r, s)| r.len() == s.len() && r.iter().zip(s).all(|(a, b)| (a - b).abs() <= 1e-9 * sc));
        ctx.require(ok, "grad_is_derivative_of_documented_objective", if has_b { "multi:icpt=1" } else { "multi:icpt=0" }, || format!("multi_logistic_grad = {:?}, textbook gradient = {:?}", g, want));
        let flat: Vec<f64> = w.iter().flatten().cloned().collect();
        let f = |p: &[f64]| {
            let wm: M = p.chunks(k).map(|c| c.to_vec()).collect();
            let b = if has_b { wm[nf].clone() } else { vec![0.0; k] };
            doc_loss_m(&x, &cls, alpha, &wm[..nf].to_vec(), &b)
        };
        let gf: Vec<f64> = g.iter().flatten().cloned().collect();
        for i in 0..gf.len().min(flat.len()) {
            let d = fd(&f, &flat, i);
            ctx.require(close(gf[i], d, 1e-4, 1e-5 * sc), "grad_matches_finite_difference", if has_b { "multi:icpt=1" } else { "multi:icpt=0" }, || format!("entry {}: gradient {} vs finite difference {}", i, gf[i], d));
        }
        format!("ok {}", tfs2(&g))
    });
}

// ------------------------------------------------------------------ prediction at extreme scores

/// `ext` = the extreme stream: scores with a large common offset (all very negative / all very positive), widely
/// spread or exactly tied, |x| up to 1e3, every memory layout of the records.
fn op_predict2(em: &mut Em, rng: &mut Rng, ext: bool) {
    let n = 1 + rng.below(6);
    let nf = 1 + rng.below(3);
    let xs = if ext { *rng.pick(&[1.0, 8.0, 1000.0]) } else { 1.0 };
    let x: M = gen_mat(rng, n, nf, true, 1.0).iter().map(|r| r.iter().map(|v| v * xs).collect()).collect();
    // |x.w| up to ~ 2e3 (ext: 4e6)
    let big = *rng.pick(&[1i64, 8, 64, 512]);
    let w: Vec<f64> = (0..nf).map(|_| if ext && rng.chance(1, 4) { 0.0 } else { rng.range(-big, big) as f64 }).collect();
    let off = if ext { *rng.pick(&[0.0, -800.0, 800.0, -745.25, 709.75, -37.0, 37.0, -5000.0, 5000.0, -1e5, 1e5]) } else { 0.0 };
    let b = rng.range(-big, big) as f64 / 2.0 + off;
    let thr = *rng.pick(&[0.5, 0.5, 0.25, 0.75, 0.0, 1.0]);
    let lay = if ext { rng.below(4) } else { 0 };
    em.count(&format!("predict2:scale={}", big));
    if ext {
        em.count(&format!("predict2:ext:lay={}", lay));
    }
    let op = format!("predict2 x={} w={} b={} thr={} lay={}", hx2(&x), hx(&w), hex64(b), hex64(thr), lay);
    em.case_valid(op, "predict2", move |ctx| {
        let m = lh::fitted_binary_hook(b, Array1::from(w.clone()), 1usize, 0usize).set_threshold(thr);
        let xl = Lay::new(&x, nf, lay);
        let (p, cls) = if lay == 0 {
            let xa = arr2(&x, nf);
            (m.predict_probabilities(&xa).to_vec(), m.predict(&xa).to_vec())
        } else {
            (m.predict_probabilities(&xl.view()).to_vec(), m.predict(&xl.view()).to_vec())
        };
        ctx.require(p.len() == n && p.iter().all(|q| q.is_finite() && *q >= 0.0 && *q <= 1.0), "proba_in_unit_interval", "binary", || format!("probabilities {:?}", p));
        for i in 0..n.min(p.len()) {
            let want = if p[i] >= thr { 1 } else { 0 };
            ctx.require(cls[i] == want, "class_is_what_threshold_implies", "binary", || format!("row {}: p={} thr={} class={}", i, p[i], thr, cls[i]));
            // first principles: the probability is the logistic function of the (exact, lattice) score
            let z: f64 = x[i].iter().zip(&w).map(|(a, c)| a * c).sum::<f64>() + b;
            ctx.require(close(p[i], sigmoid(z), 1e-12, 1e-300), "proba_is_logistic_of_score", "binary", || format!("row {}: p={} but logistic({}) = {}", i, p[i], z, sigmoid(z)));
        }
        let margin = p.iter().map(|q| (q - thr).abs()).fold(f64::INFINITY, f64::min);
        format!("ok p={} cls={} margin={}", tfs(&p), list(cls.iter(), |c| c.to_string()), tf(margin))
    });
}

fn op_predictm(em: &mut Em, rng: &mut Rng, ext: bool) {
    let n = 1 + rng.below(5);
    let nf = 1 + rng.below(3);
    let k = 2 + rng.below(5);
    let xs = if ext { *rng.pick(&[1.0, 8.0, 1000.0]) } else { 1.0 };
    let x: M = gen_mat(rng, n, nf, true, 1.0).iter().map(|r| r.iter().map(|v| v * xs).collect()).collect();
    let big = if ext { *rng.pick(&[0i64, 1, 8, 64, 512]) } else { *rng.pick(&[1i64, 8, 64, 512]) };
    let w: M = (0..nf).map(|_| (0..k).map(|_| rng.range(-big, big) as f64).collect()).collect();
    // common offset of all class scores: softmax must not depend on it
    let off = if ext { *rng.pick(&[0.0, -800.0, -746.0, -1000.0, 800.0, 710.0, 1000.0, -5000.0, 5000.0, -1e5, 1e5, -4e6]) } else { 0.0 };
    let bb = if ext && rng.chance(1, 3) { 0 } else { big.max(1) };
    let b: Vec<f64> = (0..k).map(|_| rng.range(-bb, bb) as f64 / 2.0 + off).collect();
    let lay = if ext { rng.below(4) } else { 0 };
    em.count(&format!("predictm:scale={}", big));
    if ext {
        em.count(&format!("predictm:ext:lay={}", lay));
        let all_below = x.iter().any(|r| (0..k).all(|c| r.iter().enumerate().map(|(j, a)| a * w[j][c]).sum::<f64>() + b[c] < -745.2));
        let all_above = x.iter().any(|r| (0..k).all(|c| r.iter().enumerate().map(|(j, a)| a * w[j][c]).sum::<f64>() + b[c] > 709.8));
        if all_below {
            em.count("predictm:ext:row_with_all_scores_below_exp_underflow");
        }
        if all_above {
            em.count("predictm:ext:row_with_all_scores_above_exp_overflow");
        }
    }
    let op = format!("predictm k={} x={} w={} b={} lay={}", k, hx2(&x), hx2(&w), hx(&b), lay);
    em.case_valid(op, "predictm", move |ctx| {
        let m = lh::fitted_multi_hook(Array1::from(b.clone()), arr2(&w, k), (0..k).collect::<Vec<usize>>());
        let xl = Lay::new(&x, nf, lay);
        let (p, cls) = if lay == 0 {
            let xa = arr2(&x, nf);
            (to_m(&m.predict_probabilities(&xa)), m.predict(&xa).to_vec())
        } else {
            (to_m(&m.predict_probabilities(&xl.view())), m.predict(&xl.view()).to_vec())
        };
        ctx.require(p.len() == n && cls.len() == n, "shape", "multi", || format!("{} probability rows, {} classes for {} rows", p.len(), cls.len(), n));
        let mut margin = f64::INFINITY;
        for i in 0..n.min(p.len()) {
            // scores are exact on this lattice
            let h: Vec<f64> = (0..k).map(|c| x[i].iter().enumerate().map(|(j, a)| a * w[j][c]).sum::<f64>() + b[c]).collect();
            ctx.require(p[i].len() == k && p[i].iter().all(|q| q.is_finite() && *q >= 0.0 && *q <= 1.0), "proba_in_unit_interval", "multi", || format!("row {} with class scores {:?}: probabilities {:?}", i, h, p[i]));
            ctx.require((p[i].iter().sum::<f64>() - 1.0).abs() <= 1e-12, "rows_sum_to_one", "multi", || format!("row {} with class scores {:?}: {:?} sums to {}", i, h, p[i], p[i].iter().sum::<f64>()));
            // the class must carry the largest probability (several classes may share it after saturation)
            let pm = p[i].iter().cloned().fold(f64::NEG_INFINITY, f64::max);
            ctx.require(cls[i] < k && p[i][cls[i]] == pm, "class_is_argmax_of_probabilities", "multi", || format!("row {}: class {} with probabilities {:?}", i, cls[i], p[i]));
            // first principles: the probabilities are the softmax of the scores
            let want = softmax_row(&h);
            ctx.require(p[i].iter().zip(&want).all(|(a, b)| close(*a, *b, 1e-11, 1e-300)), "proba_is_softmax_of_scores", "multi", || format!("row {} with class scores {:?}: probabilities {:?}, softmax {:?}", i, h, p[i], want));
            let top = h.iter().cloned().fold(f64::NEG_INFINITY, f64::max);
            let first = h.iter().position(|v| *v == top).unwrap();
            for (c, v) in h.iter().enumerate() {
                if c != first {
                    margin = margin.min(top - v);
                }
            }
        }
        format!("ok p={} cls={} margin={}", tfs2(&p), list(cls.iter(), |c| c.to_string()), tf(margin))
    });
}

// ------------------------------------------------------------------ fits (oracle only)

/// data for a binary / multinomial fit; with `alpha == 0` every point occurs with every class, so
/// the data are not separable and a finite stationary point exists
fn gen_class_data(rng: &mut Rng, k: usize, alpha0: bool, scale: f64, thorough: bool) -> (M, Vec<usize>) {
    let nf = 1 + rng.below(4);
    let base = k + 2 + rng.below(if thorough { 40 } else { 14 });
    let centers: M = (0..k).map(|_| (0..nf).map(|_| (rng.unit() * 4.0 - 2.0) * scale).collect()).collect();
    let mut x: M = vec![];
    let mut y: Vec<usize> = vec![];
    // every class at least once
    for i in 0..base {
        let c = if i < k { i } else if rng.chance(1, 3) { 0 } else { rng.below(k) };
        let row: Vec<f64> = (0..nf).map(|j| centers[c][j] + (rng.unit() * 3.0 - 1.5) * scale).collect();
        x.push(row);
        y.push(c);
    }
    if alpha0 {
        let n0 = x.len();
        for i in 0..n0 {
            for c in 0..k {
                if c != y[i] {
                    x.push(x[i].clone());
                    y.push(c);
                }
            }
        }
    }
    // sample order is part of the quantifier
    let mut idx: Vec<usize> = (0..x.len()).collect();
    rng.shuffle(&mut idx);
    (idx.iter().map(|i| x[*i].clone()).collect(), idx.iter().map(|i| y[*i]).collect())
}

const LABEL_NAMES: [&str; 6] = ["pear", "apple", "zebra", "fig", "kiwi", "date"];

/// first line of an error's debug text, and a coarse kind used in the oracle class of `fit_succeeds`
fn err_line<E: std::fmt::Debug>(e: &E) -> String {
    format!("{:?}", e).lines().next().unwrap_or("").to_string()
}
fn err_kind(msg: &str) -> &'static str {
    if msg.contains("descent direction") {
        "linesearch_descent_direction"
    } else {
        "other"
    }
}

/// rows on which the fitted models are asked for probabilities: training rows, scaled by +-1e3, and zero
fn probe_rows(x: &M) -> M {
    let mut out: M = x.iter().take(4).map(|r| r.iter().map(|v| v * 1e3).collect()).collect();
    out.extend(x.iter().take(2).map(|r| r.iter().map(|v| v * -1e3).collect::<Vec<f64>>()));
    out.extend(x.iter().take(3).cloned());
    out.push(vec![0.0; x[0].len()]);
    out
}

/// the real binary `fit` for one label type `C`, on records given as a view (any layout)
#[allow(clippy::type_complexity)]
fn fit2_any<C: Ord + Clone + Default>(params: &LogisticRegression<f64>, x: ArrayView2<f64>, y: Vec<C>, filler: C, tlay: usize, thr: Option<f64>, probe: &Array2<f64>, owned: bool) -> Result<(Vec<f64>, f64, C, C, Vec<f64>, Vec<C>), String> {
    let tl = TLay::new(&y, filler, tlay);
    // records owned / view x targets owned / contiguous view / strided view / reversed view
    let m = if owned && tlay == 0 {
        params.fit(&Dataset::new(x.to_owned(), Array1::from(y)))
    } else if owned {
        params.fit(&DatasetBase::new(x.to_owned(), tl.view()))
    } else {
        params.fit(&DatasetBase::new(x, tl.view()))
    }
    .map_err(|e| err_line(&e))?;
    let m = match thr {
        Some(t) => m.set_threshold(t),
        None => m,
    };
    Ok((m.params().to_vec(), m.intercept(), m.labels().pos.class.clone(), m.labels().neg.class.clone(), m.predict_probabilities(probe).to_vec(), m.predict(probe).to_vec()))
}

pub struct Fit2Case {
    pub x: M,
    pub y: Vec<usize>,
    pub alpha: f64,
    pub icpt: bool,
    pub ty: usize,
    pub tol: f64,
    pub init: Option<Vec<f64>>,
    pub thr: Option<f64>,
    pub lay: usize,
    /// memory layout of the targets (see `TLay`)
    pub tlay: usize,
    /// `None` = the default budget of the crate (100)
    pub max_iter: Option<u64>,
    pub class: String,
}

fn op_fit2(em: &mut Em, rng: &mut Rng, i: usize) {
    let alpha = *rng.pick(&[0.0, 0.01, 0.1, 1.0, 1.0, 10.0]);
    let scale = *rng.pick(&[1.0, 1.0, 0.01, 10.0, 100.0]);
    let (x, y) = gen_class_data(rng, 2, alpha == 0.0, scale, em.thorough());
    let nf = x[0].len();
    let icpt = rng.chance(2, 3);
    // label type, initial parameters, layout, threshold: cycled so that every combination of (ty, init) occurs
    let ty = i % 3;
    let tol = *rng.pick(&[1e-4, 1e-4, 1e-6, 1e-2]);
    let init: Option<Vec<f64>> = if (i / 3) % 3 == 2 { Some((0..nf + icpt as usize).map(|_| (rng.unit() - 0.5) / scale).collect()) } else { None };
    let thr = if rng.coin() { Some(*rng.pick(&[0.0, 0.25, 0.5, 0.75, 1.0])) } else { None };
    let lay = rng.below(5);
    let tlay = rng.below(3);
    let class = format!("fit2:alpha={},icpt={},scale={}", if alpha == 0.0 { "0" } else { "pos" }, icpt as u8, scale);
    run_fit2(em, Fit2Case { x, y, alpha, icpt, ty, tol, init, thr, lay, tlay, max_iter: Some(10_000), class });
}

pub fn run_fit2(em: &mut Em, c: Fit2Case) {
    let Fit2Case { x, y, alpha, icpt, ty, tol, init, thr, lay, tlay, max_iter, class } = c;
    let nf = x[0].len();
    let xprobe = probe_rows(&x);
    let (x0, y0, init0, class0) = (x.clone(), y.clone(), init.clone(), class.clone());
    em.count(&format!("fit2:tlay={}", tlay));
    em.count(&format!("fit2:ty={}", ty));
    em.count(&format!("fit2:ty={},init={}", ty, init.is_some() as u8));
    em.count(&format!("fit2:lay={}", lay));
    em.count(&class);
    let op = format!("#fit2 ty={} alpha={} icpt={} tol={} init={} thr={} lay={} tlay={} maxit={} x={} y={}", ty, alpha, icpt as u8, tol, init.as_ref().map_or("none".to_string(), |i| hx(i)), thr.map_or("default".to_string(), |t| t.to_string()), lay, tlay, max_iter.map_or("default".to_string(), |t| t.to_string()), hx2(&x), list(y.iter(), |c| c.to_string()));
    trace(&op);
    let mut fitted = false;
    let fitted_ref = &mut fitted;
    em.case_valid(op, &class.clone(), move |ctx| {
        let xl = Lay::new(&x, nf, lay % 4);
        let mut params = LogisticRegression::default().alpha(alpha).with_intercept(icpt).gradient_tolerance(tol);
        if let Some(mi) = max_iter {
            params = params.max_iterations(mi);
        }
        if let Some(i) = &init {
            params = params.initial_params(Array1::from(i.clone()));
        }
        let probe = arr2(&xprobe, nf);
        // lay 4 = owned standard-layout records (the only form the unit tests use), 0..3 = views
        let owned = lay == 4;
        // fit with the label type of the case; results are mapped back to class indices
        let res: Result<(Vec<f64>, f64, usize, usize, Vec<f64>, Vec<usize>), String> = match ty {
            0 => fit2_any(&params, xl.view(), y.clone(), 7usize, tlay, thr, &probe, owned),
            1 => {
                let back = |s: &String| LABEL_NAMES.iter().position(|n| n == s).unwrap();
                fit2_any(&params, xl.view(), y.iter().map(|c| LABEL_NAMES[*c].to_string()).collect::<Vec<String>>(), "filler".to_string(), tlay, thr, &probe, owned).map(|(w, b, p, n, pe, ce)| (w, b, back(&p), back(&n), pe, ce.iter().map(back).collect()))
            }
            _ => fit2_any(&params, xl.view(), y.iter().map(|c| *c == 1).collect::<Vec<bool>>(), y[0] != 1, tlay, thr, &probe, owned).map(|(w, b, p, n, pe, ce)| (w, b, p as usize, n as usize, pe, ce.iter().map(|b| *b as usize).collect())),
        };
        let (w, b, pos, neg, p_ext, c_ext) = match res {
            Ok(r) => r,
            Err(e) => {
                ctx.fail("fit_succeeds", &format!("{}:err={}", class, err_kind(&e)), format!("fit returned {}", e));
                return "err".into();
            }
        };
        *fitted_ref = true;
        ctx.require((pos == 0 && neg == 1) || (pos == 1 && neg == 0), "class_set", &class, || format!("labels pos={} neg={}", pos, neg));
        ctx.require(w.len() == nf && w.iter().all(|v| v.is_finite()) && b.is_finite(), "shape", &class, || format!("params {:?} intercept {}", w, b));
        let t: Vec<f64> = y.iter().map(|c| if *c == pos { 1.0 } else { -1.0 }).collect();
        let (gw, gb) = doc_grad2(&x, &t, alpha, &w, b);
        let mut g = gw;
        if icpt {
            g.push(gb);
        } else {
            ctx.require(b == 0.0, "no_intercept_means_zero", &class, || format!("intercept {} although fit_intercept = false", b));
        }
        let gn = norm2(&g);
        let floor = stagnation_floor(&x, icpt, alpha, 0.25, doc_loss2(&x, &t, alpha, &w, b));
        ctx.require(gn <= tol * 1.0001 + floor, "stationary", &class, || format!("|gradient of the documented objective| = {:e} > gradient_tolerance {:e} (+ solver noise floor {:e}) at w={:?} b={}", gn, tol, floor, w, b));
        ctx.require(p_ext.len() == xprobe.len() && p_ext.iter().all(|q| q.is_finite() && *q >= 0.0 && *q <= 1.0), "proba_in_unit_interval", &class, || format!("probabilities {:?} on the probe rows (training rows x +-1e3, x 1, zero)", p_ext));
        let th = thr.unwrap_or(0.5);
        for ((q, c), row) in p_ext.iter().zip(&c_ext).zip(&xprobe) {
            let want = if *q >= th { pos } else { neg };
            ctx.require(*c == want, "class_is_what_threshold_implies", &class, || format!("p={} threshold={} class={} (pos={})", q, th, c, pos));
            let z: f64 = row.iter().zip(&w).map(|(a, c)| a * c).sum::<f64>() + b;
            ctx.require(close(*q, sigmoid(z), 1e-9, 1e-300), "proba_is_logistic_of_score", &class, || format!("p={} but logistic({}) = {}", q, z, sigmoid(z)));
        }
        "ok".into()
    });
    if fitted {
        em.count("fit2:fitted");
        em.count(&format!("fit2:fitted:ty={}", ty));
        em.count(&format!("fit2:fitted:tlay={}", tlay));
    }
    // The CODE's gradient — and through the correspondence op `grad` the MODEL's `logisticGrad`, the function the
    // theorems `logistic_grad_is_derivative` / `logistic_partials_le_of_grad_norm_le` are about — AT the point a real fit
    // returns (same configuration, usize labels, owned arrays).
    let (x, y, init, class) = (x0, y0, init0, class0);
    let point = pre(em, || {
        let mut params = LogisticRegression::default().alpha(alpha).with_intercept(icpt).gradient_tolerance(tol);
        if let Some(mi) = max_iter {
            params = params.max_iterations(mi);
        }
        if let Some(i) = &init {
            params = params.initial_params(Array1::from(i.clone()));
        }
        let m = params.fit(&Dataset::new(arr2(&x, nf), Array1::from(y.clone()))).ok()?;
        let mut w = m.params().to_vec();
        if icpt {
            w.push(m.intercept());
        }
        Some((w, m.labels().pos.class))
    });
    match point {
        None => em.case("#fit2_point_skipped".to_string(), |ctx| {
            ctx.mark_trivial();
            "skipped".into()
        }),
        Some((w, pos)) => {
            let t: Vec<f64> = y.iter().map(|c| if *c == pos { 1.0 } else { -1.0 }).collect();
            em.count("fit2:code_gradient_at_fitted_point");
            let op = format!("grad nf={} x={} y={} alpha={} w={}", nf, hx2(&x), hx(&t), hex64(alpha), hx(&w));
            em.case_valid(op, &class.clone(), move |ctx| {
                let xl = Lay::new(&x, nf, lay % 4);
                let g = lh::logistic_grad_hook_g(&xl.view(), &Array1::from(t.clone()), alpha, &Array1::from(w.clone())).to_vec();
                let (ww, b) = if icpt { (&w[..nf], w[nf]) } else { (&w[..], 0.0) };
                let (mut want, gb) = doc_grad2(&x, &t, alpha, ww, b);
                if icpt {
                    want.push(gb);
                }
                // rounding of the two evaluation orders: a few ulps of the sum of the absolute terms
                let mag: f64 = 1.0 + x.iter().flatten().map(|v| v.abs()).sum::<f64>() + alpha * ww.iter().map(|v| v.abs()).sum::<f64>();
                ctx.require(g.len() == want.len() && g.iter().zip(&want).all(|(a, b)| (a - b).abs() <= 1e-12 * mag), "grad_is_derivative_of_documented_objective", &format!("{}:fitted_point", class), || format!("at the fitted point: logistic_grad = {:?}, textbook gradient = {:?}", g, want));
                let floor = stagnation_floor(&x, icpt, alpha, 0.25, doc_loss2(&x, &t, alpha, ww, b));
                ctx.require(norm2(&g) <= tol * 1.0001 + floor, "stationary", &format!("{}:code_gradient", class), || format!("|logistic_grad at the returned parameters| = {:e} > gradient_tolerance {:e} (+ solver noise floor {:e})", norm2(&g), tol, floor));
                format!("ok {}", tfs(&g))
            });
        }
    }
}

fn op_fitm(em: &mut Em, rng: &mut Rng, i: usize) {
    let k = 2 + rng.below(5);
    let alpha = *rng.pick(&[0.0, 0.01, 0.1, 1.0, 1.0, 10.0]);
    let scale = *rng.pick(&[1.0, 1.0, 0.01, 10.0, 100.0]);
    let (x, y) = gen_class_data(rng, k, alpha == 0.0, scale, em.thorough());
    let nf = x[0].len();
    let icpt = rng.chance(2, 3);
    let ty = i % 2;
    let tol = *rng.pick(&[1e-4, 1e-4, 1e-6, 1e-2]);
    // every 3rd: initial parameters; every 6th: with a large common offset in the (un-penalised) intercept row,
    // which the optimiser never removes (the objective does not depend on it): all class scores far below / above 0
    let init: Option<M> = if (i / 2) % 3 == 2 {
        let mut m: M = (0..nf + icpt as usize).map(|_| (0..k).map(|_| (rng.unit() - 0.5) / scale).collect()).collect();
        if icpt && (i / 6) % 2 == 1 {
            let off = *rng.pick(&[-900.0, 900.0, -2000.0]);
            for v in m[nf].iter_mut() {
                *v += off;
            }
            em.count("fitm:init_with_common_intercept_offset");
        }
        Some(m)
    } else {
        None
    };
    let lay = rng.below(5) + 5 * rng.below(3);
    let class = format!("fitm:alpha={},icpt={},scale={}", if alpha == 0.0 { "0" } else { "pos" }, icpt as u8, scale);
    run_fitm(em, class, x, y, k, alpha, icpt, ty, tol, init, lay, Some(10_000));
}

#[allow(clippy::type_complexity)]
fn fitm_any<C: Ord + Clone + Default>(params: &MultiLogisticRegression<f64>, x: ArrayView2<f64>, y: Vec<C>, filler: C, tlay: usize, probe: &Array2<f64>, owned: bool) -> Result<(M, Vec<f64>, Vec<C>, M, Vec<C>), String> {
    let tl = TLay::new(&y, filler, tlay);
    let m = if owned && tlay == 0 {
        params.fit(&Dataset::new(x.to_owned(), Array1::from(y)))
    } else if owned {
        params.fit(&DatasetBase::new(x.to_owned(), tl.view()))
    } else {
        params.fit(&DatasetBase::new(x, tl.view()))
    }
    .map_err(|e| err_line(&e))?;
    Ok((to_m(m.params()), m.intercept().to_vec(), m.classes().to_vec(), to_m(&m.predict_probabilities(probe)), m.predict(probe).to_vec()))
}

#[allow(clippy::too_many_arguments)]
pub fn run_fitm(em: &mut Em, class: String, x: M, y: Vec<usize>, k: usize, alpha: f64, icpt: bool, ty: usize, tol: f64, init: Option<M>, lay: usize, max_iter: Option<u64>) {
    // `lay` = record layout (lay % 5: four views + owned) + 5 * target layout (see `TLay`)
    let (lay, tlay) = (lay % 5, lay / 5);
    let nf = x[0].len();
    let xprobe = probe_rows(&x);
    let (x0, y0, init0, class0) = (x.clone(), y.clone(), init.clone(), class.clone());
    let unscaled = class.ends_with("scale=10") || class.ends_with("scale=100");
    em.count(&format!("fitm:tlay={}", tlay));
    em.count(&format!("fitm:k={}", k));
    em.count(&format!("fitm:ty={},init={}", ty, init.is_some() as u8));
    em.count(&class);
    let op = format!("#fitm ty={} k={} alpha={} icpt={} tol={} init={} lay={} tlay={} maxit={} x={} y={}", ty, k, alpha, icpt as u8, tol, init.as_ref().map_or("none".to_string(), |i| hx2(i)), lay, tlay, max_iter.map_or("default".to_string(), |t| t.to_string()), hx2(&x), list(y.iter(), |c| c.to_string()));
    trace(&op);
    let mut fitted = false;
    let fitted_ref = &mut fitted;
    let mut stationary = false;
    let stationary_ref = &mut stationary;
    em.case_valid(op, &class.clone(), move |ctx| {
        let xl = Lay::new(&x, nf, lay % 4);
        let owned = lay == 4;
        let mut params = MultiLogisticRegression::default().alpha(alpha).with_intercept(icpt).gradient_tolerance(tol);
        if let Some(mi) = max_iter {
            params = params.max_iterations(mi);
        }
        if let Some(i) = &init {
            params = params.initial_params(arr2(i, k));
        }
        let probe = arr2(&xprobe, nf);
        // class index -> rank in the order of the label type (the model's column order)
        let mut sorted: Vec<&str> = LABEL_NAMES[..k].to_vec();
        sorted.sort();
        let rank: Vec<usize> = (0..k).map(|c| if ty == 1 { sorted.iter().position(|s| *s == LABEL_NAMES[c]).unwrap() } else { c }).collect();
        let res: Result<(M, Vec<f64>, Vec<usize>, M, Vec<usize>), String> = if ty == 0 {
            fitm_any(&params, xl.view(), y.clone(), 7usize, tlay, &probe, owned)
        } else {
            let rk = |s: &String| sorted.iter().position(|n| n == s).unwrap();
            fitm_any(&params, xl.view(), y.iter().map(|c| LABEL_NAMES[*c].to_string()).collect::<Vec<String>>(), "filler".to_string(), tlay, &probe, owned).map(|(w, b, cl, pe, ce)| (w, b, cl.iter().map(rk).collect(), pe, ce.iter().map(rk).collect()))
        };
        let (w, b, classes, p_ext, c_ext) = match res {
            Ok(r) => r,
            Err(e) => {
                ctx.fail("fit_succeeds", &format!("{}:err={}", class, err_kind(&e)), format!("fit returned {}", e));
                return "err".into();
            }
        };
        *fitted_ref = true;
        ctx.require(classes == (0..k).collect::<Vec<_>>(), "class_set", &class, || format!("classes() = {:?} for {} classes", classes, k));
        let cls: Vec<usize> = y.iter().map(|c| rank[*c]).collect();
        ctx.require(w.len() == nf && b.len() == k, "shape", &class, || format!("params {}x?, intercept {}", w.len(), b.len()));
        let (gw, gb) = doc_grad_m(&x, &cls, alpha, &w, &b);
        let mut g: Vec<f64> = gw.iter().flatten().cloned().collect();
        if icpt {
            g.extend(gb);
        } else {
            ctx.require(b.iter().all(|v| *v == 0.0), "no_intercept_means_zero", &class, || format!("intercept {:?} although fit_intercept = false", b));
        }
        let gn = norm2(&g);
        let floor = stagnation_floor(&x, icpt, alpha, 0.5, doc_loss_m(&x, &cls, alpha, &w, &b));
        *stationary_ref = gn <= tol * 1.0001 + floor;
        // a gradient that is not even below 1 (hundreds of tolerances) is a different failure than the known weakness on
        // un-normalised features (line search gives up near the optimum): its class is not matched by the open finding
        let sclass = if gn > 1.0 { format!("{}:gross", class) } else { class.clone() };
        ctx.require(gn <= tol * 1.0001 + floor, "stationary", &sclass, || format!("|gradient of the documented objective| = {:e} > gradient_tolerance {:e} (+ solver noise floor {:e})", gn, tol, floor));
        ctx.require(p_ext.len() == xprobe.len() && c_ext.len() == xprobe.len(), "shape", &class, || format!("{} probability rows for {} probe rows", p_ext.len(), xprobe.len()));
        for ((row, c), xr) in p_ext.iter().zip(&c_ext).zip(&xprobe) {
            let h: Vec<f64> = (0..k).map(|c| xr.iter().enumerate().map(|(j, a)| a * w[j][c]).sum::<f64>() + b[c]).collect();
            ctx.require(row.len() == k && row.iter().all(|q| q.is_finite() && *q >= 0.0 && *q <= 1.0), "proba_in_unit_interval", &class, || format!("probabilities {:?} on a probe row with class scores {:?}", row, h));
            ctx.require((row.iter().sum::<f64>() - 1.0).abs() <= 1e-12, "rows_sum_to_one", &class, || format!("probabilities {:?} sum to {} (class scores {:?})", row, row.iter().sum::<f64>(), h));
            let pm = row.iter().cloned().fold(f64::NEG_INFINITY, f64::max);
            ctx.require(*c < k && row[*c] == pm, "class_is_argmax_of_probabilities", &class, || format!("class {} with probabilities {:?}", c, row));
        }
        "ok".into()
    });
    if fitted {
        em.count("fitm:fitted");
        em.count(&format!("fitm:fitted:ty={}", ty));
        em.count(&format!("fitm:fitted:tlay={}", tlay));
    }
    if unscaled {
        // complement of what the two open findings mask (floors on these keys bound the masked share from above)
        em.count("fitm:unscaled");
        if fitted {
            em.count("fitm:unscaled:fitted");
        }
        if fitted && stationary {
            em.count("fitm:unscaled:fitted_and_stationary");
        }
    }
    // the CODE's gradient and (op `mgrad`) the MODEL's `multiLogisticGrad` AT the point a real fit returns
    let (x, y, init, class) = (x0, y0, init0, class0);
    let point = pre(em, || {
        let mut params = MultiLogisticRegression::default().alpha(alpha).with_intercept(icpt).gradient_tolerance(tol);
        if let Some(mi) = max_iter {
            params = params.max_iterations(mi);
        }
        if let Some(i) = &init {
            params = params.initial_params(arr2(i, k));
        }
        let m = params.fit(&Dataset::new(arr2(&x, nf), Array1::from(y.clone()))).ok()?;
        if m.classes().to_vec() != (0..k).collect::<Vec<usize>>() {
            return None;
        }
        let mut w = to_m(m.params());
        if icpt {
            w.push(m.intercept().to_vec());
        }
        Some(w)
    });
    match point {
        None => em.case("#fitm_point_skipped".to_string(), |ctx| {
            ctx.mark_trivial();
            "skipped".into()
        }),
        Some(w) => {
            let yoh: M = y.iter().map(|c| (0..k).map(|j| if j == *c { 1.0 } else { 0.0 }).collect()).collect();
            em.count("fitm:code_gradient_at_fitted_point");
            let op = format!("mgrad nf={} k={} x={} y={} alpha={} w={}", nf, k, hx2(&x), hx2(&yoh), hex64(alpha), hx2(&w));
            em.case_valid(op, &class.clone(), move |ctx| {
                let xl = Lay::new(&x, nf, lay % 4);
                let g = to_m(&lh::multi_logistic_grad_hook_g(&xl.view(), &arr2(&yoh, k), alpha, &arr2(&w, k)));
                let b = if icpt { w[nf].clone() } else { vec![0.0; k] };
                let (mut want, gb) = doc_grad_m(&x, &y, alpha, &w[..nf].to_vec(), &b);
                if icpt {
                    want.push(gb);
                }
                let mag: f64 = 1.0 + x.iter().flatten().map(|v| v.abs()).sum::<f64>() + alpha * w[..nf].iter().flatten().map(|v| v.abs()).sum::<f64>();
                let ok = g.len() == want.len() && g.iter().zip(&want).all(|(r, s)| r.len() == s.len() && r.iter().zip(s).all(|(a, b)| (a - b).abs() <= 1e-11 * mag));
                ctx.require(ok, "grad_is_derivative_of_documented_objective", &format!("{}:fitted_point", class), || format!("at the fitted point: multi_logistic_grad = {:?}, textbook gradient = {:?}", g, want));
                format!("ok {}", tfs2(&g))
            });
        }
    }
}

// ------------------------------------------------------------------ GLM

fn link_of(l: usize) -> Link {
    match l {
        0 => Link::Identity,
        1 => Link::Log,
        _ => Link::Logit,
    }
}
fn pick_power(rng: &mut Rng) -> f64 {
    *rng.pick(&[0.0, 1.0, 1.5, 1.25, 2.0, 3.0])
}
fn power_name(p: f64) -> &'static str {
    if p == 0.0 {
        "0"
    } else if p == 1.0 {
        "1"
    } else if p < 2.0 {
        "(1,2)"
    } else if p == 2.0 {
        "2"
    } else {
        "3"
    }
}

fn op_inrange(em: &mut Em, rng: &mut Rng) {
    let power = *rng.pick(&[0.0, 1.0, 1.5, 2.0, 3.0, 0.5, 0.999, 1.999, -1.0, 2.5]);
    let n = 1 + rng.below(5);
    let y: Vec<f64> = (0..n).map(|_| *rng.pick(&[0.0, 0.0, 0.5, 1.0, 2.0, 3.5, -1.0, -0.125, 1e-300])).collect();
    let op = format!("inrange power={} y={}", hex64(power), hx(&y));
    em.case(op, move |ctx| {
        match gh::in_range_hook(power, Array1::from(y.clone()).view()) {
            Err(_) => "err InvalidTweediePower".into(),
            Ok(b) => {
                let want = if power <= 0.0 { true } else if power < 2.0 { y.iter().all(|v| *v >= 0.0) } else { y.iter().all(|v| *v > 0.0) };
                ctx.require(b == want, "in_range_iff_support", &format!("glm:power={}", power), || format!("in_range({:?}) = {} for power {}", y, b, power));
                format!("ok {}", b)
            }
        }
    });
}

/// targets inside the support and means inside the domain of the deviance
fn gen_y_mu(rng: &mut Rng, power: f64, n: usize, lattice: bool) -> (Vec<f64>, Vec<f64>) {
    let pos = |rng: &mut Rng| if lattice { (1 + rng.below(32)) as f64 / 8.0 } else { 0.05 + rng.unit() * 5.0 };
    let y: Vec<f64> = (0..n)
        .map(|_| {
            if power == 0.0 {
                gen_val(rng, lattice, 5.0)
            } else if power < 2.0 && rng.chance(1, 4) {
                0.0
            } else {
                pos(rng)
            }
        })
        .collect();
    let mu: Vec<f64> = (0..n).map(|_| if power == 0.0 { gen_val(rng, lattice, 5.0) } else { pos(rng) }).collect();
    (y, mu)
}

fn op_dev(em: &mut Em, rng: &mut Rng, lattice: bool) {
    let power = if rng.chance(1, 12) { *rng.pick(&[0.5, 0.25]) } else { pick_power(rng) };
    let n = 1 + rng.below(6);
    let (y, mu) = gen_y_mu(rng, power, n, lattice);
    em.count(&format!("dev:power={}", power_name(power)));
    let args = format!("power={} y={} yp={}", hex64(power), hx(&y), hx(&mu));
    {
        let (y, mu) = (y.clone(), mu.clone());
        em.case(format!("dev {}", args), move |_ctx| match gh::deviance_hook(power, Array1::from(y.clone()).view(), Array1::from(mu.clone()).view()) {
            Err(_) => "err InvalidTweediePower".into(),
            Ok(d) => format!("ok {}", tf(d)),
        });
    }
    if !(power > 0.0 && power < 1.0) {
        em.case(format!("ddev {}", args), move |ctx| {
            let d = gh::deviance_derivative_hook(power, Array1::from(y.clone()).view(), Array1::from(mu.clone()).view()).unwrap().to_vec();
            for i in 0..y.len() {
                let f = |m: &[f64]| doc_unit_dev(power, y[i], m[0]);
                let want = fd(&f, &[mu[i]], 0);
                // the central difference is off by O(h^2) times the third derivative; scale the absolute slack with the curvature seen at this step
                let h = 1e-5 * (1.0 + mu[i].abs());
                let curv = ((f(&[mu[i] + h]) - 2.0 * f(&[mu[i]]) + f(&[mu[i] - h])) / (h * h)).abs();
                ctx.require(close(d[i], want, 1e-4, 1e-6 * (1.0 + curv)), "deviance_derivative_is_derivative_of_textbook_deviance", &format!("glm:power={}", power_name(power)), || format!("y={} mu={}: derivative {} vs finite difference {}", y[i], mu[i], d[i], want));
            }
            format!("ok {}", tfs(&d))
        });
    }
}

fn op_link(em: &mut Em, rng: &mut Rng) {
    let l = rng.below(3);
    let n = 1 + rng.below(5);
    let v: Vec<f64> = (0..n).map(|_| if rng.chance(1, 5) { *rng.pick(&[-1000.0, 1000.0, -40.0, 40.0, 0.0]) } else { lat(rng, 4) }).collect();
    let op = format!("link l={} v={}", l, hx(&v));
    em.case(op, move |ctx| {
        let a = Array1::from(v.clone());
        let inv = link_of(l).inverse(&a).to_vec();
        let der = link_of(l).inverse_derviative(&a).to_vec();
        for i in 0..v.len() {
            let ok = match l {
                0 => true,
                1 => inv[i] >= 0.0,
                _ => inv[i] >= 0.0 && inv[i] <= 1.0,
            };
            ctx.require(ok, "predictions_in_link_range", &format!("glm:link={}", l), || format!("inverse({}) = {}", v[i], inv[i]));
        }
        format!("ok inv={} der={}", tfs(&inv), tfs(&der))
    });
}

/// a GLM data set whose targets are in range and compatible with the link
fn gen_glm_data(rng: &mut Rng, power: f64, l: usize, n: usize, nf: usize, lattice: bool) -> (M, Vec<f64>) {
    let x: M = (0..n).map(|_| (0..nf).map(|_| if lattice { lat(rng, 2) } else { rng.unit() * 2.0 - 1.0 }).collect()).collect();
    let beta: Vec<f64> = (0..nf).map(|_| rng.unit() * 0.6 - 0.3).collect();
    let y: Vec<f64> = x
        .iter()
        .map(|row| {
            let eta: f64 = row.iter().zip(&beta).map(|(a, b)| a * b).sum();
            let noise = 0.8 + 0.4 * rng.unit();
            let v = match l {
                0 => (3.0 + eta) * noise,
                1 => (0.5 + eta).exp() * noise,
                _ => (sigmoid(eta) * noise).min(0.95).max(0.05),
            };
            let v = if power == 0.0 && l == 0 { v - 3.0 } else { v };
            if lattice {
                let q = (v * 8.0).round() / 8.0;
                if power > 0.0 && q <= 0.0 { 0.125 } else { q }
            } else {
                v
            }
        })
        .collect();
    (x, y)
}

fn op_gcost_ggrad(em: &mut Em, rng: &mut Rng, lattice: bool) {
    let power = pick_power(rng);
    let l = rng.below(3);
    let n = 2 + rng.below(6);
    let nf = 1 + rng.below(3);
    let icpt = rng.coin();
    let alpha = if lattice { *rng.pick(&[0.0, 0.5, 1.0, 2.0]) } else { rng.unit() * 2.0 };
    let (x, y) = gen_glm_data(rng, power, l, n, nf, lattice);
    // parameters near the start point, small coefficients: mean stays inside the domain
    let mut p: Vec<f64> = vec![];
    if icpt {
        p.push(match l {
            0 => 3.0,
            1 => 0.5,
            _ => 0.0,
        });
    }
    for _ in 0..nf {
        p.push(if lattice { lat(rng, 1) / 8.0 } else { (rng.unit() - 0.5) * 0.2 });
    }
    let (x, p) = if !icpt && l == 0 && power > 0.0 {
        // identity link without intercept (the arm whose real `fit` never returns: open finding): the hooks are still
        // observable at parameters with positive means — features shifted to [0.5, 4.5], coefficients in [1/2, 3/2]
        em.count("glm:identity_link_no_intercept_power_ge_1");
        let x: M = x.iter().map(|r| r.iter().map(|v| v + 2.5).collect()).collect();
        let p: Vec<f64> = p.iter().map(|v| if lattice { 1.0 + v * 4.0 } else { 1.0 + v }).collect();
        (x, p)
    } else {
        (x, p)
    };
    em.count(&format!("glm:power={},link={}", power_name(power), l));
    let args = format!("l={} power={} alpha={} icpt={} nf={} x={} y={} p={}", l, hex64(power), hex64(alpha), icpt as u8, nf, hx2(&x), hx(&y), hx(&p));
    {
        let (x, y, p) = (x.clone(), y.clone(), p.clone());
        em.case(format!("gcost {}", args), move |_ctx| {
            match gh::tweedie_cost_hook(&arr2(&x, nf), &Array1::from(y.clone()), icpt, link_of(l), power, alpha, &Array1::from(p.clone())) {
                Err(_) => "err InvalidTweediePower".into(),
                Ok(c) => format!("ok {}", tf(c)),
            }
        });
    }
    em.case(format!("ggrad {}", args), move |ctx| {
        let g = gh::tweedie_gradient_hook(&arr2(&x, nf), &Array1::from(y.clone()), icpt, link_of(l), power, alpha, &Array1::from(p.clone())).unwrap().to_vec();
        let class = format!("glm:power={},link={},icpt={}", power_name(power), l, icpt as u8);
        let off = icpt as usize;
        let f = |q: &[f64]| doc_glm_obj(power, link_of(l), alpha, &x, &y, &q[off..], if icpt { q[0] } else { 0.0 });
        let sc = 1.0 + norm2(&g);
        if g.iter().all(|v| v.is_finite()) {
            for i in 0..g.len() {
                let d = fd(&f, &p, i);
                ctx.require(close(g[i], d, 1e-4, 1e-5 * sc), "grad_matches_finite_difference", &class, || format!("coordinate {}: gradient {} vs finite difference of 1/2(deviance + alpha |w|^2) {}", i, g[i], d));
            }
        }
        format!("ok {}", tfs(&g))
    });
}

fn op_gpredict(em: &mut Em, rng: &mut Rng) {
    let l = rng.below(3);
    let n = 1 + rng.below(5);
    let nf = 1 + rng.below(3);
    let x = gen_mat(rng, n, nf, true, 1.0);
    let big = *rng.pick(&[1i64, 8, 64]);
    let coef: Vec<f64> = (0..nf).map(|_| rng.range(-big, big) as f64).collect();
    let b = rng.range(-big, big) as f64 / 2.0;
    let op = format!("gpredict l={} x={} coef={} b={}", l, hx2(&x), hx(&coef), hex64(b));
    em.case_valid(op, "gpredict", move |ctx| {
        // a fitted regressor with these parameters: fit something tiny with the link, then overwrite the public fields
        let ds = Dataset::new(Array2::from_shape_fn((3, nf), |(i, j)| ((i + j) % 3) as f64 * 0.1), Array1::from(vec![0.4, 0.5, 0.6]));
        let mut m = TweedieRegressor::params().power(0.0).link(link_of(l)).alpha(1.0).fit(&ds).unwrap();
        m.coef = Array1::from(coef.clone());
        m.intercept = b;
        let out = m.predict(&arr2(&x, nf)).to_vec();
        for v in &out {
            let ok = match l {
                0 => v.is_finite(),
                1 => *v >= 0.0,
                _ => *v >= 0.0 && *v <= 1.0,
            };
            ctx.require(ok, "predictions_in_link_range", &format!("glm:link={}", l), || format!("prediction {} outside the range of link {}", v, l));
        }
        format!("ok {}", tfs(&out))
    });
}


/// Watchdog: re-runs case `idx` of this very run in a child process (`--only idx`) and reports whether
/// it returned within `secs` seconds.  Used for the GLM configurations whose mean can leave the domain
/// of the deviance (identity link, power >= 1), where the real `fit` may never return.
fn child_finishes(idx: usize, tier: &str, secs: u64) -> bool {
    let args: Vec<String> = std::env::args().collect();
    let seed = args.get(3).cloned().unwrap_or_else(|| "1".into());
    let dir = std::env::temp_dir().join(format!("hx_c12_child_{}_{}", std::process::id(), idx));
    let child = std::process::Command::new(std::env::current_exe().unwrap())
        .args(["C12", tier, &seed, dir.to_str().unwrap(), "--only", &idx.to_string()])
        .env("C12_CHILD", "1")
        .stdout(std::process::Stdio::null())
        .stderr(std::process::Stdio::null())
        .spawn();
    let mut child = match child {
        Ok(c) => c,
        Err(_) => return true,
    };
    let deadline = std::time::Instant::now() + std::time::Duration::from_secs(secs);
    let mut done = false;
    while std::time::Instant::now() < deadline {
        if let Ok(Some(_)) = child.try_wait() {
            done = true;
            break;
        }
        std::thread::sleep(std::time::Duration::from_millis(10));
    }
    if !done {
        let _ = child.kill();
        let _ = child.wait();
    }
    let _ = std::fs::remove_dir_all(&dir);
    done
}

/// Runs the NEXT case (index `em.idx`) in a watchdog child first.  `Some(true)`: it did not return in time (5 s, and
/// with `retry` not within 30 s either: rules out a slow machine); `None`: enough time-outs of this `key` were seen in
/// this run (2 quick, 6 thorough), the caller skips the case.  No-op inside a child and for cases not selected by `--only`.
pub fn watchdog(em: &mut Em, key: &str, retry: bool) -> Option<bool> {
    if std::env::var("C12_CHILD").is_ok() || !em.only.map_or(true, |o| o == em.idx) {
        return Some(false);
    }
    let k = format!("glmfit:watchdog_timeout:{}", key);
    if *em.dist.get(&k).unwrap_or(&0) >= if em.thorough() { 6 } else { 2 } {
        em.count(&format!("glmfit:skipped_after_watchdog_timeouts:{}", key));
        return None;
    }
    let tier = em.tier.clone();
    let mut hangs = !child_finishes(em.idx, &tier, 5);
    if hangs && retry {
        hangs = !child_finishes(em.idx, &tier, 30);
    }
    if hangs {
        em.count(&k);
    }
    Some(hangs)
}

pub struct GlmCase {
    pub power: f64,
    /// link used by the data generator and the oracle (0 identity, 1 log, 2 logit)
    pub l: usize,
    /// `true`: `.link(..)` is NOT called; the documented default (identity for power <= 0, log otherwise) must be used
    pub auto_link: bool,
    pub icpt: bool,
    pub alpha: f64,
    pub tol: f64,
    pub bad: bool,
    /// record layout (lay % 5: four views + owned) + 5 * target layout (see `TLay`; filler NaN)
    pub lay: usize,
    /// `None` = the default budget of the crate (100)
    pub max_iter: Option<usize>,
    pub x: M,
    pub y: Vec<f64>,
}

fn op_glmfit(em: &mut Em, rng: &mut Rng, i: usize) {
    // the 36 (power, link, intercept) arms are cycled, every 6th fit leaves the link to the default selection
    let powers = [0.0, 1.0, 1.5, 1.25, 2.0, 3.0];
    let power = powers[i % 6];
    let auto_link = (i / 6) % 6 == 5;
    let l = if auto_link { if power <= 0.0 { 0 } else { 1 } } else { (i / 6) % 3 };
    let icpt = (i / 18) % 3 != 2;
    let n = 6 + rng.below(if em.thorough() { 60 } else { 20 });
    let nf = 1 + rng.below(3);
    let alpha = *rng.pick(&[0.0, 0.01, 0.1, 1.0, 1.0]);
    let tol = *rng.pick(&[1e-4, 1e-4, 1e-6]);
    let (x, mut y) = gen_glm_data(rng, power, l, n, nf, false);
    if auto_link && power == 0.0 {
        // Normal targets of either sign: a wrong default (log link) cannot even start
        for v in y.iter_mut() {
            *v -= 3.0;
        }
    }
    // targets ON the boundary of the support (y = 0 is a valid Poisson / compound Poisson-Gamma target): every 3rd such fit
    if (1.0..2.0).contains(&power) && (i / 6) % 3 == 1 {
        for v in y.iter_mut() {
            if rng.chance(1, 4) {
                *v = 0.0;
            }
        }
        y[0] = 0.0;
    }
    // a share of out-of-support targets: must be rejected with an error
    let bad = power > 0.0 && rng.chance(1, 8);
    if bad {
        let i = rng.below(n);
        y[i] = if power >= 2.0 && rng.coin() { 0.0 } else { -0.5 };
    }
    let lay = rng.below(5) + 5 * rng.below(3);
    run_glmfit(em, GlmCase { power, l, auto_link, icpt, alpha, tol, bad, lay, max_iter: Some(10_000), x, y });
}

pub fn run_glmfit(em: &mut Em, c: GlmCase) {
    let GlmCase { power, l, auto_link, icpt, alpha, tol, bad, lay, max_iter, x, y } = c;
    let (lay, tlay) = (lay % 5, lay / 5);
    let nf = x[0].len();
    let class = format!("glmfit:power={},link={},icpt={}", power_name(power), l, icpt as u8);
    let (x0, y0) = (x.clone(), y.clone());
    let has_zero = !bad && y.iter().any(|v| *v == 0.0);
    em.count(&class);
    em.count(&format!("glmfit:tlay={}", tlay));
    if bad {
        em.count("glmfit:target_out_of_support");
    }
    if auto_link {
        em.count("glmfit:default_link");
    }
    let op = format!("#glmfit power={} l={} auto={} icpt={} alpha={} tol={} bad={} lay={} tlay={} maxit={} x={} y={}", power, l, auto_link as u8, icpt as u8, alpha, tol, bad as u8, lay, tlay, max_iter.map_or("default".to_string(), |t| t.to_string()), hx2(&x), hx(&y));
    let class_v = class.clone();
    trace(&op);
    // every fit that is expected to succeed runs under the watchdog: with the identity link and power >= 1 the mean can
    // reach <= 0, where the deviance is undefined and the real `fit` may never return; any other arm that stops
    // returning is reported the same way (clause `terminates`) instead of hanging the check
    let mut hangs = false;
    if !bad {
        // without intercept, identity link, power >= 1: the start point has mean 0 and the fit never returns (open
        // finding): two witnesses per run (six thorough) are enough; every other class is always run
        let known = l == 0 && power > 0.0 && !icpt;
        match watchdog(em, if known { "icpt=0" } else { "icpt=1" }, !known) {
            None => {
                // keeps the case index aligned with the watchdog children, which never skip
                em.case(format!("#glmfit_skipped {}", &op[8..]), |ctx| {
                    ctx.mark_trivial();
                    "skipped".into()
                });
                // (and the follow-up case of a fit: gradient at the fitted point)
                em.case("#glmfit_point_skipped".to_string(), |ctx| {
                    ctx.mark_trivial();
                    "skipped".into()
                });
                return;
            }
            Some(h) => hangs = h,
        }
    }
    let mut fitted = false;
    let fitted_ref = &mut fitted;
    // identity link, power >= 1, with intercept: does the first steepest-descent step of unit length from the start
    // point (intercept = mean(y), coef = 0) already leave the domain mean > 0?  (open finding 6: the line search then
    // evaluates a NaN cost and never returns)
    let unit_step_leaves_domain = l == 0 && power > 0.0 && icpt && !bad && {
        let b0 = y.iter().sum::<f64>() / y.len() as f64;
        let (gw, gb) = doc_glm_grad(power, Link::Identity, alpha, &x, &y, &vec![0.0; nf], b0);
        x.iter().any(|r| r.iter().zip(&gw).map(|(a, g)| -a * g).sum::<f64>() + b0 - gb <= 0.0)
    };
    if unit_step_leaves_domain {
        em.count("glmfit:identity_link_unit_step_leaves_domain");
    }
    let body = move |ctx: &mut Ctx| {
        if hangs {
            let class = if unit_step_leaves_domain { format!("{}:unit_step_leaves_domain", class) } else { class.clone() };
            ctx.fail("terminates", &class, "fit did not return within 5 s (with intercept: nor within 30 s; watchdog child process killed); start point has mean <= 0 or the line search left the domain of the deviance".to_string());
            return "timeout".into();
        }
        let xl = Lay::new(&x, nf, lay % 4);
        let mut params = TweedieRegressor::params().power(power).alpha(alpha).fit_intercept(icpt).tol(tol);
        if !auto_link {
            params = params.link(link_of(l));
        }
        if let Some(mi) = max_iter {
            params = params.max_iter(mi);
        }
        let tl = TLay::new(&y, f64::NAN, tlay);
        let res = if lay == 4 && tlay == 0 {
            params.fit(&Dataset::new(arr2(&x, nf), Array1::from(y.clone())))
        } else if lay == 4 {
            params.fit(&DatasetBase::new(arr2(&x, nf), tl.view()))
        } else {
            params.fit(&DatasetBase::new(xl.view(), tl.view()))
        };
        if bad {
            // the statement asks for "an error"; which variant is not part of it
            ctx.require(res.is_err(), "rejects_out_of_support_targets", &format!("glmfit:power={}", power_name(power)), || format!("fit on targets {:?} returned {:?}", y, res.as_ref().map(|m| m.coef.to_vec())));
            return "ok".into();
        }
        match res {
            Err(e) => {
                // the error kind is part of the class: only "the line search met a NaN / Inf cost" with the identity link and
                // power >= 1 (the mean left the domain of the deviance: the error-returning face of open finding 6) is listed
                let msg = err_line(&e);
                let kind = if msg.contains("NaN or Inf") { "linesearch_nan_or_inf" } else { err_kind(&msg) };
                ctx.fail("fit_succeeds", &format!("{}:err={}", class, kind), format!("fit returned {}", msg));
                "err".into()
            }
            Ok(m) => {
                *fitted_ref = true;
                let coef = m.coef.to_vec();
                let b = m.intercept;
                ctx.require(coef.len() == nf && (icpt || b == 0.0), "shape", &class, || format!("coef {:?} intercept {} (fit_intercept = {})", coef, b, icpt));
                let (gw, gb) = doc_glm_grad(power, link_of(l), alpha, &x, &y, &coef, b);
                let mut g = gw;
                if icpt {
                    g.push(gb);
                }
                let gn = norm2(&g);
                // curvature bound of the unit deviance along the fit: 2 (1 + max|y|) / min(mu, 1)^(power+1) is generous for these data
                let ymax = y.iter().cloned().fold(0.0, |a: f64, b: f64| a.max(b.abs()));
                let floor = stagnation_floor(&x, icpt, alpha, 2.0 * (1.0 + ymax) * 20.0, doc_glm_obj(power, link_of(l), alpha, &x, &y, &coef, b));
                ctx.require(gn <= tol * 1.0001 + floor, "stationary", &class, || format!("|gradient of 1/2(deviance + alpha |w|^2)| = {:e} > tol {:e} (+ solver noise floor {:e}) at coef={:?} intercept={}{}", gn, tol, floor, coef, b, if auto_link { " (link left to the default: identity for power 0, log otherwise)" } else { "" }));
                // predictions: on the training rows and on rows scaled by +-30 (|eta| large)
                let mut rows = x.clone();
                rows.extend(x.iter().take(3).map(|r| r.iter().map(|v| v * 30.0).collect::<Vec<f64>>()));
                rows.extend(x.iter().take(3).map(|r| r.iter().map(|v| v * -30.0).collect::<Vec<f64>>()));
                let pr = m.predict(&arr2(&rows, nf)).to_vec();
                ctx.require(pr.len() == rows.len(), "shape", &class, || format!("{} predictions for {} rows", pr.len(), rows.len()));
                for (v, row) in pr.iter().zip(&rows) {
                    let ok = match l {
                        0 => v.is_finite(),
                        1 => *v >= 0.0,
                        _ => *v >= 0.0 && *v <= 1.0,
                    };
                    ctx.require(ok, "predictions_in_link_range", &class, || format!("prediction {}", v));
                    let eta: f64 = row.iter().zip(&coef).map(|(a, c)| a * c).sum::<f64>() + b;
                    let want = doc_link_inv(link_of(l), eta);
                    ctx.require(close(*v, want, 1e-9, 1e-300), "prediction_is_inverse_link_of_linear_predictor", &class, || format!("prediction {} but h({}) = {}", v, eta, want));
                }
                "ok".into()
            }
        }
    };
    if bad {
        em.case(op, body)
    } else {
        em.case_valid(op, &class_v, body)
    }
    if bad {
        return;
    }
    if fitted {
        em.count("glmfit:fitted");
        em.count(&format!("glmfit:fitted:tlay={}", tlay));
        if has_zero {
            em.count("glmfit:fitted:targets_with_zero");
        }
        em.count(&format!("glmfit:fitted:power={},link={}", power_name(power), l));
        if auto_link {
            em.count("glmfit:fitted:default_link");
        }
        if l == 0 && power > 0.0 {
            em.count("glmfit:fitted:identity_link_power_ge_1");
        }
    }
    // the CODE's gradient and (op `ggrad`) the MODEL's `Glm.gradient` AT the point a real fit returns.  Not for the arms
    // whose fit may never return (identity link, power >= 1): the re-fit runs in-process.
    let (x, y) = (x0, y0);
    let risky = l == 0 && power > 0.0;
    let point = if hangs || risky {
        None
    } else {
        pre(em, || {
            let mut params = TweedieRegressor::params().power(power).alpha(alpha).fit_intercept(icpt).tol(tol);
            if !auto_link {
                params = params.link(link_of(l));
            }
            if let Some(mi) = max_iter {
                params = params.max_iter(mi);
            }
            let m = params.fit(&Dataset::new(arr2(&x, nf), Array1::from(y.clone()))).ok()?;
            let mut p = vec![];
            if icpt {
                p.push(m.intercept);
            }
            p.extend(m.coef.iter());
            if p.iter().all(|v| v.is_finite()) { Some(p) } else { None }
        })
    };
    match point {
        None => em.case("#glmfit_point_skipped".to_string(), |ctx| {
            ctx.mark_trivial();
            "skipped".into()
        }),
        Some(p) => {
            em.count("glmfit:code_gradient_at_fitted_point");
            let op = format!("ggrad l={} power={} alpha={} icpt={} nf={} x={} y={} p={}", l, hex64(power), hex64(alpha), icpt as u8, nf, hx2(&x), hx(&y), hx(&p));
            em.case_valid(op, &class_v.clone(), move |ctx| {
                let g = gh::tweedie_gradient_hook(&arr2(&x, nf), &Array1::from(y.clone()), icpt, link_of(l), power, alpha, &Array1::from(p.clone())).unwrap().to_vec();
                let off = icpt as usize;
                let (gw, gb) = doc_glm_grad(power, link_of(l), alpha, &x, &y, &p[off..], if icpt { p[0] } else { 0.0 });
                let mut want = vec![];
                if icpt {
                    want.push(gb);
                }
                want.extend(gw);
                // |terms| of the sums: |d unit deviance / d mu| * |h'| * |x|
                let mag: f64 = 1.0 + want.iter().map(|v| v.abs()).sum::<f64>() + x.iter().zip(&y).map(|(r, yi)| {
                    let eta: f64 = r.iter().zip(&p[off..]).map(|(a, c)| a * c).sum::<f64>() + if icpt { p[0] } else { 0.0 };
                    let mu = doc_link_inv(link_of(l), eta);
                    ((yi - mu) / mu.powf(power) * doc_link_inv_der(link_of(l), eta)).abs() * (1.0 + r.iter().map(|v| v.abs()).sum::<f64>())
                }).sum::<f64>();
                ctx.require(g.len() == want.len() && g.iter().zip(&want).all(|(a, b)| (a - b).abs() <= 1e-11 * mag), "grad_is_derivative_of_documented_objective", &format!("{}:fitted_point", class_v), || format!("at the fitted point: TweedieProblem::gradient = {:?}, textbook gradient = {:?}", g, want));
                format!("ok {}", tfs(&g))
            });
        }
    }
}

// ------------------------------------------------------------------ run

pub fn run(em: &mut Em, rng: &mut Rng) {
    let f = if em.thorough() { 10 } else { 1 };
    // label coding: exhaustive over short label vectors over 3 symbols, plus random longer ones
    let lmax = if em.thorough() { 7 } else { 5 };
    for len in 0..=lmax {
        let mut idx = vec![0usize; len];
        loop {
            let ty = if idx.iter().all(|c| *c < 2) { (len + idx.iter().sum::<usize>()) % 3 } else { (len + idx.iter().sum::<usize>()) % 2 };
            op_label2(em, idx.clone(), ty);
            if len > 0 {
                op_labelm(em, idx.clone(), ty % 2);
            }
            let mut i = 0;
            while i < len {
                idx[i] += 1;
                if idx[i] < 3 {
                    break;
                }
                idx[i] = 0;
                i += 1;
            }
            if i == len {
                break;
            }
        }
    }
    for _ in 0..100 * f {
        let len = 1 + rng.below(14);
        let k = 2 + rng.below(4);
        let y: Vec<usize> = (0..len).map(|_| if rng.chance(1, 3) { 0 } else { rng.below(k) }).collect();
        if k == 2 || rng.chance(1, 4) {
            let y2: Vec<usize> = y.iter().map(|c| c % 2).collect();
            op_label2(em, y2, rng.below(3));
        } else {
            op_label2(em, y.clone(), rng.below(2));
        }
        op_labelm(em, y, rng.below(2));
    }
    // scalar functions incl. the extremes
    op_sfn(em, "logistic", vec![0.0, 1.0, -1.0, 36.0, -36.0, 709.0, -709.0, 710.0, -710.0, 745.5, -745.5, 1000.0, -1000.0, 1e300, -1e300]);
    op_sfn(em, "loglogistic", vec![0.0, 1.0, -1.0, 36.0, -36.0, 709.0, -709.0, 1000.0, -1000.0, 1e-300, -1e-300]);
    for _ in 0..40 * f {
        let n = 1 + rng.below(6);
        let v: Vec<f64> = (0..n).map(|_| if rng.coin() { lat(rng, 8) } else { (rng.unit() * 2.0 - 1.0) * 1e3 }).collect();
        op_sfn(em, if rng.coin() { "logistic" } else { "loglogistic" }, v);
    }
    for _ in 0..60 * f {
        let n = 1 + rng.below(6);
        let sc = *rng.pick(&[1i64, 8, 100, 1000]);
        let v: Vec<f64> = (0..n).map(|_| rng.range(-8 * sc, 8 * sc) as f64 / 8.0).collect();
        op_softmax(em, v);
        let rows = 1 + rng.below(4);
        let k = 1 + rng.below(4);
        let m: M = (0..rows).map(|_| (0..k).map(|_| rng.range(-8 * sc, 8 * sc) as f64 / 8.0).collect()).collect();
        op_lse(em, m);
    }
    for i in 0..150 * f {
        op_loss_grad(em, rng, i % 3 != 2);
        op_mloss_mgrad(em, rng, i % 3 != 2);
    }
    for i in 0..200 * f {
        op_predict2(em, rng, i % 2 == 1);
        op_predictm(em, rng, i % 2 == 1);
    }
    // GLM pieces
    for _ in 0..80 * f {
        op_inrange(em, rng);
        op_link(em, rng);
        op_gpredict(em, rng);
    }
    for i in 0..150 * f {
        op_dev(em, rng, i % 3 != 2);
        op_gcost_ggrad(em, rng, i % 3 != 2);
    }
    // fits: first the witnesses of the two repaired defects (they fail again if a fix is reverted)
    {
        // Poisson cost without the factor 2 on (mu - y): cost and gradient inconsistent, the line search stops early
        let x: M = (0..8).map(|i| vec![(i as f64) / 4.0 - 1.0]).collect();
        let y = vec![1.0, 3.0, 2.0, 2.0, 4.0, 3.0, 6.0, 5.0];
        for l in [1usize, 2, 0] {
            let yy: Vec<f64> = if l == 2 { y.iter().map(|v| v / 8.0).collect() } else { y.clone() };
            run_glmfit(em, GlmCase { power: 1.0, l, auto_link: false, icpt: true, alpha: 0.1, tol: 1e-6, bad: false, lay: 4, max_iter: Some(10_000), x: x.clone(), y: yy });
        }
        // log_sum_exp with the max of the whole matrix: rows far below it underflow, the gradient is wrong
        let x: M = [-117.2, -131.9, 151.0, -74.3, 87.9, -149.4, -58.0].iter().map(|v| vec![*v]).collect();
        run_fitm(em, "fitm:witness_of_repaired_log_sum_exp".to_string(), x.clone(), vec![1, 2, 3, 0, 0, 4, 0], 5, 0.1, true, 0, 1e-4, None, 4, Some(10_000));
        run_fitm(em, "fitm:witness_of_repaired_log_sum_exp".to_string(), x, vec![1, 2, 3, 0, 0, 4, 0], 5, 0.1, true, 1, 1e-4, Some(vec![vec![0.001, -0.002, 0.0, 0.003, -0.001], vec![0.0; 5]]), 4, Some(10_000));
    }
    for i in 0..72 * f {
        op_fit2(em, rng, i);
        op_fitm(em, rng, i);
        op_glmfit(em, rng, i);
    }
    ext::run(em, rng);
}
