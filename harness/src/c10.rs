//! C10 — Gaussian mixture: a fitted model is a valid mixture and yields valid probabilities.
//!
//! EM itself is not modelled.  The harness fits with the real API on generated blobs
//! (separated / overlapping / anisotropic / duplicated points / with an outlier; 1..6 features;
//! both initialisers), checks the property's predicate on the fitted model (`#fit`, oracle only)
//! and then ties the two steps the model *does* contain to the real code, from the fitted
//! parameters:
//!   estep   (weights, means, precisions_chol, X)  -> log_prob_norm, log_resp      (hook)
//!   mstep   (X, resp, reg)                        -> nk, weights, means, covariances | EmptyCluster (hook)
//!   prec    precisions_chol                       -> precisions                    (hook)
//!   proba   (parameters, queries near + 10..1e6 sigma away) -> predict_proba       (public API)
//!   predict same                                  -> predict labels, decision margin
//! Floats that went through matrixmultiply / unrolled sums / libm carry `~`.
use crate::util::*;
use linfa::traits::{Fit, Predict};
use linfa::DatasetBase;
use linfa_clustering::verif_hooks_c10 as hk;
use linfa_clustering::{GaussianMixtureModel, GmmError, GmmInitMethod};
use ndarray::{Array1, Array2, Array3, Axis};
use rand::SeedableRng;
use rand_xoshiro::Xoshiro256Plus;
use std::panic::{catch_unwind, AssertUnwindSafe};

type Gmm = GaussianMixtureModel<f64>;

fn th(x: f64) -> String {
    format!("~{}", hex64c(x))
}
fn m2(a: &Array2<f64>) -> String {
    list2(a.rows().into_iter().map(|r| r.to_vec()), |x| hex64(x))
}
fn m2t(a: &Array2<f64>) -> String {
    list2(a.rows().into_iter().map(|r| r.to_vec()), |x| th(x))
}
fn m3(a: &Array3<f64>) -> String {
    list3(a.outer_iter().map(|m| m.rows().into_iter().map(|r| r.to_vec()).collect::<Vec<_>>()), |x| hex64(x))
}
fn m3t(a: &Array3<f64>) -> String {
    list3(a.outer_iter().map(|m| m.rows().into_iter().map(|r| r.to_vec()).collect::<Vec<_>>()), |x| th(x))
}
/// scale-free presentation of a stack of (nearly) symmetric matrices: the diagonals, and the
/// off-diagonal entries divided by sqrt(m_aa * m_bb) (rounding of an inner product is bounded
/// relative to that product of norms, not relative to the entry itself)
fn diag_corr(a: &Array3<f64>) -> (String, String) {
    let d = a.dim().1;
    let dg = list2(a.outer_iter().map(|m| (0..d).map(|i| m[[i, i]]).collect::<Vec<_>>()), |x| th(x));
    let cc = list3(
        a.outer_iter().map(|m| (0..d).map(|i| (0..d).map(|j| if i == j { 1.0 } else { m[[i, j]] / (m[[i, i]] * m[[j, j]]).sqrt() }).collect::<Vec<_>>()).collect::<Vec<_>>()),
        |x| th(x),
    );
    (dg, cc)
}
fn v1(a: &Array1<f64>) -> String {
    list(a.iter().copied(), |x| hex64(x))
}
fn v1t(a: &Array1<f64>) -> String {
    list(a.iter().copied(), |x| th(x))
}

fn gauss(rng: &mut Rng) -> f64 {
    let u1 = (rng.unit() + 1e-300).max(1e-300);
    let u2 = rng.unit();
    (-2.0 * u1.ln()).sqrt() * (2.0 * std::f64::consts::PI * u2).cos()
}
/// round to a multiple of 2^-10 so request values stay short of pathological bit patterns
fn q(x: f64) -> f64 {
    (x * 1024.0).round() / 1024.0
}

struct Blobs {
    kind: &'static str,
    x: Array2<f64>,
}

fn gen_blobs(rng: &mut Rng, d: usize, k: usize, per: usize) -> Blobs {
    let kind = *rng.pick(&["separated", "separated", "overlapping", "anisotropic", "anisotropic", "duplicates", "outlier", "scaled"]);
    let scale = if kind == "scaled" { *rng.pick(&[1e-3, 1.0 / 64.0, 16.0]) } else { 1.0 };
    let sep = match kind {
        "overlapping" => 1.0 + 1.5 * rng.unit(),
        _ => 8.0 + 20.0 * rng.unit(),
    };
    let mut rows: Vec<Vec<f64>> = vec![];
    for c in 0..k {
        let centre: Vec<f64> = (0..d).map(|_| sep * (rng.unit() * 2.0 - 1.0) * (k as f64).sqrt() + if d == 1 { sep * c as f64 } else { 0.0 }).collect();
        // per-axis scales and a random mixing matrix for anisotropy
        let ax: Vec<f64> = (0..d).map(|_| if kind == "anisotropic" { 0.2 * (25.0f64).powf(rng.unit()) } else { 0.6 + 0.8 * rng.unit() }).collect();
        let mix: Vec<Vec<f64>> = (0..d).map(|i| (0..d).map(|j| if i == j { 1.0 } else if kind == "anisotropic" { 0.8 * (rng.unit() * 2.0 - 1.0) } else { 0.0 }).collect()).collect();
        let cnt = if per > 4 { per - 2 + rng.below(5) } else { per };
        for _ in 0..cnt {
            let z: Vec<f64> = (0..d).map(|j| ax[j] * gauss(rng)).collect();
            let mut p: Vec<f64> = (0..d).map(|i| centre[i] + (0..d).map(|j| mix[i][j] * z[j]).sum::<f64>()).collect();
            if kind == "duplicates" {
                for v in p.iter_mut() {
                    *v = v.round();
                }
            }
            rows.push(p.iter().map(|v| q(*v) * scale).collect());
        }
    }
    if kind == "duplicates" {
        // repeat some rows verbatim
        for _ in 0..rows.len() / 3 {
            let r = rows[rng.below(rows.len())].clone();
            rows.push(r);
        }
    }
    if kind == "outlier" {
        let far = *rng.pick(&[60.0, 300.0, 5000.0]);
        let r: Vec<f64> = (0..d).map(|_| q(far * (rng.unit() + 0.5))).collect();
        rows.push(r);
    }
    rng.shuffle(&mut rows);
    let n = rows.len();
    let x = Array2::from_shape_fn((n, d), |(i, j)| rows[i][j]);
    Blobs { kind, x }
}

// ---------------------------------------------------------------- first-principles helpers

fn all_finite<'a>(it: impl IntoIterator<Item = &'a f64>) -> bool {
    it.into_iter().all(|x| x.is_finite())
}

/// smallest eigenvalue of a symmetric matrix (cyclic Jacobi), d <= 8
fn lambda_min(a: &Array2<f64>) -> f64 {
    let d = a.nrows();
    let mut m: Vec<Vec<f64>> = (0..d).map(|i| (0..d).map(|j| 0.5 * (a[[i, j]] + a[[j, i]])).collect()).collect();
    for _sweep in 0..60 {
        let mut off = 0.0;
        for i in 0..d {
            for j in 0..d {
                if i != j {
                    off += m[i][j] * m[i][j];
                }
            }
        }
        if off == 0.0 {
            break;
        }
        for p in 0..d {
            for r in p + 1..d {
                if m[p][r] == 0.0 {
                    continue;
                }
                let theta = (m[r][r] - m[p][p]) / (2.0 * m[p][r]);
                let t = theta.signum() / (theta.abs() + (theta * theta + 1.0).sqrt());
                let t = if theta == 0.0 { 1.0 } else { t };
                let c = 1.0 / (t * t + 1.0).sqrt();
                let s = t * c;
                for i in 0..d {
                    let (a_ip, a_ir) = (m[i][p], m[i][r]);
                    m[i][p] = c * a_ip - s * a_ir;
                    m[i][r] = s * a_ip + c * a_ir;
                }
                for i in 0..d {
                    let (a_pi, a_ri) = (m[p][i], m[r][i]);
                    m[p][i] = c * a_pi - s * a_ri;
                    m[r][i] = s * a_pi + c * a_ri;
                }
            }
        }
    }
    (0..d).map(|i| m[i][i]).fold(f64::INFINITY, f64::min)
}

fn maxabs(a: &Array2<f64>) -> f64 {
    a.iter().fold(0.0f64, |m, x| m.max(x.abs()))
}

/// the "valid mixture" half of the statement, on explicit parameters
fn oracle_params(ctx: &mut Ctx, class: &str, strict_pd: bool, x: &Array2<f64>, reg: f64, w: &Array1<f64>, mu: &Array2<f64>, cov: &Array3<f64>, prec: Option<&Array3<f64>>) {
    let (n, d) = x.dim();
    let k = w.len();
    let fin = all_finite(w.iter()) && all_finite(mu.iter()) && all_finite(cov.iter()) && prec.map_or(true, |p| all_finite(p.iter()));
    ctx.require(fin, "params_finite", class, || format!("non-finite parameter in a returned model: w={:?} mu={:?}", w, mu));
    if !fin {
        return;
    }
    ctx.require(mu.dim() == (k, d) && cov.dim() == (k, d, d), "shapes", class, || format!("means {:?} covariances {:?} for k={} d={}", mu.dim(), cov.dim(), k, d));
    ctx.require(w.iter().all(|v| *v > 0.0), "weights_pos", class, || format!("weights {:?}", w));
    let s: f64 = w.iter().sum();
    ctx.require((s - 1.0).abs() <= 1e-9, "weights_sum_one", class, || format!("weights {:?} sum to {:e}", w, s));
    // bounding box
    for c in 0..d {
        let col = x.column(c);
        let lo = col.iter().cloned().fold(f64::INFINITY, f64::min);
        let hi = col.iter().cloned().fold(f64::NEG_INFINITY, f64::max);
        let slack = 1e-9 * (hi - lo).max(lo.abs()).max(hi.abs()).max(1e-300);
        for j in 0..k {
            let m = mu[[j, c]];
            ctx.require(m >= lo - slack && m <= hi + slack, "means_in_bbox", class, || format!("mean[{}][{}]={:e} outside [{:e},{:e}] (n={})", j, c, m, lo, hi, n));
        }
    }
    for j in 0..k {
        let cj = cov.index_axis(Axis(0), j).to_owned();
        let scale = maxabs(&cj).max(1e-300);
        let mut asym = 0.0f64;
        for a in 0..d {
            for b in 0..d {
                asym = asym.max((cj[[a, b]] - cj[[b, a]]).abs());
            }
        }
        ctx.require(asym <= 1e-12 * scale, "cov_symmetric", class, || format!("covariance {} asymmetric by {:e} (scale {:e})", j, asym, scale));
        for a in 0..d {
            ctx.require(cj[[a, a]] >= reg * (1.0 - 1e-12), "cov_diag_ge_reg", class, || format!("covariance {} diagonal {} = {:e} < reg {:e}", j, a, cj[[a, a]], reg));
        }
        let lm = lambda_min(&cj);
        // v'Σv >= reg |v|^2 for every M-step (theorem cov_pd) ...
        ctx.require(lm >= reg * (1.0 - 1e-9) - 1e-12 * scale, "cov_pd", class, || format!("covariance {} smallest eigenvalue {:e}, reg {:e}, scale {:e}", j, lm, reg, scale));
        // ... and strictly positive definite for a fitted model (its Cholesky factorisation was accepted).
        // An eigenvalue within the resolution of this oracle (64 eps * largest entry) of zero means the returned covariance is singular to working precision.
        if strict_pd && lm <= 64.0 * f64::EPSILON * scale && lm >= -1e-12 * scale {
            ctx.fail("cov_pd_singular", class, format!("fit returned a covariance that is singular to working precision: component {} smallest eigenvalue {:e}, largest entry {:e}, reg {:e}; data {:?}", j, lm, scale, reg, if x.len() <= 36 { x.rows().into_iter().map(|r| r.to_vec()).collect::<Vec<_>>() } else { vec![] }));
        }
        if let Some(p) = prec {
            let pj = p.index_axis(Axis(0), j).to_owned();
            let prod = pj.dot(&cj);
            let mut res = 0.0f64;
            for a in 0..d {
                for b in 0..d {
                    res = res.max((prod[[a, b]] - if a == b { 1.0 } else { 0.0 }).abs());
                }
            }
            // backward-error bound: rounding of an inverse scales with the condition number
            let cond = (d as f64) * maxabs(&pj) * scale;
            ctx.require(res <= 1e-10 * cond.max(1.0), "precision_is_inverse", class, || format!("|P*Sigma - I| = {:e} for component {} (cond ~ {:e})", res, j, cond));
            let mut pas = 0.0f64;
            for a in 0..d {
                for b in 0..d {
                    pas = pas.max((pj[[a, b]] - pj[[b, a]]).abs());
                }
            }
            ctx.require(pas <= 1e-12 * maxabs(&pj).max(1e-300), "precision_symmetric", class, || format!("precision {} asymmetric by {:e}", j, pas));
        }
    }
}

/// the "valid probabilities" half, on the output of predict_proba / predict
fn oracle_proba(ctx: &mut Ctx, class_of: &dyn Fn(usize) -> String, queries: &Array2<f64>, p: &Array2<f64>, labels: Option<&Array1<usize>>) {
    for i in 0..p.nrows() {
        let class = class_of(i);
        let row = p.row(i);
        let fin = row.iter().all(|v| v.is_finite());
        ctx.require(fin, "proba_finite", &class, || format!("predict_proba({:?}) = {:?}", queries.row(i).to_vec(), row.to_vec()));
        if !fin {
            continue;
        }
        ctx.require(row.iter().all(|v| *v >= 0.0), "proba_nonneg", &class, || format!("predict_proba({:?}) = {:?}", queries.row(i).to_vec(), row.to_vec()));
        let s: f64 = row.iter().sum();
        ctx.require((s - 1.0).abs() <= 1e-9, "proba_sum_one", &class, || format!("predict_proba({:?}) = {:?} sums to {:e}", queries.row(i).to_vec(), row.to_vec(), s));
        if let Some(l) = labels {
            let mx = row.iter().cloned().fold(f64::NEG_INFINITY, f64::max);
            ctx.require(l[i] < row.len() && row[l[i]] == mx, "predict_is_argmax", &class, || format!("predict({:?}) = {} but probabilities {:?}", queries.row(i).to_vec(), l[i], row.to_vec()));
        }
    }
}

fn margin_of(p: &Array2<f64>) -> f64 {
    let mut m = f64::INFINITY;
    for row in p.rows() {
        let mut top = f64::NEG_INFINITY;
        let mut second = f64::NEG_INFINITY;
        for v in row.iter() {
            if *v > top {
                second = top;
                top = *v;
            } else if *v > second {
                second = *v;
            }
        }
        let g = if row.len() == 1 { top } else { top - second };
        if !(g >= m) {
            m = g;
        }
    }
    m
}

// ---------------------------------------------------------------- ops

fn params_str(w: &Array1<f64>, mu: &Array2<f64>, pc: &Array3<f64>) -> String {
    format!("w={} mu={} pc={}", v1(w), m2(mu), m3(pc))
}

fn op_estep(em: &mut Em, g: &Gmm, x: &Array2<f64>) {
    let op = format!("estep {} x={}", params_str(g.weights(), g.means(), hk::precisions_chol(g)), m2(x));
    em.case_valid(op, "estep", |ctx| {
        let (lpn, lr) = hk::estimate_log_prob_resp(g, x);
        // oracle: responsibilities exp(log_resp) are probabilities
        let p = lr.mapv(f64::exp);
        oracle_proba(ctx, &|_| "query=train".to_string(), x, &p, None);
        format!("ok lpn={} lr={} margin=~0000000000000000", v1t(&lpn), m2t(&lr))
    });
}

fn op_mstep(em: &mut Em, tag: &str, x: &Array2<f64>, resp: &Array2<f64>, reg: f64) {
    let op = format!("mstep reg={} x={} r={}", hex64(reg), m2(x), m2(resp));
    let class = format!("mstep:{}", tag);
    let rows_ok = resp.rows().into_iter().all(|r| (r.iter().sum::<f64>() - 1.0).abs() <= 1e-9 && r.iter().all(|v| *v >= 0.0));
    em.case_valid(op, &class, |ctx| {
        match hk::estimate_gaussian_parameters(x, resp, reg) {
            Ok((nk, mu, cov)) => {
                let w = &nk / x.nrows() as f64;
                if rows_ok {
                    // any M-step on responsibilities is a valid mixture (precisions need the Cholesky step)
                    oracle_params(ctx, &class, false, x, reg, &w, &mu, &cov, None);
                }
                let (dg, cc) = diag_corr(&cov);
                format!("ok nk={} w={} mu={} covdiag={} covcorr={}", v1(&nk), v1(&w), m2t(&mu), dg, cc)
            }
            Err(GmmError::EmptyCluster(_)) => {
                // the guard must only fire on a (numerically) empty column
                let emptied = (0..resp.ncols()).any(|j| resp.column(j).iter().sum::<f64>() < 1e-14);
                ctx.require(emptied, "empty_cluster_error", &class, || "EmptyCluster reported although every column of the responsibilities has mass".to_string());
                "err EmptyCluster".to_string()
            }
            Err(e) => format!("err other:{}", hexstr(&e.to_string())),
        }
    });
}

fn op_prec(em: &mut Em, pc: &Array3<f64>) {
    let op = format!("prec pc={}", m3(pc));
    em.case_valid(op, "prec", |_ctx| {
        let p = hk::compute_precisions_full(pc);
        let (dg, cc) = diag_corr(&p);
        format!("ok pdiag={} pcorr={}", dg, cc)
    });
}

fn op_proba(em: &mut Em, g: &Gmm, queries: &Array2<f64>, far: &[u32]) {
    let ps = params_str(g.weights(), g.means(), hk::precisions_chol(g));
    let class_of = |i: usize| if far[i] == 0 { "query=near".to_string() } else { format!("query=far:1e{}", far[i]) };
    let op = format!("proba {} x={}", ps, m2(queries));
    em.case_valid(op, "proba", |ctx| {
        let p = g.predict_proba(queries);
        oracle_proba(ctx, &class_of, queries, &p, None);
        format!("ok p={} margin=~0000000000000000", m2t(&p))
    });
    let op = format!("predict {} x={}", ps, m2(queries));
    em.case_valid(op, "predict", |ctx| {
        let lab: Array1<usize> = g.predict(queries);
        let p = g.predict_proba(queries);
        oracle_proba(ctx, &class_of, queries, &p, Some(&lab));
        format!("ok lab={} margin={}", list(lab.iter(), |v| v.to_string()), th(margin_of(&p)))
    });
}

// ---------------------------------------------------------------- generators

struct FitCfg {
    k: usize,
    init: GmmInitMethod,
    reg: f64,
    tol: f64,
    runs: u64,
    iters: u64,
    seed: u64,
}

fn do_fit(cfg: &FitCfg, x: &Array2<f64>) -> std::thread::Result<Result<Gmm, GmmError>> {
    catch_unwind(AssertUnwindSafe(|| {
        let ds = DatasetBase::from(x.clone());
        GaussianMixtureModel::params_with_rng(cfg.k, Xoshiro256Plus::seed_from_u64(cfg.seed))
            .init_method(cfg.init)
            .reg_covariance(cfg.reg)
            .tolerance(cfg.tol)
            .n_runs(cfg.runs)
            .max_n_iterations(cfg.iters)
            .fit(&ds)
    }))
}

fn err_kind(e: &GmmError) -> &'static str {
    match e {
        GmmError::InvalidValue(_) => "InvalidValue",
        GmmError::LinalgError(_) => "LinalgError",
        GmmError::EmptyCluster(_) => "EmptyCluster",
        GmmError::LowerBoundError(_) => "LowerBoundError",
        GmmError::NotConverged(_) => "NotConverged",
        GmmError::KMeansError(_) => "KMeansError",
        GmmError::LinfaError(_) => "LinfaError",
        GmmError::MinMaxError(_) => "MinMaxError",
    }
}

fn far_queries(rng: &mut Rng, g: &Gmm, x: &Array2<f64>, nq_near: usize) -> (Array2<f64>, Vec<u32>) {
    let d = x.ncols();
    let k = g.means().nrows();
    // sigma: the largest marginal standard deviation of any component
    let mut sig = 0.0f64;
    for j in 0..k {
        for a in 0..d {
            sig = sig.max(g.covariances()[[j, a, a]].abs().sqrt());
        }
    }
    if !(sig.is_finite() && sig > 0.0) {
        sig = 1.0;
    }
    let mut rows: Vec<Vec<f64>> = vec![];
    let mut far: Vec<u32> = vec![];
    for _ in 0..nq_near {
        match rng.below(3) {
            0 => rows.push(x.row(rng.below(x.nrows())).to_vec()),
            1 => {
                // between two component means
                let (a, b) = (rng.below(k), rng.below(k));
                let t = rng.unit();
                rows.push((0..d).map(|c| q(g.means()[[a, c]] * t + g.means()[[b, c]] * (1.0 - t))).collect());
            }
            _ => {
                let a = rng.below(k);
                rows.push((0..d).map(|c| q(g.means()[[a, c]] + 3.0 * sig * gauss(rng))).collect());
            }
        }
        far.push(0);
    }
    // spread of the means, so that "t sigma away" is measured from every component
    let mut spread = 0.0f64;
    for a in 0..k {
        for b in 0..k {
            let dd: f64 = (0..d).map(|c| (g.means()[[a, c]] - g.means()[[b, c]]).powi(2)).sum();
            spread = spread.max(dd.sqrt());
        }
    }
    for e in 1..=6u32 {
        let t = 10f64.powi(e as i32);
        let j = rng.below(k);
        let mut u: Vec<f64> = (0..d).map(|_| gauss(rng)).collect();
        let nu = u.iter().map(|v| v * v).sum::<f64>().sqrt().max(1e-12);
        for v in u.iter_mut() {
            *v /= nu;
        }
        rows.push((0..d).map(|c| g.means()[[j, c]] + (t * sig + spread) * u[c]).collect());
        far.push(e);
    }
    let n = rows.len();
    (Array2::from_shape_fn((n, d), |(i, j)| rows[i][j]), far)
}

fn one_instance(em: &mut Em, rng: &mut Rng, big: bool) {
    let d = 1 + rng.below(6);
    let k = 1 + rng.below(if big { 6 } else { 4 });
    let per = if big { 10 + rng.below(30) } else { 6 + rng.below(12) };
    let mut b = gen_blobs(rng, d, k, per);
    let rank_def = rng.chance(1, 25);
    if rank_def {
        // at most d points for one component and no regularisation: the exact covariance is singular
        let m = 2 + rng.below(d);
        b.x = b.x.slice(ndarray::s![..m.min(b.x.nrows()), ..]).to_owned();
        b.kind = "rank_deficient";
    }
    let x = b.x;
    let k_fit = if rank_def { 1 } else if rng.chance(1, 6) { (k + rng.below(2) + 1).min(x.nrows()) } else { k };
    let cfg = FitCfg {
        k: k_fit,
        init: if rng.coin() { GmmInitMethod::KMeans } else { GmmInitMethod::Random },
        reg: if rank_def { 0.0 } else { *rng.pick(&[0.0, 1e-6, 1e-6, 1e-3, 0.1, 1.0]) },
        tol: *rng.pick(&[1e-2, 1e-3, 1e-3, 1e-6]),
        runs: *rng.pick(&[1, 1, 2, 3]),
        iters: *rng.pick(&[1, 4, 30, 100, 100, 100, 300, 300]),
        seed: rng.next() % 1000,
    };
    let init_s = if cfg.init == GmmInitMethod::KMeans { "kmeans" } else { "random" };
    em.count(&format!("data:{}", b.kind));
    em.count(&format!("init:{}", init_s));
    em.count(&format!("d:{}", d));
    em.count(&format!("k:{}", cfg.k));
    let res = do_fit(&cfg, &x);
    let op = format!(
        "#fit kind={} n={} d={} k={} init={} reg={:e} tol={:e} runs={} iters={} seed={}",
        b.kind,
        x.nrows(),
        d,
        cfg.k,
        init_s,
        cfg.reg,
        cfg.tol,
        cfg.runs,
        cfg.iters,
        cfg.seed
    );
    let class = format!("fit:init={}:data={}:reg={}", init_s, b.kind, if cfg.reg == 0.0 { "0" } else { "pos" });
    let mut outcome = String::new();
    em.case_valid(op, &class, |ctx| match &res {
        Err(_) => panic!("fit panicked"),
        Ok(Err(e)) => {
            outcome = format!("fit_err:{}", err_kind(e));
            format!("err {}", err_kind(e))
        }
        Ok(Ok(g)) => {
            outcome = "fit_ok".to_string();
            oracle_params(ctx, &class, true, &x, cfg.reg, g.weights(), g.means(), g.covariances(), Some(g.precisions()));
            // precisions_chol is what prediction uses: it must be finite and reproduce precisions
            ctx.require(all_finite(hk::precisions_chol(g).iter()), "params_finite", &class, || "non-finite precisions_chol".to_string());
            "ok".to_string()
        }
    });
    if !outcome.is_empty() {
        em.count(&outcome);
    }
    let g = match res {
        Ok(Ok(g)) => g,
        _ => return,
    };
    if !(all_finite(g.weights().iter()) && all_finite(g.means().iter()) && all_finite(hk::precisions_chol(&g).iter())) {
        return;
    }
    // E-step on (a prefix of) the training data, M-step on the responsibilities it yields
    let m = x.nrows().min(if big { 40 } else { 16 });
    let xs = x.slice(ndarray::s![..m, ..]).to_owned();
    op_estep(em, &g, &xs);
    let (_, lr) = hk::estimate_log_prob_resp(&g, &x);
    let resp = lr.mapv(f64::exp);
    if all_finite(resp.iter()) {
        op_mstep(em, "fitted", &x, &resp, cfg.reg);
    }
    op_prec(em, hk::precisions_chol(&g));
    let (qs, far) = far_queries(rng, &g, &x, 6);
    proba_lines(em, &g, &qs, &far);
}

/// near queries in one request, every far query in its own (a far query between two nearly
/// coincident components is ill-conditioned and its line is skipped by the comparison)
fn proba_lines(em: &mut Em, g: &Gmm, qs: &Array2<f64>, far: &[u32]) {
    let near: Vec<usize> = (0..far.len()).filter(|i| far[*i] == 0).collect();
    if !near.is_empty() {
        let q = qs.select(Axis(0), &near);
        op_proba(em, g, &q, &vec![0; near.len()]);
    }
    for i in 0..far.len() {
        if far[i] != 0 {
            let q = qs.select(Axis(0), &[i]);
            op_proba(em, g, &q, &[far[i]]);
        }
    }
}

/// M-step on hand-made responsibilities, incl. the EmptyCluster branch
fn mstep_synthetic(em: &mut Em, rng: &mut Rng) {
    let d = 1 + rng.below(4);
    let k = 1 + rng.below(4);
    let n = k + rng.below(14);
    let x = Array2::from_shape_fn((n, d), |_| rng.range(-12, 12) as f64 / 2.0);
    let mode = rng.below(5);
    let (tag, resp): (&str, Array2<f64>) = match mode {
        0 => {
            // one-hot, every column hit (k-means like)
            let mut r = Array2::zeros((n, k));
            for i in 0..n {
                let j = if i < k { i } else { rng.below(k) };
                r[[i, j]] = 1.0;
            }
            ("onehot", r)
        }
        1 => {
            // one-hot with an empty column -> EmptyCluster
            let mut r = Array2::zeros((n, k));
            let dead = rng.below(k);
            for i in 0..n {
                let mut j = rng.below(k);
                if j == dead {
                    j = (j + 1) % k;
                }
                r[[i, j]] = 1.0;
            }
            ("onehot_empty", r)
        }
        2 => {
            // a column with negligible mass (below / above the 10*eps guard)
            let mut r = Array2::zeros((n, k));
            let tiny = *rng.pick(&[1e-18, 1e-17, 2.0f64.powi(-52), 1e-14]);
            for i in 0..n {
                let j = if k > 1 { 1 + rng.below(k - 1) } else { 0 };
                r[[i, j]] = 1.0;
            }
            if k > 1 {
                r[[0, 0]] = tiny;
            }
            ("tiny_column", r)
        }
        3 => {
            // dyadic soft assignments
            let mut r = Array2::zeros((n, k));
            for i in 0..n {
                let mut left = 8i64;
                for j in 0..k {
                    let v = if j + 1 == k { left } else { rng.range(0, left) };
                    left -= v;
                    r[[i, j]] = v as f64 / 8.0;
                }
            }
            ("dyadic", r)
        }
        _ => {
            // normalised uniforms (the Random initialiser)
            let mut r = Array2::from_shape_fn((n, k), |_| rng.unit());
            for i in 0..n {
                let s: f64 = r.row(i).sum();
                for j in 0..k {
                    r[[i, j]] /= s;
                }
            }
            ("random", r)
        }
    };
    em.count(&format!("mstep:{}", tag));
    let reg = *rng.pick(&[0.0, 1e-6, 0.25, 1.0]);
    op_mstep(em, tag, &x, &resp, reg);
}

/// hand-made mixtures (no fit): identity / diagonal precisions, extreme weights, far queries
fn proba_synthetic(em: &mut Em, rng: &mut Rng) {
    let d = 1 + rng.below(3);
    let k = 1 + rng.below(4);
    let mut w = Array1::from_shape_fn(k, |_| 1.0 + rng.below(8) as f64);
    if k > 1 && rng.chance(1, 3) {
        w[0] = *rng.pick(&[1e-12, 1e-100, 1e-300]);
    }
    let s = w.sum();
    w.mapv_inplace(|v| v / s);
    let mu = Array2::from_shape_fn((k, d), |_| rng.range(-20, 20) as f64);
    let mut pc = Array3::zeros((k, d, d));
    let mut cov = Array3::zeros((k, d, d));
    for j in 0..k {
        for a in 0..d {
            let e = rng.range(-3, 3);
            pc[[j, a, a]] = 2f64.powi(e as i32);
            cov[[j, a, a]] = 2f64.powi(-2 * e as i32);
        }
    }
    let prec = hk::compute_precisions_full(&pc);
    let g = hk::from_parts(w, mu, cov, prec, pc);
    em.count("proba:synthetic");
    let x = Array2::from_shape_fn((k, d), |(i, c)| g.means()[[i, c]]);
    let (qs, far) = far_queries(rng, &g, &x, 4);
    proba_lines(em, &g, &qs, &far);
}

pub fn run(em: &mut Em, rng: &mut Rng) {
    let (fits, msteps, synth) = if em.thorough() { (5000, 5000, 2000) } else { (500, 800, 300) };
    let deep = em.thorough();
    for i in 0..fits {
        one_instance(em, rng, deep && i % 4 == 0);
    }
    for _ in 0..msteps {
        mstep_synthetic(em, rng);
    }
    for _ in 0..synth {
        proba_synthetic(em, rng);
    }
}
