//! C10 — Gaussian mixture: a fitted model is a valid mixture and yields valid probabilities.
//!
//! The harness fits with the real API on generated blobs (separated / overlapping / anisotropic /
//! duplicated points / with an outlier; 1..6 features; both initialisers; f64 and f32; every way of
//! building the parameters and of handing over the records), checks the property's predicate on the
//! fitted model (`#fit`, oracle only) and ties the Lean model to the real code:
//!   fitwalk  (tolerance, max_n_iterations, n_runs, lower bounds of the chain of EM states rebuilt
//!             step by step with the real e_step / m_step)  -> which state `fit` returns | which error
//!   mstepfit (X, responsibilities of the accepted step, reg) -> the parameters `fit` returned
//!   emstep   (parameters of the state before the accepted step, X, reg) -> the parameters `fit` returned
//!   estep    (weights, means, precisions_chol, X)  -> log_prob_norm, log_resp      (hook)
//!   mstep    (X, resp, reg)                        -> nk, weights, means, covariances | EmptyCluster (hook)
//!   prec     precisions_chol                       -> precisions                    (hook)
//!   proba    (parameters, queries near + 10..1e12 sigma away) -> predict_proba     (public API, all layouts)
//!   predict  same                                  -> predict labels, decision margin (all calling forms)
//! Ops with the suffix `32` run the f32 instantiation (values travel widened to f64, exactly).
//! Floats that went through matrixmultiply / unrolled sums / libm carry `~`.
use crate::util::*;
use linfa::traits::{Fit, Predict, PredictInplace};
use linfa::{DatasetBase, ParamGuard};
use linfa_clustering::verif_hooks_c10 as hk;
use linfa_clustering::{GaussianMixtureModel, GmmError, GmmInitMethod, GmmParams, GmmValidParams};
use ndarray::{Array1, Array2, Array3, ArrayBase, Axis, Data, Ix2, ShapeBuilder};
use rand::SeedableRng;
use rand_xoshiro::Xoshiro256Plus;
use std::panic::{catch_unwind, AssertUnwindSafe};

type Gmm<F> = GaussianMixtureModel<F>;

/// the two scalar instantiations; every value crosses the protocol as the f64 it widens to
trait Sc: linfa::Float {
    const TAG: &'static str;
    const EPS: f64;
    fn w(self) -> f64;
    fn n(x: f64) -> Self;
}
impl Sc for f64 {
    const TAG: &'static str = "";
    const EPS: f64 = f64::EPSILON;
    fn w(self) -> f64 {
        self
    }
    fn n(x: f64) -> f64 {
        x
    }
}
impl Sc for f32 {
    const TAG: &'static str = "32";
    const EPS: f64 = f32::EPSILON as f64;
    fn w(self) -> f64 {
        self as f64
    }
    fn n(x: f64) -> f32 {
        x as f32
    }
}
fn is32<F: Sc>() -> bool {
    F::TAG == "32"
}
fn w1<F: Sc>(a: &Array1<F>) -> Array1<f64> {
    a.mapv(|v| v.w())
}
fn w2<F: Sc, D: Data<Elem = F>>(a: &ArrayBase<D, Ix2>) -> Array2<f64> {
    a.mapv(|v| v.w())
}
fn w3<F: Sc>(a: &Array3<F>) -> Array3<f64> {
    a.mapv(|v| v.w())
}

fn th(x: f64) -> String {
    format!("~{}", hex64c(x))
}
fn m2(a: &Array2<f64>) -> String {
    list2(a.rows().into_iter().map(|r| r.to_vec()), |x| hex64(x))
}
fn m2t(a: &Array2<f64>) -> String {
    list2(a.rows().into_iter().map(|r| r.to_vec()), |x| th(x))
}
fn m3(a: &Array3<f64>) -> String {
    list3(a.outer_iter().map(|m| m.rows().into_iter().map(|r| r.to_vec()).collect::<Vec<_>>()), |x| hex64(x))
}
/// scale-free presentation of a stack of (nearly) symmetric matrices: the diagonals (divided by
/// `s2`), and the off-diagonal entries divided by sqrt(m_aa * m_bb) (rounding of an inner product is
/// bounded relative to that product of norms, not relative to the entry itself)
fn diag_corr(a: &Array3<f64>, s2: f64) -> (String, String) {
    let d = a.dim().1;
    let dg = list2(a.outer_iter().map(|m| (0..d).map(|i| m[[i, i]] / s2).collect::<Vec<_>>()), |x| th(x));
    let cc = list3(
        a.outer_iter().map(|m| (0..d).map(|i| (0..d).map(|j| if i == j { 1.0 } else { m[[i, j]] / (m[[i, i]] * m[[j, j]]).sqrt() }).collect::<Vec<_>>()).collect::<Vec<_>>()),
        |x| th(x),
    );
    (dg, cc)
}
fn v1(a: &Array1<f64>) -> String {
    list(a.iter().copied(), |x| hex64(x))
}
fn v1t(a: &Array1<f64>) -> String {
    list(a.iter().copied(), |x| th(x))
}

fn gauss(rng: &mut Rng) -> f64 {
    let u1 = (rng.unit() + 1e-300).max(1e-300);
    let u2 = rng.unit();
    (-2.0 * u1.ln()).sqrt() * (2.0 * std::f64::consts::PI * u2).cos()
}
/// round to a multiple of 2^-10 so request values stay short of pathological bit patterns
fn q(x: f64) -> f64 {
    (x * 1024.0).round() / 1024.0
}

struct Blobs {
    kind: &'static str,
    x: Array2<f64>,
}

/// `offsets`: the distances from the origin the kind "offset" places the whole data set at (records far
/// from the origin relative to their spread: the two-pass covariance keeps its accuracy there, a one-pass
/// formula `E[xx'] - mu mu'` loses it)
fn gen_blobs(rng: &mut Rng, d: usize, k: usize, per: usize, offsets: &[f64]) -> Blobs {
    let kind = *rng.pick(&["separated", "separated", "overlapping", "anisotropic", "anisotropic", "duplicates", "outlier", "scaled", "offset", "offset"]);
    let scale = if kind == "scaled" { *rng.pick(&[1e-3, 1.0 / 64.0, 16.0]) } else { 1.0 };
    let sep = match kind {
        "overlapping" => 1.0 + 1.5 * rng.unit(),
        _ => 8.0 + 20.0 * rng.unit(),
    };
    let mut rows: Vec<Vec<f64>> = vec![];
    for c in 0..k {
        let centre: Vec<f64> = (0..d).map(|_| sep * (rng.unit() * 2.0 - 1.0) * (k as f64).sqrt() + if d == 1 { sep * c as f64 } else { 0.0 }).collect();
        // per-axis scales and a random mixing matrix for anisotropy
        let ax: Vec<f64> = (0..d).map(|_| if kind == "anisotropic" { 0.2 * (25.0f64).powf(rng.unit()) } else { 0.6 + 0.8 * rng.unit() }).collect();
        let mix: Vec<Vec<f64>> = (0..d).map(|i| (0..d).map(|j| if i == j { 1.0 } else if kind == "anisotropic" { 0.8 * (rng.unit() * 2.0 - 1.0) } else { 0.0 }).collect()).collect();
        let cnt = if per > 4 { per - 2 + rng.below(5) } else { per };
        for _ in 0..cnt {
            let z: Vec<f64> = (0..d).map(|j| ax[j] * gauss(rng)).collect();
            let mut p: Vec<f64> = (0..d).map(|i| centre[i] + (0..d).map(|j| mix[i][j] * z[j]).sum::<f64>()).collect();
            if kind == "duplicates" {
                for v in p.iter_mut() {
                    *v = v.round();
                }
            }
            rows.push(p.iter().map(|v| q(*v) * scale).collect());
        }
    }
    if kind == "duplicates" {
        // repeat some rows verbatim
        for _ in 0..rows.len() / 3 {
            let r = rows[rng.below(rows.len())].clone();
            rows.push(r);
        }
    }
    if kind == "outlier" {
        let far = *rng.pick(&[60.0, 300.0, 5000.0]);
        let r: Vec<f64> = (0..d).map(|_| q(far * (rng.unit() + 0.5))).collect();
        rows.push(r);
    }
    if kind == "offset" {
        let off: Vec<f64> = (0..d).map(|_| *rng.pick(offsets) * if rng.coin() { 1.0 } else { -1.0 }).collect();
        for r in rows.iter_mut() {
            for (v, o) in r.iter_mut().zip(off.iter()) {
                *v += *o;
            }
        }
    }
    rng.shuffle(&mut rows);
    let n = rows.len();
    let x = Array2::from_shape_fn((n, d), |(i, j)| rows[i][j]);
    Blobs { kind, x }
}

// ---------------------------------------------------------------- first-principles helpers

fn all_finite<'a>(it: impl IntoIterator<Item = &'a f64>) -> bool {
    it.into_iter().all(|x| x.is_finite())
}

/// smallest eigenvalue of a symmetric matrix (cyclic Jacobi), d <= 8
fn lambda_min(a: &Array2<f64>) -> f64 {
    let d = a.nrows();
    let mut m: Vec<Vec<f64>> = (0..d).map(|i| (0..d).map(|j| 0.5 * (a[[i, j]] + a[[j, i]])).collect()).collect();
    for _sweep in 0..60 {
        let mut off = 0.0;
        for i in 0..d {
            for j in 0..d {
                if i != j {
                    off += m[i][j] * m[i][j];
                }
            }
        }
        if off == 0.0 {
            break;
        }
        for p in 0..d {
            for r in p + 1..d {
                if m[p][r] == 0.0 {
                    continue;
                }
                let theta = (m[r][r] - m[p][p]) / (2.0 * m[p][r]);
                let t = theta.signum() / (theta.abs() + (theta * theta + 1.0).sqrt());
                let t = if theta == 0.0 { 1.0 } else { t };
                let c = 1.0 / (t * t + 1.0).sqrt();
                let s = t * c;
                for i in 0..d {
                    let (a_ip, a_ir) = (m[i][p], m[i][r]);
                    m[i][p] = c * a_ip - s * a_ir;
                    m[i][r] = s * a_ip + c * a_ir;
                }
                for i in 0..d {
                    let (a_pi, a_ri) = (m[p][i], m[r][i]);
                    m[p][i] = c * a_pi - s * a_ri;
                    m[r][i] = s * a_pi + c * a_ri;
                }
            }
        }
    }
    (0..d).map(|i| m[i][i]).fold(f64::INFINITY, f64::min)
}

fn maxabs(a: &Array2<f64>) -> f64 {
    a.iter().fold(0.0f64, |m, x| m.max(x.abs()))
}
/// presentation scales of an M-step (mirrors `scaleOf` of the driver): `lo` the column minima, `range`
/// the largest column range, `mx = max |x_ij|`.  Means are printed as `(mu - lo) / s1`, covariance
/// diagonals as `cov_aa / s2`, `s1 = max(range, mx / rr)`, `s2 = max(range^2, mx * range / rr)`: the
/// rounding error of the two-pass formulas is ~ n eps mx for a mean and ~ eps mx range for a covariance
/// entry, so records far from the origin are compared as tightly as their conditioning allows
struct Scale {
    lo: Vec<f64>,
    s1: f64,
    s2: f64,
}
fn scale_of<F: Sc>(x: &Array2<f64>) -> Scale {
    let rr = if is32::<F>() { 1.0 } else { 64.0 };
    let d = x.ncols();
    let lo: Vec<f64> = (0..d).map(|c| x.column(c).iter().cloned().fold(f64::INFINITY, f64::min)).collect();
    let hi: Vec<f64> = (0..d).map(|c| x.column(c).iter().cloned().fold(f64::NEG_INFINITY, f64::max)).collect();
    let range = (0..d).map(|c| hi[c] - lo[c]).fold(0.0f64, f64::max);
    let mx = maxabs(x);
    let s1 = range.max(mx / rr);
    let s2 = (range * range).max(mx * range / rr);
    Scale { lo, s1: if s1 > 0.0 { s1 } else { 1.0 }, s2: if s2 > 0.0 { s2 } else { 1.0 } }
}
/// `w=.. mu=.. covdiag=.. covcorr=..` in the scale-free presentation
fn show_params(sc: &Scale, w: &Array1<f64>, mu: &Array2<f64>, cov: &Array3<f64>) -> String {
    let mus = Array2::from_shape_fn(mu.dim(), |(j, c)| (mu[[j, c]] - sc.lo[c]) / sc.s1);
    let (dg, cc) = diag_corr(cov, sc.s2);
    format!("w={} mu={} covdiag={} covcorr={}", v1t(w), m2t(&mus), dg, cc)
}

/// oracle tolerances: the f64 values are those of round 1, the f32 values the same checks at single precision
struct Tol {
    sum: f64,
    bbox: f64,
    asym: f64,
    diag: f64,
    pd_rel: f64,
    pd_abs: f64,
    inv: f64,
    eps: f64,
}
fn tol_of<F: Sc>() -> Tol {
    if is32::<F>() {
        Tol { sum: 2e-5, bbox: 1e-5, asym: 2e-5, diag: 1e-6, pd_rel: 1e-4, pd_abs: 2e-5, inv: 1e-3, eps: F::EPS }
    } else {
        Tol { sum: 1e-9, bbox: 1e-9, asym: 1e-12, diag: 1e-12, pd_rel: 1e-9, pd_abs: 1e-12, inv: 1e-10, eps: F::EPS }
    }
}

/// the "valid mixture" half of the statement, on explicit parameters
#[allow(clippy::too_many_arguments)]
/// returns the number of components reported under `cov_pd_singular` with a degenerate support (the open finding)
fn oracle_params(ctx: &mut Ctx, tl: &Tol, class: &str, strict_pd: bool, x: &Array2<f64>, reg: f64, w: &Array1<f64>, mu: &Array2<f64>, cov: &Array3<f64>, prec: Option<&Array3<f64>>, pchol: Option<&Array3<f64>>, resp: Option<&Array2<f64>>) -> usize {
    let mut masked = 0usize;
    let (n, d) = x.dim();
    let k = w.len();
    let fin = all_finite(w.iter()) && all_finite(mu.iter()) && all_finite(cov.iter()) && prec.map_or(true, |p| all_finite(p.iter())) && pchol.map_or(true, |p| all_finite(p.iter()));
    ctx.require(fin, "params_finite", class, || format!("non-finite parameter in a returned model: w={:?} mu={:?}", w, mu));
    if !fin {
        return 0;
    }
    ctx.require(mu.dim() == (k, d) && cov.dim() == (k, d, d), "shapes", class, || format!("means {:?} covariances {:?} for k={} d={}", mu.dim(), cov.dim(), k, d));
    ctx.require(w.iter().all(|v| *v > 0.0), "weights_pos", class, || format!("weights {:?}", w));
    let s: f64 = w.iter().sum();
    ctx.require((s - 1.0).abs() <= tl.sum, "weights_sum_one", class, || format!("weights {:?} sum to {:e}", w, s));
    // bounding box
    for c in 0..d {
        let col = x.column(c);
        let lo = col.iter().cloned().fold(f64::INFINITY, f64::min);
        let hi = col.iter().cloned().fold(f64::NEG_INFINITY, f64::max);
        let slack = tl.bbox * (hi - lo).max(lo.abs()).max(hi.abs()).max(1e-300);
        for j in 0..k {
            let m = mu[[j, c]];
            ctx.require(m >= lo - slack && m <= hi + slack, "means_in_bbox", class, || format!("mean[{}][{}]={:e} outside [{:e},{:e}] (n={})", j, c, m, lo, hi, n));
        }
    }
    for j in 0..k {
        let cj = cov.index_axis(Axis(0), j).to_owned();
        let scale = maxabs(&cj).max(1e-300);
        let mut asym = 0.0f64;
        for a in 0..d {
            for b in 0..d {
                asym = asym.max((cj[[a, b]] - cj[[b, a]]).abs());
            }
        }
        ctx.require(asym <= tl.asym * scale, "cov_symmetric", class, || format!("covariance {} asymmetric by {:e} (scale {:e})", j, asym, scale));
        for a in 0..d {
            ctx.require(cj[[a, a]] >= reg * (1.0 - tl.diag), "cov_diag_ge_reg", class, || format!("covariance {} diagonal {} = {:e} < reg {:e}", j, a, cj[[a, a]], reg));
        }
        let lm = lambda_min(&cj);
        // v'Σv >= reg |v|^2 for every M-step (theorem cov_pd) ...
        ctx.require(lm >= reg * (1.0 - tl.pd_rel) - tl.pd_abs * scale, "cov_pd", class, || format!("covariance {} smallest eigenvalue {:e}, reg {:e}, scale {:e}", j, lm, reg, scale));
        // ... and strictly positive definite for a fitted model (its Cholesky factorisation was accepted).
        // An eigenvalue within the resolution of this oracle (64 eps * largest entry) of zero means the returned covariance is singular to working precision.
        // (With a positive reg the requirement is `cov_pd` above: an eigenvalue ~reg is positive definite even where reg is
        // below the resolution of the scalar type, e.g. reg 1e-6 in f32.)
        if strict_pd && (reg == 0.0 || lm < 0.5 * reg - tl.pd_abs * scale) && lm <= 64.0 * tl.eps * scale && lm >= -tl.pd_abs * scale {
            // the support of the component: the distinct records it is responsible for (membership >= 1e-6).
            // With at most d of them the exact covariance is singular (the listed finding); on a larger support
            // the exact covariance is positive definite, and the stored matrix is judged as it stands: singular
            // only if its smallest eigenvalue (Jacobi in f64) is within 64 eps(f64) of zero - an f32 covariance
            // of condition number 1e5 is positive definite, not singular.
            let support = resp.map(|r| {
                let mut rows: Vec<Vec<u64>> = (0..n).filter(|i| r[[*i, j]] >= 1e-6).map(|i| x.row(i).iter().map(|v| v.to_bits()).collect()).collect();
                rows.sort();
                rows.dedup();
                rows.len()
            });
            let sup = match support {
                Some(m) if m <= d => "le_d",
                Some(_) => "gt_d",
                None => "unknown",
            };
            if sup == "le_d" && reg == 0.0 {
                masked += 1;
            }
            if !(sup == "gt_d" && lm > 64.0 * f64::EPSILON * scale) {
            ctx.fail("cov_pd_singular", &format!("{}:support={}", class, sup), format!("fit returned a covariance that is singular to working precision: component {} smallest eigenvalue {:e}, largest entry {:e}, reg {:e}, supported on {:?} distinct records (d = {}); data {:?}", j, lm, scale, reg, support, d, if x.len() <= 36 { x.rows().into_iter().map(|r| r.to_vec()).collect::<Vec<_>>() } else { vec![] }));
            }
        }
        if let Some(p) = prec {
            let pj = p.index_axis(Axis(0), j).to_owned();
            let prod = pj.dot(&cj);
            let mut res = 0.0f64;
            for a in 0..d {
                for b in 0..d {
                    res = res.max((prod[[a, b]] - if a == b { 1.0 } else { 0.0 }).abs());
                }
            }
            // backward-error bound: rounding of an inverse scales with the condition number
            let cond = (d as f64) * maxabs(&pj) * scale;
            ctx.require(res <= tl.inv * cond.max(1.0), "precision_is_inverse", class, || format!("|P*Sigma - I| = {:e} for component {} (cond ~ {:e})", res, j, cond));
            let mut pas = 0.0f64;
            for a in 0..d {
                for b in 0..d {
                    pas = pas.max((pj[[a, b]] - pj[[b, a]]).abs());
                }
            }
            ctx.require(pas <= tl.asym * maxabs(&pj).max(1e-300), "precision_symmetric", class, || format!("precision {} asymmetric by {:e}", j, pas));
        }
        if let Some(pc) = pchol {
            // precisions_chol (what prediction uses) against the covariance directly: C' Sigma C = I.  (Which
            // factor is stored - triangular or not - is not part of the statement; a wrong triangle fails the product.)
            let c = pc.index_axis(Axis(0), j).to_owned();
            let prod = c.t().dot(&cj).dot(&c);
            let mut res = 0.0f64;
            for a in 0..d {
                for b in 0..d {
                    res = res.max((prod[[a, b]] - if a == b { 1.0 } else { 0.0 }).abs());
                }
            }
            let cond = (d as f64) * maxabs(&c) * maxabs(&c) * scale;
            ctx.require(res <= tl.inv * cond.max(1.0), "prec_chol_contract", class, || format!("|C' Sigma C - I| = {:e} for component {} (cond ~ {:e})", res, j, cond));
        }
    }
    masked
}

/// the "valid probabilities" half, on the output of predict_proba / predict
fn oracle_proba(ctx: &mut Ctx, tl: &Tol, class_of: &dyn Fn(usize) -> String, queries: &Array2<f64>, p: &Array2<f64>, labels: Option<&Array1<usize>>) {
    for i in 0..p.nrows() {
        let class = class_of(i);
        let row = p.row(i);
        let fin = row.iter().all(|v| v.is_finite());
        ctx.require(fin, "proba_finite", &class, || format!("predict_proba({:?}) = {:?}", queries.row(i).to_vec(), row.to_vec()));
        if !fin {
            continue;
        }
        ctx.require(row.iter().all(|v| *v >= 0.0), "proba_nonneg", &class, || format!("predict_proba({:?}) = {:?}", queries.row(i).to_vec(), row.to_vec()));
        let s: f64 = row.iter().sum();
        ctx.require((s - 1.0).abs() <= tl.sum, "proba_sum_one", &class, || format!("predict_proba({:?}) = {:?} sums to {:e}", queries.row(i).to_vec(), row.to_vec(), s));
        if let Some(l) = labels {
            let mx = row.iter().cloned().fold(f64::NEG_INFINITY, f64::max);
            ctx.require(l[i] < row.len() && row[l[i]] == mx, "predict_is_argmax", &class, || format!("predict({:?}) = {} but probabilities {:?}", queries.row(i).to_vec(), l[i], row.to_vec()));
        }
    }
}

fn margin_of(p: &Array2<f64>) -> f64 {
    let mut m = f64::INFINITY;
    for row in p.rows() {
        let mut top = f64::NEG_INFINITY;
        let mut second = f64::NEG_INFINITY;
        for v in row.iter() {
            if *v > top {
                second = top;
                top = *v;
            } else if *v > second {
                second = *v;
            }
        }
        let g = if row.len() == 1 { top } else { top - second };
        if !(g >= m) {
            m = g;
        }
    }
    m
}

// ---------------------------------------------------------------- ops

fn params_str<F: Sc>(g: &Gmm<F>) -> String {
    format!("w={} mu={} pc={}", v1(&w1(g.weights())), m2(&w2(g.means())), m3(&w3(hk::precisions_chol_g(g))))
}

fn op_estep<F: Sc>(em: &mut Em, g: &Gmm<F>, x: &Array2<F>) {
    let op = format!("estep{} {} x={}", F::TAG, params_str(g), m2(&w2(x)));
    let tl = tol_of::<F>();
    em.case_valid(op, "estep", |ctx| {
        let (lpn, lr) = hk::estimate_log_prob_resp_g(g, x);
        // oracle: responsibilities exp(log_resp) are probabilities
        let p = w2(&lr.mapv(|v| v.exp()));
        oracle_proba(ctx, &tl, &|_| "query=train".to_string(), &w2(x), &p, None);
        format!("ok lpn={} lr={} margin=~0000000000000000", v1t(&w1(&lpn)), m2t(&w2(&lr)))
    });
}

/// masses for which the statement does not say whether the component counts as "emptied": a component
/// with NO mass is emptied, one with mass >= 1e-10 (f64) / 1e-4 (f32) is not; in between either outcome of
/// the guard is acceptable (the code's constant is 10 eps); such lines carry `margin=0` and are not
/// compared, the oracle still runs
fn grey_hi<F: Sc>() -> f64 {
    if is32::<F>() {
        1e-4
    } else {
        1e-10
    }
}
/// column masses in the scalar type, summed sequentially (as `sum_axis` does)
fn col_mass<F: Sc>(resp: &Array2<F>) -> Vec<f64> {
    (0..resp.ncols()).map(|j| resp.column(j).iter().fold(F::zero(), |a, v| a + *v).w()).collect()
}

fn op_mstep<F: Sc>(em: &mut Em, tag: &str, x: &Array2<F>, resp: &Array2<F>, reg: F) {
    let (xw, rw) = (w2(x), w2(resp));
    let op = format!("mstep{} reg={} x={} r={}", F::TAG, hex64(reg.w()), m2(&xw), m2(&rw));
    let class = format!("mstep{}:{}", F::TAG, tag);
    let tl = tol_of::<F>();
    let rows_ok = rw.rows().into_iter().all(|r| (r.iter().sum::<f64>() - 1.0).abs() <= tl.sum && r.iter().all(|v| *v >= 0.0));
    let mass = col_mass(resp);
    let grey = mass.iter().any(|m| *m > 0.0 && *m < grey_hi::<F>());
    let mg = if grey { "~0000000000000000".to_string() } else { th(1.0) };
    let sc = scale_of::<F>(&xw);
    em.case_valid(op, &class, |ctx| {
        match hk::estimate_gaussian_parameters_g(x, resp, reg) {
            Ok((nk, mu, cov)) => {
                let nkw = w1(&nk);
                let w = w1(&(&nk / F::n(x.nrows() as f64)));
                let (mu, cov) = (w2(&mu), w3(&cov));
                if rows_ok {
                    // any M-step on responsibilities is a valid mixture (precisions need the Cholesky step)
                    oracle_params(ctx, &tl, &class, false, &xw, reg.w(), &w, &mu, &cov, None, None, None);
                }
                let emptied = mass.iter().any(|m| *m == 0.0);
                ctx.require(!emptied, "empty_cluster_is_error", &class, || "a component without mass did not raise EmptyCluster".to_string());
                format!("ok nk={} {} margin={}", v1t(&nkw), show_params(&sc, &w, &mu, &cov), mg)
            }
            Err(GmmError::EmptyCluster(_)) => {
                // the guard must only fire on a (numerically) empty column
                let emptied = mass.iter().any(|m| *m < grey_hi::<F>());
                ctx.require(emptied, "empty_cluster_error", &class, || "EmptyCluster reported although every column of the responsibilities has mass".to_string());
                format!("err EmptyCluster margin={}", mg)
            }
            Err(e) => format!("err other:{} margin={}", hexstr(&e.to_string()), mg),
        }
    });
}

/// `compute_precisions_cholesky_full` against the Lean model of the two linfa-linalg routines
fn op_pchol<F: Sc>(em: &mut Em, tag: &str, cov: &Array3<F>) {
    let op = format!("pchol{} cov={}", F::TAG, m3(&w3(cov)));
    em.count(&format!("pchol{}:{}", F::TAG, tag));
    em.case_valid(op, "pchol", |_ctx| match hk::compute_precisions_cholesky_full_g(cov) {
        Ok(pc) => {
            let pcw = w3(&pc);
            format!("ok pc={} margin=~0000000000000000", list3(pcw.outer_iter().map(|m| m.rows().into_iter().map(|r| r.to_vec()).collect::<Vec<_>>()), |x| th(x)))
        }
        Err(e) => format!("err {} margin=~0000000000000000", err_kind(&e)),
    });
}

/// the methods `e_step` then `m_step` on a whole model state, against the Lean `emStepFull`
fn op_emfull<F: Sc>(em: &mut Em, tag: &str, g: &Gmm<F>, x: &Array2<F>, reg: F) {
    let xw = w2(x);
    let op = format!("emfull{} reg={} {} x={}", F::TAG, hex64(reg.w()), params_str(g), m2(&xw));
    let class = format!("emfull{}:{}", F::TAG, tag);
    em.count(&class);
    let tl = tol_of::<F>();
    let sc = scale_of::<F>(&xw);
    let mut outcome = String::new();
    em.case_valid(op, &class, |ctx| {
        let (lb, lr) = match hk::e_step(g, x) {
            Ok(v) => v,
            Err(e) => return format!("err {} margin=~0000000000000000", err_kind(&e)),
        };
        let resp = lr.mapv(|v| v.exp());
        let mass = col_mass(&resp);
        let mut g2 = g.clone();
        match hk::m_step(&mut g2, reg, x, &lr) {
            Ok(()) => {
                outcome = "ok".to_string();
                // an emptied component is reported as an error, never kept as a model
                ctx.require(!mass.iter().any(|m| *m == 0.0), "empty_cluster_is_error", &class, || format!("m_step returned Ok although a component has no mass (column masses {:?})", mass));
                let (w, mu, cov, pc) = (w1(g2.weights()), w2(g2.means()), w3(g2.covariances()), w3(hk::precisions_chol_g(&g2)));
                let prec = w3(&hk::compute_precisions_full_g(hk::precisions_chol_g(&g2)));
                if all_finite(w2(&resp).iter()) {
                    oracle_params(ctx, &tl, &class, false, &xw, reg.w(), &w, &mu, &cov, Some(&prec), Some(&pc), None);
                }
                format!("ok lb={} {} margin=~0000000000000000", th(lb.w()), show_params(&sc, &w, &mu, &cov))
            }
            Err(e) => {
                outcome = format!("err:{}", err_kind(&e));
                if let GmmError::EmptyCluster(_) = e {
                    ctx.require(mass.iter().any(|m| *m < grey_hi::<F>()), "empty_cluster_error", &class, || format!("EmptyCluster reported although every component has mass {:?}", mass));
                }
                format!("err {} margin=~0000000000000000", err_kind(&e))
            }
        }
    });
    if !outcome.is_empty() {
        em.count(&format!("{}:{}", class, outcome));
    }
}

fn op_prec(em: &mut Em, pc: &Array3<f64>) {
    let op = format!("prec pc={}", m3(pc));
    em.case_valid(op, "prec", |_ctx| {
        let p = hk::compute_precisions_full(pc);
        let (dg, cc) = diag_corr(&p, 1.0);
        format!("ok pdiag={} pcorr={}", dg, cc)
    });
}

/// the same values in another memory layout: 1 = column-major, 2 = every second column of a wider array
fn relayout<F: Sc>(a: &Array2<F>, layout: usize) -> Array2<F> {
    let (n, d) = a.dim();
    match layout {
        1 => {
            let mut f = Array2::<F>::zeros((n, d).f());
            f.assign(a);
            f
        }
        _ => {
            let mut wide = Array2::<F>::from_elem((n, 2 * d), F::n(777.0));
            for i in 0..n {
                for j in 0..d {
                    wide[[i, 2 * j]] = a[[i, j]];
                }
            }
            wide
        }
    }
}

/// predict_proba through layout `form % 3`, predict through calling form `form % 6`
fn op_proba<F: Sc>(em: &mut Em, g: &Gmm<F>, queries: &Array2<F>, far: &[u32], form: usize) {
    let ps = params_str(g);
    let qw = w2(queries);
    let tl = tol_of::<F>();
    let class_of = |i: usize| if far[i] == 0 { format!("query{}=near", F::TAG) } else { format!("query{}=far:1e{}", F::TAG, far[i]) };
    let op = format!("proba{} {} x={}", F::TAG, ps, m2(&qw));
    let (pf, lf) = (form % 3, form % 6);
    em.count(&format!("form:proba:{}", pf));
    em.count(&format!("form:predict:{}", lf));
    em.case_valid(op, "proba", |ctx| {
        let p = match pf {
            0 => g.predict_proba(queries),
            1 => g.predict_proba(&relayout(queries, 1)),
            _ => {
                let wide = relayout(queries, 2);
                g.predict_proba(&wide.slice(ndarray::s![.., ..;2]))
            }
        };
        let p = w2(&p);
        oracle_proba(ctx, &tl, &class_of, &qw, &p, None);
        format!("ok p={} margin=~0000000000000000", m2t(&p))
    });
    let op = format!("predict{} {} x={}", F::TAG, ps, m2(&qw));
    em.case_valid(op, "predict", |ctx| {
        let lab: Array1<usize> = match lf {
            0 => g.predict(queries),
            1 => {
                // records by value (a view): DatasetBase with the labels as targets
                let ds = g.predict(queries.view());
                ds.targets
            }
            2 => {
                let ds = g.predict(DatasetBase::from(queries.clone()));
                ds.targets
            }
            3 => g.predict(&DatasetBase::from(relayout(queries, 1))),
            4 => {
                // caller-provided buffer holding other values
                let mut buf = Array1::from_elem(queries.nrows(), 999usize);
                g.predict_inplace(queries, &mut buf);
                buf
            }
            _ => {
                let wide = relayout(queries, 2);
                g.predict(&wide.slice(ndarray::s![.., ..;2]))
            }
        };
        let p = w2(&g.predict_proba(queries));
        oracle_proba(ctx, &tl, &class_of, &qw, &p, Some(&lab));
        format!("ok lab={} margin={}", list(lab.iter(), |v| v.to_string()), th(margin_of(&p)))
    });
}

// ---------------------------------------------------------------- the loop of fit

#[derive(Clone)]
struct FitCfg {
    k: usize,
    init: GmmInitMethod,
    reg: f64,
    tol: f64,
    runs: u64,
    iters: u64,
    seed: u64,
    /// how the parameter set is built: 0 params_with_rng + setters, 1 params + setters + with_rng,
    /// 2 params + with_rng + setters, 3 params(k) alone (cfg holds the documented defaults)
    pform: usize,
    /// how the records are handed over: 0 owned dataset, 1 dataset with targets, 2 dataset of a view,
    /// 3 column-major records, 4 strided view
    dform: usize,
}

fn setters<F: Sc, R: rand::Rng + Clone>(p: GmmParams<F, R>, cfg: &FitCfg) -> GmmParams<F, R> {
    p.init_method(cfg.init).reg_covariance(F::n(cfg.reg)).tolerance(F::n(cfg.tol)).n_runs(cfg.runs).max_n_iterations(cfg.iters)
}
fn build_params<F: Sc>(cfg: &FitCfg, pform: usize) -> GmmParams<F, Xoshiro256Plus> {
    let rng = Xoshiro256Plus::seed_from_u64(cfg.seed);
    match pform {
        0 => setters(Gmm::<F>::params_with_rng(cfg.k, rng), cfg),
        1 => setters(Gmm::<F>::params(cfg.k), cfg).with_rng(rng),
        2 => setters(Gmm::<F>::params(cfg.k).with_rng(rng), cfg),
        _ => Gmm::<F>::params(cfg.k),
    }
}

fn err_kind(e: &GmmError) -> &'static str {
    match e {
        GmmError::InvalidValue(_) => "InvalidValue",
        GmmError::LinalgError(_) => "LinalgError",
        GmmError::EmptyCluster(_) => "EmptyCluster",
        GmmError::LowerBoundError(_) => "LowerBoundError",
        GmmError::NotConverged(_) => "NotConverged",
        GmmError::KMeansError(_) => "KMeansError",
        GmmError::LinfaError(_) => "LinfaError",
        GmmError::MinMaxError(_) => "MinMaxError",
    }
}

/// the chain of EM states `fit` walks along, rebuilt with the real `new` / `e_step` / `m_step`, and the
/// outcome a loop written from the documentation of `fit` reaches on it
struct Chain<F: Sc> {
    new_err: Option<String>,
    lbs: Vec<F>,
    step_err: Option<String>,
    states: Vec<Gmm<F>>,
    log_resps: Vec<Array2<F>>,
    expected: Result<usize, String>,
    /// a run that did not converge but beat every earlier run, after an earlier run had converged:
    /// the configuration in which bookkeeping carried over from an earlier run would show
    unconverged_after_converged: bool,
    /// the states in which some run ended converged
    converged_ends: Vec<usize>,
}

fn build_chain<F: Sc, D: Data<Elem = F>, T>(vp: &GmmValidParams<F, Xoshiro256Plus>, ds: &DatasetBase<ArrayBase<D, Ix2>, T>, cfg: &FitCfg) -> Chain<F> {
    let mut ch = Chain { new_err: None, lbs: vec![], step_err: None, states: vec![], log_resps: vec![], expected: Err("NotConverged".to_string()), unconverged_after_converged: false, converged_ends: vec![] };
    let mut g = match hk::new_model(vp, ds) {
        Ok(g) => g,
        Err(e) => {
            ch.new_err = Some(err_kind(&e).to_string());
            ch.expected = Err(err_kind(&e).to_string());
            return ch;
        }
    };
    let obs = ds.records().view();
    ch.states.push(g.clone());
    let (tol, reg) = (F::n(cfg.tol), F::n(cfg.reg));
    let mut max_lb = F::neg_infinity();
    let mut best: Option<usize> = None;
    let mut best_iter: Option<u64> = None;
    let mut some_run_converged = false;
    'runs: for _ in 0..cfg.runs {
        let mut lb = F::neg_infinity();
        let mut conv = None;
        for it in 0..cfg.iters {
            let prev = lb;
            let (lpn, lr) = match hk::e_step(&g, &obs) {
                Ok(v) => v,
                Err(e) => {
                    ch.step_err = Some(err_kind(&e).to_string());
                    break 'runs;
                }
            };
            if let Err(e) = hk::m_step(&mut g, reg, &obs, &lr) {
                ch.step_err = Some(err_kind(&e).to_string());
                break 'runs;
            }
            ch.lbs.push(lpn);
            ch.states.push(g.clone());
            ch.log_resps.push(lr);
            lb = lpn;
            // converged: the lower bound moved by less than the tolerance
            if (lb - prev).abs() < tol {
                conv = Some(it);
                break;
            }
        }
        if lb > max_lb {
            max_lb = lb;
            best = Some(ch.states.len() - 1);
            best_iter = conv;
            if conv.is_none() && some_run_converged {
                ch.unconverged_after_converged = true;
            }
        }
        some_run_converged |= conv.is_some();
        if conv.is_some() {
            ch.converged_ends.push(ch.states.len() - 1);
        }
    }
    ch.expected = match (&ch.step_err, best_iter, best) {
        (Some(e), _, _) => Err(e.clone()),
        (None, Some(_), Some(i)) => Ok(i),
        (None, Some(_), None) => Err("LowerBoundError".to_string()),
        (None, None, _) => Err("NotConverged".to_string()),
    };
    ch
}

fn same_state<F: Sc>(a: &Gmm<F>, b: &Gmm<F>) -> bool {
    a.weights() == b.weights() && a.means() == b.means() && a.covariances() == b.covariances() && hk::precisions_chol_g(a) == hk::precisions_chol_g(b)
}

type FitRes<F> = std::thread::Result<Result<Gmm<F>, GmmError>>;

fn fit_and_chain<F: Sc, D: Data<Elem = F>, T>(cfg: &FitCfg, ds: &DatasetBase<ArrayBase<D, Ix2>, T>) -> (FitRes<F>, Option<Chain<F>>) {
    let res = catch_unwind(AssertUnwindSafe(|| build_params::<F>(cfg, cfg.pform).fit(ds)));
    // the chain always uses the plain way of building the parameters (for `params(k)` alone: that very
    // parameter set, cfg then holds what its getters report)
    let chain = catch_unwind(AssertUnwindSafe(|| build_params::<F>(cfg, if cfg.pform == 3 { 3 } else { 0 }).check().ok().map(|vp| build_chain(&vp, ds, cfg)))).ok().flatten();
    (res, chain)
}

fn far_queries<F: Sc>(rng: &mut Rng, g: &Gmm<F>, x: &Array2<f64>, nq_near: usize) -> (Array2<F>, Vec<u32>) {
    let d = x.ncols();
    let means = w2(g.means());
    let covs = w3(g.covariances());
    let k = means.nrows();
    // sigma: the largest marginal standard deviation of any component
    let mut sig = 0.0f64;
    for j in 0..k {
        for a in 0..d {
            sig = sig.max(covs[[j, a, a]].abs().sqrt());
        }
    }
    if !(sig.is_finite() && sig > 0.0) {
        sig = 1.0;
    }
    let mut rows: Vec<Vec<f64>> = vec![];
    let mut far: Vec<u32> = vec![];
    for _ in 0..nq_near {
        match rng.below(3) {
            0 => rows.push(x.row(rng.below(x.nrows())).to_vec()),
            1 => {
                // between two component means
                let (a, b) = (rng.below(k), rng.below(k));
                let t = rng.unit();
                rows.push((0..d).map(|c| q(means[[a, c]] * t + means[[b, c]] * (1.0 - t))).collect());
            }
            _ => {
                let a = rng.below(k);
                rows.push((0..d).map(|c| q(means[[a, c]] + 3.0 * sig * gauss(rng))).collect());
            }
        }
        far.push(0);
    }
    // spread of the means, so that "t sigma away" is measured from every component
    let mut spread = 0.0f64;
    for a in 0..k {
        for b in 0..k {
            let dd: f64 = (0..d).map(|c| (means[[a, c]] - means[[b, c]]).powi(2)).sum();
            spread = spread.max(dd.sqrt());
        }
    }
    for e in [1u32, 2, 3, 4, 5, 6, 8, 12] {
        let t = 10f64.powi(e as i32);
        let j = rng.below(k);
        let mut u: Vec<f64> = (0..d).map(|_| gauss(rng)).collect();
        let nu = u.iter().map(|v| v * v).sum::<f64>().sqrt().max(1e-12);
        for v in u.iter_mut() {
            *v /= nu;
        }
        rows.push((0..d).map(|c| means[[j, c]] + (t * sig + spread) * u[c]).collect());
        far.push(e);
    }
    let n = rows.len();
    (Array2::from_shape_fn((n, d), |(i, j)| F::n(rows[i][j])), far)
}

/// returns (fits reported under the open finding `cov_pd_singular` with a degenerate support, rank-deficient data sets)
fn one_instance<F: Sc>(em: &mut Em, rng: &mut Rng, big: bool) -> (usize, usize) {
    let out = one_instance_inner::<F>(em, rng, big);
    out
}
fn one_instance_inner<F: Sc>(em: &mut Em, rng: &mut Rng, big: bool) -> (usize, usize) {
    let d = 1 + rng.below(6);
    let k = 1 + rng.below(if big { 6 } else { 4 });
    let per = if big { 10 + rng.below(30) } else { 6 + rng.below(12) };
    let mut b = gen_blobs(rng, d, k, per, if is32::<F>() { &[1e2, 1e3] } else { &[1e5, 1e6, 1e7, 1e8] });
    let rank_def = rng.chance(1, 25);
    if rank_def {
        // at most d points for one component and no regularisation: the exact covariance is singular
        let m = 2 + rng.below(d);
        b.x = b.x.slice(ndarray::s![..m.min(b.x.nrows()), ..]).to_owned();
        b.kind = "rank_deficient";
    }
    // the records in the scalar type (f32: rounded once, here), and their exact widening
    let x: Array2<F> = b.x.mapv(F::n);
    let xw = w2(&x);
    let k_fit = if rank_def { 1 } else if rng.chance(1, 6) { (k + rng.below(2) + 1).min(x.nrows()) } else { k };
    let mut cfg = FitCfg {
        k: k_fit,
        init: if rng.coin() { GmmInitMethod::KMeans } else { GmmInitMethod::Random },
        reg: if rank_def { 0.0 } else { *rng.pick(&[0.0, 1e-6, 1e-6, 1e-3, 0.1, 1.0]) },
        tol: *rng.pick(&[1e-2, 1e-3, 1e-3, 1e-6]),
        runs: *rng.pick(&[1, 1, 2, 3]),
        iters: *rng.pick(&[1, 4, 30, 100, 100, 100, 300, 300]),
        seed: rng.next() % 1000,
        pform: *rng.pick(&[0, 0, 1, 2]),
        dform: rng.below(5),
    };
    if !rank_def && rng.chance(1, 10) {
        // `params(k)` alone: the defaults, as the getters of the checked parameter set report them (which
        // values the defaults have is not part of the statement; that `fit` uses the reported ones is)
        if let Ok(vp) = Gmm::<F>::params(cfg.k).check() {
            cfg = FitCfg { k: cfg.k, init: *vp.init_method(), reg: vp.reg_covariance().w(), tol: vp.tolerance().w(), runs: vp.n_runs(), iters: vp.max_n_iterations(), seed: 42, pform: 3, dform: cfg.dform };
        }
    }
    if !rank_def && cfg.pform != 3 && rng.chance(1, 5) {
        // "plateau" stream: the random initialiser starts EM on a plateau (all components alike), so with a loose
        // tolerance the first run stops early and a later, short run moves on without converging
        cfg.init = GmmInitMethod::Random;
        cfg.tol = *rng.pick(&[1e-2, 3e-2, 1e-1]);
        cfg.iters = *rng.pick(&[2, 3, 4, 5]);
        cfg.runs = *rng.pick(&[2, 3]);
        em.count(&format!("stream{}:plateau", F::TAG));
    }
    // the values the f32 code sees
    cfg.reg = F::n(cfg.reg).w();
    cfg.tol = F::n(cfg.tol).w();
    let init_s = if cfg.init == GmmInitMethod::KMeans { "kmeans" } else { "random" };
    let t = F::TAG;
    em.count(&format!("data{}:{}", t, b.kind));
    em.count(&format!("init{}:{}", t, init_s));
    em.count(&format!("d:{}", d));
    em.count(&format!("k:{}", cfg.k));
    let (res, chain): (FitRes<F>, Option<Chain<F>>) = match cfg.dform {
        0 => fit_and_chain(&cfg, &DatasetBase::from(x.clone())),
        1 => fit_and_chain(&cfg, &DatasetBase::new(x.clone(), Array1::from_shape_fn(x.nrows(), |i| i % 3))),
        2 => fit_and_chain(&cfg, &DatasetBase::from(x.view())),
        3 => fit_and_chain(&cfg, &DatasetBase::from(relayout(&x, 1))),
        _ => {
            let wide = relayout(&x, 2);
            fit_and_chain(&cfg, &DatasetBase::from(wide.slice(ndarray::s![.., ..;2])))
        }
    };
    let op = format!(
        "#fit{} kind={} n={} d={} k={} init={} reg={:e} tol={:e} runs={} iters={} seed={} pform={} dform={}",
        t,
        b.kind,
        x.nrows(),
        d,
        cfg.k,
        init_s,
        cfg.reg,
        cfg.tol,
        cfg.runs,
        cfg.iters,
        cfg.seed,
        cfg.pform,
        cfg.dform
    );
    let class = format!("fit{}:init={}:data={}:reg={}", t, init_s, b.kind, if cfg.reg == 0.0 { "0" } else { "pos" });
    let tl = tol_of::<F>();
    let mut outcome = String::new();
    let mut masked = 0usize;
    em.case_valid(op, &class, |ctx| match &res {
        Err(_) => panic!("fit panicked"),
        Ok(Err(e)) => {
            outcome = format!("fit_err{}:{}", t, err_kind(e));
            format!("err {}", err_kind(e))
        }
        Ok(Ok(g)) => {
            outcome = format!("fit_ok{}", t);
            let resp = catch_unwind(AssertUnwindSafe(|| w2(&g.predict_proba(&x)))).ok();
            masked = oracle_params(ctx, &tl, &class, true, &xw, cfg.reg, &w1(g.weights()), &w2(g.means()), &w3(g.covariances()), Some(&w3(g.precisions())), Some(&w3(hk::precisions_chol_g(g))), resp.as_ref());
            "ok".to_string()
        }
    });
    if masked > 0 {
        em.count(&format!("masked{}:cov_pd_singular", t));
    }
    let tally = (if masked > 0 { 1 } else { 0 }, if rank_def { 1 } else { 0 });
    if cfg.reg == 0.0 {
        em.count(&format!("fits{}:reg=0", t));
    }
    if !outcome.is_empty() {
        em.count(&outcome);
        if outcome.starts_with("fit_ok") {
            em.count(&format!("fit_ok{}:init={}", t, init_s));
            em.count(&format!("fit_ok{}:pform={}", t, cfg.pform));
            em.count(&format!("fit_ok{}:dform={}", t, cfg.dform));
            if cfg.runs > 1 {
                em.count(&format!("fit_ok{}:runs>1", t));
            }
        }
    }
    // ---- the loop: which state of the chain did fit return, or which error
    let mut accepted: Option<usize> = None;
    if let (Some(ch), Ok(fr)) = (&chain, &res) {
        let finite = ch.lbs.iter().all(|v| v.w().is_finite());
        let modelled = ch.new_err.is_none() && finite;
        if let Some(e) = &ch.step_err {
            em.count(&format!("chain{}:step_error:{}", t, e));
        }
        if let Some(e) = &ch.new_err {
            em.count(&format!("chain{}:init_error:{}", t, e));
        }
        if ch.unconverged_after_converged {
            em.count(&format!("chain{}:unconverged_run_beats_converged_run", t));
        }
        match &ch.expected {
            Ok(_) => em.count(&format!("chain{}:accepted", t)),
            Err(e) => em.count(&format!("chain{}:expected_err:{}", t, e)),
        }
        let op = format!(
            "{}fitwalk{} tol={} iters={} runs={} lb={} err={}",
            if modelled { "" } else { "#" },
            t,
            hex64(cfg.tol),
            cfg.iters,
            cfg.runs,
            list(ch.lbs.iter(), |v| hex64(v.w())),
            ch.step_err.clone().or(ch.new_err.clone()).unwrap_or_else(|| "-".to_string())
        );
        if let Ok(g) = fr {
            accepted = match &ch.expected {
                Ok(i) if same_state(g, &ch.states[*i]) => Some(*i),
                _ => (1..ch.states.len()).find(|t| same_state(g, &ch.states[*t])),
            };
        }
        let idx = accepted;
        em.case_valid(op, &class, |ctx| match (fr, &ch.expected) {
            (Err(e), exp) => {
                let kind = err_kind(e);
                ctx.require(exp.as_ref().err().map_or(false, |x| x == kind), "fit_outcome", &class, || format!("fit returned Err({}) but stepping the same EM chain by hand gives {:?}", kind, exp));
                format!("err {}", kind)
            }
            (Ok(_), exp) => {
                match exp {
                    // (a `fit` that falls back to an earlier run that DID converge returns a converged model: permitted)
                    Err(e) if e == "NotConverged" && idx.map_or(false, |i| ch.converged_ends.contains(&i)) => {}
                    Err(e) if e == "NotConverged" => ctx.fail("nonconvergence_is_error", &class, format!("no accepted run converged (lower bounds {:?}, tolerance {:e}, {} runs of {} iterations) but fit returned Ok (chain state {:?})", ch.lbs.iter().map(|v| v.w()).collect::<Vec<_>>(), cfg.tol, cfg.runs, cfg.iters, idx)),
                    Err(e) => ctx.fail("step_error_is_error", &class, format!("an EM step of the chain fails with {} but fit returned Ok (chain state {:?})", e, idx)),
                    Ok(i) => ctx.require(idx == Some(*i), "fit_returns_accepted_state", &class, || format!("fit returned chain state {:?}, the accepted converged run ends in state {}", idx, i)),
                }
                match idx {
                    Some(i) => format!("ok idx={}", i),
                    None => "ok idx=nomatch".to_string(),
                }
            }
        });
    }
    // ---- the whole of fit after `new`: the Lean `fitFull` from the initial state must reach what fit returned
    if let (Some(ch), Ok(fr)) = (&chain, &res) {
        if ch.new_err.is_none() && ch.lbs.len() <= 30 && x.nrows() <= 90 && ch.lbs.iter().all(|v| v.w().is_finite()) {
            let sc = scale_of::<F>(&xw);
            let op = format!("fitfull{} tol={} iters={} runs={} reg={} {} x={}", t, hex64(cfg.tol), cfg.iters, cfg.runs, hex64(cfg.reg), params_str(&ch.states[0]), m2(&xw));
            em.count(&format!("op:fitfull{}:{}", t, if fr.is_ok() { "ok" } else { "err" }));
            em.case_valid(op, &class, |_ctx| match fr {
                Ok(gg) => format!("ok idx={} {} margin=~0000000000000000", accepted.map_or("nomatch".to_string(), |i| i.to_string()), show_params(&sc, &w1(gg.weights()), &w2(gg.means()), &w3(gg.covariances()))),
                Err(e) => format!("err {} margin=~0000000000000000", err_kind(e)),
            });
        }
        // one iteration through the methods e_step / m_step from a state of the chain
        if !ch.states.is_empty() {
            let j = rng.below(ch.states.len());
            op_emfull(em, "chain", &ch.states[j], &x, F::n(cfg.reg));
        }
    }
    let g = match res {
        Ok(Ok(g)) => g,
        _ => return tally,
    };
    if !(all_finite(w1(g.weights()).iter()) && all_finite(w2(g.means()).iter()) && all_finite(w3(hk::precisions_chol_g(&g)).iter())) {
        return tally;
    }
    // ---- the returned parameters are the M-step of the accepted step's responsibilities, with the configured reg
    if let (Some(ch), Some(i)) = (&chain, accepted) {
        if i >= 1 {
            let resp = ch.log_resps[i - 1].mapv(|v| v.exp());
            let rw = w2(&resp);
            if all_finite(rw.iter()) {
                let sc = scale_of::<F>(&xw);
                let op = format!("mstepfit{} reg={} x={} r={}", t, hex64(cfg.reg), m2(&xw), m2(&rw));
                em.case_valid(op, &class, |_ctx| format!("ok {}", show_params(&sc, &w1(g.weights()), &w2(g.means()), &w3(g.covariances()))));
                // ... and one whole EM iteration (e_step then m_step) from the state before; `lb` = the lower
                // bound `fit` saw for that step (`e_step`'s `log_prob_norm.mean()`)
                let op = format!("emstep{} reg={} {} x={}", t, hex64(cfg.reg), params_str(&ch.states[i - 1]), m2(&xw));
                em.case_valid(op, &class, |_ctx| format!("ok lb={} {} margin=~0000000000000000", th(ch.lbs[i - 1].w()), show_params(&sc, &w1(g.weights()), &w2(g.means()), &w3(g.covariances()))));
            }
        }
    }
    op_pchol(em, "fitted", g.covariances());
    // E-step on (a prefix of) the training data, M-step on the responsibilities it yields
    let m = x.nrows().min(if big { 40 } else { 16 });
    let xs = x.slice(ndarray::s![..m, ..]).to_owned();
    op_estep(em, &g, &xs);
    let (_, lr) = hk::estimate_log_prob_resp_g(&g, &x);
    let resp = lr.mapv(|v| v.exp());
    if all_finite(w2(&resp).iter()) {
        op_mstep(em, "fitted", &x, &resp, F::n(cfg.reg));
    }
    if !is32::<F>() {
        op_prec(em, &w3(hk::precisions_chol_g(&g)));
    }
    let (qs, far) = far_queries(rng, &g, &xw, 6);
    let form = rng.below(6);
    proba_lines(em, &g, &qs, &far, form);
    tally
}

/// near queries in one request, every far query in its own (a far query between two nearly
/// coincident components is ill-conditioned and its line is skipped by the comparison)
fn proba_lines<F: Sc>(em: &mut Em, g: &Gmm<F>, qs: &Array2<F>, far: &[u32], form: usize) {
    let near: Vec<usize> = (0..far.len()).filter(|i| far[*i] == 0).collect();
    if !near.is_empty() {
        let q = qs.select(Axis(0), &near);
        op_proba(em, g, &q, &vec![0; near.len()], form);
    }
    for i in 0..far.len() {
        if far[i] != 0 {
            let q = qs.select(Axis(0), &[i]);
            op_proba(em, g, &q, &[far[i]], form + i);
        }
    }
}

/// M-step on hand-made responsibilities, incl. the EmptyCluster branch
fn mstep_synthetic<F: Sc>(em: &mut Em, rng: &mut Rng) {
    let d = 1 + rng.below(4);
    let k = 1 + rng.below(4);
    let n = k + rng.below(14);
    let x = Array2::from_shape_fn((n, d), |_| F::n(rng.range(-12, 12) as f64 / 2.0));
    let mode = rng.below(5);
    let (tag, resp): (&str, Array2<f64>) = match mode {
        0 => {
            // one-hot, every column hit (k-means like)
            let mut r = Array2::zeros((n, k));
            for i in 0..n {
                let j = if i < k { i } else { rng.below(k) };
                r[[i, j]] = 1.0;
            }
            ("onehot", r)
        }
        1 => {
            // one-hot with an empty column -> EmptyCluster
            let mut r = Array2::zeros((n, k));
            let dead = rng.below(k);
            for i in 0..n {
                let mut j = rng.below(k);
                if j == dead {
                    j = (j + 1) % k;
                }
                r[[i, j]] = 1.0;
            }
            ("onehot_empty", r)
        }
        2 => {
            // a column with negligible mass: clearly emptied (< eps, must be an error), clearly not
            // (>= 1e-10 / 1e-4, must be a parameter set), and the zone in between (either; not compared)
            let mut r = Array2::zeros((n, k));
            let tiny = if is32::<F>() { *rng.pick(&[1e-12, 1e-8, 2.0f64.powi(-23), 1e-6, 1e-3, 1e-2]) } else { *rng.pick(&[1e-18, 1e-17, 2.0f64.powi(-52), 1e-14, 1e-9, 1e-6]) };
            for i in 0..n {
                let j = if k > 1 { 1 + rng.below(k - 1) } else { 0 };
                r[[i, j]] = 1.0;
            }
            if k > 1 {
                r[[0, 0]] = tiny;
            }
            ("tiny_column", r)
        }
        3 => {
            // dyadic soft assignments
            let mut r = Array2::zeros((n, k));
            for i in 0..n {
                let mut left = 8i64;
                for j in 0..k {
                    let v = if j + 1 == k { left } else { rng.range(0, left) };
                    left -= v;
                    r[[i, j]] = v as f64 / 8.0;
                }
            }
            ("dyadic", r)
        }
        _ => {
            // normalised uniforms (the Random initialiser)
            let mut r = Array2::from_shape_fn((n, k), |_| rng.unit());
            for i in 0..n {
                let s: f64 = r.row(i).sum();
                for j in 0..k {
                    r[[i, j]] /= s;
                }
            }
            ("random", r)
        }
    };
    em.count(&format!("mstep{}:{}", F::TAG, tag));
    let reg = *rng.pick(&[0.0, 1e-6, 0.25, 1.0]);
    op_mstep(em, tag, &x, &resp.mapv(F::n), F::n(reg));
}

/// hand-made mixtures (no fit): identity / diagonal precisions, extreme weights, far queries
fn proba_synthetic<F: Sc>(em: &mut Em, rng: &mut Rng) {
    let d = 1 + rng.below(3);
    let k = 1 + rng.below(4);
    let mut w = Array1::from_shape_fn(k, |_| 1.0 + rng.below(8) as f64);
    if k > 1 && rng.chance(1, 3) {
        w[0] = if is32::<F>() { *rng.pick(&[1e-6, 1e-20, 1e-36]) } else { *rng.pick(&[1e-12, 1e-100, 1e-300]) };
    }
    let s = w.sum();
    w.mapv_inplace(|v| v / s);
    let mu = Array2::from_shape_fn((k, d), |_| rng.range(-20, 20) as f64);
    let mut pc = Array3::zeros((k, d, d));
    let mut cov = Array3::zeros((k, d, d));
    for j in 0..k {
        for a in 0..d {
            let e = rng.range(-3, 3);
            pc[[j, a, a]] = 2f64.powi(e as i32);
            cov[[j, a, a]] = 2f64.powi(-2 * e as i32);
        }
    }
    let pcf: Array3<F> = pc.mapv(F::n);
    let prec = hk::compute_precisions_full_g(&pcf);
    let g = hk::from_parts_g(w.mapv(F::n), mu.mapv(F::n), cov.mapv(F::n), prec, pcf);
    em.count(&format!("proba{}:synthetic", F::TAG));
    let x = mu.clone();
    let (qs, far) = far_queries(rng, &g, &x, 4);
    let form = rng.below(6);
    proba_lines(em, &g, &qs, &far, form);
}


/// hand-made states for the methods e_step / m_step: diagonal mixtures over lattice records, incl. a
/// component that no record supports (its responsibilities underflow to exactly 0: `m_step` must report
/// EmptyCluster) and a component left with a single record (covariance = reg * I)
fn emfull_synthetic<F: Sc>(em: &mut Em, rng: &mut Rng) {
    let d = 1 + rng.below(3);
    let k = 2 + rng.below(3);
    let n = 4 * k + rng.below(10);
    let mode = rng.below(3);
    let tag = ["alive", "dead", "lonely"][mode];
    let mu = Array2::from_shape_fn((k, d), |(j, _)| (10 * j as i64 + rng.range(-3, 3)) as f64);
    // records around the component means; mode 1: none near the last component; mode 2: exactly one
    let live = if mode == 0 { k } else { k - 1 };
    let mut x = Array2::from_shape_fn((n, d), |(i, c)| mu[[i % live, c]] + rng.range(-4, 4) as f64 / 2.0);
    if mode == 2 {
        for c in 0..d {
            x[[0, c]] = mu[[k - 1, c]] + 0.5;
        }
    }
    let mut w = Array1::from_shape_fn(k, |_| 1.0 + rng.below(4) as f64);
    let s = w.sum();
    w.mapv_inplace(|v| v / s);
    let mut pc = Array3::zeros((k, d, d));
    let mut cov = Array3::zeros((k, d, d));
    for j in 0..k {
        for a in 0..d {
            // the unsupported component is tight (sigma 1/8 .. 1/2): 10 units away is >= 20 sigma
            let e = if mode == 1 && j == k - 1 { 1 + rng.range(0, 2) } else { rng.range(-1, 1) };
            pc[[j, a, a]] = 2f64.powi(e as i32);
            cov[[j, a, a]] = 2f64.powi(-2 * e as i32);
        }
    }
    if mode == 1 {
        // far enough for exp(.) to underflow to exactly 0: 1e3 units at sigma <= 1/2
        for c in 0..d {
            mu.clone()[[k - 1, c]] += 0.0;
        }
    }
    let mut mu = mu;
    if mode == 1 {
        for c in 0..d {
            mu[[k - 1, c]] += 1000.0;
        }
    }
    let pcf: Array3<F> = pc.mapv(F::n);
    let prec = hk::compute_precisions_full_g(&pcf);
    let g = hk::from_parts_g(w.mapv(F::n), mu.mapv(F::n), cov.mapv(F::n), prec, pcf);
    let reg = *rng.pick(&[1e-6, 0.25, 0.25, 1.0]);
    op_emfull(em, tag, &g, &x.mapv(F::n), F::n(reg));
}

/// hand-made matrices for `compute_precisions_cholesky_full`: B B' + c I over small integers (positive
/// definite), B B' with fewer columns than rows (singular: the pivot is zero up to rounding, too close to
/// call, or exactly zero), and a matrix with a negative diagonal entry (must be an error)
fn pchol_synthetic<F: Sc>(em: &mut Em, rng: &mut Rng) {
    let d = 1 + rng.below(5);
    let k = 1 + rng.below(3);
    let mode = rng.below(4);
    let tag = ["spd", "spd", "singular", "indefinite"][mode];
    let mut cov = Array3::<f64>::zeros((k, d, d));
    for j in 0..k {
        let cols = if mode == 2 && j == k - 1 { d.saturating_sub(1).max(1) } else { d + 1 };
        let b = Array2::from_shape_fn((d, cols), |_| rng.range(-4, 4) as f64);
        let mut a = b.dot(&b.t());
        let c = if mode == 2 && j == k - 1 { 0.0 } else { *rng.pick(&[0.25, 1.0, 3.0]) };
        for i in 0..d {
            a[[i, i]] += c;
        }
        if mode == 3 && j == k - 1 {
            let i = rng.below(d);
            a[[i, i]] = -1.0 - rng.below(3) as f64;
        }
        cov.index_axis_mut(Axis(0), j).assign(&a);
    }
    op_pchol(em, tag, &cov.mapv(F::n));
}

/// records and queries of extreme magnitude (oracle only): the statement promises a valid model or an error
/// for every data set and finite probabilities for every finite query.  `#fitx`: records scaled by
/// 1e-160 .. 1e160 (f32 1e-30 .. 1e19), and more components than records; `#probax`: queries so far away
/// that the squared distance overflows the scalar type.
fn extreme_instance<F: Sc>(em: &mut Em, rng: &mut Rng) {
    let d = 1 + rng.below(3);
    let k = 1 + rng.below(3);
    let b = gen_blobs(rng, d, k, 8, &[1e3]);
    let scales: &[f64] = if is32::<F>() { &[1e-30, 1e-15, 1e15, 1e19] } else { &[1e-160, 1e-80, 1e80, 1e150, 1e160] };
    let sc = *rng.pick(scales);
    let more_than_records = rng.chance(1, 5);
    let x: Array2<F> = if more_than_records { b.x.slice(ndarray::s![..2, ..]).mapv(F::n) } else { b.x.mapv(|v| F::n(v * sc)) };
    let kk = if more_than_records { 3 + rng.below(2) } else { k };
    let init = if rng.coin() { GmmInitMethod::KMeans } else { GmmInitMethod::Random };
    let reg = *rng.pick(&[0.0, 1e-6, 1.0]);
    let seed = rng.next() % 1000;
    let t = F::TAG;
    let class = format!("fitx{}:{}", t, if more_than_records { "k>n".to_string() } else { format!("scale={:e}", sc) });
    let op = format!("#fitx{} n={} d={} k={} init={:?} reg={:e} seed={} class={}", t, x.nrows(), d, kk, init, reg, seed, class);
    let xw = w2(&x);
    let tl = tol_of::<F>();
    let res = catch_unwind(AssertUnwindSafe(|| Gmm::<F>::params_with_rng(kk, Xoshiro256Plus::seed_from_u64(seed)).init_method(init).reg_covariance(F::n(reg)).fit(&DatasetBase::from(x.clone()))));
    // the sum of squared distances k-means++ forms is bounded by n d (2 max|x|)^2: where that bound passes a
    // quarter of the largest finite value of the scalar type the sum may overflow
    let mxx = maxabs(&w2(&x));
    let fmax = if is32::<F>() { f32::MAX as f64 } else { f64::MAX };
    let squares_overflow = (x.len() as f64) * 4.0 * mxx * mxx > fmax / 4.0 || !(mxx * mxx).is_finite();
    let mut outcome = String::new();
    em.case(op, |ctx| match &res {
        Err(_) => {
            // a panic is neither a model nor a reported error; where the SQUARES of the records overflow the
            // scalar type (k-means++ then panics in `WeightedIndex::new`) the request is outside the
            // statement's quantifier ("data sets on which fitting succeeds"): counted, not judged
            outcome = "panic".to_string();
            if !squares_overflow {
                ctx.fail("no_panic", &class, "fit panicked".to_string());
            }
            "panic".to_string()
        }
        Ok(Err(e)) => {
            outcome = format!("err:{}", err_kind(e));
            format!("err {}", err_kind(e))
        }
        Ok(Ok(g)) => {
            outcome = "ok".to_string();
            let (w, mu, cov) = (w1(g.weights()), w2(g.means()), w3(g.covariances()));
            let fin = all_finite(w.iter()) && all_finite(mu.iter()) && all_finite(cov.iter()) && all_finite(w3(g.precisions()).iter());
            ctx.require(fin, "params_finite", &class, || format!("non-finite parameter in a returned model: w={:?} mu={:?} cov={:?}", w, mu, cov));
            if fin {
                ctx.require(w.iter().all(|v| *v > 0.0) && (w.sum() - 1.0).abs() <= tl.sum, "weights_sum_one", &class, || format!("weights {:?}", w));
            }
            "ok".to_string()
        }
    });
    em.count(&format!("{}:{}", class, outcome));
    // queries whose squared distance overflows
    if let Ok(Ok(g)) = &res {
        if all_finite(w2(g.means()).iter()) && all_finite(w3(hk::precisions_chol_g(g)).iter()) {
            let big = if is32::<F>() { 1e30 } else { 1e200 };
            let q = Array2::from_shape_fn((1, d), |(_, c)| F::n(if c == 0 { big } else { 0.0 }));
            let class = format!("query{}=far:overflow", t);
            let op = format!("#probax{} d={} k={} q={:e}", t, d, kk, big);
            em.case(op, |ctx| {
                let p = w2(&g.predict_proba(&q));
                oracle_proba(ctx, &tl, &|_| class.clone(), &w2(&q), &p, None);
                "ok".to_string()
            });
        }
    }
}

pub fn run(em: &mut Em, rng: &mut Rng) {
    let (fits, msteps, synth) = if em.thorough() { (4000, 5000, 2000) } else { (800, 800, 300) };
    let deep = em.thorough();
    let (mut masked, mut rank_def) = (0usize, 0usize);
    for i in 0..fits {
        let (m, r) = one_instance::<f64>(em, rng, deep && i % 4 == 0);
        masked += m;
        rank_def += r;
    }
    for i in 0..fits / 2 {
        let (m, r) = one_instance::<f32>(em, rng, deep && i % 4 == 0);
        masked += m;
        rank_def += r;
    }
    // ceiling on the open-finding mask: the listed finding (singular covariance on a degenerate support,
    // reg = 0) is reached by a small share of the rank-deficient data sets (unchanged tree: 1-3 of ~30 per
    // quick run); a run in which it absorbs more than 6 + half their number is a regression hiding behind it
    let cap = 6 + rank_def / 2;
    em.case(format!("#ceiling masked_cov_pd_singular={} rank_deficient={} cap={}", masked, rank_def, cap), |ctx| {
        ctx.require(masked <= cap, "mask_ceiling", "cov_pd_singular", || format!("{} fits were reported under the open finding C10-singular-covariance-accepted; the ceiling for this run is {} (6 + half of the {} rank-deficient data sets)", masked, cap, rank_def));
        "ok".to_string()
    });
    for _ in 0..msteps {
        mstep_synthetic::<f64>(em, rng);
    }
    for _ in 0..msteps / 4 {
        mstep_synthetic::<f32>(em, rng);
    }
    for _ in 0..synth {
        proba_synthetic::<f64>(em, rng);
    }
    for _ in 0..synth / 3 {
        proba_synthetic::<f32>(em, rng);
    }
    for _ in 0..synth {
        emfull_synthetic::<f64>(em, rng);
        pchol_synthetic::<f64>(em, rng);
    }
    for _ in 0..synth / 3 {
        emfull_synthetic::<f32>(em, rng);
        pchol_synthetic::<f32>(em, rng);
    }
    for _ in 0..synth / 3 {
        extreme_instance::<f64>(em, rng);
        extreme_instance::<f32>(em, rng);
    }
}
