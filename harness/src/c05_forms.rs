//! C05 — calling forms.  Every public entry point through which a metric of `c05.rs` can be
//! reached (arrays by value / by reference / as views, datasets, datasets with `CountedTargets`,
//! slices) is a numbered *form*; the property promises the same value through each of them.
//! This file only *calls* linfa; oracles and generators stay in `c05.rs`.
use linfa::dataset::{AsTargetsMut, CountedTargets, Label};
use linfa::prelude::*;
use ndarray::{s, Array1, Array2, ArrayView1, ShapeBuilder};
use std::fmt::Display;

type Res<T> = linfa::error::Result<T>;

fn recs(n: usize) -> Array2<f64> {
    Array2::from_shape_fn((n, 1), |(i, _)| i as f64)
}

/// non-uniform sample weights (zero included): the metrics of the statement are unweighted, so a
/// dataset that carries weights must give the value of the same dataset without them
pub fn wts(n: usize) -> Array1<f32> {
    Array1::from((0..n).map(|i| [0.5f32, 2.0, 0.0, 3.5][i % 4]).collect::<Vec<f32>>())
}

/// memory layouts: an array of twice the length whose even positions carry `v` (the odd ones carry
/// other elements of `v`), to be viewed with stride 2 ...
pub fn interleaved<T: Clone>(v: &[T]) -> Array1<T> {
    let n = v.len();
    Array1::from((0..2 * n).map(|i| if i % 2 == 0 { v[i / 2].clone() } else { v[(i / 2 + 1) % n].clone() }).collect::<Vec<T>>())
}
/// ... `v` backwards, to be viewed with stride -1 ...
pub fn reversed<T: Clone>(v: &[T]) -> Array1<T> {
    Array1::from(v.iter().rev().cloned().collect::<Vec<T>>())
}
/// ... and an n x 2 row-major matrix whose first column is `v` (a column view has stride 2)
pub fn two_cols<T: Clone>(v: &[T]) -> Array2<T> {
    let n = v.len();
    Array2::from_shape_fn((n, 2), |(i, j)| if j == 0 { v[i].clone() } else { v[(i + 1) % n].clone() })
}
/// a matrix with rows and columns in reverse order, to be viewed with strides (-p, -1)
pub fn rev2<F: Clone>(a: &Array2<F>) -> Array2<F> {
    let (n, p) = a.dim();
    Array2::from_shape_fn((n, p), |(i, j)| a[(n - 1 - i, p - 1 - j)].clone())
}
/// a matrix in column-major (Fortran) order
pub fn f_order<F: Clone>(a: &Array2<F>) -> Array2<F> {
    let (n, p) = a.dim();
    Array2::from_shape_fn((n, p).f(), |(i, j)| a[(i, j)].clone())
}
/// a matrix of twice the rows and columns whose even rows / columns carry `a`
pub fn padded<F: Clone>(a: &Array2<F>) -> Array2<F> {
    let (n, p) = a.dim();
    Array2::from_shape_fn((2 * n, 2 * p), |(i, j)| if i % 2 == 0 && j % 2 == 0 { a[(i / 2, j / 2)].clone() } else { a[((i / 2 + 1) % n, (j / 2 + 1) % p)].clone() })
}

/// labels for which a counted dataset can also be produced by `DatasetBase::with_labels`
/// (which needs `Copy` labels); `None` = not available for this label type
pub trait CmLabel: Label + Display {
    fn with_labels_ds(_v: &[Self]) -> Option<DatasetBase<Array2<f64>, CountedTargets<Self, Array1<Self>>>> {
        None
    }
}
fn with_labels_copy<L: Label + Copy>(v: &[L]) -> DatasetBase<Array2<f64>, CountedTargets<L, Array1<L>>> {
    let ds = DatasetBase::new(recs(v.len()), Array1::from(v.to_vec()));
    let mut all: Vec<L> = v.to_vec();
    all.sort();
    all.dedup();
    // keep every sample: the label list is the full label set (in reverse order, order must not matter)
    all.reverse();
    ds.with_labels(&all)
}
impl CmLabel for usize {
    fn with_labels_ds(v: &[Self]) -> Option<DatasetBase<Array2<f64>, CountedTargets<Self, Array1<Self>>>> {
        Some(with_labels_copy(v))
    }
}
impl CmLabel for bool {
    fn with_labels_ds(v: &[Self]) -> Option<DatasetBase<Array2<f64>, CountedTargets<Self, Array1<Self>>>> {
        Some(with_labels_copy(v))
    }
}
impl CmLabel for &'static str {
    fn with_labels_ds(v: &[Self]) -> Option<DatasetBase<Array2<f64>, CountedTargets<Self, Array1<Self>>>> {
        Some(with_labels_copy(v))
    }
}
impl CmLabel for String {}


pub const CM_FORMS: usize = 26;
pub const CM_FORM_NAMES: [&str; CM_FORMS] = [
    "arr.cm(&arr)",
    "arr.cm(arr)",
    "view.cm(view)",
    "arr.cm(&ds)",
    "ds.cm(&arr)",
    "ds.cm(arr)",
    "ds.cm(&ds)",
    "counted_ds.cm(&arr)",
    "counted_ds.cm(&ds)",
    "arr.cm(&counted_ds)",
    "counted.cm(&arr)",
    "ds.cm(&counted_ds)",
    "dsview.cm(&dsview)",
    "with_labels_ds.cm(&arr)",
    "view.cm(&dsview)",
    "counted_ds.cm(&counted_ds)",
    "strided.cm(&strided)",
    "reversed.cm(&arr)",
    "arr.cm(&reversed)",
    "colds.cm(&arr)",
    "arr.cm(&colds)",
    "wds.cm(&wds)",
    "wds.cm(&arr)",
    "arr.cm(&wds)",
    "ds_assigned.cm(&arr)",
    "ds_with_targets.cm(&ds)",
];

/// `prediction.confusion_matrix(ground_truth)` through calling form `form`
pub fn call_cm<L: CmLabel>(form: usize, pred: &[L], truth: &[L]) -> Res<ConfusionMatrix<L>> {
    let p = Array1::from(pred.to_vec());
    let t = Array1::from(truth.to_vec());
    let ds = |a: &Array1<L>| DatasetBase::new(recs(a.len()), a.clone());
    let cds = |a: &Array1<L>| DatasetBase::new(recs(a.len()), CountedTargets::new(a.clone()));
    match form {
        0 => p.confusion_matrix(&t),
        1 => p.confusion_matrix(t),
        2 => p.view().confusion_matrix(t.view()),
        3 => p.confusion_matrix(&ds(&t)),
        4 => ds(&p).confusion_matrix(&t),
        5 => ds(&p).confusion_matrix(t),
        6 => ds(&p).confusion_matrix(&ds(&t)),
        7 => cds(&p).confusion_matrix(&t),
        8 => cds(&p).confusion_matrix(&ds(&t)),
        9 => p.confusion_matrix(&cds(&t)),
        10 => CountedTargets::new(p.clone()).confusion_matrix(&t),
        11 => ds(&p).confusion_matrix(&cds(&t)),
        12 => {
            let (r1, r2) = (recs(p.len()), recs(t.len()));
            let a = DatasetBase::new(r1.view(), p.view());
            let b = DatasetBase::new(r2.view(), t.view());
            a.confusion_matrix(&b)
        }
        13 => match L::with_labels_ds(pred) {
            Some(d) => d.confusion_matrix(&t),
            None => cds(&p).confusion_matrix(t.view()),
        },
        14 => {
            let r2 = recs(t.len());
            let b = DatasetBase::new(r2.view(), t.view());
            p.view().confusion_matrix(&b)
        }
        15 => cds(&p).confusion_matrix(&cds(&t)),
        // memory layouts other than the contiguous one: every-other-element views, reversed views,
        // a column of a row-major matrix as the targets of a dataset
        16 => {
            let (pi, ti) = (interleaved(pred), interleaved(truth));
            pi.slice(s![..;2]).confusion_matrix(ti.slice(s![..;2]))
        }
        17 => {
            let pr = reversed(pred);
            pr.slice(s![..;-1]).confusion_matrix(&t)
        }
        18 => {
            let tr = reversed(truth);
            p.confusion_matrix(tr.slice(s![..;-1]))
        }
        19 => {
            let (pc, r1) = (two_cols(pred), recs(p.len()));
            DatasetBase::new(r1.view(), pc.column(0)).confusion_matrix(&t)
        }
        20 => {
            let (tc, r2) = (two_cols(truth), recs(t.len()));
            p.confusion_matrix(&DatasetBase::new(r2.view(), tc.column(0)))
        }
        // datasets that carry sample weights
        21 => ds(&p).with_weights(wts(p.len())).confusion_matrix(&ds(&t).with_weights(wts(t.len()))),
        22 => ds(&p).with_weights(wts(p.len())).confusion_matrix(&t),
        23 => p.confusion_matrix(&ds(&t).with_weights(wts(t.len()))),
        // datasets whose targets were replaced after construction (the label set must follow the data)
        24 => {
            let init = if t.len() == p.len() { t.clone() } else { p.clone() };
            let mut d = ds(&init);
            d.as_targets_mut().assign(&p);
            d.confusion_matrix(&t)
        }
        25 => {
            let d = ds(&t).with_targets(p.clone());
            let e = ds(&p).with_targets(t.clone());
            d.confusion_matrix(&e)
        }
        _ => unreachable!("cm form"),
    }
}

/// a `CountedTargets` whose label counts were taken on `cached` and whose targets were then
/// overwritten with `pred` through `as_targets_mut` (the counts are not refreshed): the receiver's
/// `Labels::label_set` is the label set of `cached`, not of the data
pub const STALE_FORMS: usize = 4;
pub const STALE_FORM_NAMES: [&str; STALE_FORMS] = ["counted.cm(&arr)", "counted_ds.cm(&arr)", "counted_ds.cm(&ds)", "counted_ds.cm(&stale_counted_ds)"];
pub fn call_cm_stale(form: usize, cached: &[usize], pred: &[usize], truth: &[usize]) -> Res<ConfusionMatrix<usize>> {
    let t = Array1::from(truth.to_vec());
    match form {
        0 => {
            let mut ct = CountedTargets::new(Array1::from(cached.to_vec()));
            ct.as_targets_mut().assign(&Array1::from(pred.to_vec()));
            ct.confusion_matrix(&t)
        }
        1 | 2 | 3 => {
            // the same cache inside a dataset, targets overwritten through the dataset
            let mut d = DatasetBase::new(recs(cached.len()), CountedTargets::new(Array1::from(cached.to_vec())));
            d.as_targets_mut().assign(&Array1::from(pred.to_vec()));
            match form {
                1 => d.confusion_matrix(&t),
                2 => d.confusion_matrix(&DatasetBase::new(recs(t.len()), t.clone())),
                _ => {
                    // a stale cache on the ground-truth side too (counted on the receiver's stale
                    // labels): every impl reads the truth's labels from its data, so it must not matter
                    let mut e = DatasetBase::new(recs(cached.len()), CountedTargets::new(Array1::from(cached.to_vec())));
                    e.as_targets_mut().assign(&t);
                    d.confusion_matrix(&e)
                }
            }
        }
        _ => unreachable!("stale form"),
    }
}

// ------------------------------------------------------------------ ROC / log-loss

pub const BIN_FORMS: usize = 10;
pub const BIN_FORM_NAMES: [&str; BIN_FORMS] = ["slice", "array", "view", "dataset", "dataset_views", "strided_view", "dataset_strided", "weighted_datasets", "reversed_view", "dataset_reversed"];

fn prs(s: &[f32]) -> Vec<Pr> {
    s.iter().map(|x| Pr::new_unchecked(*x)).collect()
}

pub fn call_roc(form: usize, s: &[f32], y: &[bool]) -> Res<linfa::metrics::ReceiverOperatingCharacteristic> {
    let pr = prs(s);
    match form {
        0 => {
            let sl: &[Pr] = &pr;
            sl.roc(y)
        }
        1 => Array1::from(pr).roc(y),
        2 => ArrayView1::from(&pr[..]).roc(y),
        3 => {
            let a = DatasetBase::new(recs(s.len()), Array1::from(pr));
            let b = DatasetBase::new(recs(y.len()), Array1::from(y.to_vec()));
            a.roc(&b)
        }
        4 => {
            let (r1, r2) = (recs(s.len()), recs(y.len()));
            let a = DatasetBase::new(r1.view(), ArrayView1::from(&pr[..]));
            let b = DatasetBase::new(r2.view(), ArrayView1::from(y));
            a.roc(&b)
        }
        5 => {
            let pi = interleaved(&pr);
            pi.slice(s![..;2]).roc(y)
        }
        6 => {
            let (r1, r2) = (recs(s.len()), recs(y.len()));
            let (pi, yi) = (interleaved(&pr), interleaved(y));
            let a = DatasetBase::new(r1.view(), pi.slice(s![..;2]));
            let b = DatasetBase::new(r2.view(), yi.slice(s![..;2]));
            a.roc(&b)
        }
        7 => {
            let a = DatasetBase::new(recs(s.len()), Array1::from(pr)).with_weights(wts(s.len()));
            let b = DatasetBase::new(recs(y.len()), Array1::from(y.to_vec())).with_weights(wts(y.len()));
            a.roc(&b)
        }
        8 => {
            // negative stride
            let pv = reversed(&pr);
            pv.slice(s![..;-1]).roc(y)
        }
        9 => {
            let (r1, r2) = (recs(s.len()), recs(y.len()));
            let (pv, yv) = (reversed(&pr), reversed(y));
            let a = DatasetBase::new(r1.view(), pv.slice(s![..;-1]));
            let b = DatasetBase::new(r2.view(), yv.slice(s![..;-1]));
            a.roc(&b)
        }
        _ => unreachable!("roc form"),
    }
}

pub fn call_log_loss(form: usize, s: &[f32], y: &[bool]) -> Res<f32> {
    let pr = prs(s);
    match form {
        0 => {
            let sl: &[Pr] = &pr;
            sl.log_loss(y)
        }
        1 => Array1::from(pr).log_loss(y),
        2 => ArrayView1::from(&pr[..]).log_loss(y),
        3 => {
            let a = DatasetBase::new(recs(s.len()), Array1::from(pr));
            let b = DatasetBase::new(recs(y.len()), Array1::from(y.to_vec()));
            a.log_loss(&b)
        }
        4 => {
            let (r1, r2) = (recs(s.len()), recs(y.len()));
            let a = DatasetBase::new(r1.view(), ArrayView1::from(&pr[..]));
            let b = DatasetBase::new(r2.view(), ArrayView1::from(y));
            a.log_loss(&b)
        }
        5 => {
            let pi = interleaved(&pr);
            pi.slice(s![..;2]).log_loss(y)
        }
        6 => {
            let (r1, r2) = (recs(s.len()), recs(y.len()));
            let (pi, yi) = (interleaved(&pr), interleaved(y));
            let a = DatasetBase::new(r1.view(), pi.slice(s![..;2]));
            let b = DatasetBase::new(r2.view(), yi.slice(s![..;2]));
            a.log_loss(&b)
        }
        7 => {
            let a = DatasetBase::new(recs(s.len()), Array1::from(pr)).with_weights(wts(s.len()));
            let b = DatasetBase::new(recs(y.len()), Array1::from(y.to_vec())).with_weights(wts(y.len()));
            a.log_loss(&b)
        }
        8 => {
            // negative stride
            let pv = reversed(&pr);
            pv.slice(s![..;-1]).log_loss(y)
        }
        9 => {
            let (r1, r2) = (recs(s.len()), recs(y.len()));
            let (pv, yv) = (reversed(&pr), reversed(y));
            let a = DatasetBase::new(r1.view(), pv.slice(s![..;-1]));
            let b = DatasetBase::new(r2.view(), yv.slice(s![..;-1]));
            a.log_loss(&b)
        }
        _ => unreachable!("log_loss form"),
    }
}

// ------------------------------------------------------------------ regression

/// the eight scores of `$a.metric($b)` for a single-target receiver, each through `$g`
macro_rules! eight {
    ($g:expr, $a:expr, $b:expr) => {
        vec![
            $g(&|| $a.max_error($b)),
            $g(&|| $a.mean_absolute_error($b)),
            $g(&|| $a.mean_squared_error($b)),
            $g(&|| $a.median_absolute_error($b)),
            $g(&|| $a.mean_absolute_percentage_error($b)),
            $g(&|| $a.r2($b)),
            $g(&|| $a.explained_variance($b)),
            $g(&|| $a.mean_squared_log_error($b)),
        ]
    };
}
pub(crate) use eight;

pub const REG1_FORMS: usize = 11;
pub const REG1_FORM_NAMES: [&str; REG1_FORMS] = ["arr.m(&arr)", "arr.m(&ds)", "ds.m(&arr)", "ds.m(&ds)", "view.m(&view)", "col2.m(&col2)", "dsview.m(&view)", "arr.m(&&arr)", "strided.m(&strided)", "colds.m(&reversed)", "wds.m(&wds)"];
pub const REGM_FORMS: usize = 10;
pub const REGM_FORM_NAMES: [&str; REGM_FORMS] = ["arr2.m(&arr2)", "arr2.m(&ds)", "ds.m(&arr2)", "ds.m(&ds)", "view2.m(&view2)", "dsview.m(&dsview)", "forder2.m(&forder2)", "ds_strided2.m(&strided2)", "wds.m(&wds)", "reversed2.m(&ds_reversed2)"];

/// single target: `[metric] -> Option<F>`
pub fn call_reg1<F: linfa::Float>(form: usize, a: &Array1<F>, b: &Array1<F>, g: &dyn Fn(&dyn Fn() -> Res<F>) -> Option<F>) -> Vec<Option<F>> {
    let n = a.len();
    let rec = || Array2::<F>::zeros((n, 2));
    match form {
        0 => eight!(g, a, b),
        1 => {
            let db = DatasetBase::new(rec(), b.clone());
            eight!(g, a, &db)
        }
        2 => {
            let da = DatasetBase::new(rec(), a.clone());
            eight!(g, da, b)
        }
        3 => {
            let da = DatasetBase::new(rec(), a.clone());
            let db = DatasetBase::new(rec(), b.clone());
            eight!(g, da, &db)
        }
        4 => {
            let (va, vb) = (a.view(), b.view());
            eight!(g, va, &vb)
        }
        5 => {
            // an n x 1 matrix through the multi-target trait
            let a2 = a.clone().insert_axis(ndarray::Axis(1));
            let b2 = b.clone().insert_axis(ndarray::Axis(1));
            let g1 = |f: &dyn Fn() -> Res<Array1<F>>| -> Option<F> {
                g(&|| {
                    f().and_then(|v| if v.len() == 1 { Ok(v[0]) } else { Err(linfa::Error::Parameters(format!("{} columns", v.len()))) })
                })
            };
            eight!(g1, a2, &b2)
        }
        6 => {
            let r = rec();
            let da = DatasetBase::new(r.view(), a.view());
            let vb = b.view();
            eight!(g, da, &vb)
        }
        7 => {
            // `impl AsTargets for &T`: the argument type is a reference
            let rb: &Array1<F> = b;
            eight!(g, a, &rb)
        }
        8 => {
            let (ai, bi) = (interleaved(a.as_slice().unwrap()), interleaved(b.as_slice().unwrap()));
            let (va, vb) = (ai.slice(s![..;2]), bi.slice(s![..;2]));
            eight!(g, va, &vb)
        }
        9 => {
            let (ac, br, r) = (two_cols(a.as_slice().unwrap()), reversed(b.as_slice().unwrap()), rec());
            let da = DatasetBase::new(r.view(), ac.column(0));
            let vb = br.slice(s![..;-1]);
            eight!(g, da, &vb)
        }
        10 => {
            let da = DatasetBase::new(rec(), a.clone()).with_weights(wts(n));
            let db = DatasetBase::new(rec(), b.clone()).with_weights(wts(n));
            eight!(g, da, &db)
        }
        _ => unreachable!("reg1 form"),
    }
}

/// multi target: `[metric] -> Option<Array1<F>>`
pub fn call_regm<F: linfa::Float>(form: usize, a: &Array2<F>, b: &Array2<F>, g: &dyn Fn(&dyn Fn() -> Res<Array1<F>>) -> Vec<Option<F>>) -> Vec<Vec<Option<F>>> {
    let n = a.nrows();
    let rec = || Array2::<F>::zeros((n, 2));
    match form {
        0 => eight!(g, a, b),
        1 => {
            let db = DatasetBase::new(rec(), b.clone());
            eight!(g, a, &db)
        }
        2 => {
            let da = DatasetBase::new(rec(), a.clone());
            eight!(g, da, b)
        }
        3 => {
            let da = DatasetBase::new(rec(), a.clone());
            let db = DatasetBase::new(rec(), b.clone());
            eight!(g, da, &db)
        }
        4 => {
            let (va, vb) = (a.view(), b.view());
            eight!(g, va, &vb)
        }
        5 => {
            let (r1, r2) = (rec(), rec());
            let da = DatasetBase::new(r1.view(), a.view());
            let db = DatasetBase::new(r2.view(), b.view());
            eight!(g, da, &db)
        }
        6 => {
            let (fa, fb) = (f_order(a), f_order(b));
            eight!(g, fa, &fb)
        }
        7 => {
            let (pa, pb, r) = (padded(a), padded(b), rec());
            let da = DatasetBase::new(r.view(), pa.slice(s![..;2, ..;2]));
            let vb = pb.slice(s![..;2, ..;2]);
            eight!(g, da, &vb)
        }
        8 => {
            let da = DatasetBase::new(rec(), a.clone()).with_weights(wts(n));
            let db = DatasetBase::new(rec(), b.clone()).with_weights(wts(n));
            eight!(g, da, &db)
        }
        9 => {
            // negative strides on both axes
            let (ra, rb, r) = (rev2(a), rev2(b), rec());
            let va = ra.slice(s![..;-1, ..;-1]);
            let db = DatasetBase::new(r.view(), rb.slice(s![..;-1, ..;-1]));
            eight!(g, va, &db)
        }
        _ => unreachable!("regm form"),
    }
}

// ------------------------------------------------------------------ silhouette

pub const SIL_FORMS: usize = 9;
pub const SIL_FORM_NAMES: [&str; SIL_FORMS] = ["ds<usize>", "ds<bool|usize>", "ds<String>", "counted_ds", "dsview", "forder_records", "strided_views", "weighted_ds", "reversed_views"];

/// `silhouette_score` through label type / container `form`; labels are given as small naturals
pub fn call_sil<F: linfa::Float>(form: usize, rec: Array2<F>, l: &[usize]) -> Res<F> {
    match form {
        0 => Dataset::new(rec, Array1::from(l.to_vec())).silhouette_score(),
        1 => {
            // bool labels when there are at most two clusters, otherwise as form 0
            let mut d: Vec<usize> = l.to_vec();
            d.sort();
            d.dedup();
            if d.len() <= 2 {
                let lb: Vec<bool> = l.iter().map(|x| *x == d[0]).collect();
                DatasetBase::new(rec, Array1::from(lb)).silhouette_score()
            } else {
                Dataset::new(rec, Array1::from(l.to_vec())).silhouette_score()
            }
        }
        2 => {
            let ls: Vec<String> = l.iter().map(|x| format!("c{}", 9 - (*x % 10))).collect();
            DatasetBase::new(rec, Array1::from(ls)).silhouette_score()
        }
        3 => DatasetBase::new(rec, CountedTargets::new(Array1::from(l.to_vec()))).silhouette_score(),
        4 => {
            let t = Array1::from(l.to_vec());
            DatasetBase::new(rec.view(), t.view()).silhouette_score()
        }
        5 => Dataset::new(f_order(&rec), Array1::from(l.to_vec())).silhouette_score(),
        6 => {
            let (pr, ti) = (padded(&rec), interleaved(l));
            DatasetBase::new(pr.slice(s![..;2, ..;2]), ti.slice(s![..;2])).silhouette_score()
        }
        7 => Dataset::new(rec, Array1::from(l.to_vec())).with_weights(wts(l.len())).silhouette_score(),
        8 => {
            let (rr, tr) = (rev2(&rec), reversed(l));
            DatasetBase::new(rr.slice(s![..;-1, ..;-1]), tr.slice(s![..;-1])).silhouette_score()
        }
        _ => unreachable!("sil form"),
    }
}

/// `silhouette_score` of a dataset whose `CountedTargets` were counted on `cached` and whose targets
/// were then overwritten with `l` (the counts are not refreshed): stale cluster sizes, labels of the
/// data that the cache does not know (`get_mut(..).unwrap()` panics), cached labels without samples
pub fn call_sil_stale(rec: Array2<f64>, cached: &[usize], l: &[usize]) -> Res<f64> {
    let mut d = DatasetBase::new(rec, CountedTargets::new(Array1::from(cached.to_vec())));
    d.as_targets_mut().assign(&Array1::from(l.to_vec()));
    d.silhouette_score()
}

// ------------------------------------------------------------------ Pearson

/// soft observation (distribution key only): are the p-values of 3 resamplings frequencies k/3?
pub fn pvalues_are_frequencies(rec: Array2<f64>) -> bool {
    let p = rec.ncols();
    let c = DatasetBase::from(rec).pearson_correlation_with_p_value(3);
    c.get_p_values().map_or(p < 2, |pv| pv.iter().all(|v| { let k = *v * 3.0; (0.0..=3.0).contains(&k) && (k - k.round()).abs() < 1e-4 }))
}

pub const PEARSON_FORMS: usize = 7;
pub const PEARSON_FORM_NAMES: [&str; PEARSON_FORMS] = ["owned", "forder", "strided_view", "dataset_with_targets", "with_p_value", "weighted_ds", "reversed_view"];

/// `pearson_correlation` of the records through memory layout / container `form`
pub fn call_pearson<F: linfa::Float>(form: usize, rec: Array2<F>) -> Vec<F> {
    match form {
        0 => DatasetBase::from(rec).pearson_correlation().get_coeffs().to_vec(),
        1 => DatasetBase::from(f_order(&rec)).pearson_correlation().get_coeffs().to_vec(),
        2 => {
            let pr = padded(&rec);
            DatasetBase::from(pr.slice(s![..;2, ..;2])).pearson_correlation().get_coeffs().to_vec()
        }
        3 => {
            let n = rec.nrows();
            Dataset::new(rec, Array1::from((0..n).collect::<Vec<usize>>())).pearson_correlation().get_coeffs().to_vec()
        }
        4 => {
            // the coefficients of the p-value entry point; the p-values themselves are a random
            // resampling and not in the statement: nothing is required of them (whether they are
            // frequencies k/3 is only counted by the caller through `pvalues_are_frequencies`)
            let c = DatasetBase::from(rec).pearson_correlation_with_p_value(3);
            c.get_coeffs().to_vec()
        }
        5 => {
            let n = rec.nrows();
            DatasetBase::from(rec).with_weights(wts(n)).pearson_correlation().get_coeffs().to_vec()
        }
        6 => {
            let rr = rev2(&rec);
            DatasetBase::from(rr.slice(s![..;-1, ..;-1])).pearson_correlation().get_coeffs().to_vec()
        }
        _ => unreachable!("pearson form"),
    }
}
