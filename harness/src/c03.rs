//! C03 — prediction is a per-sample function through every calling form.
//!
//! (a) model-level correspondence (requests answered by the Lean model): the three composing
//!     wrappers with scripted member models, `platt_predict`, and the structural families on real
//!     fitted predictors whose parameters are readable (k-means, OLS / elastic net, PCA / PLS,
//!     decision tree, isotonic regression).
//! (b) implementation-level oracle sweep (`#` requests, see `c03_sweep.rs`).
use crate::util::*;
use linfa::composing::platt_scaling::platt_predict;
use linfa::dataset::{AsTargets, DatasetBase, Pr};
use linfa::traits::{Fit, Predict, PredictInplace};
use linfa::{Dataset, MultiClassModel, MultiTargetModel};
use ndarray::{Array1, Array2, Axis};

#[path = "c03_sweep.rs"]
mod sweep;

/// the five calling forms that allocate their own buffer (`&records`, `records`, `&dataset`, `dataset`,
/// `predict_inplace` into `default_target`), by the name the driver knows them
pub const FORMS: [&str; 5] = ["ref", "own", "dsref", "dsown", "inplace"];
/// how a request reaches the model: one of `FORMS`, or `predict_inplace` into a caller-supplied buffer
pub enum How<T> {
    Form(usize),
    Into(T),
}

fn rec_tag(back: &Array2<f64>, x: &Array2<f64>) -> &'static str {
    if back.dim() == x.dim() && back.iter().zip(x.iter()).all(|(a, b)| a.to_bits() == b.to_bits() || (a.is_nan() && b.is_nan())) {
        " rec=same"
    } else {
        " rec=changed"
    }
}

/// run the REAL calling form (the blanket impls of `impl_dataset.rs`); returns the targets and, for the
/// forms that hand the records back, whether they came back cell for cell
pub fn run_how<M, T>(m: &M, x: &Array2<f64>, how: How<T>) -> (T, &'static str)
where
    M: PredictInplace<Array2<f64>, T>,
    T: AsTargets,
{
    match how {
        How::Form(0) => (<M as Predict<&Array2<f64>, T>>::predict(m, x), ""),
        How::Form(1) => {
            let d = <M as Predict<Array2<f64>, DatasetBase<Array2<f64>, T>>>::predict(m, x.clone());
            let t = rec_tag(&d.records, x);
            (d.targets, t)
        }
        How::Form(2) => {
            let ds: DatasetBase<Array2<f64>, Array1<()>> = DatasetBase::from(x.clone());
            (<M as Predict<&DatasetBase<Array2<f64>, Array1<()>>, T>>::predict(m, &ds), "")
        }
        How::Form(3) => {
            let ds: DatasetBase<Array2<f64>, Array1<()>> = DatasetBase::from(x.clone());
            let d = <M as Predict<DatasetBase<Array2<f64>, Array1<()>>, DatasetBase<Array2<f64>, T>>>::predict(m, ds);
            let t = rec_tag(&d.records, x);
            (d.targets, t)
        }
        How::Form(_) => {
            let mut t = m.default_target(x);
            m.predict_inplace(x, &mut t);
            (t, "")
        }
        How::Into(mut y) => {
            m.predict_inplace(x, &mut y);
            (y, "")
        }
    }
}

/// request suffix naming the form
fn form_key<T>(how: &How<T>) -> String {
    match how {
        How::Form(f) => format!(" form={}", FORMS[*f]),
        How::Into(_) => " form=into".to_string(),
    }
}

/// rows carry their tag in column 0
fn tag_rows(tags: &[usize]) -> Array2<f64> {
    Array2::from_shape_fn((tags.len(), 2), |(i, j)| if j == 0 { tags[i] as f64 } else { 0.5 })
}

/// scripted member: answers `tab[tag]` per row; adj = 1 appends a spurious cell, adj = 2 drops one
struct Scripted<T: Clone> {
    tab: Vec<T>,
    extra: T,
    adj: usize,
    zero: T,
}
impl<T: Clone> Scripted<T> {
    fn out(&self, x: &Array2<f64>) -> Vec<T> {
        let mut v: Vec<T> = x.rows().into_iter().map(|r| self.tab[r[0] as usize].clone()).collect();
        if self.adj == 1 {
            v.push(self.extra.clone());
        } else if self.adj == 2 {
            v.pop();
        }
        v
    }
}
impl<T: Clone> PredictInplace<Array2<f64>, Array1<T>> for Scripted<T> {
    fn predict_inplace(&self, x: &Array2<f64>, y: &mut Array1<T>) {
        *y = Array1::from(self.out(x));
    }
    fn default_target(&self, x: &Array2<f64>) -> Array1<T> {
        Array1::from_elem(x.nrows(), self.zero.clone())
    }
}

/// `pre`: a caller-supplied target buffer (rows of a 2-d array); `None` = the `Predict` form
fn op_mt(em: &mut Em, tags: Vec<usize>, tab: Vec<Vec<i64>>, adj: Vec<usize>, pre: Option<Vec<Vec<i64>>>, form: usize) {
    let mut op = format!("mt tags={} tab={} adj={}", list(tags.iter(), |x| x.to_string()), list2(tab.iter().map(|r| r.iter()), |x| x.to_string()), list(adj.iter(), |x| x.to_string()));
    let pre_ok = match &pre {
        None => true,
        Some(p) => p.len() == tags.len() && p.iter().all(|r| r.len() == tab.len()),
    };
    match &pre {
        Some(p) => op.push_str(&format!(" form=into pre={}", list2(p.iter().map(|r| r.iter()), |x| x.to_string()))),
        None => op.push_str(&format!(" form={}", FORMS[form])),
    }
    let valid = adj.iter().all(|a| *a == 0) && pre_ok;
    if !valid {
        // ill-behaved members / a buffer of the wrong shape: outside the property's guard — run (no crash of
        // the harness), not compared with the model
        op = format!("#{}", op);
        em.count("mt:unpromised");
    }
    let class = format!("multi_target:m={}", if tab.is_empty() { "0" } else { "pos" });
    let body = |ctx: &mut Ctx| {
        let members: Vec<Box<dyn PredictInplace<Array2<f64>, Array1<i64>>>> =
            tab.iter().zip(adj.iter()).map(|(t, a)| Box::new(Scripted { tab: t.clone(), extra: -1, adj: *a, zero: 0i64 }) as Box<dyn PredictInplace<Array2<f64>, Array1<i64>>>).collect();
        let model = MultiTargetModel::new(members);
        let x = tag_rows(&tags);
        let (out, rec): (Array2<i64>, &str) = match &pre {
            None => run_how(&model, &x, How::Form(form)),
            Some(p) => {
                let ncols = p.first().map(|r| r.len()).unwrap_or(tab.len());
                let y = Array2::from_shape_fn((p.len(), ncols), |(i, j)| p[i][j]);
                run_how(&model, &x, How::Into(y))
            }
        };
        if valid {
            ctx.require(rec != " rec=changed", "dataset_form_returns_records", &class, || format!("form {} did not hand the records back unchanged", FORMS[form]));
            ctx.require(out.nrows() == tags.len() && out.ncols() == tab.len(), "one_output_per_row", &class, || format!("shape {:?} for n={} m={}", out.shape(), tags.len(), tab.len()));
            if out.nrows() == tags.len() && out.ncols() == tab.len() {
                for (i, t) in tags.iter().enumerate() {
                    for j in 0..tab.len() {
                        ctx.require(out[(i, j)] == tab[j][*t], "column_j_is_model_j", &class, || format!("out[{},{}]={} but model {} predicts {} for that row", i, j, out[(i, j)], j, tab[j][*t]));
                    }
                }
            }
        }
        format!("ok {}{}", list2(out.rows().into_iter().map(|r| r.to_vec()), |x: i64| x.to_string()), rec)
    };
    if valid {
        em.case_valid(op, &class, body)
    } else {
        em.case(op, body)
    }
}

fn op_mc(em: &mut Em, tags: Vec<usize>, labels: Vec<usize>, tab: Vec<Vec<u32>>, adj: Vec<usize>, pre: Option<Vec<usize>>, form: usize) {
    let mut op = format!(
        "mc tags={} labels={} tab={} adj={}",
        list(tags.iter(), |x| x.to_string()),
        list(labels.iter(), |x| x.to_string()),
        list2(tab.iter().map(|r| r.iter()), |x| x.to_string()),
        list(adj.iter(), |x| x.to_string())
    );
    let pre_ok = pre.as_ref().map(|p| p.len() == tags.len()).unwrap_or(true);
    match &pre {
        Some(p) => op.push_str(&format!(" form=into pre={}", list(p.iter(), |x| x.to_string()))),
        None => op.push_str(&format!(" form={}", FORMS[form])),
    }
    let valid = adj.iter().all(|a| *a == 0) && !tab.is_empty() && pre_ok;
    if !valid {
        // ill-behaved members, no member at all, a buffer of the wrong length: outside the property's guard
        op = format!("#{}", op);
        em.count("mc:unpromised");
    }
    let class = "multi_class".to_string();
    if valid {
        // cells written as the set of tied labels (the mask of the tie-break): tallied for the ceiling
        let tied = tags.iter().filter(|t| { let mx = tab.iter().map(|r| r[**t]).max().unwrap(); tab.iter().filter(|r| r[**t] == mx).count() > 1 }).count();
        em.count_n("mc:cells", tags.len() as u64);
        em.count_n("mc:tied_cells", tied as u64);
    }
    let body = |ctx: &mut Ctx| {
        let members: Vec<(usize, Box<dyn PredictInplace<Array2<f64>, Array1<Pr>>>)> = labels
            .iter()
            .zip(tab.iter().zip(adj.iter()))
            .map(|(l, (t, a))| {
                let probs: Vec<Pr> = t.iter().map(|q| Pr::new(*q as f32 / 64.0)).collect();
                (*l, Box::new(Scripted { tab: probs, extra: Pr::new(0.0), adj: *a, zero: Pr::new(0.0) }) as Box<dyn PredictInplace<Array2<f64>, Array1<Pr>>>)
            })
            .collect();
        let model = MultiClassModel::new(members);
        let x = tag_rows(&tags);
        let (out, rec): (Array1<usize>, &str) = match &pre {
            None => run_how(&model, &x, How::Form(form)),
            Some(p) => run_how(&model, &x, How::Into(Array1::from(p.clone()))),
        };
        if valid {
            ctx.require(rec != " rec=changed", "dataset_form_returns_records", &class, || format!("form {} did not hand the records back unchanged", FORMS[form]));
            ctx.require(out.len() == tags.len(), "one_output_per_row", &class, || format!("{} outputs for {} rows", out.len(), tags.len()));
            for (i, t) in tags.iter().enumerate() {
                if i >= out.len() {
                    break;
                }
                // label of a member with the highest probability (the statement fixes no tie-break)
                let mx = tab.iter().map(|r| r[*t]).max().unwrap();
                let winners: Vec<usize> = (0..tab.len()).filter(|k| tab[*k][*t] == mx).map(|k| labels[k]).collect();
                ctx.require(winners.contains(&out[i]), "label_of_highest_probability", &class, || format!("row {} (tag {}): got label {}, the members with the highest probability have labels {:?}", i, t, out[i], winners));
                // the same row alone must get the same label (ties included)
                let one = tag_rows(&[*t]);
                let r: Array1<usize> = model.predict(&one);
                ctx.require(r.len() == 1 && r[0] == out[i], "batch_eq_rowwise", &class, || format!("row {} (tag {}): label {} in the batch, {:?} alone", i, t, out[i], r));
            }
        }
        if valid && out.len() == tags.len() {
            // a row on which several members tie for the maximum is written as the set of their labels
            // (when the label returned is one of them): which of them wins is not part of the property
            let cells: Vec<String> = tags
                .iter()
                .zip(out.iter())
                .map(|(t, l)| {
                    let mx = tab.iter().map(|r| r[*t]).max().unwrap();
                    let mut w: Vec<usize> = (0..tab.len()).filter(|k| tab[*k][*t] == mx).map(|k| labels[k]).collect();
                    w.sort();
                    if w.len() > 1 && w.contains(l) { format!("t{}", w.iter().map(|x| x.to_string()).collect::<Vec<_>>().join("|")) } else { l.to_string() }
                })
                .collect();
            return format!("ok {}{}", cells.join(","), rec);
        }
        format!("ok {}{}", list(out.iter(), |x| x.to_string()), rec)
    };
    if valid {
        em.case_valid(op, &class, body)
    } else {
        em.case(op, body)
    }
}

fn show_pr(p: Pr) -> String {
    format!("~{}", hex64(*p as f64))
}

fn op_platt(em: &mut Em, a: f64, b: f64, xs: Vec<f64>) {
    let op = format!("platt a={} b={} xs={}", hex64(a), hex64(b), list(xs.iter(), |x| hex64(*x)));
    let finite = a.is_finite() && b.is_finite() && xs.iter().all(|x| x.is_finite() && (a * x + b).is_finite());
    let class = format!("platt:a={}", if a > 0.0 { "pos" } else if a < 0.0 { "neg" } else { "zero" });
    let body = |ctx: &mut Ctx| {
        let ps: Vec<Pr> = xs.iter().map(|x| platt_predict(*x, a, b)).collect();
        for (x, p) in xs.iter().zip(ps.iter()) {
            ctx.require(**p >= 0.0 && **p <= 1.0, "probability_in_unit_interval", &class, || format!("x={} -> {}", x, **p));
        }
        // monotone in the decision value: p is a non-increasing function of a*x+b
        let mut idx: Vec<usize> = (0..xs.len()).collect();
        idx.sort_by(|i, j| (a * xs[*i] + b).partial_cmp(&(a * xs[*j] + b)).unwrap());
        for w in idx.windows(2) {
            let (t0, t1) = ((a * xs[w[0]] + b) as f32, (a * xs[w[1]] + b) as f32);
            // one f32 ulp of slack where the two branches meet / libm rounding
            let slack = 4.0 * f32::EPSILON * *ps[w[0]];
            ctx.require(t0 == t1 && ps[w[0]] == ps[w[1]] || *ps[w[1]] <= *ps[w[0]] + slack, "monotone_sigmoid", &class, || {
                format!("t={} -> {}, t={} -> {}", t0, *ps[w[0]], t1, *ps[w[1]])
            });
        }
        format!("ok {}", list(ps.iter(), |p| show_pr(*p)))
    };
    if finite {
        em.case_valid(op, &class, body)
    } else {
        em.case(op, body)
    }
}

/// `platt_predict::<f32>`: `a*x+b` evaluated in f32, no narrowing cast
fn op_platt32(em: &mut Em, a: f32, b: f32, xs: Vec<f32>) {
    let op = format!("platt32 a={} b={} xs={}", hex32(a), hex32(b), list(xs.iter(), |x| hex32(*x)));
    let finite = a.is_finite() && b.is_finite() && xs.iter().all(|x| x.is_finite() && (a * x + b).is_finite());
    let class = format!("platt32:a={}", if a > 0.0 { "pos" } else if a < 0.0 { "neg" } else { "zero" });
    let body = |ctx: &mut Ctx| {
        let ps: Vec<Pr> = xs.iter().map(|x| platt_predict(*x, a, b)).collect();
        for (x, p) in xs.iter().zip(ps.iter()) {
            ctx.require(**p >= 0.0 && **p <= 1.0, "probability_in_unit_interval", &class, || format!("x={} -> {}", x, **p));
        }
        let mut idx: Vec<usize> = (0..xs.len()).collect();
        idx.sort_by(|i, j| (a * xs[*i] + b).partial_cmp(&(a * xs[*j] + b)).unwrap());
        for w in idx.windows(2) {
            let (t0, t1) = (a * xs[w[0]] + b, a * xs[w[1]] + b);
            let slack = 4.0 * f32::EPSILON * *ps[w[0]];
            ctx.require(t0 == t1 && ps[w[0]] == ps[w[1]] || *ps[w[1]] <= *ps[w[0]] + slack, "monotone_sigmoid", &class, || format!("t={} -> {}, t={} -> {}", t0, *ps[w[0]], t1, *ps[w[1]]));
        }
        format!("ok {}", list(ps.iter(), |p| show_pr(*p)))
    };
    if finite {
        em.case_valid(op, &class, body)
    } else {
        em.case(op, body)
    }
}

/// the `Platt` wrapper itself — `Platt::predict_inplace` over a scripted inner model that answers `xs[tag]`
/// (row `i` carries tag `i`), with chosen `A`, `B` (hook `Platt::verif_from_parts`) — through every calling
/// form incl. a pre-filled probability buffer; the driver answers with `predictForm plattModel`
fn op_plattw(em: &mut Em, rng: &mut Rng) {
    use linfa::composing::platt_scaling::Platt;
    let a = match rng.below(4) {
        0 => -(rng.range(1, 40) as f64) / 8.0,
        1 => rng.range(1, 40) as f64 / 8.0,
        _ => (rng.unit() - 0.7) * 6.0,
    };
    let b = if rng.chance(1, 4) { 0.0 } else { (rng.unit() - 0.5) * 8.0 };
    let n = rng.below(8);
    let xs: Vec<f64> = (0..n)
        .map(|_| match rng.below(5) {
            0 => 0.0,
            1 => (rng.unit() - 0.5) * 400.0,
            _ => (rng.unit() - 0.5) * 20.0,
        })
        .collect();
    let tags: Vec<usize> = (0..n).collect();
    let x = tag_rows(&tags);
    let model = Platt::verif_from_parts(a, b, Scripted { tab: xs.clone(), extra: 0.0, adj: 0, zero: 0.0 });
    let into = rng.chance(1, 3);
    let form = rng.below(5);
    let pre: Vec<f32> = (0..n).map(|i| if i % 2 == 0 { 0.75 } else { 0.0625 }).collect();
    let mut op = format!("plattw a={} b={} xs={}", hex64(a), hex64(b), list(xs.iter(), |x| hex64(*x)));
    if into {
        em.count("plattw:inplace_prefilled");
        op.push_str(&format!(" form=into pre={}", list(pre.iter(), |x| hex64(*x as f64))));
    } else {
        op.push_str(&format!(" form={}", FORMS[form]));
    }
    let class = "platt_wrapper";
    em.case_valid(op, class, |ctx| {
        let (out, rec): (Array1<Pr>, &str) = if into { run_how(&model, &x, How::Into(pre.iter().map(|p| Pr::new(*p)).collect())) } else { run_how(&model, &x, How::Form(form)) };
        ctx.require(rec != " rec=changed", "dataset_form_returns_records", class, || format!("form {} did not hand the records back unchanged", FORMS[form]));
        ctx.require(out.len() == n, "one_output_per_row", class, || format!("{} outputs for {} rows", out.len(), n));
        let fresh: Array1<Pr> = model.predict(&x);
        ctx.require(out.len() == fresh.len() && out.iter().zip(fresh.iter()).all(|(p, q)| p.to_bits() == q.to_bits()), if into { "inplace_into_supplied_buffer" } else { "forms_agree" }, class, || format!("{:?} vs predict(&records) {:?}", out, fresh));
        for (i, p) in out.iter().enumerate() {
            ctx.require(**p >= 0.0 && **p <= 1.0, "probability_in_unit_interval", class, || format!("row {} -> {}", i, **p));
            let one: Array1<Pr> = model.predict(&tag_rows(&[i]));
            ctx.require(one.len() == 1 && one[0].to_bits() == p.to_bits(), "batch_eq_rowwise", class, || format!("row {} alone {:?} vs in the batch {}", i, one, **p));
        }
        format!("ok {}{}", list(out.iter(), |p| show_pr(*p)), rec)
    });
}

pub fn hexrows(a: &Array2<f64>) -> String {
    list2(a.rows().into_iter().map(|r| r.to_vec()), |x: f64| hex64(x))
}

/// lattice matrix: small integers / halves
pub fn lattice(rng: &mut Rng, n: usize, p: usize, span: i64, halves: bool) -> Array2<f64> {
    let mut a = Array2::zeros((n, p));
    for i in 0..n {
        for j in 0..p {
            let v = rng.range(-span, span) as f64;
            a[(i, j)] = if halves { v / 2.0 } else { v };
        }
    }
    a
}

/// query batch built from a pool: duplicates, permutations, empty and single-row batches
pub fn batch_from(rng: &mut Rng, pool: &Array2<f64>, em: &mut Em) -> Array2<f64> {
    let mode = rng.below(8);
    let n = pool.nrows();
    let idx: Vec<usize> = match mode {
        0 => {
            em.count("batch:empty");
            vec![]
        }
        1 => {
            em.count("batch:single");
            vec![rng.below(n)]
        }
        2 => {
            em.count("batch:duplicated");
            let r = rng.below(n);
            vec![r; 2 + rng.below(4)]
        }
        3 => {
            em.count("batch:permuted");
            let mut v: Vec<usize> = (0..n).collect();
            rng.shuffle(&mut v);
            v
        }
        _ => {
            em.count("batch:mixed");
            (0..1 + rng.below(2 * n)).map(|_| rng.below(n)).collect()
        }
    };
    pool.select(Axis(0), &idx)
}

/// length of a caller-supplied buffer for an `n`-row batch: right most of the time, now and then off by
/// one (the shape assert at the head of every `predict_inplace`, outside the property's guard)
fn pre_len(rng: &mut Rng, em: &mut Em, n: usize, what: &str) -> usize {
    if rng.chance(1, 10) {
        em.count(&format!("{}:inplace_bad_len", what));
        em.count(&format!("{}:unpromised", what));
        if n > 0 && rng.coin() { n - 1 } else { n + 1 }
    } else {
        em.count(&format!("{}:inplace_prefilled", what));
        n
    }
}

/// row i of the batch result must be the result of the one-row batch [row i] (4 ulps / 1e-12 for floats
/// that went through differently ordered reductions)
fn rowwise_f(ctx: &mut Ctx, kind: &str, batch: &Array2<f64>, out: &[Vec<f64>], one: &dyn Fn(&Array2<f64>) -> Vec<Vec<f64>>) {
    for i in 0..batch.nrows().min(out.len()) {
        let r = one(&batch.slice(ndarray::s![i..i + 1, ..]).to_owned());
        let same = r.len() == 1 && r[0].len() == out[i].len() && r[0].iter().zip(out[i].iter()).all(|(a, b)| sweep::fclose(*a, *b));
        ctx.require(same, "batch_eq_rowwise", kind, || format!("row {} alone {:?} vs in the batch {:?}", i, r, out[i]));
    }
}

/// membership cells of a k-means response: a row exactly equidistant (sequential f64 sum of squares)
/// from several nearest centroids is written as the set of their indices when the index returned is
/// one of them — which of them wins is not part of the property
fn kmeans_cells(cents: &Array2<f64>, batch: &Array2<f64>, out: &Array1<usize>) -> String {
    let cells: Vec<String> = batch
        .rows()
        .into_iter()
        .zip(out.iter())
        .map(|(r, l)| {
            let d: Vec<f64> = cents.rows().into_iter().map(|c| c.iter().zip(r.iter()).fold(0.0, |s, (a, b)| s + (a - b) * (a - b))).collect();
            let dm = d.iter().cloned().fold(f64::INFINITY, f64::min);
            let w: Vec<usize> = (0..d.len()).filter(|k| d[*k] == dm).collect();
            if w.len() > 1 && w.contains(l) { format!("t{}", w.iter().map(|x| x.to_string()).collect::<Vec<_>>().join("|")) } else { l.to_string() }
        })
        .collect();
    cells.join(",")
}

fn op_kmeans(em: &mut Em, rng: &mut Rng) {
    use linfa_clustering::KMeans;
    let p = 1 + rng.below(3);
    let k = 1 + rng.below(4);
    let n = k + 2 + rng.below(10);
    let data = lattice(rng, n, p, 4, false);
    let seed = rng.next();
    let pool = {
        // lattice queries incl. points equidistant from two centroids and the training points
        let mut q = lattice(rng, 6, p, 5, true);
        for j in 0..p {
            q[(0, j)] = data[(0, j)];
        }
        // an unordered query now and then: every distance is NaN, no `<` holds, centroid 0 it is — and the
        // cell must still be WRITTEN (stale-cell class of the isotonic finding)
        if rng.chance(1, 4) {
            q[(5, rng.below(p))] = f64::NAN;
            em.count("kmeans:nan_row_in_pool");
        }
        q
    };
    let batch = batch_from(rng, &pool, em);
    let form = rng.below(5);
    use rand::SeedableRng;
    let model = match KMeans::params_with_rng(k, rand_xoshiro::Xoshiro256Plus::seed_from_u64(seed)).max_n_iterations(20).n_runs(1).tolerance(1e-3).fit(&Dataset::from(data.clone())) {
        Ok(m) => m,
        Err(_) => {
            em.count("kmeans:fit_failed");
            return;
        }
    };
    let cents = model.centroids().clone();
    {
        // tie-set cells (the mask of the tie-break), tallied for the ceiling
        let tied = batch.rows().into_iter().filter(|r| {
            let d: Vec<f64> = cents.rows().into_iter().map(|c| c.iter().zip(r.iter()).fold(0.0, |s, (a, b)| s + (a - b) * (a - b))).collect();
            let dm = d.iter().cloned().fold(f64::INFINITY, f64::min);
            d.iter().filter(|x| **x == dm).count() > 1
        }).count();
        em.count_n("kmeans:cells", batch.nrows() as u64);
        em.count_n("kmeans:tied_cells", tied as u64);
    }
    let op = format!("kmeans cents={} rows={} form={}", hexrows(&cents), hexrows(&batch), FORMS[form]);
    em.case_valid(op, "kmeans", |ctx| {
        let (out, rec): (Array1<usize>, &str) = run_how(&model, &batch, How::Form(form));
        ctx.require(rec != " rec=changed", "dataset_form_returns_records", "kmeans", || format!("form {} did not hand the records back unchanged", FORMS[form]));
        ctx.require(out.len() == batch.nrows(), "one_output_per_row", "kmeans", || format!("{} outputs for {} rows", out.len(), batch.nrows()));
        // nearest centroid, recomputed naively
        for (i, r) in batch.rows().into_iter().enumerate() {
            if r.iter().any(|v| v.is_nan()) {
                continue;
            }
            let d: Vec<f64> = cents.rows().into_iter().map(|c| c.iter().zip(r.iter()).map(|(a, b)| (a - b) * (a - b)).sum()).collect();
            let dm = d.iter().cloned().fold(f64::INFINITY, f64::min);
            ctx.require(d[out[i]] <= dm + 1e-9 * (1.0 + dm), "nearest_centroid", "kmeans", || format!("row {} assigned to {} at {}, nearest at {}", i, out[i], d[out[i]], dm));
        }
        for i in 0..batch.nrows().min(out.len()) {
            let r: Array1<usize> = model.predict(&batch.slice(ndarray::s![i..i + 1, ..]).to_owned());
            ctx.require(r.len() == 1 && r[0] == out[i], "batch_eq_rowwise", "kmeans", || format!("row {} alone {:?} vs in the batch {}", i, r, out[i]));
        }
        format!("ok {}{}", kmeans_cells(&cents, &batch, &out), rec)
    });
    // the in-place form into a pre-filled membership buffer
    let pl = pre_len(rng, em, batch.nrows(), "kmeans");
    let pre: Vec<usize> = (0..pl).map(|i| 70 + i).collect();
    let ok = pl == batch.nrows();
    let op = format!("{}kmeans cents={} rows={} form=into pre={}", if ok { "" } else { "#" }, hexrows(&cents), hexrows(&batch), list(pre.iter(), |x| x.to_string()));
    let body = |ctx: &mut Ctx| {
        let mut y = Array1::from(pre.clone());
        model.predict_inplace(&batch, &mut y);
        if ok {
            let fresh: Array1<usize> = model.predict(&batch);
            ctx.require(y == fresh, "inplace_into_supplied_buffer", "kmeans", || format!("pre-filled buffer gives {:?}, a fresh one {:?}", y, fresh));
        }
        if ok { format!("ok {}", kmeans_cells(&cents, &batch, &y)) } else { format!("ok {}", list(y.iter(), |x| x.to_string())) }
    };
    if ok {
        em.case_valid(op, "kmeans:inplace", body)
    } else {
        em.case(op, body)
    }
}

fn show_t(x: f64) -> String {
    format!("~{}", hex64c(x))
}

fn op_affine(em: &mut Em, rng: &mut Rng) {
    let pmax = if rng.chance(1, 4) { 12 } else { 4 };
    let p = 1 + rng.below(pmax);
    let n = p + 2 + rng.below(8);
    let x = lattice(rng, n, p, 6, true);
    let y = Array1::from_shape_fn(n, |i| (0..p).map(|j| x[(i, j)] * (j as f64 - 1.0)).sum::<f64>() + 0.25 * rng.range(-4, 4) as f64);
    let ds = Dataset::new(x.clone(), y);
    let pool = lattice(rng, 6, p, 8, true);
    let batch = batch_from(rng, &pool, em);
    let enet = rng.chance(1, 3);
    let (w, b, kind): (Array1<f64>, f64, &str);
    let pred: std::rc::Rc<dyn Fn(&Array2<f64>, How<Array1<f64>>) -> (Array1<f64>, &'static str)>;
    if enet {
        let m = match linfa_elasticnet::ElasticNet::params().penalty(0.125).l1_ratio(0.5).fit(&ds) {
            Ok(m) => m,
            Err(_) => {
                em.count("affine:fit_failed");
                return;
            }
        };
        w = m.hyperplane().clone();
        b = m.intercept();
        kind = "enet";
        pred = std::rc::Rc::new(move |q, how| run_how(&m, q, how));
    } else {
        let m = match linfa_linear::LinearRegression::new().with_intercept(rng.coin()).fit(&ds) {
            Ok(m) => m,
            Err(_) => {
                em.count("affine:fit_failed");
                return;
            }
        };
        w = m.params().clone();
        b = m.intercept();
        kind = "ols";
        pred = std::rc::Rc::new(move |q, how| run_how(&m, q, how));
    }
    em.count(&format!("affine:{}", kind));
    let form = rng.below(5);
    let op = format!("affine kind={} w={} b={} rows={} form={}", kind, list(w.iter(), |x| hex64(*x)), hex64(b), hexrows(&batch), FORMS[form]);
    em.case_valid(op, &format!("affine:{}", kind), |ctx| {
        let (out, rec) = pred(&batch, How::Form(form));
        ctx.require(rec != " rec=changed", "dataset_form_returns_records", kind, || format!("form {} did not hand the records back unchanged", FORMS[form]));
        ctx.require(out.len() == batch.nrows(), "one_output_per_row", kind, || format!("{} outputs for {} rows", out.len(), batch.nrows()));
        let rows: Vec<Vec<f64>> = out.iter().map(|x| vec![*x]).collect();
        rowwise_f(ctx, kind, &batch, &rows, &|q| pred(q, How::Form(0)).0.iter().map(|x| vec![*x]).collect());
        format!("ok {}{}", list(out.iter(), |x| show_t(*x)), rec)
    });
    let pl = pre_len(rng, em, batch.nrows(), "affine");
    let pre: Vec<f64> = (0..pl).map(|i| -7.25 - 1.5 * i as f64).collect();
    let ok = pl == batch.nrows();
    let op = format!("{}affine kind={} w={} b={} rows={} form=into pre={}", if ok { "" } else { "#" }, kind, list(w.iter(), |x| hex64(*x)), hex64(b), hexrows(&batch), list(pre.iter(), |x| hex64(*x)));
    let body = |ctx: &mut Ctx| {
        let y = pred(&batch, How::Into(Array1::from(pre.clone()))).0;
        if ok {
            let fresh = pred(&batch, How::Form(0)).0;
            ctx.require(y.len() == fresh.len() && y.iter().zip(fresh.iter()).all(|(a, b)| a.to_bits() == b.to_bits()), "inplace_into_supplied_buffer", kind, || format!("pre-filled buffer gives {:?}, a fresh one {:?}", y, fresh));
        }
        format!("ok {}", list(y.iter(), |x| show_t(*x)))
    };
    if ok {
        em.case_valid(op, &format!("affine:{}:inplace", kind), body)
    } else {
        em.case(op, body)
    }
}

/// the in-place case of a `linmap` op: `predict_inplace` into a pre-filled `(n, q)` buffer (now and then of
/// the wrong shape)
fn linmap_inplace(em: &mut Em, rng: &mut Rng, kind: &str, head: &str, batch: &Array2<f64>, q: usize, run: &dyn Fn(&Array2<f64>, How<Array2<f64>>) -> (Array2<f64>, &'static str)) {
    let n = batch.nrows();
    let bad = rng.chance(1, 10);
    let (pn, pq) = if !bad { (n, q) } else if n > 0 && rng.coin() { (n, q + 1) } else { (n + 1, q) };
    em.count(&format!("linmap:{}", if bad { "inplace_bad_shape" } else { "inplace_prefilled" }));
    let pre = Array2::from_shape_fn((pn, pq), |(i, j)| -7.25 - 1.5 * i as f64 + 0.5 * j as f64);
    let op = format!("{}{} form=into pre={}", if bad { "#" } else { "" }, head, hexrows(&pre));
    let body = |ctx: &mut Ctx| {
        let y = run(batch, How::Into(pre.clone())).0;
        if !bad {
            let fresh = run(batch, How::Form(0)).0;
            ctx.require(y.dim() == fresh.dim() && y.iter().zip(fresh.iter()).all(|(a, b)| a.to_bits() == b.to_bits()), "inplace_into_supplied_buffer", kind, || format!("pre-filled buffer gives {:?}, a fresh one {:?}", y, fresh));
        }
        format!("ok {}", list2(y.rows().into_iter().map(|r| r.to_vec()), |x: f64| show_t(x)))
    };
    if !bad {
        em.case_valid(op, &format!("linmap:{}:inplace", kind), body)
    } else {
        em.case(op, body)
    }
}

fn op_linmap(em: &mut Em, rng: &mut Rng) {
    let p = 2 + rng.below(3);
    let n = p + 3 + rng.below(8);
    let x = lattice(rng, n, p, 6, true);
    let pool = lattice(rng, 6, p, 8, true);
    let batch = batch_from(rng, &pool, em);
    if rng.coin() {
        use linfa_reduction::Pca;
        let k = 1 + rng.below(p);
        let m = match Pca::params(k).fit(&Dataset::from(x.clone())) {
            Ok(m) => m,
            Err(_) => {
                em.count("linmap:fit_failed");
                return;
            }
        };
        let comps = m.components().clone();
        let mean = m.mean().clone();
        em.count("linmap:pca");
        let op = format!(
            "linmap kind=pca mean={} std={} cols={} bias={} rows={}",
            list(mean.iter(), |x| hex64(*x)),
            list(0..p, |_| hex64(1.0)),
            hexrows(&comps),
            list(0..comps.nrows(), |_| hex64(0.0)),
            hexrows(&batch)
        );
        let run = |q: &Array2<f64>, how: How<Array2<f64>>| -> (Array2<f64>, &'static str) { run_how(&m, q, how) };
        let form = rng.below(5);
        em.case_valid(format!("{} form={}", op, FORMS[form]), "linmap:pca", |ctx| {
            let (out, rec): (Array2<f64>, &str) = run(&batch, How::Form(form));
            ctx.require(rec != " rec=changed", "dataset_form_returns_records", "pca", || format!("form {} did not hand the records back unchanged", FORMS[form]));
            ctx.require(out.nrows() == batch.nrows(), "one_output_per_row", "pca", || format!("{} outputs for {} rows", out.nrows(), batch.nrows()));
            let rows: Vec<Vec<f64>> = out.rows().into_iter().map(|r| r.to_vec()).collect();
            rowwise_f(ctx, "pca", &batch, &rows, &|q| run(q, How::Form(0)).0.rows().into_iter().map(|r| r.to_vec()).collect());
            format!("ok {}{}", list2(out.rows().into_iter().map(|r| r.to_vec()), |x: f64| show_t(x)), rec)
        });
        linmap_inplace(em, rng, "pca", &op, &batch, comps.nrows(), &run);
    } else {
        use linfa_pls::PlsRegression;
        let t = 1 + rng.below(2);
        let y = Array2::from_shape_fn((n, t), |(i, c)| x[(i, 0)] * (c as f64 + 1.0) - x[(i, 1)] + 0.25 * rng.range(-4, 4) as f64);
        let ds = Dataset::new(x.clone(), y);
        let m = match PlsRegression::params({ let c = 1 + rng.below(2.min(p)); c }).fit(&ds) {
            Ok(m) => m,
            Err(_) => {
                em.count("linmap:fit_failed");
                return;
            }
        };
        // x_mean, x_std, y_mean are private: read them through serde
        let v = serde_json::to_value(&m).unwrap();
        let inner = if v.get("x_mean").is_some() { &v } else { &v[0] };
        let arr = |key: &str| -> Vec<f64> { inner[key]["data"].as_array().map(|a| a.iter().map(|x| x.as_f64().unwrap()).collect()).unwrap_or_default() };
        let (mean, std, ymean) = (arr("x_mean"), arr("x_std"), arr("y_mean"));
        if mean.len() != p || std.len() != p || ymean.len() != t {
            em.count("linmap:pls_params_unreadable");
            return;
        }
        let coef = m.coefficients().clone();
        em.count("linmap:pls");
        let op = format!(
            "linmap kind=pls mean={} std={} cols={} bias={} rows={}",
            list(mean.iter(), |x| hex64(*x)),
            list(std.iter(), |x| hex64(*x)),
            hexrows(&coef.t().to_owned()),
            list(ymean.iter(), |x| hex64(*x)),
            hexrows(&batch)
        );
        let run = |q: &Array2<f64>, how: How<Array2<f64>>| -> (Array2<f64>, &'static str) { run_how(&m, q, how) };
        let form = rng.below(5);
        em.case_valid(format!("{} form={}", op, FORMS[form]), "linmap:pls", |ctx| {
            let (out, rec): (Array2<f64>, &str) = run(&batch, How::Form(form));
            ctx.require(rec != " rec=changed", "dataset_form_returns_records", "pls", || format!("form {} did not hand the records back unchanged", FORMS[form]));
            ctx.require(out.nrows() == batch.nrows(), "one_output_per_row", "pls", || format!("{} outputs for {} rows", out.nrows(), batch.nrows()));
            let rows: Vec<Vec<f64>> = out.rows().into_iter().map(|r| r.to_vec()).collect();
            rowwise_f(ctx, "pls", &batch, &rows, &|q| run(q, How::Form(0)).0.rows().into_iter().map(|r| r.to_vec()).collect());
            format!("ok {}{}", list2(out.rows().into_iter().map(|r| r.to_vec()), |x: f64| show_t(x)), rec)
        });
        linmap_inplace(em, rng, "pls", &op, &batch, t, &run);
    }
}

fn tree_tokens(node: &linfa_trees::TreeNode<f64, usize>, out: &mut Vec<String>) {
    if node.is_leaf() {
        out.push(format!("L{}", node.prediction().unwrap()));
    } else {
        let (f, thr, _) = node.split();
        out.push(format!("S{}:{}", f, hex64(thr)));
        let ch = node.children();
        tree_tokens(ch[0].as_ref().unwrap(), out);
        tree_tokens(ch[1].as_ref().unwrap(), out);
    }
}

fn op_tree(em: &mut Em, rng: &mut Rng) {
    use linfa_trees::DecisionTree;
    let p = 1 + rng.below(3);
    let n = 6 + rng.below(14);
    let ncls = 2 + rng.below(3);
    let x = lattice(rng, n, p, 4, false);
    let y = Array1::from_shape_fn(n, |i| ((x[(i, 0)] + 4.0) as usize + if rng.chance(1, 5) { 1 } else { 0 }) % ncls);
    let ds = Dataset::new(x.clone(), y);
    let m = match DecisionTree::params().max_depth(Some(1 + rng.below(4))).fit(&ds) {
        Ok(m) => m,
        Err(_) => {
            em.count("tree:fit_failed");
            return;
        }
    };
    // queries on the thresholds (x == split value goes LEFT, `<=`, as fitting routes it) and around them
    let mut pool = lattice(rng, 8, p, 9, true);
    // an unordered query now and then: `NaN <= split` is false, the row goes right at every split on that
    // feature — and its cell must still be WRITTEN (stale-cell class of the isotonic finding)
    if rng.chance(1, 4) {
        pool[(7, rng.below(p))] = f64::NAN;
        em.count("tree:nan_row_in_pool");
    }
    let batch = batch_from(rng, &pool, em);
    let form = rng.below(5);
    let mut toks = vec![];
    tree_tokens(m.root_node(), &mut toks);
    em.count(&format!("tree:nodes={}", if toks.len() == 1 { "1" } else if toks.len() <= 7 { "3-7" } else { "9+" }));
    let op = format!("tree t={} rows={} form={}", toks.join(","), hexrows(&batch), FORMS[form]);
    em.case_valid(op, "tree", |ctx| {
        let (out, rec): (Array1<usize>, &str) = run_how(&m, &batch, How::Form(form));
        ctx.require(rec != " rec=changed", "dataset_form_returns_records", "tree", || format!("form {} did not hand the records back unchanged", FORMS[form]));
        ctx.require(out.len() == batch.nrows(), "one_output_per_row", "tree", || format!("{} outputs for {} rows", out.len(), batch.nrows()));
        for i in 0..batch.nrows().min(out.len()) {
            let r: Array1<usize> = m.predict(&batch.slice(ndarray::s![i..i + 1, ..]).to_owned());
            ctx.require(r.len() == 1 && r[0] == out[i], "batch_eq_rowwise", "tree", || format!("row {} alone {:?} vs in the batch {}", i, r, out[i]));
        }
        format!("ok {}{}", list(out.iter(), |x| x.to_string()), rec)
    });
    let pl = pre_len(rng, em, batch.nrows(), "tree");
    let pre: Vec<usize> = (0..pl).map(|i| 70 + i).collect();
    let ok = pl == batch.nrows();
    let op = format!("{}tree t={} rows={} form=into pre={}", if ok { "" } else { "#" }, toks.join(","), hexrows(&batch), list(pre.iter(), |x| x.to_string()));
    let body = |ctx: &mut Ctx| {
        let mut y = Array1::from(pre.clone());
        m.predict_inplace(&batch, &mut y);
        if ok {
            let fresh: Array1<usize> = m.predict(&batch);
            ctx.require(y == fresh, "inplace_into_supplied_buffer", "tree", || format!("pre-filled buffer gives {:?}, a fresh one {:?}", y, fresh));
        }
        format!("ok {}", list(y.iter(), |x| x.to_string()))
    };
    if ok {
        em.case_valid(op, "tree:inplace", body)
    } else {
        em.case(op, body)
    }
}

fn op_iso(em: &mut Em, rng: &mut Rng) {
    use linfa_linear::IsotonicRegression;
    let n = 3 + rng.below(10);
    let x = Array2::from_shape_fn((n, 1), |_| rng.range(-8, 8) as f64 / 2.0);
    let y = Array1::from_shape_fn(n, |i| x[(i, 0)] + rng.range(-3, 3) as f64 / 2.0);
    let ds = Dataset::new(x, y);
    let m = match IsotonicRegression::new().fit(&ds) {
        Ok(m) => m,
        Err(_) => {
            em.count("iso:fit_failed");
            return;
        }
    };
    let v = serde_json::to_value(&m).unwrap();
    let arr = |key: &str| -> Vec<f64> { v[key]["data"].as_array().map(|a| a.iter().map(|x| x.as_f64().unwrap()).collect()).unwrap_or_default() };
    let (reg, resp) = (arr("regressor"), arr("response"));
    if reg.is_empty() || reg.len() != resp.len() {
        em.count("iso:params_unreadable");
        return;
    }
    // queries: knots, between knots, outside the range
    let mut pool = Array2::zeros((8, 1));
    for i in 0..8 {
        pool[(i, 0)] = match rng.below(if i == 7 { 4 } else { 3 }) {
            3 => f64::NAN, // an unordered query: neither branch of the clamp, no knot found
            0 => reg[rng.below(reg.len())],
            1 => rng.range(-20, 20) as f64 / 4.0,
            _ => {
                let j = rng.below(reg.len());
                (reg[j] + reg[(j + 1) % reg.len()]) / 2.0
            }
        };
    }
    let batch = batch_from(rng, &pool, em);
    let form = rng.below(5);
    let op = format!("iso reg={} resp={} rows={} form={}", list(reg.iter(), |x| hex64(*x)), list(resp.iter(), |x| hex64(*x)), hexrows(&batch), FORMS[form]);
    em.case_valid(op, "iso", |ctx| {
        let (out, rec): (Array1<f64>, &str) = run_how(&m, &batch, How::Form(form));
        ctx.require(rec != " rec=changed", "dataset_form_returns_records", "iso", || format!("form {} did not hand the records back unchanged", FORMS[form]));
        ctx.require(out.len() == batch.nrows(), "one_output_per_row", "iso", || format!("{} outputs for {} rows", out.len(), batch.nrows()));
        for i in 0..batch.nrows().min(out.len()) {
            let r: Array1<f64> = m.predict(&batch.slice(ndarray::s![i..i + 1, ..]).to_owned());
            ctx.require(r.len() == 1 && r[0].to_bits() == out[i].to_bits(), "batch_eq_rowwise", "iso", || format!("row {} alone {:?} vs in the batch {}", i, r, out[i]));
        }
        format!("ok {}{}", list(out.iter(), |x| show_t(*x)), rec)
    });
    let pl = pre_len(rng, em, batch.nrows(), "iso");
    let pre: Vec<f64> = (0..pl).map(|i| -7.25 - 1.5 * i as f64).collect();
    let ok = pl == batch.nrows();
    let op = format!("{}iso reg={} resp={} rows={} form=into pre={}", if ok { "" } else { "#" }, list(reg.iter(), |x| hex64(*x)), list(resp.iter(), |x| hex64(*x)), hexrows(&batch), list(pre.iter(), |x| hex64(*x)));
    let body = |ctx: &mut Ctx| {
        let mut y = Array1::from(pre.clone());
        m.predict_inplace(&batch, &mut y);
        if ok {
            let fresh: Array1<f64> = m.predict(&batch);
            ctx.require(y.len() == fresh.len() && y.iter().zip(fresh.iter()).all(|(a, b)| a.to_bits() == b.to_bits()), "inplace_into_supplied_buffer", "iso", || format!("pre-filled buffer gives {:?}, a fresh one {:?}", y, fresh));
        }
        format!("ok {}", list(y.iter(), |x| show_t(*x)))
    };
    if ok {
        em.case_valid(op, "iso:inplace", body)
    } else {
        em.case(op, body)
    }
}

fn gen_wrappers(em: &mut Em, rng: &mut Rng) {
    let u = 1 + rng.below(5); // tag universe
    let n = match rng.below(6) {
        0 => 0,
        1 => 1,
        _ => 1 + rng.below(7),
    };
    let tags: Vec<usize> = (0..n).map(|_| rng.below(u)).collect();
    let m = match rng.below(8) {
        0 => 0,
        1 => 1,
        _ => 1 + rng.below(5),
    };
    let bad = rng.chance(1, 8);
    let adj: Vec<usize> = (0..m).map(|_| if bad && rng.coin() { 1 + rng.below(2) } else { 0 }).collect();
    if rng.coin() {
        em.count(&format!("mt:n={} m={}", if n == 0 { "0" } else if n == 1 { "1" } else { "2+" }, if m == 0 { "0" } else if m == 1 { "1" } else { "2+" }));
        let tab: Vec<Vec<i64>> = (0..m).map(|j| (0..u).map(|t| (100 * (j + 1) + t) as i64 * if rng.chance(1, 10) { -1 } else { 1 }).collect()).collect();
        // a third of the cases go through `predict_inplace` into a pre-filled buffer (junk content,
        // now and then of the wrong shape: the documented shape assert)
        let pre = if rng.chance(1, 3) {
            let bad = rng.chance(1, 8);
            let (pn, pm) = if !bad { (n, m) } else if n > 0 && rng.coin() { (n, m + 1) } else { (n + 1, m) };
            em.count(if bad { "mt:inplace_bad_shape" } else { "mt:inplace_prefilled" });
            Some((0..pn).map(|i| (0..pm).map(|j| -7 - (3 * i + j) as i64).collect()).collect())
        } else {
            None
        };
        let form = rng.below(5);
        op_mt(em, tags, tab, adj, pre, form);
    } else {
        // few distinct probabilities so that ties between members are frequent
        let levels = [0u32, 16, 32, 32, 48, 64];
        let mut tab: Vec<Vec<u32>> = (0..m).map(|_| (0..u).map(|_| *rng.pick(&levels)).collect()).collect();
        if adj.iter().any(|a| *a != 0) {
            // ill-behaved members are outside the property and compared literally (truncation / panic
            // branches): keep their probabilities tie-free, so that the tie-break — which the statement
            // does not fix — never decides such a comparison
            for t in 0..u {
                let mut order: Vec<u32> = (0..m as u32).collect();
                rng.shuffle(&mut order);
                for j in 0..m {
                    tab[j][t] = 8 * order[j] + rng.below(8) as u32;
                }
            }
        }
        let mut labels: Vec<usize> = (0..m).map(|j| 10 + j).collect();
        rng.shuffle(&mut labels);
        let ties = (0..u).any(|t| {
            let mx = tab.iter().map(|r| r[t]).max().unwrap_or(0);
            tab.iter().filter(|r| r[t] == mx).count() > 1
        });
        em.count(if ties { "mc:with_ties" } else { "mc:no_ties" });
        let pre = if rng.chance(1, 3) {
            let bad = rng.chance(1, 8);
            let pn = if !bad { n } else if n > 0 && rng.coin() { n - 1 } else { n + 1 };
            em.count(if bad { "mc:inplace_bad_len" } else { "mc:inplace_prefilled" });
            Some((0..pn).map(|i| 900 + i).collect())
        } else {
            None
        };
        let form = rng.below(5);
        op_mc(em, tags, labels, tab, adj, pre, form);
    }
}

fn gen_platt(em: &mut Em, rng: &mut Rng) {
    let a = match rng.below(6) {
        0 => 0.0,
        1 => -(rng.range(1, 40) as f64) / 8.0,
        2 => rng.range(1, 40) as f64 / 8.0,
        3 => -(10f64.powi(rng.range(-3, 3) as i32)) * rng.unit(),
        _ => (rng.unit() - 0.7) * 6.0,
    };
    let b = if rng.chance(1, 4) { 0.0 } else { (rng.unit() - 0.5) * 8.0 };
    let n = 1 + rng.below(8);
    let xs: Vec<f64> = (0..n)
        .map(|_| match rng.below(7) {
            0 => 0.0,
            1 => -b / if a == 0.0 { 1.0 } else { a }, // branch point t ~ 0
            2 => (rng.unit() - 0.5) * 400.0,          // saturating region (exp underflow in f32)
            3 => (rng.unit() - 0.5) * 1e6,
            _ => (rng.unit() - 0.5) * 20.0,
        })
        .collect();
    if rng.chance(1, 4) {
        // the f32 instantiation on the same numbers (rounded to f32 first)
        op_platt32(em, a as f32, b as f32, xs.iter().map(|x| *x as f32).collect());
    }
    op_platt(em, a, b, xs);
}

pub fn run(em: &mut Em, rng: &mut Rng) {
    let scale = if em.thorough() { 12 } else { 1 };
    // exhaustive small shapes of the multi-target reshape: every (n, m) up to 5 x 4
    for n in 0..=5usize {
        for m in 0..=4usize {
            let tags: Vec<usize> = (0..n).map(|i| (i * 2 + 1) % n.max(1)).collect();
            let tab: Vec<Vec<i64>> = (0..m).map(|j| (0..n.max(1)).map(|t| (100 * (j + 1) + t) as i64).collect()).collect();
            op_mt(em, tags.clone(), tab.clone(), vec![0; m], None, (n + m) % 5);
            op_mt(em, tags, tab, vec![0; m], Some((0..n).map(|i| (0..m).map(|j| -7 - (3 * i + j) as i64).collect()).collect()), 0);
        }
    }
    for _ in 0..400 * scale {
        gen_wrappers(em, rng);
    }
    for _ in 0..300 * scale {
        gen_platt(em, rng);
    }
    for _ in 0..150 * scale {
        op_plattw(em, rng);
    }
    // the boundary values of the sigmoid
    op_platt(em, 1.0, 0.0, vec![0.0, -0.0, 1e-30, -1e-30, 88.0, 89.0, 104.0, -104.0, 1e30, -1e30, 3.5e38, -3.5e38]);
    op_platt(em, -1.0, 0.0, vec![0.0, 17.0, -17.0, 87.5, -87.5]);
    op_platt32(em, 1.0, 0.0, vec![0.0, -0.0, 1e-30, -1e-30, 88.0, 89.0, 104.0, -104.0, 1e30, -1e30, 3.0e38, -3.0e38]);
    op_platt32(em, -1.0, 0.0, vec![0.0, 17.0, -17.0, 87.5, -87.5, f32::NAN]);
    op_platt(em, 1.0, 0.0, vec![f64::NAN]);
    op_platt(em, 1.0, 0.0, vec![f64::INFINITY, f64::NEG_INFINITY]);
    for _ in 0..120 * scale {
        op_kmeans(em, rng);
        op_affine(em, rng);
        op_linmap(em, rng);
        op_tree(em, rng);
        op_iso(em, rng);
    }
    sweep::run(em, rng);
}
