//! C04 — invalid hyperparameters are rejected with an error before any training.
//!
//! For every parameter builder of the workspace the boundary grid of its guarded parameters is run
//! through the REAL code: `check_ref()`, `check()`, and `fit` / `fit_with` / `transform` on the unchecked
//! builder with a tiny valid dataset (under `catch_unwind`).  The response line
//! `ref=<ok|err:Tag> val=<…> fit=<as-checked|err:Tag> inrange=<0|1> finite=<0|1>` is compared with the Lean
//! model (the guard translated from the Rust source by tools/params2lean.py + the hand-transcribed
//! documented ranges), so the translator is differential-tested on every run.
//!
//! Oracle (the statement of C04, evaluated on the implementation's own outputs):
//!   ok_iff_in_range     finite point: check passes  <=>  every value in its documented range
//!                       (`in_range` below is an independent transcription of the documentation)
//!   check_eq_check_ref  `check()` and `check_ref()` give the same verdict and error
//!   params_unchanged    the checked parameters equal the builder's values; the builder is not altered
//!   fit_unchecked       on an invalid point the blanket impl returns exactly the checking error
//!                       (converted with `From`), it neither panics nor trains
//!   valid_as_checked    on a valid point the unchecked builder behaves exactly like its checked form
use crate::util::{hex64, Ctx, Em, Rng};
use linfa::composing::platt_scaling::{Platt, PlattError};
use linfa::dataset::{DatasetBase, Pr};
use linfa::traits::{Fit, FitWith, Predict, PredictInplace, Transformer};
use linfa::ParamGuard;
use ndarray::{array, Array1, Array2};
use rand_xoshiro::rand_core::SeedableRng;
use rand_xoshiro::Xoshiro256Plus;
use std::fmt::Debug;
use std::panic::{catch_unwind, AssertUnwindSafe};

const EPS: f64 = f64::EPSILON;

thread_local! {
    /// set per case: are the float parameters of moderate size, so that training terminates quickly?
    /// (valid but extreme values such as alpha = f64::MAX or tolerance = 5e-324 make solvers crawl; the
    /// comparison "valid builder = checked form" is then not exercised and counted as `fit_not_exercised`)
    static MODERATE: std::cell::Cell<bool> = std::cell::Cell::new(true);
    static NOT_EXERCISED: std::cell::Cell<u64> = std::cell::Cell::new(0);
    /// per builder / entry point: how often the comparison "valid builder = checked form" and the clause
    /// "invalid builder returns the checking error" were really run (coverage floors, conf "floors")
    static EXERCISED: std::cell::RefCell<std::collections::BTreeMap<String, u64>> = std::cell::RefCell::new(std::collections::BTreeMap::new());
}
thread_local! {
    /// guarded fields the request asked for, as `(field name, Debug text of the value)`: `probe` requires the builder's
    /// Debug form to show exactly these values (read-back after ALL setters, including rebuild setters, were applied)
    static EXPECT: std::cell::RefCell<Vec<(String, String)>> = std::cell::RefCell::new(vec![]);
}
thread_local! {
    /// set per case: the request holds a NON-finite value in a field whose documentation (or guard text) demands a finite
    /// number (FTRL "positive and finite", logistic "positive, finite number", PLS / SVM-eps / hierarchical: NaN and
    /// infinite named in the guard).  Such a builder must be rejected (`probe`, class `<b>:accepted:nonfinite`).
    static DOC_FINITE: std::cell::Cell<bool> = std::cell::Cell::new(false);
}
fn doc_finite(nonfinite_present: bool) {
    DOC_FINITE.with(|c| c.set(nonfinite_present));
}
fn expect(fields: &[(&str, String)]) {
    EXPECT.with(|e| *e.borrow_mut() = fields.iter().map(|(n, v)| (n.to_string(), v.clone())).collect());
}
/// `name: value` occurs in a derived Debug text as a whole field (not as a prefix of a longer number / name)
fn has_field(text: &str, name: &str, val: &str) -> bool {
    let pat = format!("{}: {}", name, val);
    let mut from = 0;
    while let Some(i) = text[from..].find(&pat) {
        let at = from + i;
        let before_ok = at == 0 || !text[..at].chars().last().map_or(false, |c| c.is_ascii_alphanumeric() || c == '_');
        let after_ok = text[at + pat.len()..].chars().next().map_or(true, |c| c == ',' || c == ' ' || c == ')' || c == '}');
        if before_ok && after_ok {
            return true;
        }
        from = at + pat.len();
    }
    false
}
fn exercised(kind: &str, b: &str) {
    EXERCISED.with(|m| *m.borrow_mut().entry(format!("{}:{}", kind, b)).or_insert(0) += 1);
}
/// builders whose training is bounded by an iteration cap or is a closed-form / single pass: trained on EVERY valid
/// point, however extreme its values
fn train_always() {
    MODERATE.with(|c| c.set(true));
}
fn set_moderate(vs: &[f64]) {
    MODERATE.with(|c| c.set(vs.iter().all(|x| !x.is_finite() || (x.abs() <= 2.0 && (*x == 0.0 || x.abs() >= 1e-9)))));
}

fn dbg<T: Debug>(x: &T) -> String {
    format!("{:?}", x)
}

/// error tag shared with the translator: the variant name; a string payload contributes its first 24
/// characters (non-alphanumerics -> `_`); `Platt(inner)` (nested guard) contributes `Platt.<inner tag>`
fn tag_of(d: &str) -> String {
    let ident: String = d.chars().take_while(|c| c.is_ascii_alphanumeric() || *c == '_').collect();
    let rest = &d[ident.len()..];
    if let Some(r) = rest.strip_prefix("(\"") {
        let text: String = r.chars().take_while(|c| *c != '"').collect();
        let head: String = text.chars().take(24).map(|c| if c.is_ascii_alphanumeric() { c } else { '_' }).collect();
        return format!("{}:{}", ident, head);
    }
    if ident == "Platt" && rest.starts_with('(') {
        return format!("Platt.{}", tag_of(&rest[1..]));
    }
    ident
}

/// Runs one parameter point through the real code. `viol` = first documented bound the point violates
/// (None: in range), from the harness's own transcription of the documentation.
fn probe<P, FU, FC>(
    ctx: &mut Ctx,
    b: &str,
    mk: impl Fn() -> P,
    viol: Option<String>,
    finite: bool,
    show_u: impl Fn(&P) -> String,
    show_c: impl Fn(&P::Checked) -> String,
    conv: impl Fn(P::Error) -> String,
    fit_u: FU,
    fit_c: FC,
) -> String
where
    P: ParamGuard,
    P::Error: Debug,
    FU: Fn(&P) -> Result<String, String>,
    FC: Fn(&P::Checked) -> Result<String, String>,
{
    let p = mk();
    let orig = show_u(&p);
    if std::env::var("C04_TRACE").is_ok() {
        eprintln!("{} {}", b, orig);
    }
    // read-back: the builder holds the values the request's setters were given
    for (name, val) in EXPECT.with(|e| std::mem::take(&mut *e.borrow_mut())) {
        ctx.require(has_field(&orig, &name, &val), "params_unchanged", &format!("{}:readback:{}", b, name), || format!("after all setter calls the builder does not hold {} = {}: {}", name, val, orig));
    }
    // check_ref
    let r1: Result<String, (String, String)> = match p.check_ref() {
        Ok(c) => Ok(show_c(c)),
        Err(e) => {
            let t = tag_of(&dbg(&e));
            Err((t, conv(e)))
        }
    };
    let after = show_u(&p);
    ctx.require(after == orig, "params_unchanged", &format!("{}:check_ref", b), || format!("check_ref altered the builder: {} -> {}", orig, after));
    // check (by value)
    let r2: Result<String, String> = match mk().check() {
        Ok(c) => Ok(show_c(&c)),
        Err(e) => Err(tag_of(&dbg(&e))),
    };
    let s_ref = match &r1 {
        Ok(_) => "ok".to_string(),
        Err((t, _)) => format!("err:{}", t),
    };
    let s_val = match (&r1, &r2) {
        (Ok(a), Ok(c)) => {
            let same = a == c && orig.contains(c.as_str());
            ctx.require(same, "params_unchanged", &format!("{}:check", b), || format!("checked parameters differ from the builder's: builder {} / check_ref {} / check {}", orig, a, c));
            if same { "ok".to_string() } else { "ok-changed".to_string() }
        }
        (_, Ok(_)) => "ok".to_string(),
        (_, Err(t)) => format!("err:{}", t),
    };
    ctx.require(s_ref == s_val || s_val == "ok-changed", "check_eq_check_ref", b, || format!("check_ref -> {} but check -> {}", s_ref, s_val));
    // third by-value path: the provided method `check_unwrap()` (overridable per impl) = `check().unwrap()`: on a valid
    // builder the same parameters as `check()`, on an invalid one a panic (never unchecked parameters)
    {
        let cu = catch_unwind(AssertUnwindSafe(|| show_c(&mk().check_unwrap())));
        let good = match (&r2, &cu) {
            (Ok(c), Ok(u)) => c == u,
            (Err(_), Err(_)) => true,
            _ => false,
        };
        exercised(if r2.is_ok() { "check_unwrap_ok" } else { "check_unwrap_err" }, b);
        ctx.require(good, "check_eq_check_ref", &format!("{}:check_unwrap", b), || format!("check() -> {:?} but check_unwrap() -> {}", r2, match &cu { Ok(u) => format!("Ok({})", u), Err(_) => "panic".to_string() }));
    }
    // values the documentation demands to be finite
    if DOC_FINITE.with(|c| c.replace(false)) {
        exercised("doc_nonfinite", b);
        if r1.is_ok() {
            ctx.fail("ok_iff_in_range", &format!("{}:accepted:nonfinite", b), format!("a NaN / infinite value in a field documented as finite passes checking: {}", orig));
        }
    }
    // documented range
    if finite {
        match (&r1, &viol) {
            (Ok(_), Some(v)) => ctx.fail("ok_iff_in_range", &format!("{}:accepted:{}", b, v), format!("finite parameters outside the documented range ({}) pass checking: {}", v, orig)),
            (Err((t, _)), None) => ctx.fail("ok_iff_in_range", &format!("{}:rejected:{}", b, t), format!("finite parameters inside every documented range are rejected with {}: {}", t, orig)),
            _ => {}
        }
    }
    // fit / fit_with / transform on the unchecked builder
    let fu = if r1.is_ok() && (!finite || !MODERATE.with(|c| c.get())) { Ok(Ok(String::new())) } else { catch_unwind(AssertUnwindSafe(|| fit_u(&p))) };
    match &r1 {
        Err(_) => exercised("invalid_fit", b),
        Ok(_) if finite && MODERATE.with(|c| c.get()) => exercised("valid_fit", b),
        _ => {}
    }
    let s_fit = match &r1 {
        Err((t, want)) => match fu {
            Ok(Err(e)) if &e == want => format!("err:{}", t),
            Ok(Err(e)) => {
                ctx.fail("fit_unchecked", &format!("{}:other-error", b), format!("fit on the unchecked builder returned {} instead of the checking error {}", e, want));
                "err-other".to_string()
            }
            Ok(Ok(m)) => {
                ctx.fail("fit_unchecked", &format!("{}:trained", b), format!("fit on the unchecked invalid builder trained a model ({}) instead of returning {}", m.chars().take(80).collect::<String>(), want));
                "trained".to_string()
            }
            Err(_) => {
                ctx.fail("fit_unchecked", &format!("{}:panic", b), format!("fit on the unchecked invalid builder panicked instead of returning {}", want));
                "panic".to_string()
            }
        },
        // accepted but non-finite values (NaN / inf slip through several guards) are outside the property;
        // training with them is not exercised
        Ok(_) if !finite => "skipped".to_string(),
        Ok(_) if !MODERATE.with(|c| c.get()) => {
            NOT_EXERCISED.with(|c| c.set(c.get() + 1));
            "as-checked".to_string()
        }
        Ok(_) => {
            if matches!(&fu, Ok(Ok(m)) if m != "skipped") {
                exercised("trained", b);
            }
            let fc = catch_unwind(AssertUnwindSafe(|| fit_c(p.check_ref().ok().unwrap())));
            let same = match (&fu, &fc) {
                (Ok(a), Ok(c)) => a == c,
                (Err(_), Err(_)) => true,
                _ => false,
            };
            ctx.require(same, "valid_as_checked", b, || format!("valid builder and its checked form behave differently: {:?} vs {:?}", fu.as_ref().ok(), fc.as_ref().ok()));
            if same { "as-checked".to_string() } else { "differs".to_string() }
        }
    };
    format!("ref={} val={} fit={} inrange={} finite={}", s_ref, s_val, s_fit, viol.is_none() as u8, finite as u8)
}

// ------------------------------------------------------------------------------------------ grids

fn fgrid(thorough: bool) -> Vec<f64> {
    // (f64::MAX / f64::MIN / -EPS / 5e-324 also in the quick tier: an error path that panics only for |x| > f32::MAX —
    //  a fallible cast in an `Err(..)` payload — or treats a subnormal as zero must not need the thorough tier)
    let mut v = vec![-1.0, -1e-9, 0.0, EPS / 2.0, EPS, 1e-4, 0.5, 1.0, 1.0 + EPS, 2.0, f64::NAN, f64::INFINITY, f64::NEG_INFINITY, f64::MAX, f64::MIN, -EPS, 5e-324];
    if thorough {
        v.extend([-1e6, 1e-9, 1.0 - EPS / 2.0, 1.5, 1e6]);
    }
    v
}
/// values exactly representable in f32 (count vectoriser frequencies)
fn fgrid32(thorough: bool) -> Vec<f64> {
    let mut v: Vec<f32> = vec![-1.0, -1e-9, 0.0, 1e-9, 0.25, 0.5, 1.0, 1.0 + f32::EPSILON, 1.5, f32::NAN, f32::INFINITY, f32::NEG_INFINITY, f32::MAX, -f32::EPSILON];
    if thorough {
        v.extend([f32::MIN_POSITIVE, 1.0 - f32::EPSILON / 2.0, 2.0, 1e6, f32::MIN]);
    }
    v.into_iter().map(|x| x as f64).collect()
}
fn cgrid(thorough: bool) -> Vec<usize> {
    if thorough { vec![0, 1, 2, 3, 5, 40] } else { vec![0, 1, 2, 5] }
}

/// index tuples over axes of the given sizes: the full product when it fits under `cap`, otherwise all
/// one-at-a-time deviations from `base` plus random tuples up to `cap` (deduplicated, deterministic)
fn points(sizes: &[usize], base: &[usize], cap: usize, rng: &mut Rng) -> Vec<Vec<usize>> {
    let total: usize = sizes.iter().product();
    let mut out: Vec<Vec<usize>> = vec![];
    if total <= cap {
        let mut idx = vec![0; sizes.len()];
        loop {
            out.push(idx.clone());
            let mut k = sizes.len();
            loop {
                if k == 0 {
                    return out;
                }
                k -= 1;
                idx[k] += 1;
                if idx[k] < sizes[k] {
                    break;
                }
                idx[k] = 0;
            }
        }
    }
    let mut seen = std::collections::HashSet::new();
    for a in 0..sizes.len() {
        for v in 0..sizes[a] {
            let mut t = base.to_vec();
            t[a] = v;
            if seen.insert(t.clone()) {
                out.push(t);
            }
        }
    }
    let mut guard = 0;
    while out.len() < cap && guard < cap * 20 {
        guard += 1;
        let t: Vec<usize> = sizes.iter().map(|s| rng.below(*s)).collect();
        if seen.insert(t.clone()) {
            out.push(t);
        }
    }
    out
}

fn h(x: f64) -> String {
    hex64(x)
}
// documented ranges are ranges of real numbers: an infinite value is in none of them
fn nonneg(x: f64) -> bool {
    x.is_finite() && x >= 0.0
}
fn pos(x: f64) -> bool {
    x.is_finite() && x > 0.0
}
fn unit(x: f64) -> bool {
    (0.0..=1.0).contains(&x)
}
/// cluster ids up to renaming (ids follow hash-map order in linfa-hierarchical): relabel by first occurrence
fn canon(ids: &Vec<usize>) -> String {
    let mut map = std::collections::BTreeMap::new();
    let out: Vec<usize> = ids.iter().map(|i| { let n = map.len(); *map.entry(*i).or_insert(n) }).collect();
    dbg(&out)
}
/// first violated documented bound
fn first(vs: &[(bool, &str)]) -> Option<String> {
    vs.iter().find(|(ok, _)| !ok).map(|(_, n)| n.to_string())
}

// ---------------------------------------------------------------------------------------- datasets

fn xs() -> Array2<f64> {
    array![[0.0, 0.1], [0.2, 0.0], [0.1, 0.3], [0.3, 0.2], [0.15, 0.15], [0.05, 0.25], [4.0, 4.1], [4.2, 4.0], [4.1, 4.3], [4.3, 4.2], [4.15, 4.15], [4.05, 4.25]]
}
fn ys_f() -> Array1<f64> {
    array![1.0, 1.5, 1.2, 1.8, 1.4, 1.1, 5.0, 5.5, 5.2, 5.8, 5.4, 5.1]
}
fn ys_b() -> Array1<bool> {
    array![false, false, true, false, false, false, true, true, true, false, true, true]
}
fn ys_u() -> Array1<usize> {
    // 7 : 5 — no modal-class tie at the root (tie-breaking follows hash order, see C20)
    array![0, 0, 1, 0, 0, 0, 1, 1, 1, 0, 1, 0]
}
fn ys_2() -> Array2<f64> {
    let y = ys_f();
    let mut m = Array2::zeros((12, 2));
    for i in 0..12 {
        m[[i, 0]] = y[i];
        m[[i, 1]] = 2.0 - y[i] * 0.5 + (i % 3) as f64 * 0.1;
    }
    m
}
fn rng7() -> Xoshiro256Plus {
    Xoshiro256Plus::seed_from_u64(7)
}
fn kernel() -> linfa_kernel::Kernel<f64> {
    linfa_kernel::Kernel::params().method(linfa_kernel::KernelMethod::Gaussian(2.0)).transform(xs().view())
}

/// stand-in for a fitted model that Platt scaling calibrates
#[derive(Clone, Debug, PartialEq)]
struct FirstColumn;
impl PredictInplace<Array2<f64>, Array1<f64>> for FirstColumn {
    fn predict_inplace(&self, x: &Array2<f64>, y: &mut Array1<f64>) {
        for (i, r) in x.rows().into_iter().enumerate() {
            y[i] = r[0] - 2.0;
        }
    }
    fn default_target(&self, x: &Array2<f64>) -> Array1<f64> {
        Array1::zeros(x.nrows())
    }
}

// ---------------------------------------------------------------------------------------- builders

macro_rules! res {
    ($e:expr) => {
        $e.map(|m| dbg(&m)).map_err(|e| dbg(&e))
    };
}

pub fn run(em: &mut Em, rng: &mut Rng) {
    let th = em.thorough();
    let cap = if th { 4000 } else { 1000 };
    let fg = fgrid(th);
    let cg = cgrid(th);
    let nf = fg.len();
    let nc = cg.len();
    // index of a valid base value in each grid
    let fb = fg.iter().position(|x| *x == 0.5).unwrap();
    let cb = cg.iter().position(|x| *x == 2).unwrap();

    // ---- K-means: n_clusters, n_runs, tolerance, max_n_iterations (blanket Fit and blanket FitWith)
    for t in points(&[nc, nc, nf, nc], &[cb, cb, fb, cb], cap, rng) {
        let (k, r, tol, mi) = (cg[t[0]], cg[t[1]], fg[t[2]], cg[t[3]]);
        em.count("builder:KMeans");
        for with in [false, true] {
            em.case(format!("grid b=KMeans via={} n_clusters={} n_runs={} tolerance={} max_n_iterations={}", if with { "fit_with" } else { "fit" }, k, r, h(tol), mi), |ctx| {
                train_always();
                let p = linfa_clustering::KMeans::params_with(k, rng7(), linfa_nn::distance::L2Dist).n_runs(r).tolerance(tol).max_n_iterations(mi as u64);
                let viol = first(&[(k >= 1, "n_clusters>=1"), (r >= 1, "n_runs>=1"), (pos(tol), "tolerance>0"), (mi >= 1, "max_n_iterations>=1")]);
                let ds = DatasetBase::from(xs());
                // "exactly that error": the outer error types (KMeansError / IncrKMeansError) document the variant
                // `InvalidParams(<checking error>)`; the expected text is written out here, NOT computed with the
                // `From` impl under test
                expect(&[("n_clusters", dbg(&k)), ("n_runs", dbg(&r)), ("tolerance", dbg(&tol)), ("max_n_iterations", dbg(&mi))]);
                let conv = |e: linfa_clustering::KMeansParamsError| format!("InvalidParams({:?})", e);
                if with {
                    probe(ctx, "KMeans", || p.clone(), viol, tol.is_finite(), |p| dbg(p), |c| dbg(c), conv, |p| res!(p.fit_with(None, &ds)), |c| res!(c.fit_with(None, &ds)))
                } else {
                    probe(ctx, "KMeans", || p.clone(), viol, tol.is_finite(), |p| dbg(p), |c| dbg(c), conv, |p| res!(p.fit(&ds)), |c| res!(c.fit(&ds)))
                }
            });
        }
    }
    // ---- DBSCAN: min_points, tolerance
    for t in points(&[nc, nf], &[cb, fb], cap, rng) {
        let (mp, tol) = (cg[t[0]], fg[t[1]]);
        em.count("builder:Dbscan");
        em.case(format!("grid b=Dbscan min_points={} tolerance={}", mp, h(tol)), |ctx| {
            train_always();
            let p = linfa_clustering::Dbscan::params(mp).tolerance(tol);
            let viol = first(&[(mp >= 2, "min_points>=2"), (pos(tol), "tolerance>0")]);
            let x = xs();
            expect(&[("min_points", dbg(&mp)), ("tolerance", dbg(&tol))]);
            probe(ctx, "Dbscan", || p.clone(), viol, tol.is_finite(), |p| dbg(p), |c| dbg(c), |e| dbg(&e), |p| res!(p.transform(&x)), |c| Ok(dbg(&c.transform(&x))))
        });
    }
    // (approximate DBSCAN: `appx_dbscan/` is not compiled in this tree — `AppxDbscan` is an alias of `Dbscan` —
    //  its guard is translated and proved about, but there is no code to run)
    // ---- OPTICS: tolerance, min_points
    for t in points(&[nf, nc], &[fb, cb], cap, rng) {
        let (tol, mp) = (fg[t[0]], cg[t[1]]);
        em.count("builder:Optics");
        em.case(format!("grid b=Optics tolerance={} min_points={}", h(tol), mp), |ctx| {
            train_always();
            let p = linfa_clustering::Optics::params(mp).tolerance(tol);
            let viol = first(&[(pos(tol), "tolerance>0"), (mp >= 2, "min_points>=2")]);
            let x = xs();
            expect(&[("min_points", dbg(&mp)), ("tolerance", dbg(&tol))]);
            probe(ctx, "Optics", || p.clone(), viol, tol.is_finite(), |p| dbg(p), |c| dbg(c), |e| dbg(&e), |p| res!(p.transform(x.view())), |c| Ok(dbg(&c.transform(x.view()))))
        });
    }
    // ---- Gaussian mixture: n_clusters, tolerance, reg_covar, n_runs, max_n_iter
    for t in points(&[nc, nf, nf, nc, nc], &[cb, fb, fb, cb, cb], cap, rng) {
        let (k, tol, reg, r, mi) = (cg[t[0]], fg[t[1]], fg[t[2]], cg[t[3]], cg[t[4]]);
        em.count("builder:Gmm");
        em.case(format!("grid b=Gmm n_clusters={} tolerance={} reg_covar={} n_runs={} max_n_iter={}", k, h(tol), h(reg), r, mi), |ctx| {
            train_always();
            let p = linfa_clustering::GaussianMixtureModel::params_with_rng(k, rng7()).tolerance(tol).reg_covariance(reg).n_runs(r as u64).max_n_iterations(mi as u64);
            let viol = first(&[(k >= 1, "n_clusters>=1"), (pos(tol), "tolerance>0"), (nonneg(reg), "reg_covar>=0"), (r >= 1, "n_runs>=1"), (mi >= 1, "max_n_iter>=1")]);
            let ds = DatasetBase::from(xs());
            expect(&[("n_clusters", dbg(&k)), ("tolerance", dbg(&tol)), ("reg_covar", dbg(&reg)), ("n_runs", dbg(&r)), ("max_n_iter", dbg(&mi))]);
            probe(ctx, "Gmm", || p.clone(), viol, tol.is_finite() && reg.is_finite(), |p| dbg(p), |c| dbg(c), |e| dbg(&e), |p| res!(p.fit(&ds)), |c| res!(c.fit(&ds)))
        });
    }
    // ---- elastic net (single and multi task share one guard): penalty, l1_ratio, tolerance
    for t in points(&[nf, nf, nf], &[fb, fb, fb], cap, rng) {
        let (pen, l1, tol) = (fg[t[0]], fg[t[1]], fg[t[2]]);
        let viol = first(&[(nonneg(pen), "penalty>=0"), (unit(l1), "0<=l1_ratio<=1"), (nonneg(tol), "tolerance>=0")]);
        let finite = pen.is_finite() && l1.is_finite() && tol.is_finite();
        em.count("builder:ElasticNet");
        em.case(format!("grid b=ElasticNet task=single penalty={} l1_ratio={} tolerance={}", h(pen), h(l1), h(tol)), |ctx| {
            train_always();
            let p = linfa_elasticnet::ElasticNet::<f64>::params().penalty(pen).l1_ratio(l1).tolerance(tol).max_iterations(50);
            let ds = DatasetBase::new(xs(), ys_f());
            expect(&[("penalty", dbg(&pen)), ("l1_ratio", dbg(&l1)), ("tolerance", dbg(&tol))]);
            probe(ctx, "ElasticNet", || p.clone(), viol.clone(), finite, |p| dbg(p), |c| dbg(c), |e| dbg(&e), |p| res!(p.fit(&ds)), |c| res!(c.fit(&ds)))
        });
        em.case(format!("grid b=ElasticNet task=multi penalty={} l1_ratio={} tolerance={}", h(pen), h(l1), h(tol)), |ctx| {
            train_always();
            let p = linfa_elasticnet::MultiTaskElasticNet::<f64>::params().penalty(pen).l1_ratio(l1).tolerance(tol).max_iterations(50);
            let ds = DatasetBase::new(xs(), ys_2());
            expect(&[("penalty", dbg(&pen)), ("l1_ratio", dbg(&l1)), ("tolerance", dbg(&tol))]);
            probe(ctx, "ElasticNet", || p.clone(), viol.clone(), finite, |p| dbg(p), |c| dbg(c), |e| dbg(&e), |p| res!(p.fit(&ds)), |c| res!(c.fit(&ds)))
        });
    }
    // ---- logistic regression (binary and multinomial share one guard): alpha, gradient_tolerance, initial_params
    let inits: Vec<Option<Vec<f64>>> = vec![None, Some(vec![0.0, 0.5, -0.5]), Some(vec![0.0, f64::NAN, 1.0]), Some(vec![f64::INFINITY, 0.0, 1.0]), Some(vec![0.25, 0.0, f64::NEG_INFINITY])];
    for t in points(&[nf, nf, inits.len()], &[fb, fb, 0], cap, rng) {
        let (al, gt, init) = (fg[t[0]], fg[t[1]], inits[t[2]].clone());
        let init_fin = init.as_ref().map_or(true, |v| v.iter().all(|x| x.is_finite()));
        let viol = first(&[(nonneg(al), "alpha>=0"), (pos(gt), "gradient_tolerance>0"), (init_fin, "initial_params finite")]);
        let finite = al.is_finite() && gt.is_finite() && init_fin;
        let init_s = init.as_ref().map_or("none".to_string(), |v| v.iter().map(|x| h(*x)).collect::<Vec<_>>().join(","));
        em.count("builder:Logistic");
        let init1 = init.clone();
        em.case(format!("grid b=Logistic kind=binary alpha={} gradient_tolerance={} initial_params={}", h(al), h(gt), init_s), |ctx| {
            set_moderate(&[al, gt]);
            let mut p = linfa_logistic::LogisticRegression::<f64>::default().alpha(al).gradient_tolerance(gt).max_iterations(20);
            if let Some(v) = init1 {
                p = p.initial_params(Array1::from(v));
            }
            let ds = DatasetBase::new(xs(), ys_b());
            expect(&[("alpha", dbg(&al)), ("gradient_tolerance", dbg(&gt))]);
            doc_finite(!finite);
            probe(ctx, "Logistic", || p.clone(), viol.clone(), finite, |p| dbg(p), |c| dbg(c), |e| dbg(&e), |p| res!(p.fit(&ds)), |c| res!(c.fit(&ds)))
        });
        // multinomial: the same values as a (features+1) x classes matrix, column-repeated
        let init2 = init.clone();
        let init_s2 = init.as_ref().map_or("none".to_string(), |v| v.iter().flat_map(|x| vec![h(*x), h(*x)]).collect::<Vec<_>>().join(","));
        em.case(format!("grid b=Logistic kind=multi alpha={} gradient_tolerance={} initial_params={}", h(al), h(gt), init_s2), |ctx| {
            set_moderate(&[al, gt]);
            let mut p = linfa_logistic::MultiLogisticRegression::<f64>::default().alpha(al).gradient_tolerance(gt).max_iterations(20);
            if let Some(v) = init2 {
                p = p.initial_params(Array2::from_shape_fn((3, 2), |(i, _)| v[i]));
            }
            let ds = DatasetBase::new(xs(), ys_u());
            expect(&[("alpha", dbg(&al)), ("gradient_tolerance", dbg(&gt))]);
            doc_finite(!finite);
            probe(ctx, "Logistic", || p.clone(), viol.clone(), finite, |p| dbg(p), |c| dbg(c), |e| dbg(&e), |p| res!(p.fit(&ds)), |c| res!(c.fit(&ds)))
        });
    }
    // ---- Tweedie GLM: alpha, power
    for t in points(&[nf, nf], &[fb, fb], cap, rng) {
        let (al, pw) = (fg[t[0]], fg[t[1]]);
        em.count("builder:Tweedie");
        em.case(format!("grid b=Tweedie alpha={} power={}", h(al), h(pw)), |ctx| {
            set_moderate(&[al, pw]);
            let p = linfa_linear::TweedieRegressor::<f64>::params().alpha(al).power(pw).max_iter(20);
            let viol = first(&[(nonneg(al), "alpha>=0"), (pw.is_finite() && (pw <= 0.0 || pw >= 1.0), "power not in (0,1)")]);
            let ds = DatasetBase::new(xs(), ys_f());
            expect(&[("alpha", dbg(&al)), ("power", dbg(&pw))]);
            probe(ctx, "Tweedie", || p.clone(), viol, al.is_finite() && pw.is_finite(), |p| dbg(p), |c| dbg(c), |e| dbg(&e), |p| res!(p.fit(&ds)), |c| res!(c.fit(&ds)))
        });
    }
    // ---- SVM: platt (maxiter, minstep, sigma), eps, C pair / nu
    {
        #[derive(Clone)]
        enum W {
            C(f64, f64),
            Nu(f64),
        }
        let mut ws: Vec<W> = vec![];
        for a in [-1.0, 0.0, EPS, 1.0, f64::NAN, f64::INFINITY] {
            for b in [-1e-9, 0.0, 0.5, f64::NEG_INFINITY] {
                ws.push(W::C(a, b));
            }
        }
        for v in &fg {
            ws.push(W::Nu(*v));
        }
        let wb = ws.iter().position(|w| matches!(w, W::C(a, b) if *a == 1.0 && *b == 0.5)).unwrap();
        let pf: Vec<f64> = vec![-1.0, -1e-9, 0.0, 1e-10, f64::NAN, f64::INFINITY, f64::NEG_INFINITY];
        for t in points(&[3, pf.len(), pf.len(), nf, ws.len()], &[1, 3, 3, fb, wb], cap, rng) {
            let (mi, ms, sg, eps, w) = ([0usize, 1, 100][t[0]], pf[t[1]], pf[t[2]], fg[t[3]], ws[t[4]].clone());
            let (c_s, nu_s, wfin, wviol): (String, String, bool, Option<&str>) = match &w {
                W::C(a, b) => (format!("{},{}", h(*a), h(*b)), "none".into(), a.is_finite() && b.is_finite(), if pos(*a) && pos(*b) { None } else { Some("C>0") }),
                W::Nu(v) => ("none".into(), format!("{},{}", h(*v), h(*v)), v.is_finite(), if *v > 0.0 && *v <= 1.0 { None } else { Some("0<nu<=1") }),
            };
            em.count("builder:Svm");
            em.case(format!("grid b=Svm platt.maxiter={} platt.minstep={} platt.sigma={} solver_params_eps={} c={} nu={}", mi, h(ms), h(sg), h(eps), c_s, nu_s), |ctx| {
                // (`Svm<f64, bool>` never runs the calibration: the Platt values do not slow training down)
                set_moderate(&[eps]);
                let platt = Platt::<f64, ()>::params().maxiter(mi).minstep(ms).sigma(sg);
                let mut p = linfa_svm::Svm::<f64, bool>::params().eps(eps).with_platt_params(platt);
                p = match &w {
                    W::C(a, b) => p.pos_neg_weights(*a, *b),
                    W::Nu(v) => p.nu_weight(*v),
                };
                let viol = first(&[(mi >= 1, "platt.maxiter>=1"), (nonneg(ms), "platt.minstep>=0"), (nonneg(sg), "platt.sigma>=0"), (nonneg(eps), "eps>=0"), (wviol.is_none(), wviol.unwrap_or(""))]);
                let ds = DatasetBase::new(xs(), ys_b());
                // training is only run for solver tolerances and weights SMO handles quickly
                let runnable = eps >= 1e-4 && match &w { W::C(a, b) => *a >= 1e-4 && *b >= 1e-4 && *a <= 2.0 && *b <= 2.0, W::Nu(v) => *v >= 1e-4 && *v <= 1.0 };
                expect(&[("eps", dbg(&eps)), ("maxiter", dbg(&mi)), ("minstep", dbg(&ms)), ("sigma", dbg(&sg))]);
                doc_finite(!eps.is_finite());
                probe(ctx, "Svm", || p.clone(), viol, ms.is_finite() && sg.is_finite() && eps.is_finite() && wfin, |p| dbg(p), |c| dbg(c), |e| dbg(&e),
                    |p| if runnable || p.check_ref().is_err() { res!(p.fit(&ds)) } else { Ok("skipped".into()) },
                    |c| if runnable { res!(c.fit(&ds)) } else { Ok("skipped".into()) })
            });
        }
    }
    // ---- SVM, builder call chains: every setter (`eps`, `pos_neg_weights`, `nu_weight`, and on `Svm<F, F>` the
    //      regression setters `c_eps`, `nu_eps`, `c_svr`, `nu_svr`) in sequences of 1 to 3 calls, on the four target
    //      kinds (regression, bool, Pr, one-class).  The model runs the same chain through its setter model; the
    //      response carries the resulting `eps / c / nu` read back from the builder.
    {
        #[derive(Clone, Debug)]
        enum S {
            Eps(f64),
            Pn(f64, f64),
            Nuw(f64),
            Ceps(f64, f64),
            Nueps(f64, f64),
            Csvr(f64, Option<f64>),
            Nusvr(f64, Option<f64>),
        }
        let ho = |o: &Option<f64>| o.map_or("none".to_string(), h);
        let tok = |s: &S| match s {
            S::Eps(x) => format!("eps:{}", h(*x)),
            S::Pn(a, b) => format!("pn:{},{}", h(*a), h(*b)),
            S::Nuw(v) => format!("nuw:{}", h(*v)),
            S::Ceps(c, e) => format!("ceps:{},{}", h(*c), h(*e)),
            S::Nueps(n, e) => format!("nueps:{},{}", h(*n), h(*e)),
            S::Csvr(c, l) => format!("csvr:{},{}", h(*c), ho(l)),
            S::Nusvr(n, c) => format!("nusvr:{},{}", h(*n), ho(c)),
        };
        // weights / nu / C / loss-epsilon values and solver tolerances
        let wv: Vec<f64> = vec![-1.0, 0.0, 1e-3, 0.1, 0.5, 1.0, 1.0 + EPS, 2.0, f64::NAN, f64::INFINITY];
        let ev: Vec<f64> = vec![-1e-9, 0.0, 1e-4, 1e-3, 0.5, f64::NAN, f64::NEG_INFINITY];
        let good_w = [0.1, 0.5, 1.0];
        let mut chains: Vec<(&str, Vec<S>)> = vec![];
        for kind in ["reg", "bool", "pr", "oneclass"] {
            let reg = kind == "reg";
            // every setter with every value in each argument (the other argument valid)
            chains.push((kind, vec![]));
            for v in &ev {
                chains.push((kind, vec![S::Eps(*v)]));
            }
            for v in &wv {
                chains.push((kind, vec![S::Nuw(*v)]));
                chains.push((kind, vec![S::Pn(*v, 0.5)]));
                chains.push((kind, vec![S::Pn(0.5, *v)]));
                if reg {
                    chains.push((kind, vec![S::Ceps(*v, 1e-3)]));
                    chains.push((kind, vec![S::Nueps(*v, 1e-3)]));
                    chains.push((kind, vec![S::Csvr(*v, None)]));
                    chains.push((kind, vec![S::Csvr(1.0, Some(*v))]));
                    chains.push((kind, vec![S::Nusvr(*v, None)]));
                    chains.push((kind, vec![S::Nusvr(0.5, Some(*v))]));
                }
            }
            if reg {
                for v in &ev {
                    chains.push((kind, vec![S::Ceps(1.0, *v)]));
                    chains.push((kind, vec![S::Nueps(0.5, *v)]));
                }
            }
            // random chains of 2 or 3 calls: a later setter must override what an earlier (possibly invalid) one left
            let n = if th { 1500 } else if reg { 220 } else { 90 };
            for _ in 0..n {
                let len = 2 + rng.below(2);
                let mut c = vec![];
                for _ in 0..len {
                    let w = |rng: &mut Rng| if rng.chance(1, 2) { good_w[rng.below(3)] } else { wv[rng.below(wv.len())] };
                    let e = |rng: &mut Rng| if rng.chance(1, 2) { 1e-3 } else { ev[rng.below(ev.len())] };
                    let o = |rng: &mut Rng, x: f64| if rng.chance(1, 3) { None } else { Some(x) };
                    let k = rng.below(if reg { 7 } else { 3 });
                    c.push(match k {
                        0 => S::Eps(e(rng)),
                        1 => S::Pn(w(rng), w(rng)),
                        2 => S::Nuw(w(rng)),
                        3 => S::Ceps(w(rng), e(rng)),
                        4 => S::Nueps(w(rng), e(rng)),
                        5 => { let a = w(rng); let b = w(rng); S::Csvr(a, o(rng, b)) }
                        _ => { let a = w(rng); let b = w(rng); S::Nusvr(a, o(rng, b)) }
                    });
                }
                chains.push((kind, c));
            }
        }
        for (kind, chain) in chains {
            em.count(&format!("builder:Svm:setters:{}", kind));
            let ops = if chain.is_empty() { "-".to_string() } else { chain.iter().map(|s| tok(s)).collect::<Vec<_>>().join(";") };
            em.case(format!("grid b=Svm via=setters target={} ops={} platt.maxiter=100 platt.minstep={} platt.sigma={}", kind, ops, h(1e-10), h(1e-12)), |ctx| {
                // the harness's own reading of the setter documentation (hyperparams.rs): which fields a call sets
                let (mut eps, mut c, mut nu): (f64, Option<(f64, f64)>, Option<(f64, f64)>) = (1e-7, Some((1.0, 1.0)), None);
                for s in &chain {
                    match s {
                        S::Eps(x) => eps = *x,
                        S::Pn(a, b) => { c = Some((*a, *b)); nu = None }
                        S::Nuw(v) => { nu = Some((*v, *v)); c = None }
                        S::Ceps(cc, e) => { c = Some((*cc, 0.1)); nu = None; eps = *e }
                        S::Nueps(n, e) => { nu = Some((*n, 1.0)); c = None; eps = *e }
                        S::Csvr(cc, l) => { c = Some((*cc, l.unwrap_or(0.1))); nu = None }
                        S::Nusvr(n, cc) => { nu = Some((*n, cc.unwrap_or(1.0))); c = None }
                    }
                }
                let fin = eps.is_finite() && c.map_or(true, |(a, b)| a.is_finite() && b.is_finite()) && nu.map_or(true, |(a, b)| a.is_finite() && b.is_finite());
                // C (both class weights; for regression C and the loss epsilon) strictly positive; nu in (0, 1];
                // the C value of nu-regression (second component) strictly positive as well ("Negative C value")
                let viol = first(&[(nonneg(eps), "eps>=0"), (c.map_or(true, |(a, b)| pos(a) && pos(b)), "C>0"), (nu.map_or(true, |(n, _)| n > 0.0 && n <= 1.0), "0<nu<=1"), (nu.map_or(true, |(_, cc)| pos(cc)), "nu-form:C>0")]);
                set_moderate(&[eps]);
                // training only with solver tolerances and weights SMO handles quickly
                let runnable = eps >= 1e-7 && c.map_or(true, |(a, b)| a <= 2.0 && b <= 2.0) && nu.map_or(true, |(_, b)| b <= 2.0);
                let platt = Platt::<f64, ()>::params().maxiter(100).minstep(1e-10).sigma(1e-12);
                let pair = |o: Option<(f64, f64)>| o.map_or("none".to_string(), |(a, b)| format!("{},{}", h(a), h(b)));
                // read the three fields back from the builder's Debug form (f64 Debug round-trips)
                let readback = |d: &str| -> String {
                    let num = |t: &str| t.trim().parse::<f64>().map(h).unwrap_or_else(|_| format!("?{}", t));
                    let opt = |t: &str| -> String {
                        let t = t.trim();
                        if t == "None" { return "none".into(); }
                        match t.strip_prefix("Some((").and_then(|r| r.strip_suffix("))")) {
                            Some(r) => r.split(", ").map(|x| num(x)).collect::<Vec<_>>().join(","),
                            None => format!("?{}", t),
                        }
                    };
                    let between = |a: &str, b: &str| -> String { d.find(a).and_then(|i| d[i + a.len()..].find(b).map(|j| d[i + a.len()..i + a.len() + j].to_string())).unwrap_or_default() };
                    format!("eps={} c={} nu={}", num(&between("SolverParams { eps: ", ", shrinking")), opt(&between("SvmValidParams { c: ", ", nu: ")), opt(&between(", nu: ", ", solver_params")))
                };
                macro_rules! chain_on {
                    ($p:expr) => {{
                        let mut p = $p;
                        for s in &chain {
                            p = match s {
                                S::Eps(x) => p.eps(*x),
                                S::Pn(a, b) => p.pos_neg_weights(*a, *b),
                                S::Nuw(v) => p.nu_weight(*v),
                                _ => unreachable!(),
                            };
                        }
                        p
                    }};
                }
                doc_finite(!eps.is_finite());
                let (line, back) = match kind {
                    "reg" => {
                        let mut p = linfa_svm::Svm::<f64, f64>::params().with_platt_params(platt);
                        for s in &chain {
                            #[allow(deprecated)]
                            { p = match s {
                                S::Eps(x) => p.eps(*x),
                                S::Pn(a, b) => p.pos_neg_weights(*a, *b),
                                S::Nuw(v) => p.nu_weight(*v),
                                S::Ceps(c, e) => p.c_eps(*c, *e),
                                S::Nueps(n, e) => p.nu_eps(*n, *e),
                                S::Csvr(c, l) => p.c_svr(*c, *l),
                                S::Nusvr(n, c) => p.nu_svr(*n, *c),
                            }; }
                        }
                        let ds = DatasetBase::new(xs(), ys_f());
                        let back = readback(&dbg(&p));
                        (probe(ctx, "Svm:reg", || p.clone(), viol, fin, |p| dbg(p), |c| dbg(c), |e| dbg(&e),
                            |p| if runnable || p.check_ref().is_err() { res!(p.fit(&ds)) } else { Ok("skipped".into()) },
                            |c| if runnable { res!(c.fit(&ds)) } else { Ok("skipped".into()) }), back)
                    }
                    "bool" => {
                        let p = chain_on!(linfa_svm::Svm::<f64, bool>::params().with_platt_params(platt));
                        let ds = DatasetBase::new(xs(), ys_b());
                        let back = readback(&dbg(&p));
                        (probe(ctx, "Svm:bool", || p.clone(), viol, fin, |p| dbg(p), |c| dbg(c), |e| dbg(&e),
                            |p| if runnable || p.check_ref().is_err() { res!(p.fit(&ds)) } else { Ok("skipped".into()) },
                            |c| if runnable { res!(c.fit(&ds)) } else { Ok("skipped".into()) }), back)
                    }
                    "pr" => {
                        let p = chain_on!(linfa_svm::Svm::<f64, Pr>::params().with_platt_params(platt));
                        let ds = DatasetBase::new(xs(), ys_b());
                        let back = readback(&dbg(&p));
                        (probe(ctx, "Svm:pr", || p.clone(), viol, fin, |p| dbg(p), |c| dbg(c), |e| dbg(&e),
                            |p| if runnable || p.check_ref().is_err() { res!(p.fit(&ds)) } else { Ok("skipped".into()) },
                            |c| if runnable { res!(c.fit(&ds)) } else { Ok("skipped".into()) }), back)
                    }
                    _ => {
                        // one-class: targets of unit type; the checked `fit` panics ("One class needs Nu value") when C
                        // is set — a valid builder then panics exactly like its checked form
                        let p = chain_on!(linfa_svm::Svm::<f64, Pr>::params().with_platt_params(platt));
                        let ds = DatasetBase::new(xs(), Array1::from(vec![(); 12]));
                        let back = readback(&dbg(&p));
                        (probe(ctx, "Svm:oneclass", || p.clone(), viol, fin, |p| dbg(p), |c| dbg(c), |e| dbg(&e),
                            |p| if runnable || p.check_ref().is_err() { res!(p.fit(&ds)) } else { Ok("skipped".into()) },
                            |c| if runnable { res!(c.fit(&ds)) } else { Ok("skipped".into()) }), back)
                    }
                };
                let want = format!("eps={} c={} nu={}", h(eps), pair(c), pair(nu));
                ctx.require(back == want, "params_unchanged", "Svm:setters", || format!("after {:?} the builder holds {} but the documented effect of the setters is {}", chain, back, want));
                format!("{} {}", line, back)
            });
        }
    }
    // ---- decision tree: min_impurity_decrease, carriers f64 and f32 (the guard compares with `F::epsilon()`)
    for v in &fg {
        let x = *v;
        em.count("builder:DecisionTree");
        em.case(format!("grid b=DecisionTree carrier=f64 min_impurity_decrease={}", h(x)), |ctx| {
            train_always();
            let p = linfa_trees::DecisionTree::<f64, usize>::params().min_impurity_decrease(x);
            let viol = first(&[(x.is_finite() && x >= EPS, "min_impurity_decrease>=eps")]);
            let ds = DatasetBase::new(xs(), ys_u());
            // fitted models are compared through their predictions (Debug output follows hash-map order)
            probe(ctx, "DecisionTree", || p.clone(), viol, x.is_finite(), |p| dbg(p), |c| dbg(c), |e| dbg(&e),
                |p| p.fit(&ds).map(|m| dbg(&m.predict(&xs()))).map_err(|e| dbg(&e)), |c| c.fit(&ds).map(|m| dbg(&m.predict(&xs()))).map_err(|e| dbg(&e)))
        });
    }
    {
        let mut g32: Vec<f32> = fgrid32(th).into_iter().map(|x| x as f32).collect();
        g32.extend([f32::EPSILON, f32::EPSILON / 2.0, f32::EPSILON * 0.99, EPS as f32, 1e-5, 1e-12]);
        for x32 in g32 {
            let x = x32 as f64;
            em.count("builder:DecisionTree:f32");
            em.case(format!("grid b=DecisionTree carrier=f32 min_impurity_decrease={}", h(x)), |ctx| {
                train_always();
                let p = linfa_trees::DecisionTree::<f32, usize>::params().min_impurity_decrease(x32);
                let viol = first(&[(x32.is_finite() && x32 >= f32::EPSILON, "min_impurity_decrease>=eps(f32)")]);
                let x32s = xs().mapv(|v| v as f32);
                let ds = DatasetBase::new(x32s.clone(), ys_u());
                probe(ctx, "DecisionTree", || p.clone(), viol, x32.is_finite(), |p| dbg(p), |c| dbg(c), |e| dbg(&e),
                    |p| p.fit(&ds).map(|m| dbg(&m.predict(&x32s))).map_err(|e| dbg(&e)), |c| c.fit(&ds).map(|m| dbg(&m.predict(&x32s))).map_err(|e| dbg(&e)))
            });
        }
    }
    // ---- naive Bayes: var_smoothing / alpha (fit and fit_with)
    for v in &fg {
        let x = *v;
        em.count("builder:NaiveBayes");
        let viol = first(&[(nonneg(x), "smoothing>=0")]);
        for with in [false, true] {
            em.case(format!("grid b=GaussianNb via={} var_smoothing={}", if with { "fit_with" } else { "fit" }, h(x)), |ctx| {
                train_always();
                let p = linfa_bayes::GaussianNb::<f64, usize>::params().var_smoothing(x);
                let ds = DatasetBase::new(xs(), ys_u());
                if with {
                    probe(ctx, "GaussianNb", || p.clone(), viol.clone(), x.is_finite(), |p| dbg(p), |c| dbg(c), |e| dbg(&e), |p| p.fit_with(None, &ds).map(|m| dbg(&m.map(|m| m.predict(&xs())))).map_err(|e| dbg(&e)), |c| c.fit_with(None, &ds).map(|m| dbg(&m.map(|m| m.predict(&xs())))).map_err(|e| dbg(&e)))
                } else {
                    probe(ctx, "GaussianNb", || p.clone(), viol.clone(), x.is_finite(), |p| dbg(p), |c| dbg(c), |e| dbg(&e), |p| p.fit(&ds).map(|m| dbg(&m.predict(&xs()))).map_err(|e| dbg(&e)), |c| c.fit(&ds).map(|m| dbg(&m.predict(&xs()))).map_err(|e| dbg(&e)))
                }
            });
            em.case(format!("grid b=MultinomialNb via={} alpha={}", if with { "fit_with" } else { "fit" }, h(x)), |ctx| {
                train_always();
                let p = linfa_bayes::MultinomialNb::<f64, usize>::params().alpha(x);
                let ds = DatasetBase::new(xs(), ys_u());
                if with {
                    probe(ctx, "MultinomialNb", || p.clone(), viol.clone(), x.is_finite(), |p| dbg(p), |c| dbg(c), |e| dbg(&e), |p| p.fit_with(None, &ds).map(|m| dbg(&m.map(|m| m.predict(&xs())))).map_err(|e| dbg(&e)), |c| c.fit_with(None, &ds).map(|m| dbg(&m.map(|m| m.predict(&xs())))).map_err(|e| dbg(&e)))
                } else {
                    probe(ctx, "MultinomialNb", || p.clone(), viol.clone(), x.is_finite(), |p| dbg(p), |c| dbg(c), |e| dbg(&e), |p| p.fit(&ds).map(|m| dbg(&m.predict(&xs()))).map_err(|e| dbg(&e)), |c| c.fit(&ds).map(|m| dbg(&m.predict(&xs()))).map_err(|e| dbg(&e)))
                }
            });
        }
    }
    // ---- FTRL (fit_with only... and fit): l1_ratio, l2_ratio, alpha, beta
    for t in points(&[nf, nf, nf, nf], &[fb, fb, fb, fb], cap, rng) {
        let (l1, l2, al, be) = (fg[t[0]], fg[t[1]], fg[t[2]], fg[t[3]]);
        em.count("builder:Ftrl");
        em.case(format!("grid b=Ftrl l1_ratio={} l2_ratio={} alpha={} beta={}", h(l1), h(l2), h(al), h(be)), |ctx| {
            train_always();
            let p = linfa_ftrl::Ftrl::<f64>::params_with_rng(rng7()).l1_ratio(l1).l2_ratio(l2).alpha(al).beta(be);
            let viol = first(&[(unit(l1), "0<=l1_ratio<=1"), (unit(l2), "0<=l2_ratio<=1"), (nonneg(al), "alpha>=0"), (nonneg(be), "beta>=0")]);
            let ds = DatasetBase::new(xs(), ys_b());
            expect(&[("l1_ratio", dbg(&l1)), ("l2_ratio", dbg(&l2)), ("alpha", dbg(&al)), ("beta", dbg(&be))]);
            doc_finite(!(l1.is_finite() && l2.is_finite() && al.is_finite() && be.is_finite()));
            probe(ctx, "Ftrl", || p.clone(), viol, l1.is_finite() && l2.is_finite() && al.is_finite() && be.is_finite(), |p| dbg(p), |c| dbg(c), |e| dbg(&e),
                |p| res!(p.fit_with(None, &ds)), |c| res!(c.fit_with(None, &ds)))
        });
    }
    // ---- PLS (generic builder and the three macro-generated ones): tolerance, max_iter
    for t in points(&[nf, nc], &[fb, cb], cap, rng) {
        let (tol, mi) = (fg[t[0]], cg[t[1]]);
        let viol = first(&[(nonneg(tol), "tolerance>=0"), (mi >= 1, "max_iter>=1")]);
        em.count("builder:Pls");
        macro_rules! pls {
            ($name:expr, $ty:ident) => {
                em.case(format!("grid b=PlsMacro kind={} tolerance={} max_iter={}", $name, h(tol), mi), |ctx| {
                    train_always();
                    let mk = || linfa_pls::$ty::<f64>::params(1).tolerance(tol).max_iterations(mi);
                    let ds = DatasetBase::new(xs(), ys_2());
                    // these builders implement neither Debug nor Clone: the guarded values are not readable
                    // from outside, so `params_unchanged` is observed through the fitted model only
                    doc_finite(!tol.is_finite());
                    probe(ctx, "PlsMacro", mk, viol.clone(), tol.is_finite(), |_| "PlsParams".to_string(), |_| "PlsParams".to_string(), |e| dbg(&e),
                        |p| p.fit(&ds).map(|m| dbg(&m.weights())).map_err(|e| dbg(&e)), |c| c.fit(&ds).map(|m| dbg(&m.weights())).map_err(|e| dbg(&e)))
                });
            };
        }
        pls!("regression", PlsRegression);
        pls!("canonical", PlsCanonical);
        pls!("cca", PlsCca);
        // (the generic `PlsParams` is `pub(crate)`: not reachable from outside the crate)
    }
    // ---- t-SNE: perplexity, approx_threshold; both hand-written entry points (`Array2` and `DatasetBase` records)
    for t in points(&[nf, nf], &[fb, fb], cap, rng) {
        let (pe, th_) = (fg[t[0]], fg[t[1]]);
        em.count("builder:TSne");
        for form in ["array", "dataset"] {
            em.case(format!("grid b=TSne via=try:{} perplexity={} approx_threshold={}", form, h(pe), h(th_)), |ctx| {
                set_moderate(&[pe, th_]);
                let p = linfa_tsne::TSneParams::embedding_size_with_rng(2, rng7()).perplexity(pe).approx_threshold(th_).max_iter(3);
                let viol = first(&[(nonneg(pe), "perplexity>=0"), (nonneg(th_), "approx_threshold>=0")]);
                // the embedding itself is only computed for parameter values bhtsne handles quickly
                let runnable = pe.is_finite() && th_.is_finite() && pe >= 1e-4 && pe <= 2.0;
                let b = if form == "array" { "TSne" } else { "TSne:dataset" };
                expect(&[("perplexity", dbg(&pe)), ("approx_threshold", dbg(&th_))]);
                // only the SHAPE of the embedding (and the carried targets) is compared: bhtsne is not reproducible — two runs of the
                // same checked parameters on the same seeded RNG differ in the second digit, also when run on one rayon thread —
                // so "behaves exactly like its checked form" is not observable on the values
                let det = false;
                let outm = |m: &Array2<f64>| if det { dbg(m) } else { dbg(&m.dim()) };
                if form == "array" {
                    probe(ctx, b, || p.clone(), viol, pe.is_finite() && th_.is_finite(), |p| dbg(p), |c| dbg(c), |e| dbg(&e),
                        |p| if runnable || p.check_ref().is_err() { p.transform(xs()).map(|m| outm(&m)).map_err(|e| dbg(&e)) } else { Ok("skipped".into()) },
                        |c| if runnable { c.transform(xs()).map(|m| outm(&m)).map_err(|e| dbg(&e)) } else { Ok("skipped".into()) })
                } else {
                    let out = |d: DatasetBase<Array2<f64>, Array1<usize>>| format!("{} targets={:?}", outm(d.records()), d.targets());
                    probe(ctx, b, || p.clone(), viol, pe.is_finite() && th_.is_finite(), |p| dbg(p), |c| dbg(c), |e| dbg(&e),
                        |p| if runnable || p.check_ref().is_err() { p.transform(DatasetBase::new(xs(), ys_u())).map(out).map_err(|e| dbg(&e)) } else { Ok("skipped".into()) },
                        |c| if runnable { c.transform(DatasetBase::new(xs(), ys_u())).map(out).map_err(|e| dbg(&e)) } else { Ok("skipped".into()) })
                }
            });
        }
    }
    // ---- FastICA: tol
    for v in &fg {
        let x = *v;
        em.count("builder:FastIca");
        em.case(format!("grid b=FastIca tol={}", h(x)), |ctx| {
            train_always();
            let p = linfa_ica::fast_ica::FastIca::<f64>::params().tol(x).ncomponents(2).random_state(3).max_iter(10);
            let viol = first(&[(nonneg(x), "tol>=0")]);
            let ds = DatasetBase::from(xs());
            expect(&[("tol", dbg(&x))]);
            probe(ctx, "FastIca", || p.clone(), viol, x.is_finite(), |p| dbg(p), |c| dbg(c), |e| dbg(&e), |p| res!(p.fit(&ds)), |c| res!(c.fit(&ds)))
        });
    }
    // ---- diffusion map: steps, embedding_size
    for t in points(&[nc, nc], &[cb, cb], cap, rng) {
        let (st, es) = (cg[t[0]], cg[t[1]]);
        em.count("builder:DiffusionMap");
        em.case(format!("grid b=DiffusionMap steps={} embedding_size={}", st, es), |ctx| {
            set_moderate(&[]);
            let p = linfa_reduction::DiffusionMap::<f64>::params(es).steps(st);
            let viol = first(&[(st >= 1, "steps>=1"), (es >= 1, "embedding_size>=1")]);
            let k = kernel();
            expect(&[("steps", dbg(&st)), ("embedding_size", dbg(&es))]);
            probe(ctx, "DiffusionMap", || p.clone(), viol, true, |p| dbg(p), |c| dbg(c), |e| dbg(&e), |p| res!(p.transform(&k)), |c| Ok(dbg(&c.transform(&k))))
        });
    }
    // ---- random projection (Gaussian and sparse): Dimension d | Epsilon e
    {
        let mut vs: Vec<(String, Option<usize>, Option<f64>)> = vec![];
        for d in &cg {
            vs.push((format!("Dimension:{}", d), Some(*d), None));
        }
        for e in &fg {
            vs.push((format!("Epsilon:{}", h(*e)), None, Some(*e)));
        }
        for (s, d, e) in vs {
            let viol = match (d, e) {
                (Some(d), _) => first(&[(d >= 1, "target_dim>=1")]),
                (_, Some(e)) => first(&[(e > 0.0 && e < 1.0, "0<eps<1")]),
                _ => None,
            };
            let finite = e.map_or(true, |e| e.is_finite());
            em.count("builder:RandomProjection");
            macro_rules! rp {
                ($kind:expr, $ty:ident) => {
                    em.case(format!("grid b=RandomProjection kind={} params={}", $kind, s), |ctx| {
                        set_moderate(&[]);
                        let mk = || {
                            let mut p = linfa_reduction::random_projection::$ty::<f64>::params_with_rng(rng7());
                            if let Some(d) = d {
                                p = p.target_dim(d);
                            }
                            if let Some(e) = e {
                                p = p.eps(e);
                            }
                            p
                        };
                        let ds = DatasetBase::from(xs());
                        // the unchecked builder implements neither Debug nor Clone; the checked one does
                        probe(ctx, "RandomProjection", mk, viol.clone(), finite, |_| format!("{:?}/{:?}", d, e), |c| format!("{:?}/{:?}", c.target_dim(), c.eps()), |e| dbg(&e),
                            |p| p.fit(&ds).map(|_| "model".to_string()).map_err(|e| dbg(&e)), |c| c.fit(&ds).map(|_| "model".to_string()).map_err(|e| dbg(&e)))
                    });
                };
            }
            rp!("gaussian", GaussianRandomProjection);
            rp!("sparse", SparseRandomProjection);
        }
    }
    // ---- hierarchical clustering: NumClusters n | Distance x
    {
        let mut vs: Vec<(String, Option<usize>, Option<f64>)> = vec![];
        for d in &cg {
            vs.push((format!("NumClusters:{}", d), Some(*d), None));
        }
        for e in &fg {
            vs.push((format!("Distance:{}", h(*e)), None, Some(*e)));
        }
        for (s, d, e) in vs {
            let viol = match (d, e) {
                (Some(d), _) => first(&[(d >= 1, "num_clusters>=1")]),
                (_, Some(e)) => first(&[(nonneg(e), "max_distance>=0")]),
                _ => None,
            };
            em.count("builder:Hierarchical");
            em.case(format!("grid b=Hierarchical stopping={}", s), |ctx| {
                set_moderate(&[]);
                let mut p = linfa_hierarchical::HierarchicalCluster::<f64>::default();
                if let Some(d) = d {
                    p = p.num_clusters(d);
                }
                if let Some(e) = e {
                    p = p.max_distance(e);
                }
                doc_finite(e.map_or(false, |e| !e.is_finite()));
                probe(ctx, "Hierarchical", || p.clone(), viol.clone(), e.map_or(true, |e| e.is_finite()), |p| dbg(p), |c| dbg(c), |e| dbg(&e),
                    |p| p.transform(kernel()).map(|d| canon(d.targets())).map_err(|e| dbg(&e)), |c| Ok(canon(c.transform(kernel()).targets())))
            });
        }
    }
    // ---- count vectoriser: n_gram_range, document_frequency, split regex — through the three hand-written entry
    //      points of `CountVectorizerParams` and the three of `TfIdfVectorizer` (which wraps an unchecked builder)
    {
        let f32g = fgrid32(th);
        let n32 = f32g.len();
        let b32 = f32g.iter().position(|x| *x == 0.5).unwrap();
        let ng: Vec<usize> = if th { vec![0, 1, 2, 3, 7] } else { vec![0, 1, 2, 3] };
        let texts = ["one two three four", "one two three", "one two", "one five six"];
        let dir = std::env::temp_dir().join(format!("linfa_verif_c04_{}", std::process::id()));
        let _ = std::fs::create_dir_all(&dir);
        let paths: Vec<std::path::PathBuf> = texts.iter().enumerate().map(|(i, t)| { let f = dir.join(format!("doc{}.txt", i)); std::fs::write(&f, t).unwrap(); f }).collect();
        let forms_all = ["and_then:fit", "and_then:fit_vocabulary", "and_then:fit_files", "wrap:tfidf_fit", "wrap:tfidf_fit_vocabulary", "wrap:tfidf_fit_files"];
        for (i, t) in points(&[ng.len(), ng.len(), n32, n32, 2], &[1, 2, 2, b32, 1], cap.max(400), rng).into_iter().enumerate() {
            let (a, b, lo, hi, rok) = (ng[t[0]], ng[t[1]], f32g[t[2]], f32g[t[3]], t[4] == 1);
            em.count("builder:CountVectorizer");
            // every entry point on the one-at-a-time deviations (they come first); on the sampled combinations
            // `fit` plus one other entry point in rotation (quick tier)
            let forms: Vec<&str> = if th || i < 60 { forms_all.to_vec() } else { vec![forms_all[0], forms_all[1 + i % 5]] };
            for form in forms {
                em.case(format!("grid b=CountVectorizer via={} n_gram_range={},{} document_frequency={},{} split_regex_ok={}", form, a, b, h(lo), h(hi), rok as u8), |ctx| {
                    train_always();
                    let mut p = linfa_preprocessing::CountVectorizer::params().n_gram_range(a, b).document_frequency(lo as f32, hi as f32);
                    let mut tf = linfa_preprocessing::tf_idf_vectorization::TfIdfVectorizer::default().n_gram_range(a, b).document_frequency(lo as f32, hi as f32);
                    if !rok {
                        p = p.tokenizer(linfa_preprocessing::Tokenizer::Regex("(unclosed".to_string()));
                        tf = tf.tokenizer(linfa_preprocessing::Tokenizer::Regex("(unclosed".to_string()));
                    }
                    let viol = first(&[(a >= 1 && b >= 1, "n_gram>=1"), (a <= b, "min_n<=max_n"), (unit(lo), "0<=min_freq<=1"), (unit(hi), "0<=max_freq<=1"), (lo <= hi, "min_freq<=max_freq"), (rok, "regex valid")]);
                    let docs = Array1::from(texts.to_vec());
                    let words = ["one", "two", "seven"];
                    // the compiled regex is cached inside the parameters by check_ref (interior mutability): it is
                    // not a hyperparameter, so it is masked in the printed form
                    let show = |s: String| -> String {
                        match (s.find("split_regex: "), s.find("n_gram_range: ")) {
                            (Some(i), Some(j)) if i < j => format!("{}{}", &s[..i], &s[j..]),
                            _ => s,
                        }
                    };
                    let voc = |v: &Vec<String>| { let mut v = v.clone(); v.sort(); dbg(&v) };
                    let ctx_method_ok = std::cell::Cell::new(true);
                    let (utf8, strict) = (linfa_preprocessing::verif_hooks_c04::utf8, linfa_preprocessing::verif_hooks_c04::strict);
                    // TfIdfVectorizer: "wrapped result of the checked form" = the checked form's vocabulary AND the wrapper's
                    // method (`default()`: Smooth) — the method must appear, the rest is compared with the checked form
                    let tfout = |m: &linfa_preprocessing::tf_idf_vectorization::FittedTfIdfVectorizer| -> String {
                        ctx_method_ok.set(ctx_method_ok.get() && *m.method() == linfa_preprocessing::tf_idf_vectorization::TfIdfMethod::Smooth);
                        voc(m.vocabulary())
                    };
                    let bname = format!("CountVectorizer:{}", form.split(':').nth(1).unwrap());
                    let bname = if form == "and_then:fit" { "CountVectorizer".to_string() } else { bname };
                    expect(&[("n_gram_range", dbg(&(a, b))), ("document_frequency", dbg(&(lo as f32, hi as f32)))]);
                    let line = probe(ctx, &bname, || p.clone(), viol, lo.is_finite() && hi.is_finite(), |p| show(dbg(p)), |c| show(dbg(c)), |e| dbg(&e),
                        |p| match form {
                            "and_then:fit" => p.fit(&docs).map(|m| voc(m.vocabulary())).map_err(|e| dbg(&e)),
                            "and_then:fit_vocabulary" => p.fit_vocabulary(&words).map(|m| voc(m.vocabulary())).map_err(|e| dbg(&e)),
                            "and_then:fit_files" => p.fit_files(&paths, utf8(), strict()).map(|m| voc(m.vocabulary())).map_err(|e| dbg(&e)),
                            "wrap:tfidf_fit" => tf.fit(&docs).map(|m| tfout(&m)).map_err(|e| dbg(&e)),
                            "wrap:tfidf_fit_vocabulary" => tf.fit_vocabulary(&words).map(|m| tfout(&m)).map_err(|e| dbg(&e)),
                            _ => tf.fit_files(&paths, utf8(), strict()).map(|m| tfout(&m)).map_err(|e| dbg(&e)),
                        },
                        |c| match form {
                            "and_then:fit" | "wrap:tfidf_fit" => c.fit(&docs).map(|m| voc(m.vocabulary())).map_err(|e| dbg(&e)),
                            "and_then:fit_vocabulary" | "wrap:tfidf_fit_vocabulary" => c.fit_vocabulary(&words).map(|m| voc(m.vocabulary())).map_err(|e| dbg(&e)),
                            _ => c.fit_files(&paths, utf8(), strict()).map(|m| voc(m.vocabulary())).map_err(|e| dbg(&e)),
                        });
                    ctx.require(ctx_method_ok.get(), "valid_as_checked", &format!("{}:method", bname), || "the fitted TfIdfVectorizer does not carry the wrapper's method (Smooth)".to_string());
                    line
                });
            }
        }
        let _ = std::fs::remove_dir_all(&dir);
    }
    // ---- Platt scaling (fit_with): maxiter, minstep, sigma
    for t in points(&[nc, nf, nf], &[cb, fb, fb], cap, rng) {
        let (mi, ms, sg) = (cg[t[0]], fg[t[1]], fg[t[2]]);
        em.count("builder:Platt");
        em.case(format!("grid b=Platt maxiter={} minstep={} sigma={}", mi, h(ms), h(sg)), |ctx| {
            // (not `train_always`: with minstep = 0 the line search of Platt scaling has no exit when no step decreases the
            //  objective, e.g. sigma = f64::MAX — checked and unchecked form hang alike)
            set_moderate(&[ms, sg]);
            let p = Platt::<f64, FirstColumn>::params().maxiter(mi).minstep(ms).sigma(sg);
            let viol = first(&[(mi >= 1, "maxiter>=1"), (nonneg(ms), "minstep>=0"), (nonneg(sg), "sigma>=0")]);
            let ds = DatasetBase::new(xs(), ys_b());
            expect(&[("maxiter", dbg(&mi)), ("minstep", dbg(&ms)), ("sigma", dbg(&sg))]);
            probe(ctx, "Platt", || p.clone(), viol, ms.is_finite() && sg.is_finite(), |p| dbg(p), |c| dbg(c), |e: PlattError| dbg(&e),
                |p| res!(p.fit_with(FirstColumn, &ds)), |c| res!(c.fit_with(FirstColumn, &ds)))
        });
    }
    // ---- negative zero (oracle only: the model's float domain has no -0.0).  The documentation never mentions
    //      -0.0; per field the verdict of TODAY's guard is the reading (a guard written `x < 0` accepts it, one
    //      written `x.is_negative()` reads the sign bit and rejects it).  A rewrite of one spelling into the other
    //      changes which finite values pass checking and is reported here.
    {
        let nz = -0.0f64;
        let mut one = |em: &mut Em, field: &str, accepts_today: bool, verdict: &dyn Fn() -> bool| {
            em.count("negzero_fields");
            em.case(format!("#negzero field={}", field), |ctx| {
                let ok = verdict();
                ctx.require(ok == accepts_today, "ok_iff_in_range", &format!("negzero:{}:{}", field, if ok { "now-accepted" } else { "now-rejected" }),
                    || format!("{} = -0.0 is {} by checking; the reading of the documented range for -0.0 (the guard as of the pinned tree) is {}", field, if ok { "accepted" } else { "rejected" }, if accepts_today { "accepted" } else { "rejected" }));
                "-".to_string()
            });
        };
        one(em, "Platt.minstep", false, &|| Platt::<f64, FirstColumn>::params().minstep(nz).check_ref().is_ok());
        one(em, "Platt.sigma", false, &|| Platt::<f64, FirstColumn>::params().sigma(nz).check_ref().is_ok());
        one(em, "Gmm.reg_covar", true, &|| linfa_clustering::GaussianMixtureModel::<f64>::params_with_rng(2, rng7()).reg_covariance(nz).check_ref().is_ok());
        one(em, "ElasticNet.penalty", false, &|| linfa_elasticnet::ElasticNet::<f64>::params().penalty(nz).check_ref().is_ok());
        one(em, "ElasticNet.l1_ratio", true, &|| linfa_elasticnet::ElasticNet::<f64>::params().l1_ratio(nz).check_ref().is_ok());
        one(em, "ElasticNet.tolerance", false, &|| linfa_elasticnet::ElasticNet::<f64>::params().tolerance(nz).check_ref().is_ok());
        one(em, "Logistic.alpha", true, &|| linfa_logistic::LogisticRegression::<f64>::default().alpha(nz).check_ref().is_ok());
        one(em, "Tweedie.alpha", false, &|| linfa_linear::TweedieRegressor::<f64>::params().alpha(nz).check_ref().is_ok());
        one(em, "Tweedie.power", true, &|| linfa_linear::TweedieRegressor::<f64>::params().power(nz).check_ref().is_ok());
        one(em, "Svm.eps", false, &|| linfa_svm::Svm::<f64, bool>::params().eps(nz).check_ref().is_ok());
        one(em, "GaussianNb.var_smoothing", false, &|| linfa_bayes::GaussianNb::<f64, usize>::params().var_smoothing(nz).check_ref().is_ok());
        one(em, "MultinomialNb.alpha", false, &|| linfa_bayes::MultinomialNb::<f64, usize>::params().alpha(nz).check_ref().is_ok());
        one(em, "Ftrl.l1_ratio", true, &|| linfa_ftrl::Ftrl::<f64>::params_with_rng(rng7()).l1_ratio(nz).check_ref().is_ok());
        one(em, "Ftrl.l2_ratio", true, &|| linfa_ftrl::Ftrl::<f64>::params_with_rng(rng7()).l2_ratio(nz).check_ref().is_ok());
        one(em, "Ftrl.alpha", false, &|| linfa_ftrl::Ftrl::<f64>::params_with_rng(rng7()).alpha(nz).check_ref().is_ok());
        one(em, "Ftrl.beta", false, &|| linfa_ftrl::Ftrl::<f64>::params_with_rng(rng7()).beta(nz).check_ref().is_ok());
        one(em, "PlsRegression.tolerance", false, &|| linfa_pls::PlsRegression::<f64>::params(1).tolerance(nz).check_ref().is_ok());
        one(em, "TSne.perplexity", false, &|| linfa_tsne::TSneParams::embedding_size_with_rng(2, rng7()).perplexity(nz).check_ref().is_ok());
        one(em, "TSne.approx_threshold", false, &|| linfa_tsne::TSneParams::embedding_size_with_rng(2, rng7()).approx_threshold(nz).check_ref().is_ok());
        one(em, "FastIca.tol", true, &|| linfa_ica::fast_ica::FastIca::<f64>::params().tol(nz).check_ref().is_ok());
        one(em, "Hierarchical.max_distance", false, &|| linfa_hierarchical::HierarchicalCluster::<f64>::default().max_distance(nz).check_ref().is_ok());
        one(em, "CountVectorizer.min_freq", true, &|| linfa_preprocessing::CountVectorizer::params().document_frequency(-0.0f32, 0.5).check_ref().is_ok());
        one(em, "DecisionTree.min_impurity_decrease", false, &|| linfa_trees::DecisionTree::<f64, usize>::params().min_impurity_decrease(nz).check_ref().is_ok());
    }
    run_rebuild(em, rng);
    run_round3(em, rng);
    em.count_n("fit_not_exercised(extreme valid values)", NOT_EXERCISED.with(|c| c.get()));
    EXERCISED.with(|m| {
        for (k, v) in m.borrow().iter() {
            em.count_n(k, *v);
        }
    });
    let _ = Pr::new(0.5);
}

// ------------------------------------------------------------------------------------ rebuild setters
//
// Every setter that does NOT assign a guarded field — above all the ones that construct a new parameter struct from
// `self` (`GmmParams::with_rng`, `RandomProjectionParams::with_rng`, the wrapper setters of `TfIdfVectorizer`), but also
// the plain `mut self` ones (`init_method`, `nn_algo`, `dist_fn`, `with_intercept`, `max_iterations`, kernels, …) — is
// applied AFTER the value setters of a grid point (and, for the type-changing ones, BEFORE them as well); in the `rev`
// variant the value setters themselves are called in reverse order.  The request says `rebuild=<variant>`; the model
// applies its rebuild function (identity on the guarded fields, proved) and must give the same line.  `probe` applies
// the whole oracle to the rebuilt builder — verdict against the REQUESTED values, exact checking error from the entry
// point — and `expect` reads every guarded field back from the builder.
fn run_rebuild(em: &mut Em, rng: &mut Rng) {
    use rand::SeedableRng as _;
    let th = em.thorough();
    let cap = if th { 600 } else { 120 };
    let fg = fgrid(false);
    let cg = cgrid(false);
    let (nf, nc) = (fg.len(), cg.len());
    let fb = fg.iter().position(|x| *x == 0.5).unwrap();
    let cb = cg.iter().position(|x| *x == 2).unwrap();
    let small = || rand::rngs::SmallRng::seed_from_u64(11);

    // ---- Gaussian mixture: with_rng (type-changing struct literal) after / before, init_method + covariance_type, rev
    for t in points(&[nc, nf, nf, nc, nc], &[cb, fb, fb, cb, cb], cap, rng) {
        let (k, tol, reg, r, mi) = (cg[t[0]], fg[t[1]], fg[t[2]], cg[t[3]], cg[t[4]]);
        let viol = first(&[(k >= 1, "n_clusters>=1"), (pos(tol), "tolerance>0"), (nonneg(reg), "reg_covar>=0"), (r >= 1, "n_runs>=1"), (mi >= 1, "max_n_iter>=1")]);
        let fin = tol.is_finite() && reg.is_finite();
        for variant in ["with_rng:after", "with_rng:before", "other:init_method+covariance_type:after", "rev"] {
            em.count(&format!("rebuild:Gmm:{}", variant));
            em.case(format!("grid b=Gmm via=fit rebuild={} n_clusters={} tolerance={} reg_covar={} n_runs={} max_n_iter={}", variant, k, h(tol), h(reg), r, mi), |ctx| {
                train_always();
                let b = format!("Gmm:{}", variant);
                let ds = DatasetBase::from(xs());
                let exp = [("n_clusters", dbg(&k)), ("tolerance", dbg(&tol)), ("reg_covar", dbg(&reg)), ("n_runs", dbg(&r)), ("max_n_iter", dbg(&mi))];
                expect(&exp);
                let base = || linfa_clustering::GaussianMixtureModel::params_with_rng(k, rng7());
                match variant {
                    "with_rng:after" => {
                        let p = base().tolerance(tol).reg_covariance(reg).n_runs(r as u64).max_n_iterations(mi as u64).with_rng(small());
                        probe(ctx, &b, || p.clone(), viol.clone(), fin, |p| dbg(p), |c| dbg(c), |e| dbg(&e), |p| res!(p.fit(&ds)), |c| res!(c.fit(&ds)))
                    }
                    "with_rng:before" => {
                        let p = base().with_rng(small()).tolerance(tol).reg_covariance(reg).n_runs(r as u64).max_n_iterations(mi as u64);
                        probe(ctx, &b, || p.clone(), viol.clone(), fin, |p| dbg(p), |c| dbg(c), |e| dbg(&e), |p| res!(p.fit(&ds)), |c| res!(c.fit(&ds)))
                    }
                    "rev" => {
                        let p = base().max_n_iterations(mi as u64).n_runs(r as u64).reg_covariance(reg).tolerance(tol);
                        probe(ctx, &b, || p.clone(), viol.clone(), fin, |p| dbg(p), |c| dbg(c), |e| dbg(&e), |p| res!(p.fit(&ds)), |c| res!(c.fit(&ds)))
                    }
                    _ => {
                        let p = base().tolerance(tol).reg_covariance(reg).n_runs(r as u64).max_n_iterations(mi as u64).init_method(linfa_clustering::GmmInitMethod::Random).covariance_type(linfa_clustering::GmmCovarType::Full);
                        probe(ctx, &b, || p.clone(), viol.clone(), fin, |p| dbg(p), |c| dbg(c), |e| dbg(&e), |p| res!(p.fit(&ds)), |c| res!(c.fit(&ds)))
                    }
                }
            });
        }
    }
    // ---- random projection: with_rng (type-changing) after / before the Dimension | Epsilon setter
    {
        let mut vs: Vec<(String, Option<usize>, Option<f64>)> = vec![];
        for d in &cg {
            vs.push((format!("Dimension:{}", d), Some(*d), None));
        }
        for e in &fg {
            vs.push((format!("Epsilon:{}", h(*e)), None, Some(*e)));
        }
        for (s, d, e) in vs {
            let viol = match (d, e) {
                (Some(d), _) => first(&[(d >= 1, "target_dim>=1")]),
                (_, Some(e)) => first(&[(e > 0.0 && e < 1.0, "0<eps<1")]),
                _ => None,
            };
            let finite = e.map_or(true, |e| e.is_finite());
            for variant in ["with_rng:after", "with_rng:before"] {
                em.count(&format!("rebuild:RandomProjection:{}", variant));
                macro_rules! rp {
                    ($kind:expr, $ty:ident) => {
                        em.case(format!("grid b=RandomProjection via=fit rebuild={} kind={} params={}", variant, $kind, s), |ctx| {
                            train_always();
                            macro_rules! set {
                                ($p:expr) => {{
                                    let mut p = $p;
                                    if let Some(d) = d {
                                        p = p.target_dim(d);
                                    }
                                    if let Some(e) = e {
                                        p = p.eps(e);
                                    }
                                    p
                                }};
                            }
                            let ds = DatasetBase::from(xs());
                            let b = format!("RandomProjection:{}", variant);
                            // the unchecked builder has neither Debug nor accessors: the values are read back from the
                            // checked form (`probe` requires the printed unchecked side to contain the checked one)
                            if variant == "with_rng:after" {
                                let mk = || set!(linfa_reduction::random_projection::$ty::<f64>::params_with_rng(rng7())).with_rng(small());
                                probe(ctx, &b, mk, viol.clone(), finite, |_| format!("{:?}/{:?}", d, e), |c| format!("{:?}/{:?}", c.target_dim(), c.eps()), |e| dbg(&e),
                                    |p| p.fit(&ds).map(|_| "model".to_string()).map_err(|e| dbg(&e)), |c| c.fit(&ds).map(|_| "model".to_string()).map_err(|e| dbg(&e)))
                            } else {
                                let mk = || set!(linfa_reduction::random_projection::$ty::<f64>::params_with_rng(rng7()).with_rng(small()));
                                probe(ctx, &b, mk, viol.clone(), finite, |_| format!("{:?}/{:?}", d, e), |c| format!("{:?}/{:?}", c.target_dim(), c.eps()), |e| dbg(&e),
                                    |p| p.fit(&ds).map(|_| "model".to_string()).map_err(|e| dbg(&e)), |c| c.fit(&ds).map(|_| "model".to_string()).map_err(|e| dbg(&e)))
                            }
                        });
                    };
                }
                rp!("gaussian", GaussianRandomProjection);
                rp!("sparse", SparseRandomProjection);
            }
        }
    }
    // ---- k-means: init_method after the value setters; value setters reversed
    for t in points(&[nc, nc, nf, nc], &[cb, cb, fb, cb], cap, rng) {
        let (k, r, tol, mi) = (cg[t[0]], cg[t[1]], fg[t[2]], cg[t[3]]);
        for variant in ["other:init_method:after", "rev"] {
            em.count(&format!("rebuild:KMeans:{}", variant));
            em.case(format!("grid b=KMeans via=fit rebuild={} n_clusters={} n_runs={} tolerance={} max_n_iterations={}", variant, k, r, h(tol), mi), |ctx| {
                train_always();
                let base = || linfa_clustering::KMeans::params_with(k, rng7(), linfa_nn::distance::L2Dist);
                let p = if variant == "rev" { base().max_n_iterations(mi as u64).tolerance(tol).n_runs(r) } else { base().n_runs(r).tolerance(tol).max_n_iterations(mi as u64).init_method(linfa_clustering::KMeansInit::Random) };
                let viol = first(&[(k >= 1, "n_clusters>=1"), (r >= 1, "n_runs>=1"), (pos(tol), "tolerance>0"), (mi >= 1, "max_n_iterations>=1")]);
                let ds = DatasetBase::from(xs());
                expect(&[("n_clusters", dbg(&k)), ("n_runs", dbg(&r)), ("tolerance", dbg(&tol)), ("max_n_iterations", dbg(&mi))]);
                probe(ctx, &format!("KMeans:{}", variant), || p.clone(), viol, tol.is_finite(), |p| dbg(p), |c| dbg(c), |e| format!("InvalidParams({:?})", e), |p| res!(p.fit(&ds)), |c| res!(c.fit(&ds)))
            });
        }
    }
    // ---- DBSCAN / OPTICS: nn_algo and dist_fn after the tolerance
    for t in points(&[nc, nf], &[cb, fb], cap, rng) {
        let (mp, tol) = (cg[t[0]], fg[t[1]]);
        let variant = "other:nn_algo+dist_fn:after";
        em.count("rebuild:Dbscan");
        em.case(format!("grid b=Dbscan via=transform rebuild={} min_points={} tolerance={}", variant, mp, h(tol)), |ctx| {
            train_always();
            let p = linfa_clustering::Dbscan::params(mp).tolerance(tol).nn_algo(linfa_nn::CommonNearestNeighbour::BallTree).dist_fn(linfa_nn::distance::L2Dist);
            let viol = first(&[(mp >= 2, "min_points>=2"), (pos(tol), "tolerance>0")]);
            let x = xs();
            expect(&[("min_points", dbg(&mp)), ("tolerance", dbg(&tol))]);
            probe(ctx, &format!("Dbscan:{}", variant), || p.clone(), viol, tol.is_finite(), |p| dbg(p), |c| dbg(c), |e| dbg(&e), |p| res!(p.transform(&x)), |c| Ok(dbg(&c.transform(&x))))
        });
        em.count("rebuild:Optics");
        em.case(format!("grid b=Optics via=transform rebuild={} tolerance={} min_points={}", variant, h(tol), mp), |ctx| {
            train_always();
            let p = linfa_clustering::Optics::params(mp).tolerance(tol).nn_algo(linfa_nn::CommonNearestNeighbour::BallTree).dist_fn(linfa_nn::distance::L2Dist);
            let viol = first(&[(pos(tol), "tolerance>0"), (mp >= 2, "min_points>=2")]);
            let x = xs();
            expect(&[("min_points", dbg(&mp)), ("tolerance", dbg(&tol))]);
            probe(ctx, &format!("Optics:{}", variant), || p.clone(), viol, tol.is_finite(), |p| dbg(p), |c| dbg(c), |e| dbg(&e), |p| res!(p.transform(x.view())), |c| Ok(dbg(&c.transform(x.view()))))
        });
    }
    // ---- elastic net (single task): with_intercept + max_iterations after; reversed
    for t in points(&[nf, nf, nf], &[fb, fb, fb], cap, rng) {
        let (pen, l1, tol) = (fg[t[0]], fg[t[1]], fg[t[2]]);
        let viol = first(&[(nonneg(pen), "penalty>=0"), (unit(l1), "0<=l1_ratio<=1"), (nonneg(tol), "tolerance>=0")]);
        let finite = pen.is_finite() && l1.is_finite() && tol.is_finite();
        for variant in ["other:with_intercept+max_iterations:after", "rev"] {
            em.count(&format!("rebuild:ElasticNet:{}", variant));
            em.case(format!("grid b=ElasticNet task=single via=fit rebuild={} penalty={} l1_ratio={} tolerance={}", variant, h(pen), h(l1), h(tol)), |ctx| {
                train_always();
                let base = || linfa_elasticnet::ElasticNet::<f64>::params();
                let p = if variant == "rev" { base().max_iterations(50).tolerance(tol).l1_ratio(l1).penalty(pen) } else { base().penalty(pen).l1_ratio(l1).tolerance(tol).with_intercept(false).max_iterations(30) };
                let ds = DatasetBase::new(xs(), ys_f());
                expect(&[("penalty", dbg(&pen)), ("l1_ratio", dbg(&l1)), ("tolerance", dbg(&tol))]);
                probe(ctx, &format!("ElasticNet:{}", variant), || p.clone(), viol.clone(), finite, |p| dbg(p), |c| dbg(c), |e| dbg(&e), |p| res!(p.fit(&ds)), |c| res!(c.fit(&ds)))
            });
        }
    }
    // ---- logistic (binary) and Tweedie: intercept / iteration setters after
    for t in points(&[nf, nf], &[fb, fb], cap, rng) {
        let (a, g) = (fg[t[0]], fg[t[1]]);
        {
            let variant = "other:with_intercept+max_iterations:after";
            em.count("rebuild:Logistic");
            em.case(format!("grid b=Logistic kind=binary via=fit rebuild={} alpha={} gradient_tolerance={} initial_params=none", variant, h(a), h(g)), |ctx| {
                set_moderate(&[a, g]);
                let p = linfa_logistic::LogisticRegression::<f64>::default().alpha(a).gradient_tolerance(g).with_intercept(false).max_iterations(10);
                let viol = first(&[(nonneg(a), "alpha>=0"), (pos(g), "gradient_tolerance>0")]);
                let ds = DatasetBase::new(xs(), ys_b());
                expect(&[("alpha", dbg(&a)), ("gradient_tolerance", dbg(&g))]);
                doc_finite(!(a.is_finite() && g.is_finite()));
                probe(ctx, &format!("Logistic:{}", variant), || p.clone(), viol, a.is_finite() && g.is_finite(), |p| dbg(p), |c| dbg(c), |e| dbg(&e), |p| res!(p.fit(&ds)), |c| res!(c.fit(&ds)))
            });
        }
        {
            // (`fit_intercept(false)` is not among them: with power = 1, alpha = 0.5 and no intercept the L-BFGS line search of
            //  the checked AND the unchecked form does not return on the 12-row dataset)
            let variant = "other:max_iter+tol:after";
            em.count("rebuild:Tweedie");
            em.case(format!("grid b=Tweedie via=fit rebuild={} alpha={} power={}", variant, h(a), h(g)), |ctx| {
                set_moderate(&[a, g]);
                let p = linfa_linear::TweedieRegressor::<f64>::params().alpha(a).power(g).max_iter(10).tol(1e-3);
                let viol = first(&[(nonneg(a), "alpha>=0"), (g.is_finite() && (g <= 0.0 || g >= 1.0), "power not in (0,1)")]);
                let ds = DatasetBase::new(xs(), ys_f());
                expect(&[("alpha", dbg(&a)), ("power", dbg(&g))]);
                probe(ctx, &format!("Tweedie:{}", variant), || p.clone(), viol, a.is_finite() && g.is_finite(), |p| dbg(p), |c| dbg(c), |e| dbg(&e), |p| res!(p.fit(&ds)), |c| res!(c.fit(&ds)))
            });
        }
    }
    // ---- SVM: kernel / shrinking setters after eps and the weights
    for v in &fg {
        let eps = *v;
        let variant = "other:shrinking+gaussian_kernel:after";
        em.count("rebuild:Svm");
        em.case(format!("grid b=Svm via=fit rebuild={} platt.maxiter=100 platt.minstep={} platt.sigma={} solver_params_eps={} c={},{} nu=none", variant, h(1e-10), h(1e-12), h(eps), h(1.0), h(0.5)), |ctx| {
            set_moderate(&[eps]);
            let platt = Platt::<f64, ()>::params().maxiter(100).minstep(1e-10).sigma(1e-12);
            let p = linfa_svm::Svm::<f64, bool>::params().with_platt_params(platt).eps(eps).pos_neg_weights(1.0, 0.5).shrinking(true).gaussian_kernel(2.0);
            let viol = first(&[(nonneg(eps), "eps>=0")]);
            let ds = DatasetBase::new(xs(), ys_b());
            let runnable = eps >= 1e-4;
            expect(&[("eps", dbg(&eps)), ("c", "Some((1.0, 0.5))".to_string()), ("nu", "None".to_string())]);
            probe(ctx, &format!("Svm:{}", variant), || p.clone(), viol, eps.is_finite(), |p| dbg(p), |c| dbg(c), |e| dbg(&e),
                |p| if runnable || p.check_ref().is_err() { res!(p.fit(&ds)) } else { Ok("skipped".into()) },
                |c| if runnable { res!(c.fit(&ds)) } else { Ok("skipped".into()) })
        });
    }
    // ---- decision tree, FastICA: the other setters after the guarded one
    for v in &fg {
        let x = *v;
        {
            let variant = "other:split_quality+max_depth+min_weight_split+min_weight_leaf:after";
            em.count("rebuild:DecisionTree");
            em.case(format!("grid b=DecisionTree carrier=f64 via=fit rebuild={} min_impurity_decrease={}", variant, h(x)), |ctx| {
                train_always();
                let p = linfa_trees::DecisionTree::<f64, usize>::params().min_impurity_decrease(x).split_quality(linfa_trees::SplitQuality::Entropy).max_depth(Some(3)).min_weight_split(2.0).min_weight_leaf(1.0);
                let viol = first(&[(x.is_finite() && x >= EPS, "min_impurity_decrease>=eps")]);
                let ds = DatasetBase::new(xs(), ys_u());
                expect(&[("min_impurity_decrease", dbg(&x))]);
                probe(ctx, &format!("DecisionTree:{}", variant), || p.clone(), viol, x.is_finite(), |p| dbg(p), |c| dbg(c), |e| dbg(&e),
                    |p| p.fit(&ds).map(|m| dbg(&m.predict(&xs()))).map_err(|e| dbg(&e)), |c| c.fit(&ds).map(|m| dbg(&m.predict(&xs()))).map_err(|e| dbg(&e)))
            });
        }
        {
            let variant = "other:ncomponents+gfunc+max_iter+random_state:after";
            em.count("rebuild:FastIca");
            em.case(format!("grid b=FastIca via=fit rebuild={} tol={}", variant, h(x)), |ctx| {
                train_always();
                let p = linfa_ica::fast_ica::FastIca::<f64>::params().tol(x).ncomponents(2).gfunc(linfa_ica::fast_ica::GFunc::Exp).max_iter(10).random_state(3);
                let viol = first(&[(nonneg(x), "tol>=0")]);
                let ds = DatasetBase::from(xs());
                expect(&[("tol", dbg(&x))]);
                probe(ctx, &format!("FastIca:{}", variant), || p.clone(), viol, x.is_finite(), |p| dbg(p), |c| dbg(c), |e| dbg(&e), |p| res!(p.fit(&ds)), |c| res!(c.fit(&ds)))
            });
        }
    }
    // ---- FTRL: rng setter after; reversed
    for t in points(&[nf, nf, nf, nf], &[fb, fb, fb, fb], cap, rng) {
        let (l1, l2, al, be) = (fg[t[0]], fg[t[1]], fg[t[2]], fg[t[3]]);
        for variant in ["other:rng:after", "rev"] {
            em.count(&format!("rebuild:Ftrl:{}", variant));
            em.case(format!("grid b=Ftrl via=fit_with rebuild={} l1_ratio={} l2_ratio={} alpha={} beta={}", variant, h(l1), h(l2), h(al), h(be)), |ctx| {
                train_always();
                let base = || linfa_ftrl::Ftrl::<f64>::params_with_rng(rng7());
                let p = if variant == "rev" { base().beta(be).alpha(al).l2_ratio(l2).l1_ratio(l1) } else { base().l1_ratio(l1).l2_ratio(l2).alpha(al).beta(be).rng(rng7()) };
                let viol = first(&[(unit(l1), "0<=l1_ratio<=1"), (unit(l2), "0<=l2_ratio<=1"), (nonneg(al), "alpha>=0"), (nonneg(be), "beta>=0")]);
                let ds = DatasetBase::new(xs(), ys_b());
                expect(&[("l1_ratio", dbg(&l1)), ("l2_ratio", dbg(&l2)), ("alpha", dbg(&al)), ("beta", dbg(&be))]);
                doc_finite(!(l1.is_finite() && l2.is_finite() && al.is_finite() && be.is_finite()));
                probe(ctx, &format!("Ftrl:{}", variant), || p.clone(), viol, l1.is_finite() && l2.is_finite() && al.is_finite() && be.is_finite(), |p| dbg(p), |c| dbg(c), |e| dbg(&e),
                    |p| res!(p.fit_with(None, &ds)), |c| res!(c.fit_with(None, &ds)))
            });
        }
    }
    // ---- PLS regression: scale + algorithm after; reversed (no Debug / accessors: outcome only)
    for t in points(&[nf, nc], &[fb, cb], cap, rng) {
        let (tol, mi) = (fg[t[0]], cg[t[1]]);
        let viol = first(&[(nonneg(tol), "tolerance>=0"), (mi >= 1, "max_iter>=1")]);
        for variant in ["other:scale+algorithm:after", "rev"] {
            em.count(&format!("rebuild:Pls:{}", variant));
            em.case(format!("grid b=PlsMacro kind=regression via=fit rebuild={} tolerance={} max_iter={}", variant, h(tol), mi), |ctx| {
                train_always();
                let mk = || if variant == "rev" { linfa_pls::PlsRegression::<f64>::params(1).max_iterations(mi).tolerance(tol) } else { linfa_pls::PlsRegression::<f64>::params(1).tolerance(tol).max_iterations(mi).scale(false).algorithm(linfa_pls::Algorithm::Nipals) };
                let ds = DatasetBase::new(xs(), ys_2());
                doc_finite(!tol.is_finite());
                probe(ctx, &format!("PlsMacro:{}", variant), mk, viol.clone(), tol.is_finite(), |_| "PlsParams".to_string(), |_| "PlsParams".to_string(), |e| dbg(&e),
                    |p| p.fit(&ds).map(|m| dbg(&m.weights())).map_err(|e| dbg(&e)), |c| c.fit(&ds).map(|m| dbg(&m.weights())).map_err(|e| dbg(&e)))
            });
        }
    }
    // ---- t-SNE: iteration setters after; reversed
    for t in points(&[nf, nf], &[fb, fb], cap, rng) {
        let (pe, th_) = (fg[t[0]], fg[t[1]]);
        for variant in ["other:max_iter+preliminary_iter:after", "rev"] {
            em.count(&format!("rebuild:TSne:{}", variant));
            em.case(format!("grid b=TSne via=try:array rebuild={} perplexity={} approx_threshold={}", variant, h(pe), h(th_)), |ctx| {
                set_moderate(&[pe, th_]);
                let base = || linfa_tsne::TSneParams::embedding_size_with_rng(2, rng7());
                let p = if variant == "rev" { base().max_iter(3).approx_threshold(th_).perplexity(pe) } else { base().perplexity(pe).approx_threshold(th_).max_iter(3).preliminary_iter(1) };
                let viol = first(&[(nonneg(pe), "perplexity>=0"), (nonneg(th_), "approx_threshold>=0")]);
                let runnable = pe.is_finite() && th_.is_finite() && pe >= 0.5 && pe <= 2.0;
                expect(&[("perplexity", dbg(&pe)), ("approx_threshold", dbg(&th_))]);
                probe(ctx, &format!("TSne:{}", variant), || p.clone(), viol, pe.is_finite() && th_.is_finite(), |p| dbg(p), |c| dbg(c), |e| dbg(&e),
                    |p| if runnable || p.check_ref().is_err() { p.transform(xs()).map(|m| dbg(&m.dim())).map_err(|e| dbg(&e)) } else { Ok("skipped".into()) },
                    |c| if runnable { c.transform(xs()).map(|m| dbg(&m.dim())).map_err(|e| dbg(&e)) } else { Ok("skipped".into()) })
            });
        }
    }
    // ---- hierarchical clustering: with_method after the stopping criterion
    {
        let mut vs: Vec<(String, Option<usize>, Option<f64>)> = vec![];
        for d in &cg {
            vs.push((format!("NumClusters:{}", d), Some(*d), None));
        }
        for e in &fg {
            vs.push((format!("Distance:{}", h(*e)), None, Some(*e)));
        }
        for (s, d, e) in vs {
            let viol = match (d, e) {
                (Some(d), _) => first(&[(d >= 1, "num_clusters>=1")]),
                (_, Some(e)) => first(&[(nonneg(e), "max_distance>=0")]),
                _ => None,
            };
            let variant = "other:with_method:after";
            em.count("rebuild:Hierarchical");
            em.case(format!("grid b=Hierarchical via=transform rebuild={} stopping={}", variant, s), |ctx| {
                train_always();
                let mut p = linfa_hierarchical::HierarchicalCluster::<f64>::default();
                if let Some(d) = d {
                    p = p.num_clusters(d);
                    expect(&[("stopping", format!("NumClusters({:?})", d))]);
                }
                if let Some(e) = e {
                    p = p.max_distance(e);
                    expect(&[("stopping", format!("Distance({:?})", e))]);
                }
                p = p.with_method(linfa_hierarchical::Method::Single);
                doc_finite(e.map_or(false, |e| !e.is_finite()));
                probe(ctx, &format!("Hierarchical:{}", variant), || p.clone(), viol.clone(), e.map_or(true, |e| e.is_finite()), |p| dbg(p), |c| dbg(c), |e| dbg(&e),
                    |p| p.transform(kernel()).map(|d| canon(d.targets())).map_err(|e| dbg(&e)), |c| Ok(canon(c.transform(kernel()).targets())))
            });
        }
    }
    // ---- count vectoriser and the TfIdfVectorizer wrapper (all of whose setters rebuild the wrapper): the setters
    //      that do not touch a guarded field after the guarded ones; reversed
    {
        let f32g = fgrid32(false);
        let n32 = f32g.len();
        let b32 = f32g.iter().position(|x| *x == 0.5).unwrap();
        let ng: Vec<usize> = vec![0, 1, 2, 3];
        let texts = ["one two three four", "one two three", "one two", "one five six"];
        for t in points(&[ng.len(), ng.len(), n32, n32, 2], &[1, 2, 2, b32, 1], cap, rng) {
            let (a, b, lo, hi, rok) = (ng[t[0]], ng[t[1]], f32g[t[2]], f32g[t[3]], t[4] == 1);
            for (variant, form) in [("other:max_features+convert_to_lowercase+normalize+stopwords:after", "and_then:fit"), ("rev", "and_then:fit"), ("other:max_features+convert_to_lowercase+normalize+stopwords:after", "wrap:tfidf_fit"), ("rev", "wrap:tfidf_fit")] {
                em.count(&format!("rebuild:CountVectorizer:{}", form));
                em.case(format!("grid b=CountVectorizer via={} rebuild={} n_gram_range={},{} document_frequency={},{} split_regex_ok={}", form, variant, a, b, h(lo), h(hi), rok as u8), |ctx| {
                    train_always();
                    let bad = || linfa_preprocessing::Tokenizer::Regex("(unclosed".to_string());
                    let (mut p, mut tf) = (linfa_preprocessing::CountVectorizer::params(), linfa_preprocessing::tf_idf_vectorization::TfIdfVectorizer::default());
                    if variant == "rev" {
                        if !rok {
                            p = p.tokenizer(bad());
                            tf = tf.tokenizer(bad());
                        }
                        p = p.document_frequency(lo as f32, hi as f32).n_gram_range(a, b);
                        tf = tf.document_frequency(lo as f32, hi as f32).n_gram_range(a, b);
                    } else {
                        p = p.n_gram_range(a, b).document_frequency(lo as f32, hi as f32);
                        tf = tf.n_gram_range(a, b).document_frequency(lo as f32, hi as f32);
                        if !rok {
                            p = p.tokenizer(bad());
                            tf = tf.tokenizer(bad());
                        }
                        p = p.max_features(Some(50)).convert_to_lowercase(false).normalize(false).stopwords(&["zzz"]);
                        tf = tf.max_features(Some(50)).convert_to_lowercase(false).normalize(false).stopwords(&["zzz"]);
                    }
                    let viol = first(&[(a >= 1 && b >= 1, "n_gram>=1"), (a <= b, "min_n<=max_n"), (unit(lo), "0<=min_freq<=1"), (unit(hi), "0<=max_freq<=1"), (lo <= hi, "min_freq<=max_freq"), (rok, "regex valid")]);
                    let docs = Array1::from(texts.to_vec());
                    let show = |s: String| -> String {
                        match (s.find("split_regex: "), s.find("n_gram_range: ")) {
                            (Some(i), Some(j)) if i < j => format!("{}{}", &s[..i], &s[j..]),
                            _ => s,
                        }
                    };
                    let voc = |v: &Vec<String>| { let mut v = v.clone(); v.sort(); dbg(&v) };
                    // the wrapper has Debug: its inner builder must hold the requested values too
                    let tf_text = dbg(&tf);
                    for (name, val) in [("n_gram_range", dbg(&(a, b))), ("document_frequency", dbg(&(lo as f32, hi as f32)))] {
                        ctx.require(has_field(&tf_text, name, &val), "params_unchanged", &format!("TfIdfVectorizer:{}:readback:{}", variant, name), || format!("after all setter calls the TfIdfVectorizer does not hold {} = {}: {}", name, val, tf_text));
                    }
                    expect(&[("n_gram_range", dbg(&(a, b))), ("document_frequency", dbg(&(lo as f32, hi as f32)))]);
                    let bname = format!("CountVectorizer:{}:{}", form.split(':').nth(1).unwrap(), variant);
                    probe(ctx, &bname, || p.clone(), viol, lo.is_finite() && hi.is_finite(), |p| show(dbg(p)), |c| show(dbg(c)), |e| dbg(&e),
                        |p| if form == "and_then:fit" { p.fit(&docs).map(|m| voc(m.vocabulary())).map_err(|e| dbg(&e)) } else { tf.fit(&docs).map(|m| voc(m.vocabulary())).map_err(|e| dbg(&e)) },
                        |c| c.fit(&docs).map(|m| voc(m.vocabulary())).map_err(|e| dbg(&e)))
                });
            }
        }
    }
    // ---- Platt, diffusion map: value setters reversed (they have no other setter)
    for t in points(&[nc, nf, nf], &[cb, fb, fb], cap, rng) {
        let (mi, ms, sg) = (cg[t[0]], fg[t[1]], fg[t[2]]);
        em.count("rebuild:Platt:rev");
        em.case(format!("grid b=Platt via=fit_with rebuild=rev maxiter={} minstep={} sigma={}", mi, h(ms), h(sg)), |ctx| {
            set_moderate(&[ms, sg]);
            let p = Platt::<f64, FirstColumn>::params().sigma(sg).minstep(ms).maxiter(mi);
            let viol = first(&[(mi >= 1, "maxiter>=1"), (nonneg(ms), "minstep>=0"), (nonneg(sg), "sigma>=0")]);
            let ds = DatasetBase::new(xs(), ys_b());
            expect(&[("maxiter", dbg(&mi)), ("minstep", dbg(&ms)), ("sigma", dbg(&sg))]);
            probe(ctx, "Platt:rev", || p.clone(), viol, ms.is_finite() && sg.is_finite(), |p| dbg(p), |c| dbg(c), |e: PlattError| dbg(&e),
                |p| res!(p.fit_with(FirstColumn, &ds)), |c| res!(c.fit_with(FirstColumn, &ds)))
        });
    }
    for t in points(&[nc, nc], &[cb, cb], cap, rng) {
        let (st, es) = (cg[t[0]], cg[t[1]]);
        em.count("rebuild:DiffusionMap:rev");
        em.case(format!("grid b=DiffusionMap via=transform rebuild=rev steps={} embedding_size={}", st, es), |ctx| {
            train_always();
            let p = linfa_reduction::DiffusionMap::<f64>::params(1).steps(st).embedding_size(es);
            let viol = first(&[(st >= 1, "steps>=1"), (es >= 1, "embedding_size>=1")]);
            let k = kernel();
            expect(&[("steps", dbg(&st)), ("embedding_size", dbg(&es))]);
            probe(ctx, "DiffusionMap:rev", || p.clone(), viol, true, |p| dbg(p), |c| dbg(c), |e| dbg(&e), |p| res!(p.transform(&k)), |c| Ok(dbg(&c.transform(&k))))
        });
    }
}

// ------------------------------------------------------------------------------------ round 3 streams
//
// (1) constructors and setters no other stream calls, as further `rebuild=other:…` variants (a setter / constructor that
//     does not assign a guarded field is the identity on the translated `Params`): `KMeans::params_with_rng`,
//     `KMeans::params`, `Optics::params_with`, `Dbscan::params_with`, `GaussianMixtureModel::params`, `Ftrl::params`,
//     `ElasticNet::ridge / lasso` (single and multi task), Tweedie `link`, SVM `linear_kernel` / `polynomial_kernel` /
//     `with_kernel_params`, PlsCanonical / PlsCca `scale + algorithm`, multinomial logistic `with_intercept + max_iterations`;
//     on the one-at-a-time deviations from a valid point.
// (2) setter chains of `CountVectorizerParams` / `TfIdfVectorizer` (`sets=…`): the request carries only the calls; the
//     model runs them through `cvRun` / `tfidfRun`.
// (3) elastic net with `max_iterations=<n>` in the request: `docrange=` is the FULL documented range (parameter table).
// (4) `#docpin`: the documentation lines the two hand transcriptions were read from, pinned by hash.
fn run_round3(em: &mut Em, rng: &mut Rng) {
    let fg = fgrid(false);
    let cg = cgrid(false);
    let (nf, nc) = (fg.len(), cg.len());
    let fb = fg.iter().position(|x| *x == 0.5).unwrap();
    let cb = cg.iter().position(|x| *x == 2).unwrap();
    use linfa_nn::{distance::L2Dist, CommonNearestNeighbour::KdTree};

    // ---- k-means constructors
    for t in points(&[nc, nc, nf, nc], &[cb, cb, fb, cb], 0, rng) {
        let (k, r, tol, mi) = (cg[t[0]], cg[t[1]], fg[t[2]], cg[t[3]]);
        for variant in ["other:ctor_params_with_rng:before", "other:ctor_params:before"] {
            em.count(&format!("rebuild:KMeans:{}", variant));
            em.case(format!("grid b=KMeans via=fit rebuild={} n_clusters={} n_runs={} tolerance={} max_n_iterations={}", variant, k, r, h(tol), mi), |ctx| {
                train_always();
                let viol = first(&[(k >= 1, "n_clusters>=1"), (r >= 1, "n_runs>=1"), (pos(tol), "tolerance>0"), (mi >= 1, "max_n_iterations>=1")]);
                let ds = DatasetBase::from(xs());
                expect(&[("n_clusters", dbg(&k)), ("n_runs", dbg(&r)), ("tolerance", dbg(&tol)), ("max_n_iterations", dbg(&mi))]);
                let b = format!("KMeans:{}", variant);
                if variant == "other:ctor_params:before" {
                    let p = linfa_clustering::KMeans::<f64, L2Dist>::params(k).n_runs(r).tolerance(tol).max_n_iterations(mi as u64);
                    probe(ctx, &b, || p.clone(), viol, tol.is_finite(), |p| dbg(p), |c| dbg(c), |e| format!("InvalidParams({:?})", e), |p| res!(p.fit(&ds)), |c| res!(c.fit(&ds)))
                } else {
                    let p = linfa_clustering::KMeans::<f64, L2Dist>::params_with_rng(k, rng7()).n_runs(r).tolerance(tol).max_n_iterations(mi as u64);
                    probe(ctx, &b, || p.clone(), viol, tol.is_finite(), |p| dbg(p), |c| dbg(c), |e| format!("InvalidParams({:?})", e), |p| res!(p.fit(&ds)), |c| res!(c.fit(&ds)))
                }
            });
        }
    }
    // ---- DBSCAN / OPTICS `params_with`
    for t in points(&[nc, nf], &[cb, fb], 0, rng) {
        let (mp, tol) = (cg[t[0]], fg[t[1]]);
        let variant = "other:ctor_params_with:before";
        em.count("rebuild:Dbscan:ctor");
        em.case(format!("grid b=Dbscan via=transform rebuild={} min_points={} tolerance={}", variant, mp, h(tol)), |ctx| {
            train_always();
            let p = linfa_clustering::Dbscan::params_with(mp, L2Dist, KdTree).tolerance(tol);
            let viol = first(&[(mp >= 2, "min_points>=2"), (pos(tol), "tolerance>0")]);
            let x = xs();
            expect(&[("min_points", dbg(&mp)), ("tolerance", dbg(&tol))]);
            probe(ctx, &format!("Dbscan:{}", variant), || p.clone(), viol, tol.is_finite(), |p| dbg(p), |c| dbg(c), |e| dbg(&e), |p| res!(p.transform(&x)), |c| Ok(dbg(&c.transform(&x))))
        });
        em.count("rebuild:Optics:ctor");
        em.case(format!("grid b=Optics via=transform rebuild={} tolerance={} min_points={}", variant, h(tol), mp), |ctx| {
            train_always();
            let p = linfa_clustering::Optics::params_with(mp, L2Dist, KdTree).tolerance(tol);
            let viol = first(&[(pos(tol), "tolerance>0"), (mp >= 2, "min_points>=2")]);
            let x = xs();
            expect(&[("min_points", dbg(&mp)), ("tolerance", dbg(&tol))]);
            probe(ctx, &format!("Optics:{}", variant), || p.clone(), viol, tol.is_finite(), |p| dbg(p), |c| dbg(c), |e| dbg(&e), |p| res!(p.transform(x.view())), |c| Ok(dbg(&c.transform(x.view()))))
        });
    }
    // ---- Gaussian mixture `params` (default RNG)
    for t in points(&[nc, nf, nf, nc, nc], &[cb, fb, fb, cb, cb], 0, rng) {
        let (k, tol, reg, r, mi) = (cg[t[0]], fg[t[1]], fg[t[2]], cg[t[3]], cg[t[4]]);
        let variant = "other:ctor_params:before";
        em.count("rebuild:Gmm:ctor");
        em.case(format!("grid b=Gmm via=fit rebuild={} n_clusters={} tolerance={} reg_covar={} n_runs={} max_n_iter={}", variant, k, h(tol), h(reg), r, mi), |ctx| {
            train_always();
            let viol = first(&[(k >= 1, "n_clusters>=1"), (pos(tol), "tolerance>0"), (nonneg(reg), "reg_covar>=0"), (r >= 1, "n_runs>=1"), (mi >= 1, "max_n_iter>=1")]);
            let ds = DatasetBase::from(xs());
            expect(&[("n_clusters", dbg(&k)), ("tolerance", dbg(&tol)), ("reg_covar", dbg(&reg)), ("n_runs", dbg(&r)), ("max_n_iter", dbg(&mi))]);
            let p = linfa_clustering::GaussianMixtureModel::<f64>::params(k).tolerance(tol).reg_covariance(reg).n_runs(r as u64).max_n_iterations(mi as u64);
            probe(ctx, &format!("Gmm:{}", variant), || p.clone(), viol, tol.is_finite() && reg.is_finite(), |p| dbg(p), |c| dbg(c), |e| dbg(&e), |p| res!(p.fit(&ds)), |c| res!(c.fit(&ds)))
        });
    }
    // ---- FTRL `params` (default RNG)
    for t in points(&[nf, nf, nf, nf], &[fb, fb, fb, fb], 0, rng) {
        let (l1, l2, al, be) = (fg[t[0]], fg[t[1]], fg[t[2]], fg[t[3]]);
        let variant = "other:ctor_params:before";
        em.count("rebuild:Ftrl:ctor");
        em.case(format!("grid b=Ftrl via=fit_with rebuild={} l1_ratio={} l2_ratio={} alpha={} beta={}", variant, h(l1), h(l2), h(al), h(be)), |ctx| {
            train_always();
            let p = linfa_ftrl::Ftrl::<f64>::params().l1_ratio(l1).l2_ratio(l2).alpha(al).beta(be);
            let viol = first(&[(unit(l1), "0<=l1_ratio<=1"), (unit(l2), "0<=l2_ratio<=1"), (nonneg(al), "alpha>=0"), (nonneg(be), "beta>=0")]);
            let ds = DatasetBase::new(xs(), ys_b());
            expect(&[("l1_ratio", dbg(&l1)), ("l2_ratio", dbg(&l2)), ("alpha", dbg(&al)), ("beta", dbg(&be))]);
            doc_finite(!(l1.is_finite() && l2.is_finite() && al.is_finite() && be.is_finite()));
            probe(ctx, &format!("Ftrl:{}", variant), || p.clone(), viol, l1.is_finite() && l2.is_finite() && al.is_finite() && be.is_finite(), |p| dbg(p), |c| dbg(c), |e| dbg(&e),
                |p| res!(p.fit_with(None, &ds)), |c| res!(c.fit_with(None, &ds)))
        });
    }
    // ---- elastic net `ridge()` / `lasso()` (constructors that pre-set l1_ratio), single and multi task; multi task reversed
    for t in points(&[nf, nf, nf], &[fb, fb, fb], 0, rng) {
        let (pen, l1, tol) = (fg[t[0]], fg[t[1]], fg[t[2]]);
        let viol = first(&[(nonneg(pen), "penalty>=0"), (unit(l1), "0<=l1_ratio<=1"), (nonneg(tol), "tolerance>=0")]);
        let finite = pen.is_finite() && l1.is_finite() && tol.is_finite();
        for (variant, task) in [("other:ctor_ridge:before", "single"), ("other:ctor_lasso:before", "single"), ("other:ctor_ridge:before", "multi"), ("other:ctor_lasso:before", "multi"), ("rev", "multi")] {
            em.count(&format!("rebuild:ElasticNet:{}:{}", task, variant));
            em.case(format!("grid b=ElasticNet task={} via=fit rebuild={} penalty={} l1_ratio={} tolerance={}", task, variant, h(pen), h(l1), h(tol)), |ctx| {
                train_always();
                expect(&[("penalty", dbg(&pen)), ("l1_ratio", dbg(&l1)), ("tolerance", dbg(&tol))]);
                let b = format!("ElasticNet:{}:{}", task, variant);
                if task == "single" {
                    let base = if variant.contains("ridge") { linfa_elasticnet::ElasticNet::<f64>::ridge() } else { linfa_elasticnet::ElasticNet::<f64>::lasso() };
                    let p = base.penalty(pen).l1_ratio(l1).tolerance(tol).max_iterations(50);
                    let ds = DatasetBase::new(xs(), ys_f());
                    probe(ctx, &b, || p.clone(), viol.clone(), finite, |p| dbg(p), |c| dbg(c), |e| dbg(&e), |p| res!(p.fit(&ds)), |c| res!(c.fit(&ds)))
                } else {
                    let p = match variant {
                        "rev" => linfa_elasticnet::MultiTaskElasticNet::<f64>::params().max_iterations(50).tolerance(tol).l1_ratio(l1).penalty(pen),
                        v if v.contains("ridge") => linfa_elasticnet::MultiTaskElasticNet::<f64>::ridge().penalty(pen).l1_ratio(l1).tolerance(tol).max_iterations(50),
                        _ => linfa_elasticnet::MultiTaskElasticNet::<f64>::lasso().penalty(pen).l1_ratio(l1).tolerance(tol).max_iterations(50),
                    };
                    let ds = DatasetBase::new(xs(), ys_2());
                    probe(ctx, &b, || p.clone(), viol.clone(), finite, |p| dbg(p), |c| dbg(c), |e| dbg(&e), |p| res!(p.fit(&ds)), |c| res!(c.fit(&ds)))
                }
            });
        }
    }
    // ---- Tweedie `link`, multinomial logistic `with_intercept + max_iterations`
    for t in points(&[nf, nf], &[fb, fb], 0, rng) {
        let (a, g) = (fg[t[0]], fg[t[1]]);
        {
            let variant = "other:link:after";
            em.count("rebuild:Tweedie:link");
            em.case(format!("grid b=Tweedie via=fit rebuild={} alpha={} power={}", variant, h(a), h(g)), |ctx| {
                set_moderate(&[a, g]);
                let p = linfa_linear::TweedieRegressor::<f64>::params().alpha(a).power(g).max_iter(10).link(linfa_linear::Link::Log);
                let viol = first(&[(nonneg(a), "alpha>=0"), (g.is_finite() && (g <= 0.0 || g >= 1.0), "power not in (0,1)")]);
                let ds = DatasetBase::new(xs(), ys_f());
                expect(&[("alpha", dbg(&a)), ("power", dbg(&g))]);
                // (a valid builder is NOT trained here: with an explicit Log link and power = -1, alpha = 0.5 the L-BFGS line
                //  search of the checked and the unchecked form alike does not return on the 12-row dataset; verdicts,
                //  read-back and the exact error of `fit` on every invalid point are still compared)
                probe(ctx, &format!("Tweedie:{}", variant), || p.clone(), viol, a.is_finite() && g.is_finite(), |p| dbg(p), |c| dbg(c), |e| dbg(&e),
                    |p| if p.check_ref().is_err() { res!(p.fit(&ds)) } else { Ok("skipped".into()) }, |_c| Ok("skipped".into()))
            });
        }
        {
            let variant = "other:with_intercept+max_iterations:after";
            em.count("rebuild:Logistic:multi");
            em.case(format!("grid b=Logistic kind=multi via=fit rebuild={} alpha={} gradient_tolerance={} initial_params=none", variant, h(a), h(g)), |ctx| {
                set_moderate(&[a, g]);
                let p = linfa_logistic::MultiLogisticRegression::<f64>::default().alpha(a).gradient_tolerance(g).with_intercept(false).max_iterations(10);
                let viol = first(&[(nonneg(a), "alpha>=0"), (pos(g), "gradient_tolerance>0")]);
                let ds = DatasetBase::new(xs(), ys_u());
                expect(&[("alpha", dbg(&a)), ("gradient_tolerance", dbg(&g))]);
                doc_finite(!(a.is_finite() && g.is_finite()));
                probe(ctx, &format!("Logistic:multi:{}", variant), || p.clone(), viol, a.is_finite() && g.is_finite(), |p| dbg(p), |c| dbg(c), |e| dbg(&e), |p| res!(p.fit(&ds)), |c| res!(c.fit(&ds)))
            });
        }
    }
    // ---- SVM: the other kernel setters after eps and the weights
    for v in &fg {
        let eps = *v;
        for variant in ["other:linear_kernel:after", "other:polynomial_kernel:after", "other:with_kernel_params:after"] {
            em.count("rebuild:Svm:kernels");
            em.case(format!("grid b=Svm via=fit rebuild={} platt.maxiter=100 platt.minstep={} platt.sigma={} solver_params_eps={} c={},{} nu=none", variant, h(1e-10), h(1e-12), h(eps), h(1.0), h(0.5)), |ctx| {
                set_moderate(&[eps]);
                let platt = Platt::<f64, ()>::params().maxiter(100).minstep(1e-10).sigma(1e-12);
                let p = linfa_svm::Svm::<f64, bool>::params().with_platt_params(platt).eps(eps).pos_neg_weights(1.0, 0.5);
                let p = match variant {
                    "other:linear_kernel:after" => p.linear_kernel(),
                    "other:polynomial_kernel:after" => p.polynomial_kernel(1.0, 2.0),
                    _ => p.with_kernel_params(linfa_kernel::Kernel::params().method(linfa_kernel::KernelMethod::Gaussian(2.0))),
                };
                let viol = first(&[(nonneg(eps), "eps>=0")]);
                let ds = DatasetBase::new(xs(), ys_b());
                let runnable = eps >= 1e-4;
                expect(&[("eps", dbg(&eps)), ("c", "Some((1.0, 0.5))".to_string()), ("nu", "None".to_string())]);
                doc_finite(!eps.is_finite());
                probe(ctx, &format!("Svm:{}", variant), || p.clone(), viol, eps.is_finite(), |p| dbg(p), |c| dbg(c), |e| dbg(&e),
                    |p| if runnable || p.check_ref().is_err() { res!(p.fit(&ds)) } else { Ok("skipped".into()) },
                    |c| if runnable { res!(c.fit(&ds)) } else { Ok("skipped".into()) })
            });
        }
    }
    // ---- PlsCanonical / PlsCca: scale + algorithm after (the regression builder is in `run_rebuild`)
    for t in points(&[nf, nc], &[fb, cb], 0, rng) {
        let (tol, mi) = (fg[t[0]], cg[t[1]]);
        let viol = first(&[(nonneg(tol), "tolerance>=0"), (mi >= 1, "max_iter>=1")]);
        let variant = "other:scale+algorithm:after";
        macro_rules! pls {
            ($name:expr, $ty:ident) => {
                em.count(&format!("rebuild:Pls:{}", $name));
                em.case(format!("grid b=PlsMacro kind={} via=fit rebuild={} tolerance={} max_iter={}", $name, variant, h(tol), mi), |ctx| {
                    train_always();
                    let mk = || linfa_pls::$ty::<f64>::params(1).tolerance(tol).max_iterations(mi).scale(false).algorithm(linfa_pls::Algorithm::Nipals);
                    let ds = DatasetBase::new(xs(), ys_2());
                    doc_finite(!tol.is_finite());
                    probe(ctx, &format!("PlsMacro:{}:{}", $name, variant), mk, viol.clone(), tol.is_finite(), |_| "PlsParams".to_string(), |_| "PlsParams".to_string(), |e| dbg(&e),
                        |p| p.fit(&ds).map(|m| dbg(&m.weights())).map_err(|e| dbg(&e)), |c| c.fit(&ds).map(|m| dbg(&m.weights())).map_err(|e| dbg(&e)))
                });
            };
        }
        pls!("canonical", PlsCanonical);
        pls!("cca", PlsCca);
    }

    // ---- (2) setter chains of the count vectoriser and of the TfIdfVectorizer wrapper
    {
        #[derive(Clone, Debug)]
        enum C {
            Ng(usize, usize),
            Df(f32, f32),
            Tok(bool),
            MaxF,
            Lower,
            Norm,
            Stop,
        }
        let tok = |c: &C| match c {
            C::Ng(a, b) => format!("ng:{},{}", a, b),
            C::Df(a, b) => format!("df:{},{}", h(*a as f64), h(*b as f64)),
            C::Tok(ok) => format!("tok:{}", *ok as u8),
            C::MaxF => "maxf".to_string(),
            C::Lower => "lower".to_string(),
            C::Norm => "norm".to_string(),
            C::Stop => "stop".to_string(),
        };
        let ngv = [0usize, 1, 2, 3];
        let dfv: Vec<f32> = vec![-1.0, -1e-9, 0.0, 0.25, 0.5, 1.0, 1.0 + f32::EPSILON, 1.5, f32::NAN, f32::INFINITY, f32::MAX];
        let n = if em.thorough() { 1500 } else { 160 };
        let mut chains: Vec<Vec<C>> = vec![vec![], vec![C::MaxF, C::Lower, C::Norm, C::Stop]];
        for _ in 0..n {
            let len = 1 + rng.below(6);
            let mut c = vec![];
            for _ in 0..len {
                c.push(match rng.below(8) {
                    0 | 1 => if rng.chance(1, 2) { C::Ng(1 + rng.below(2), 2 + rng.below(2)) } else { C::Ng(ngv[rng.below(4)], ngv[rng.below(4)]) },
                    2 | 3 => if rng.chance(1, 2) { C::Df([0.0f32, 0.25][rng.below(2)], [0.5f32, 1.0][rng.below(2)]) } else { C::Df(dfv[rng.below(dfv.len())], dfv[rng.below(dfv.len())]) },
                    4 => C::Tok(rng.chance(2, 3)),
                    5 => C::MaxF,
                    6 => if rng.chance(1, 2) { C::Lower } else { C::Norm },
                    _ => C::Stop,
                });
            }
            chains.push(c);
        }
        let texts = ["one two three four", "one two three", "one two", "one five six"];
        for (i, chain) in chains.into_iter().enumerate() {
            let form = if i % 2 == 0 { "and_then:fit" } else { "wrap:tfidf_fit" };
            em.count(&format!("cvsetters:{}", form));
            let ops = if chain.is_empty() { "-".to_string() } else { chain.iter().map(|c| tok(c)).collect::<Vec<_>>().join(";") };
            em.case(format!("grid b=CountVectorizer via={} sets={}", form, ops), |ctx| {
                train_always();
                // the harness's own reading of the setter documentation: the last call of a setter decides its field
                let (mut ng, mut df, mut rok) = ((1usize, 1usize), (0.0f32, 1.0f32), true);
                let mut p = linfa_preprocessing::CountVectorizer::params();
                let mut tf = linfa_preprocessing::tf_idf_vectorization::TfIdfVectorizer::default();
                for c in &chain {
                    match c {
                        C::Ng(a, b) => { ng = (*a, *b); p = p.n_gram_range(*a, *b); tf = tf.n_gram_range(*a, *b); }
                        C::Df(a, b) => { df = (*a, *b); p = p.document_frequency(*a, *b); tf = tf.document_frequency(*a, *b); }
                        C::Tok(ok) => {
                            rok = *ok;
                            let e = if *ok { r"\b\w+\b" } else { "(unclosed" };
                            p = p.tokenizer(linfa_preprocessing::Tokenizer::Regex(e.to_string()));
                            tf = tf.tokenizer(linfa_preprocessing::Tokenizer::Regex(e.to_string()));
                        }
                        C::MaxF => { p = p.max_features(Some(50)); tf = tf.max_features(Some(50)); }
                        C::Lower => { p = p.convert_to_lowercase(false); tf = tf.convert_to_lowercase(false); }
                        C::Norm => { p = p.normalize(false); tf = tf.normalize(false); }
                        C::Stop => { p = p.stopwords(&["zzz"]); tf = tf.stopwords(&["zzz"]); }
                    }
                }
                let (a, b, lo, hi) = (ng.0, ng.1, df.0 as f64, df.1 as f64);
                let viol = first(&[(a >= 1 && b >= 1, "n_gram>=1"), (a <= b, "min_n<=max_n"), (unit(lo), "0<=min_freq<=1"), (unit(hi), "0<=max_freq<=1"), (lo <= hi, "min_freq<=max_freq"), (rok, "regex valid")]);
                let docs = Array1::from(texts.to_vec());
                let show = |s: String| -> String {
                    match (s.find("split_regex: "), s.find("n_gram_range: ")) {
                        (Some(i), Some(j)) if i < j => format!("{}{}", &s[..i], &s[j..]),
                        _ => s,
                    }
                };
                let voc = |v: &Vec<String>| { let mut v = v.clone(); v.sort(); dbg(&v) };
                let tf_text = dbg(&tf);
                for (name, val) in [("n_gram_range", dbg(&ng)), ("document_frequency", dbg(&df))] {
                    ctx.require(has_field(&tf_text, name, &val), "params_unchanged", &format!("TfIdfVectorizer:setters:readback:{}", name), || format!("after {:?} the TfIdfVectorizer does not hold {} = {}: {}", chain, name, val, tf_text));
                }
                expect(&[("n_gram_range", dbg(&ng)), ("document_frequency", dbg(&df))]);
                let bname = format!("CountVectorizer:setters:{}", form.split(':').nth(1).unwrap());
                let line = probe(ctx, &bname, || p.clone(), viol, lo.is_finite() && hi.is_finite(), |p| show(dbg(p)), |c| show(dbg(c)), |e| dbg(&e),
                    |p| if form == "and_then:fit" { p.fit(&docs).map(|m| voc(m.vocabulary())).map_err(|e| dbg(&e)) } else { tf.fit(&docs).map(|m| voc(m.vocabulary())).map_err(|e| dbg(&e)) },
                    |c| c.fit(&docs).map(|m| voc(m.vocabulary())).map_err(|e| dbg(&e)));
                format!("{} ng={},{} rok={}", line, a, b, rok as u8)
            });
        }
    }

    // ---- (3) elastic net: the full documented range (the parameter table gives `max_iterations` the range `[1, inf)`,
    //      no guard reads it).  The request carries `max_iterations`; the model evaluates `Ranges.ElasticNet.DocRange`.
    for t in points(&[nf, nf, nf], &[fb, fb, fb], 0, rng) {
        let (pen, l1, tol) = (fg[t[0]], fg[t[1]], fg[t[2]]);
        let viol = first(&[(nonneg(pen), "penalty>=0"), (unit(l1), "0<=l1_ratio<=1"), (nonneg(tol), "tolerance>=0")]);
        let finite = pen.is_finite() && l1.is_finite() && tol.is_finite();
        for mi in [0u32, 1, 50] {
            for task in ["single", "multi"] {
                em.count("docrange:ElasticNet.max_iterations");
                em.case(format!("grid b=ElasticNet task={} penalty={} l1_ratio={} tolerance={} max_iterations={}", task, h(pen), h(l1), h(tol), mi), |ctx| {
                    train_always();
                    expect(&[("penalty", dbg(&pen)), ("l1_ratio", dbg(&l1)), ("tolerance", dbg(&tol)), ("max_iterations", dbg(&mi))]);
                    let (line, ok, fitted) = if task == "single" {
                        let p = linfa_elasticnet::ElasticNet::<f64>::params().penalty(pen).l1_ratio(l1).tolerance(tol).max_iterations(mi);
                        let ds = DatasetBase::new(xs(), ys_f());
                        let fitted = if mi == 0 && finite && p.check_ref().is_ok() { p.fit(&ds).map(|m| format!("hyperplane {:?} intercept {:?}", m.hyperplane(), m.intercept())).map_err(|e| dbg(&e)) } else { Ok(String::new()) };
                        (probe(ctx, "ElasticNet", || p.clone(), viol.clone(), finite, |p| dbg(p), |c| dbg(c), |e| dbg(&e), |p| res!(p.fit(&ds)), |c| res!(c.fit(&ds))), p.check_ref().is_ok(), fitted)
                    } else {
                        let p = linfa_elasticnet::MultiTaskElasticNet::<f64>::params().penalty(pen).l1_ratio(l1).tolerance(tol).max_iterations(mi);
                        let ds = DatasetBase::new(xs(), ys_2());
                        (probe(ctx, "ElasticNet", || p.clone(), viol.clone(), finite, |p| dbg(p), |c| dbg(c), |e| dbg(&e), |p| res!(p.fit(&ds)), |c| res!(c.fit(&ds))), p.check_ref().is_ok(), Ok(String::new()))
                    };
                    let docrange = viol.is_none() && mi >= 1;
                    if finite && ok && !docrange && viol.is_none() {
                        ctx.fail("ok_iff_in_range", "ElasticNet:accepted:doc:max_iterations>=1", format!("max_iterations({}) is outside the documented range [1, inf) (hyperparams.rs parameter table) but the {}-task builder passes check_ref; fit -> {:?}", mi, task, fitted));
                    }
                    if finite && !ok && docrange {
                        ctx.fail("ok_iff_in_range", "ElasticNet:rejected:doc:max_iterations>=1", format!("max_iterations({}) is inside the documented range but is rejected", mi));
                    }
                    format!("{} docrange={}", line, docrange as u8)
                });
            }
        }
    }

    // ---- (4) documentation pins (oracle only).  `Ranges.*.InRange` (Lean) and `viol` (above) are hand transcriptions of
    //      the doc comments / `#[error]` texts; nothing else reads the documentation.  Every documentation line of the
    //      anchored files that talks about a range is hashed; an edit (a range column added to a parameter table, a setter
    //      doc tightened) changes the hash: the transcriptions must be re-read.  `C04_DOCPIN_PRINT=1` prints the table.
    {
        let root = std::path::Path::new(env!("CARGO_MANIFEST_DIR")).join("../../repo");
        let words = ["positive", "negative", "greater", "less", "range", "finite", "zero", "must", "should", "between", "cannot", "at least", "minimum", "maximum", "inf", "interval", "invalid", "[", "("];
        for (file, pinned) in DOCPINS {
            em.count("docpin_files");
            em.case(format!("#docpin file={}", file), |ctx| {
                let text = std::fs::read_to_string(root.join(file)).unwrap_or_default();
                let mut hsh: u64 = 0xcbf29ce484222325;
                let mut n = 0;
                for l in text.lines() {
                    let t = l.trim();
                    let is_doc = t.starts_with("///") || t.starts_with("//!") || t.contains("#[error(");
                    if is_doc && words.iter().any(|w| t.to_ascii_lowercase().contains(w)) {
                        n += 1;
                        for b in t.bytes().chain(std::iter::once(b'\n')) {
                            hsh = (hsh ^ b as u64).wrapping_mul(0x100000001b3);
                        }
                    }
                }
                if std::env::var("C04_DOCPIN_PRINT").is_ok() {
                    eprintln!("    (\"{}\", 0x{:016x}),", file, hsh);
                }
                // a changed documentation line is NOT a violation of the property (a reworded sentence, an added
                // remark, a hook's doc comment keep every range): it is reported in the response and tallied in
                // the evidence (`docpin_changed:<file>`), so that the transcription of the documented ranges
                // (Model/ParamRanges.lean, harness/src/c04.rs) can be re-read; the coordinator demoted the
                // builder's VIOLATION after a hook commit of another property tripped it on the unchanged ranges
                let _ = n;
                if hsh != *pinned {
                    return format!("changed hash={:016x} pinned={:016x}", hsh, pinned);
                }
                "-".to_string()
            });
        }
    }
}

/// (file relative to the repository, FNV-1a hash of its range-stating documentation lines) — see `#docpin`
const DOCPINS: &[(&str, u64)] = &[
    ("src/param_guard.rs", 0x6803b12dc45999ac),
    ("src/composing/platt_scaling.rs", 0x98b67c5350380d5a),
    ("algorithms/linfa-clustering/src/k_means/hyperparams.rs", 0x5e3345d27dd34436),
    ("algorithms/linfa-clustering/src/k_means/errors.rs", 0xf3525902330d222d),
    ("algorithms/linfa-clustering/src/dbscan/hyperparams.rs", 0xf083bbb7515e3169),
    ("algorithms/linfa-clustering/src/optics/hyperparams.rs", 0x4ad5f9d90a12534f),
    ("algorithms/linfa-clustering/src/optics/errors.rs", 0x33ce90dcab3cbeb1),
    ("algorithms/linfa-clustering/src/gaussian_mixture/hyperparams.rs", 0xe018ebf386bac4c6),
    ("algorithms/linfa-clustering/src/gaussian_mixture/errors.rs", 0x731d46ef5e832689),
    ("algorithms/linfa-elasticnet/src/hyperparams.rs", 0x06fa861defedee2b),
    ("algorithms/linfa-elasticnet/src/error.rs", 0x394acb2f5d04a05b),
    ("algorithms/linfa-logistic/src/hyperparams.rs", 0x7966b805564ec37b),
    ("algorithms/linfa-logistic/src/error.rs", 0x868476bc92cadd3d),
    ("algorithms/linfa-linear/src/glm/hyperparams.rs", 0xc5aefb63489579af),
    ("algorithms/linfa-linear/src/error.rs", 0xd092b78eb59f669b),
    ("algorithms/linfa-svm/src/hyperparams.rs", 0x85d9fda2368da3b4),
    ("algorithms/linfa-svm/src/error.rs", 0x4f931a11a8258d43),
    ("algorithms/linfa-trees/src/decision_trees/hyperparams.rs", 0x63c6b7ebabde0f5c),
    ("algorithms/linfa-bayes/src/hyperparams.rs", 0x8a196a86f266ef39),
    ("algorithms/linfa-bayes/src/error.rs", 0x1d029cc26957b363),
    ("algorithms/linfa-ftrl/src/hyperparams.rs", 0x473822a72cffe494),
    ("algorithms/linfa-ftrl/src/error.rs", 0xee8ebdb7b3045aa7),
    ("algorithms/linfa-pls/src/hyperparams.rs", 0x24c27c08049f71ed),
    ("algorithms/linfa-pls/src/errors.rs", 0x64f4b915301f4d9b),
    ("algorithms/linfa-tsne/src/hyperparams.rs", 0x7dbb7d3bab3db38e),
    ("algorithms/linfa-tsne/src/error.rs", 0x3204c8c7a63aea8d),
    ("algorithms/linfa-ica/src/hyperparams.rs", 0x989913ba2f4b7a24),
    ("algorithms/linfa-ica/src/error.rs", 0x87e09fca7484832c),
    ("algorithms/linfa-reduction/src/diffusion_map/hyperparams.rs", 0x927304e938cca765),
    ("algorithms/linfa-reduction/src/random_projection/hyperparams.rs", 0x444a7c83cd987137),
    ("algorithms/linfa-reduction/src/error.rs", 0xf174e8d268f0ad5e),
    ("algorithms/linfa-hierarchical/src/lib.rs", 0x3783ee49422a0991),
    ("algorithms/linfa-hierarchical/src/error.rs", 0xbde5c268eea4e960),
    ("algorithms/linfa-preprocessing/src/countgrams/hyperparams.rs", 0x3bcb60552e21a938),
    ("algorithms/linfa-preprocessing/src/countgrams/mod.rs", 0x20c520f38b45d4ec),
    ("algorithms/linfa-preprocessing/src/tf_idf_vectorization.rs", 0x9a1b36ffadcb9050),
    ("algorithms/linfa-preprocessing/src/error.rs", 0x584852a95ef92d52),
];
