//! C20, second file: the text vectorisers as a correspondence op (`vocab`), and the sweep of the
//! estimators / transformers / parameter variants the first battery did not cover (inputs built to
//! contain exact ties).  Included from `c20.rs` (`#[path] mod more`).
use super::{bools, f32s, f64s, optusizes, sec, usizes, Data, Item, Sections};
use crate::util::{list, list2, Em, Rng};
use linfa::prelude::*;
use linfa::traits::{Fit, FitWith, Predict, Transformer};
use linfa::DatasetBase;
use ndarray::{Array1, Array2, Axis};
use std::collections::BTreeMap;

// ------------------------------------------------------------------------------------------------
// correspondence: CountVectorizer::fit (vocabulary under max_features / df window / stop words)

fn tok(i: usize) -> String {
    // fixed width: the order of the strings (and of the n-grams joined by ' ') is the
    // lexicographic order of the token-id lists
    format!("w{:02}", i)
}
fn word_of(ids: &[usize]) -> String {
    ids.iter().map(|i| tok(*i)).collect::<Vec<_>>().join(" ")
}
fn ids_of(word: &str) -> Vec<usize> {
    word.split(' ').map(|t| t[1..].parse::<usize>().unwrap()).collect()
}

/// n-grams of a document from first principles: every window of `lo..=hi` tokens
fn ngrams_ref(doc: &[usize], lo: usize, hi: usize) -> Vec<Vec<usize>> {
    let mut out = vec![];
    for i in 0..doc.len() {
        for n in lo..=hi {
            if i + n <= doc.len() {
                out.push(doc[i..i + n].to_vec());
            }
        }
    }
    out
}

/// (sorted word list with df and total count per word) of one real fit + transform
fn fit_once(docs: &Array1<String>, lo: usize, hi: usize, dfw: (f32, f32), stop: &Option<Vec<String>>, cap: Option<usize>) -> Result<Vec<(Vec<usize>, usize, usize)>, String> {
    use linfa_preprocessing::CountVectorizer;
    let mut p = CountVectorizer::params().n_gram_range(lo, hi).document_frequency(dfw.0, dfw.1).max_features(cap);
    if let Some(s) = stop {
        p = p.stopwords(s);
    }
    let cv = p.fit(docs).map_err(|e| format!("{:?}", e))?;
    let dense = cv.transform(docs).map_err(|e| format!("{:?}", e))?.to_dense();
    let mut out: Vec<(Vec<usize>, usize, usize)> = cv
        .vocabulary()
        .iter()
        .enumerate()
        .map(|(j, w)| {
            let col = dense.column(j);
            (ids_of(w), col.iter().filter(|c| **c > 0).count(), col.iter().sum::<usize>())
        })
        .collect();
    out.sort();
    Ok(out)
}

pub fn vocab_cases(em: &mut Em, rng: &mut Rng) {
    let n_cases = if em.thorough() { 2500 } else { 400 };
    for ci in 0..n_cases {
        // few tokens, short documents: many words first seen in the same document, many tied
        // document frequencies
        let ntok = 2 + rng.below(7);
        let ndocs = rng.below(7);
        let docs: Vec<Vec<usize>> = (0..ndocs).map(|_| (0..rng.below(7)).map(|_| rng.below(ntok)).collect()).collect();
        let (lo, hi) = *rng.pick(&[(1usize, 1usize), (1, 1), (1, 2), (2, 2), (1, 3), (2, 3)]);
        // dyadic frequency window a/4 .. b/4: the absolute bounds are exact
        let (a, b) = *rng.pick(&[(0usize, 4usize), (0, 4), (0, 4), (1, 4), (2, 4), (0, 2), (0, 3), (1, 3), (2, 2)]);
        let minabs = (a * ndocs + 3) / 4;
        let maxabs = (b * ndocs) / 4;
        // reference vocabulary
        let mut df: BTreeMap<Vec<usize>, usize> = BTreeMap::new();
        for d in &docs {
            let mut g = ngrams_ref(d, lo, hi);
            g.sort();
            g.dedup();
            for w in g {
                *df.entry(w).or_insert(0) += 1;
            }
        }
        let stop: Option<Vec<Vec<usize>>> = if rng.chance(1, 3) {
            let ws: Vec<Vec<usize>> = df.keys().cloned().collect();
            let mut s: Vec<Vec<usize>> = (0..rng.below(3)).filter_map(|_| if ws.is_empty() { None } else { Some(rng.pick(&ws).clone()) }).collect();
            if rng.coin() {
                s.push(vec![ntok + 1]);
            }
            Some(s)
        } else {
            None
        };
        let eligible: Vec<(Vec<usize>, usize)> = df
            .iter()
            .filter(|(w, f)| **f >= minabs && **f <= maxabs && !stop.as_ref().map(|s| s.contains(w)).unwrap_or(false))
            .map(|(w, f)| (w.clone(), *f))
            .collect();
        let cap: Option<usize> = match ci % 5 {
            0 => None,
            1 | 2 if !eligible.is_empty() => {
                // a cap that falls inside a group of tied frequencies, when there is one
                let mut fs: Vec<usize> = eligible.iter().map(|e| e.1).collect();
                fs.sort_by(|x, y| y.cmp(x));
                let cuts: Vec<usize> = (1..fs.len()).filter(|k| fs[*k - 1] == fs[*k]).collect();
                if cuts.is_empty() { Some(rng.below(eligible.len() + 1)) } else { Some(*rng.pick(&cuts)) }
            }
            _ => Some(rng.below(eligible.len() + 2)),
        };
        let tie_cut = match cap {
            Some(k) if k >= 1 && k < eligible.len() => {
                let mut fs: Vec<usize> = eligible.iter().map(|e| e.1).collect();
                fs.sort_by(|x, y| y.cmp(x));
                fs[k - 1] == fs[k]
            }
            _ => false,
        };
        let rev = rng.below(2);
        em.count(if tie_cut { "vocab:cap_splits_tie" } else if cap.is_some() { "vocab:cap_no_tie" } else { "vocab:no_cap" });
        em.count(&format!("vocab:ngram={}-{}", lo, hi));
        if stop.is_some() {
            em.count("vocab:stopwords");
        }
        let op = format!(
            "vocab docs={} lo={} hi={} minabs={} maxabs={} stop={} cap={} rev={}",
            list2(docs.iter().map(|d| d.iter()), |x| x.to_string()),
            lo,
            hi,
            minabs,
            maxabs,
            stop.as_ref().map(|s| list2(s.iter().map(|w| w.iter()), |x| x.to_string())).unwrap_or_default(),
            cap.map(|k| k.to_string()).unwrap_or("none".to_string()),
            rev
        );
        let class = if tie_cut { "vocab:cap_splits_tie" } else { "vocab:other" };
        em.case_valid(op, class, |ctx| {
            let texts = Array1::from_vec(docs.iter().map(|d| word_of(d)).collect::<Vec<String>>());
            let stop_s: Option<Vec<String>> = stop.as_ref().map(|s| s.iter().map(|w| word_of(w)).collect());
            let dfw = (a as f32 / 4.0, b as f32 / 4.0);
            let mut first: Option<Vec<(Vec<usize>, usize, usize)>> = None;
            // every fit builds fresh hash maps / sets (fresh hash seeds)
            for rep in 0..8 {
                let r = match fit_once(&texts, lo, hi, dfw, &stop_s, cap) {
                    Ok(r) => r,
                    Err(e) => {
                        ctx.fail("no_error", class, format!("valid parameters rejected: {}", e));
                        return "err".to_string();
                    }
                };
                match &first {
                    None => first = Some(r),
                    Some(f) => {
                        if *f != r {
                            ctx.fail("hash_order_independent", class, format!("fit {} learned {:?}, the first fit {:?}", rep + 1, r, f));
                            break;
                        }
                    }
                }
            }
            let v = first.unwrap();
            // first principles: the kept words are eligible, carry their document frequency, and no
            // dropped eligible word has a higher frequency than a kept one; the count is min(cap, eligible)
            let want = cap.map(|k| k.min(eligible.len())).unwrap_or(eligible.len());
            ctx.require(v.len() == want, "cap_size", class, || format!("{} entries kept, {} eligible, cap {:?}", v.len(), eligible.len(), cap));
            let minkept = v.iter().map(|e| e.1).min().unwrap_or(usize::MAX);
            for (w, f, _) in &v {
                ctx.require(eligible.iter().any(|(ew, ef)| ew == w && ef == f), "kept_is_eligible", class, || format!("{:?} kept with frequency {}", w, f));
            }
            for (w, f) in &eligible {
                if !v.iter().any(|e| e.0 == *w) {
                    ctx.require(*f <= minkept, "cap_keeps_most_frequent", class, || format!("{:?} (frequency {}) dropped while an entry of frequency {} is kept", w, f, minkept));
                }
            }
            format!("ok n={} vocab={}", v.len(), list(v.iter(), |e| format!("{}={}", e.0.iter().map(|t| t.to_string()).collect::<Vec<_>>().join("."), e.1)))
        });
    }
}
